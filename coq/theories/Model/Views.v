(* Model/Views.v — names of views and paths, and what they are wired to (C18).

   Mirrors (definitions only; lemmas are in Proofs/ViewsProofs.v):
     arim.ut.reciprocal_viewname, default_viewname_order, make_viewnames,
       filter_unique_views
     arim.models.helpers.make_views_from_paths
     arim.models.block_in_immersion.make_interfaces / make_paths
     arim.models.block_in_contact.make_interfaces / make_paths
       (_make_backwall_refl_interface)
     arim.core.Interface.__init__ (its two ValueError checks), Interface.reverse,
       InterfaceKind.reverse, Path.__init__ (its asserts), Path.reverse,
       View.scat_key
     arim.ray.Rays.reverse, FermatPath.reverse
   Path names are words over {L, T} (`list Mode`); a view name "X-Y" is the pair
   (X, Y).  Points, orientations and materials are opaque objects of the code:
   the model keeps only their identity (which wall, which material).
   Where the code raises, the model returns `inr <error kind>`.

   The second half of the file is the SPEC side (what the names are documented
   to mean, written independently of the code's structure) and the Z encodings
   used by the correspondence harness. *)
From Coq Require Import Arith List Bool ZArith Lia.
From Arim Require Import Base.ListX.
Import ListNotations.

(* ------------------------------------------------------------------ *)
(* words, view names                                                   *)
(* ------------------------------------------------------------------ *)
Inductive Mode := L | T.

Definition mode_eqb (a b : Mode) : bool :=
  match a, b with L, L => true | T, T => true | _, _ => false end.

Definition word := list Mode.
Definition viewname := (word * word)%type.

Definition word_eqb : word -> word -> bool := list_eqb mode_eqb.
Definition view_eqb (a b : viewname) : bool :=
  word_eqb (fst a) (fst b) && word_eqb (snd a) (snd b).

(* reciprocal_viewname: rx[::-1] + "-" + tx[::-1] *)
Definition recip (v : viewname) : viewname := (rev (snd v), rev (fst v)).

(* ------------------------------------------------------------------ *)
(* default_viewname_order and Python's comparison of the key tuples    *)
(* ------------------------------------------------------------------ *)
(* 'L' < 'T' as characters *)
Definition mode_cmp (a b : Mode) : comparison :=
  match a, b with L, L => Eq | L, T => Lt | T, L => Gt | T, T => Eq end.

(* first differing component decides (Python tuples, strings) *)
Definition then_cmp (c d : comparison) : comparison :=
  match c with Eq => d | _ => c end.

(* Python's str comparison: lexicographic, a proper prefix is smaller *)
Fixpoint list_cmp {A} (cmp : A -> A -> comparison) (a b : list A) : comparison :=
  match a, b with
  | [], [] => Eq
  | [], _ :: _ => Lt
  | _ :: _, [] => Gt
  | x :: a', y :: b' => then_cmp (cmp x y) (list_cmp cmp a' b')
  end.
Definition word_cmp : word -> word -> comparison := list_cmp mode_cmp.

Definition pair_cmp {A B} (ca : A -> A -> comparison) (cb : B -> B -> comparison)
  (x y : A * B) : comparison :=
  then_cmp (ca (fst x) (fst y)) (cb (snd x) (snd y)).

Definition keyT := (nat * nat * nat * nat * word * word)%type.

(* (len(tx) + len(rx), max(len(tx), len(rx)), len(rx), len(tx), tx, rx) *)
Definition key (v : viewname) : keyT :=
  let '(tx, rx) := v in
  (length tx + length rx, Nat.max (length tx) (length rx), length rx, length tx, tx, rx).

(* tuple comparison, left to right (the 6-tuple is left-nested pairs) *)
Definition key_cmp : keyT -> keyT -> comparison :=
  pair_cmp (pair_cmp (pair_cmp (pair_cmp (pair_cmp Nat.compare Nat.compare) Nat.compare)
                                 Nat.compare) word_cmp) word_cmp.

Definition view_cmp (a b : viewname) : comparison := key_cmp (key a) (key b).
Definition view_ltb (a b : viewname) : bool :=
  match view_cmp a b with Lt => true | _ => false end.

(* sorted(..., key=...) is stable: modelled as a stable insertion sort (elements
   are inserted from the right; x moves past y only when key y < key x) *)
Fixpoint insert_view (x : viewname) (l : list viewname) : list viewname :=
  match l with
  | [] => [x]
  | y :: l' => if view_ltb y x then y :: insert_view x l' else x :: y :: l'
  end.
Definition sort_views (l : list viewname) : list viewname := fold_right insert_view [] l.

(* ------------------------------------------------------------------ *)
(* filter_unique_views                                                 *)
(* ------------------------------------------------------------------ *)
Fixpoint memv (v : viewname) (s : list viewname) : bool :=
  match s with [] => false | x :: s' => view_eqb v x || memv v s' end.

(* seen_so_far is a set of the views KEPT so far *)
Fixpoint filter_unique_from (seen : list viewname) (l : list viewname) : list viewname :=
  match l with
  | [] => []
  | v :: l' =>
      if memv (recip v) seen then filter_unique_from seen l'
      else v :: filter_unique_from (v :: seen) l'
  end.
Definition filter_unique_views (l : list viewname) : list viewname := filter_unique_from [] l.

(* ------------------------------------------------------------------ *)
(* make_viewnames                                                      *)
(* ------------------------------------------------------------------ *)
(* for tx in pathnames: for rx in pathnames: append((tx, rx)) *)
Definition all_pairs (names : list word) : list viewname := list_prod names names.

(* do_sort = (order_func is not None); the code then always sorts with
   default_viewname_order *)
Definition make_viewnames_gen (names : list word) (do_sort unique_only : bool) : list viewname :=
  let v0 := all_pairs names in
  let v1 := if do_sort then sort_views v0 else v0 in
  if unique_only then filter_unique_views v1 else v1.

Definition make_viewnames (names : list word) (unique_only : bool) : list viewname :=
  make_viewnames_gen names true unique_only.

(* ------------------------------------------------------------------ *)
(* interfaces, paths, rays as data                                     *)
(* ------------------------------------------------------------------ *)
Inductive Material := Couplant | Block | Under.
Inductive PointsId := PProbe | PFront | PBack | PGrid.
Inductive Kind := FluidSolid | SolidFluid.
Inductive TR := Transmission | Reflection.
Inductive Err := ErrValue | ErrKey | ErrNotImplemented | ErrAssert.
Definition res (A : Type) := (A + Err)%type.

Record Iface := mkIface {
  i_points : PointsId;               (* which oriented points (identity) *)
  i_kind : option Kind;
  i_tr : option TR;
  i_against : option Material;       (* reflection_against *)
  i_inc : option bool;               (* are_normals_on_inc_rays_side *)
  i_out : option bool }.             (* are_normals_on_out_rays_side *)

(* Interface.__init__: the two ValueError checks *)
Definition new_iface (p : PointsId) (k : option Kind) (tr : option TR) (ag : option Material)
  (inc out : option bool) : res Iface :=
  match ag, tr with
  | Some _, Some Reflection => inl (mkIface p k tr ag inc out)
  | Some _, _ => inr ErrValue
  | None, Some Reflection => inr ErrValue
  | None, _ => inl (mkIface p k tr ag inc out)
  end.

Definition kind_reverse (k : Kind) : Kind :=
  match k with FluidSolid => SolidFluid | SolidFluid => FluidSolid end.

(* Interface.reverse *)
Definition iface_reverse (i : Iface) : res Iface :=
  match
    (match i_kind i with
     | None => inl None
     | Some k =>
         match i_tr i with
         | None => inr ErrValue                      (* "reverse path is ambiguous" *)
         | Some Transmission => inl (Some (kind_reverse k))
         | Some Reflection => inl (Some k)
         end
     end : res (option Kind))
  with
  | inr e => inr e
  | inl rk => new_iface (i_points i) rk (i_tr i) (i_against i) (i_out i) (i_inc i)
  end.

(* 2-D arrays with explicit shape *)
Record mat (A : Type) := mkMat { m_rows : nat; m_cols : nat; m_at : nat -> nat -> A }.
Arguments mkMat {A}. Arguments m_rows {A}. Arguments m_cols {A}. Arguments m_at {A}.
Definition transpose {A} (m : mat A) : mat A :=
  mkMat (m_cols m) (m_rows m) (fun i j => m_at m j i).

(* Rays: times (n, m), interior_indices (d-2, n, m), fermat_path (a tuple:
   points, speed, points, ...; opaque tokens here) *)
Record Rays := mkRays { r_times : mat Z; r_interior : list (mat Z); r_fpath : list Z }.

(* Rays.reverse: times.T; swapaxes(interior, 1, 2)[::-1]; reversed(fermat_path) *)
Definition rays_reverse (r : Rays) : Rays :=
  mkRays (transpose (r_times r)) (rev (map transpose (r_interior r))) (rev (r_fpath r)).

(* Rays.indices: [i] ++ interior ++ [j] *)
Definition rays_indices (r : Rays) : list (mat Z) :=
  let n := m_rows (r_times r) in let m := m_cols (r_times r) in
  mkMat n m (fun i _ => Z.of_nat i) :: r_interior r ++ [mkMat n m (fun _ j => Z.of_nat j)].

Record Path := mkPath {
  p_interfaces : list Iface;
  p_materials : list Material;
  p_modes : list Mode;
  p_name : word;
  p_rays : option Rays }.

(* Path.__init__ asserts *)
Definition new_path (ifs : list Iface) (mats : list Material) (modes : list Mode) (name : word)
  : res Path :=
  if (2 <=? length ifs) && (length mats =? length ifs - 1) && (length modes =? length ifs - 1)
  then inl (mkPath ifs mats modes name None) else inr ErrAssert.

Fixpoint mapM {A B} (f : A -> res B) (l : list A) : res (list B) :=
  match l with
  | [] => inl []
  | x :: l' => match f x with
               | inr e => inr e
               | inl y => match mapM f l' with inr e => inr e | inl ys => inl (y :: ys) end
               end
  end.

(* Path.reverse *)
Definition path_reverse (p : Path) : res Path :=
  match mapM iface_reverse (p_interfaces p) with
  | inr e => inr e
  | inl ri =>
      match new_path (rev ri) (rev (p_materials p)) (rev (p_modes p)) (p_name p) with
      | inr e => inr e
      | inl q => inl (mkPath (p_interfaces q) (p_materials q) (p_modes q) (p_name q)
                             (option_map rays_reverse (p_rays p)))
      end
  end.

(* ------------------------------------------------------------------ *)
(* make_interfaces (immersion, contact)                                *)
(* ------------------------------------------------------------------ *)
Inductive IKey := KProbe | KFrontTrans | KBackRefl | KGrid | KFrontRefl.
Definition ikey_eqb (a b : IKey) : bool :=
  match a, b with
  | KProbe, KProbe | KFrontTrans, KFrontTrans | KBackRefl, KBackRefl
  | KGrid, KGrid | KFrontRefl, KFrontRefl => true
  | _, _ => false
  end.
Definition idict := list (IKey * Iface).

Fixpoint ilookup (k : IKey) (d : idict) : option Iface :=
  match d with [] => None | (k', i) :: d' => if ikey_eqb k k' then Some i else ilookup k d' end.

(* sequencing of constructor calls that may raise *)
Definition bind {A B} (x : res A) (f : A -> res B) : res B :=
  match x with inl a => f a | inr e => inr e end.

(* block_in_immersion.make_interfaces; has_backwall = (backwall is not None) *)
Definition make_interfaces_imm (has_backwall : bool) : res idict :=
  bind (new_iface PProbe None None None None (Some true)) (fun probe =>
  bind (new_iface PFront (Some FluidSolid) (Some Transmission) None (Some false) (Some true)) (fun ft =>
  bind (if has_backwall
        then bind (new_iface PBack (Some SolidFluid) (Some Reflection) (Some Couplant)
                             (Some false) (Some false)) (fun b => inl [(KBackRefl, b)])
        else inl []) (fun bw =>
  bind (new_iface PGrid None None None (Some true) None) (fun grid =>
  bind (new_iface PFront (Some SolidFluid) (Some Reflection) (Some Couplant) (Some true) (Some true))
       (fun fr =>
  inl ([(KProbe, probe); (KFrontTrans, ft)] ++ bw ++ [(KGrid, grid); (KFrontRefl, fr)])))))).

(* block_in_contact._make_backwall_refl_interface *)
Definition make_backwall_refl_contact (has_under : bool) : res Iface :=
  if has_under
  then new_iface PBack (Some SolidFluid) (Some Reflection) (Some Under) (Some false) (Some false)
  else new_iface PBack None None None (Some false) (Some false).

(* block_in_contact.make_interfaces *)
Definition make_interfaces_contact (has_frontwall has_backwall has_under : bool) : res idict :=
  bind (new_iface PProbe None None None None (Some true)) (fun probe =>
  bind (new_iface PGrid None None None (Some true) None) (fun grid =>
  bind (if has_backwall
        then bind (make_backwall_refl_contact has_under) (fun b => inl [(KBackRefl, b)])
        else inl []) (fun bw =>
  bind (if has_frontwall
        then bind (new_iface PFront None None None (Some true) (Some true)) (fun f => inl [(KFrontRefl, f)])
        else inl []) (fun fw =>
  inl ([(KProbe, probe); (KGrid, grid)] ++ bw ++ fw))))).

(* ------------------------------------------------------------------ *)
(* make_paths (immersion, contact)                                     *)
(* ------------------------------------------------------------------ *)
Definition pdict := list (word * Path).

Definition get (e : Err) (k : IKey) (d : idict) : res Iface :=
  match ilookup k d with Some i => inl i | None => inr e end.

(* the dummy used for `backwall` / `frontwall_refl` when the code does not bind
   the variable (it is then never read) *)
Definition unbound : Iface := mkIface PGrid None None None None None.

Definition skip_keys : list word := [[L; L]; [L; T]; [T; L]; [T; T]].
Definition double_skip_keys : list word :=
  [[L; L; L]; [L; L; T]; [L; T; L]; [L; T; T]; [T; L; L]; [T; L; T]; [T; T; L]; [T; T; T]].

Definition named {A} (key : word) (x : res A) : res (word * A) :=
  bind x (fun p => inl (key, p)).

(* block_in_immersion.make_paths: a missing dict entry is a KeyError *)
Definition make_paths_imm (d : idict) (r : Z) : res pdict :=
  if (r >? 2)%Z then inr ErrNotImplemented else
  if (r <? 0)%Z then inr ErrValue else
  bind (get ErrKey KProbe d) (fun probe =>
  bind (get ErrKey KFrontTrans d) (fun frontwall =>
  bind (get ErrKey KGrid d) (fun grid =>
  bind (if (r >=? 1)%Z then get ErrKey KBackRefl d else inl unbound) (fun backwall =>
  bind (if (r >=? 2)%Z then get ErrKey KFrontRefl d else inl unbound) (fun frontwall_refl =>
  bind (mapM (fun key => named key
          (new_path [probe; frontwall; grid] [Couplant; Block] (L :: key) key)) [[L]; [T]]) (fun p0 =>
  bind (if (r >=? 1)%Z then
          mapM (fun key => named key
            (new_path [probe; frontwall; backwall; grid] [Couplant; Block; Block] (L :: key) key))
            skip_keys
        else inl []) (fun p1 =>
  bind (if (r >=? 2)%Z then
          mapM (fun key => named key
            (new_path [probe; frontwall; backwall; frontwall_refl; grid]
                      [Couplant; Block; Block; Block] (L :: key) key))
            double_skip_keys
        else inl []) (fun p2 =>
  inl (p0 ++ p1 ++ p2))))))))).

(* block_in_contact.make_paths: a missing wall is a ValueError *)
Definition make_paths_contact (d : idict) (r : Z) : res pdict :=
  if (r >? 2)%Z then inr ErrNotImplemented else
  if (r <? 0)%Z then inr ErrValue else
  bind (get ErrKey KProbe d) (fun probe =>
  bind (get ErrKey KGrid d) (fun grid =>
  bind (if (r >=? 1)%Z then get ErrValue KBackRefl d else inl unbound) (fun backwall =>
  bind (if (r >=? 2)%Z then get ErrValue KFrontRefl d else inl unbound) (fun frontwall_refl =>
  bind (mapM (fun key => named key (new_path [probe; grid] [Block] key key)) [[L]; [T]]) (fun p0 =>
  bind (if (r >=? 1)%Z then
          mapM (fun key => named key
            (new_path [probe; backwall; grid] [Block; Block] key key)) skip_keys
        else inl []) (fun p1 =>
  bind (if (r >=? 2)%Z then
          mapM (fun key => named key
            (new_path [probe; backwall; frontwall_refl; grid] [Block; Block; Block] key key))
            double_skip_keys
        else inl []) (fun p2 =>
  inl (p0 ++ p1 ++ p2)))))))).

(* examination objects: which optional parts are present *)
Inductive Setup :=
| Immersion (has_backwall : bool)
| Contact (has_frontwall has_backwall has_under : bool).

Definition make_paths (s : Setup) (r : Z) : res pdict :=
  match s with
  | Immersion bw => bind (make_interfaces_imm bw) (fun d => make_paths_imm d r)
  | Contact fw bw um => bind (make_interfaces_contact fw bw um) (fun d => make_paths_contact d r)
  end.

(* ------------------------------------------------------------------ *)
(* views                                                               *)
(* ------------------------------------------------------------------ *)
Record View := mkView { v_tx : Path; v_rx : Path; v_name : viewname }.

Fixpoint plookup (w : word) (d : pdict) : option Path :=
  match d with [] => None | (k, p) :: d' => if word_eqb w k then Some p else plookup w d' end.

Fixpoint last_opt {A} (l : list A) : option A :=
  match l with [] => None | [x] => Some x | _ :: l' => last_opt l' end.

(* View.scat_key: tx_path.modes[-1].key() + rx_path.modes[-1].key() *)
Definition scat_key (v : View) : option (Mode * Mode) :=
  match last_opt (p_modes (v_tx v)), last_opt (p_modes (v_rx v)) with
  | Some a, Some b => Some (a, b)
  | _, _ => None                                     (* IndexError *)
  end.

(* the loop of make_views_from_paths (KeyError when a name is not in the dict) *)
Fixpoint build_views (paths : pdict) (vns : list viewname) : res (list (viewname * View)) :=
  match vns with
  | [] => inl []
  | (tx, rx) :: t =>
      match plookup tx paths with
      | None => inr ErrKey
      | Some ptx =>
          match plookup (rev rx) paths with
          | None => inr ErrKey
          | Some prx =>
              match build_views paths t with
              | inr e => inr e
              | inl vs => inl (((tx, rx), mkView ptx prx (tx, rx)) :: vs)
              end
          end
      end
  end.

Definition make_views_from_paths (paths : pdict) (unique_only : bool) : res (list (viewname * View)) :=
  build_views paths (make_viewnames (map fst paths) unique_only).

Definition make_views (s : Setup) (r : Z) (unique_only : bool) : res (list (viewname * View)) :=
  bind (make_paths s r) (fun paths => make_views_from_paths paths unique_only).

(* ================================================================== *)
(* SPEC side                                                           *)
(* ================================================================== *)

(* --- the documented order, as a proposition ------------------------ *)
Inductive word_lt : word -> word -> Prop :=
| wlt_nil : forall y b, word_lt [] (y :: b)
| wlt_head : forall a b, word_lt (L :: a) (T :: b)
| wlt_tail : forall x a b, word_lt a b -> word_lt (x :: a) (x :: b).

(* "ascending with the criteria, in this order: total number of legs; maximum
   number of legs of tx and rx; legs of rx; legs of tx; tx lexicographic; rx
   lexicographic" *)
Definition doc_lt (a b : viewname) : Prop :=
  let '(tx1, rx1) := a in let '(tx2, rx2) := b in
  let n1 := length tx1 + length rx1 in let n2 := length tx2 + length rx2 in
  let m1 := Nat.max (length tx1) (length rx1) in let m2 := Nat.max (length tx2) (length rx2) in
  n1 < n2 \/ (n1 = n2 /\ (
  m1 < m2 \/ (m1 = m2 /\ (
  length rx1 < length rx2 \/ (length rx1 = length rx2 /\ (
  length tx1 < length tx2 \/ (length tx1 = length tx2 /\ (
  word_lt tx1 tx2 \/ (tx1 = tx2 /\ word_lt rx1 rx2))))))))).

(* order-preserving sublist *)
Inductive subseq {A} : list A -> list A -> Prop :=
| subseq_nil : subseq [] []
| subseq_skip : forall x u l, subseq u l -> subseq u (x :: l)
| subseq_keep : forall x u l, subseq u l -> subseq (x :: u) (x :: l).

(* v is the first member of its class {v, recip v} in l *)
Definition first_of_class (l : list viewname) (v : viewname) : Prop :=
  exists l1 l2, l = l1 ++ v :: l2 /\ ~ In v l1 /\ ~ In (recip v) l1.

(* v is its own reciprocal (X-Y with Y = reversed X) *)
Definition self_recip (v : viewname) : bool := view_eqb v (recip v).

(* --- what a path named w is documented to be ----------------------- *)
(* all words of length n, lexicographic *)
Fixpoint words (n : nat) : list word :=
  match n with
  | 0 => [[]]
  | S n' => flat_map (fun m => map (cons m) (words n')) [L; T]
  end.
(* L, T, LL, LT, TL, TT, LLL, ... : up to r reflections *)
Definition spec_names (r : nat) : list word := flat_map words (seq 1 (r + 1)).

(* Geometry behind the flags: all normals point the same way, "down" (from the
   probe side into the block).  Block leg k (0-based) travels down when k is even
   and up when k is odd; the k-th internal reflection (k = 1, 2, ...) is against
   the back wall for odd k and against the front wall for even k. *)
Definition leg_down (k : nat) : bool := Nat.even k.

(* normals (pointing down) are on the side of the incoming rays iff these travel
   up; on the side of the outgoing rays iff these travel down *)
Definition inc_flag (k_in : nat) : option bool := Some (negb (leg_down k_in)).
Definition out_flag (k_out : nat) : option bool := Some (leg_down k_out).

Definition spec_probe : Iface :=
  mkIface PProbe None None None None (Some true).            (* emits downwards *)
Definition spec_grid : Iface :=
  mkIface PGrid None None None (Some true) None.             (* documented convention *)
Definition spec_front_trans : Iface :=                       (* couplant leg and leg 0 go down *)
  mkIface PFront (Some FluidSolid) (Some Transmission) None (Some false) (Some true).

(* the wall hit between block legs k-1 and k (k >= 1) *)
Definition spec_wall (s : Setup) (k : nat) : Iface :=
  let pts := if Nat.odd k then PBack else PFront in
  let '(kind, tr, ag) :=
    match s with
    | Immersion _ => (Some SolidFluid, Some Reflection, Some Couplant)
    | Contact _ _ um =>
        if Nat.odd k && um then (Some SolidFluid, Some Reflection, Some Under)
        else (None, None, None)
    end in
  mkIface pts kind tr ag (inc_flag (k - 1)) (out_flag k).

Definition spec_path (s : Setup) (w : word) : Path :=
  let walls := map (spec_wall s) (seq 1 (length w - 1)) in
  match s with
  | Immersion _ =>
      mkPath ([spec_probe; spec_front_trans] ++ walls ++ [spec_grid])
             (Couplant :: repeat Block (length w)) (L :: w) w None
  | Contact _ _ _ =>
      mkPath ([spec_probe] ++ walls ++ [spec_grid]) (repeat Block (length w)) w w None
  end.

(* when make_paths is documented to work, and how it fails otherwise *)
Definition spec_paths (s : Setup) (r : Z) : res pdict :=
  if (r >? 2)%Z then inr ErrNotImplemented else
  if (r <? 0)%Z then inr ErrValue else
  let ok := inl (map (fun w => (w, spec_path s w)) (spec_names (Z.to_nat r))) in
  match s with
  | Immersion bw => if (r >=? 1)%Z && negb bw then inr ErrKey else ok
  | Contact fw bw _ =>
      if ((r >=? 1)%Z && negb bw) || ((r >=? 2)%Z && negb fw) then inr ErrValue else ok
  end.

Definition all_setups : list Setup :=
  [Immersion false; Immersion true]
  ++ flat_map (fun fw => flat_map (fun bw => map (fun um => Contact fw bw um) [false; true])
                                  [false; true]) [false; true].

(* ================================================================== *)
(* Z encodings for the correspondence harness                          *)
(* ================================================================== *)
Definition mode_of_z (z : Z) : Mode := if (z =? 0)%Z then L else T.
Definition z_of_mode (m : Mode) : Z := match m with L => 0%Z | T => 1%Z end.
Definition word_of_z (l : list Z) : word := map mode_of_z l.
Definition z_of_word (w : word) : list Z := map z_of_mode w.
Definition view_of_z (p : list Z * list Z) : viewname := (word_of_z (fst p), word_of_z (snd p)).
Definition z_of_view (v : viewname) : list Z * list Z := (z_of_word (fst v), z_of_word (snd v)).

Definition zl_eqb : list Z -> list Z -> bool := list_eqb Z.eqb.
Definition zview_eqb : list Z * list Z -> list Z * list Z -> bool := pair_eqb zl_eqb zl_eqb.

Definition z_of_optbool (b : option bool) : Z :=
  match b with None => (-1)%Z | Some false => 0%Z | Some true => 1%Z end.
Definition z_of_iface (i : Iface) : list Z :=
  [ match i_points i with PProbe => 0 | PFront => 1 | PBack => 2 | PGrid => 3 end;
    match i_kind i with None => -1 | Some FluidSolid => 0 | Some SolidFluid => 1 end;
    match i_tr i with None => -1 | Some Transmission => 0 | Some Reflection => 1 end;
    match i_against i with None => -1 | Some Couplant => 0 | Some Block => 1 | Some Under => 2 end;
    z_of_optbool (i_inc i); z_of_optbool (i_out i) ]%Z.
Definition z_of_material (m : Material) : Z :=
  match m with Couplant => 0 | Block => 1 | Under => 2 end%Z.
(* error CLASS: the property does not say which exception type reports a missing wall
   or a missing name, so KeyError and ValueError ("the request is rejected") form one
   class for the correspondence; the theorems keep them apart *)
Definition z_of_err (e : Err) : Z :=
  match e with ErrValue => 1 | ErrKey => 1 | ErrNotImplemented => 3 | ErrAssert => 4 end%Z.

Definition optbool_of_z (z : Z) : option bool :=
  if (z <? 0)%Z then None else Some (negb (z =? 0)%Z).
Definition iface_of_z (l : list Z) : Iface :=
  let g := fun k => nth k l (-1)%Z in
  mkIface (match g 0%nat with 0 => PProbe | 1 => PFront | 2 => PBack | _ => PGrid end%Z)
          (match g 1%nat with 0 => Some FluidSolid | 1 => Some SolidFluid | _ => None end%Z)
          (match g 2%nat with 0 => Some Transmission | 1 => Some Reflection | _ => None end%Z)
          (match g 3%nat with 0 => Some Couplant | 1 => Some Block | 2 => Some Under | _ => None end%Z)
          (optbool_of_z (g 4%nat)) (optbool_of_z (g 5%nat)).
Definition material_of_z (z : Z) : Material :=
  match z with 0 => Couplant | 1 => Block | _ => Under end%Z.

(* a path without rays: (name, modes, materials, interfaces) *)
Definition zpath := (list Z * list Z * list Z * list (list Z))%type.
Definition z_of_path (p : Path) : zpath :=
  (z_of_word (p_name p), z_of_word (p_modes p), map z_of_material (p_materials p),
   map z_of_iface (p_interfaces p)).
Definition zpath_eqb (a b : zpath) : bool :=
  let '(n1, m1, t1, i1) := a in let '(n2, m2, t2, i2) := b in
  zl_eqb n1 n2 && zl_eqb m1 m2 && zl_eqb t1 t2 && list_eqb zl_eqb i1 i2.

Definition setup_of_z (l : list Z) : Setup :=
  let g := fun k => negb (nth k l 0 =? 0)%Z in
  if (nth 0 l 0 =? 0)%Z then Immersion (g 1%nat) else Contact (g 1%nat) (g 2%nat) (g 3%nat).

(* result of a call: error code (0 = no error) and the value *)
Definition zres {A B} (f : A -> B) (dflt : B) (x : res A) : Z * B :=
  match x with inl a => (0%Z, f a) | inr e => (z_of_err e, dflt) end.

(* -- make_viewnames(names, tfm_unique_only) with order_func default / None -- *)
Definition check_viewnames (c : list (list Z) * bool * bool * list (list Z * list Z)) : bool :=
  let '(names, do_sort, uo, got) := c in
  list_eqb zview_eqb
    (map z_of_view (make_viewnames_gen (map word_of_z names) do_sort uo)) got.

(* -- filter_unique_views(l) -- *)
Definition check_filter (c : list (list Z * list Z) * list (list Z * list Z)) : bool :=
  let '(l, got) := c in
  list_eqb zview_eqb (map z_of_view (filter_unique_views (map view_of_z l))) got.

(* -- make_interfaces + make_paths (setup, max_number_of_reflection) -- *)
Definition check_paths (c : list Z * Z * (Z * list zpath)) : bool :=
  let '(s, r, (ecode, got)) := c in
  let '(ec, ps) := zres (map (fun kp => z_of_path (snd kp))) [] (make_paths (setup_of_z s) r) in
  let '(_, keys) := zres (map (fun kp => z_of_word (fst kp))) [] (make_paths (setup_of_z s) r) in
  (ec =? ecode)%Z && list_eqb zpath_eqb ps got
  && list_eqb zl_eqb keys (map (fun p => let '(n, _, _, _) := p in n) got).

(* a view: (name, tx path, rx path, scat_key as [a; b] or [] on error) *)
Definition zview := ((list Z * list Z) * zpath * zpath * list Z)%type.
Definition z_of_viewentry (e : viewname * View) : zview :=
  (z_of_view (fst e), z_of_path (v_tx (snd e)), z_of_path (v_rx (snd e)),
   match scat_key (snd e) with Some (a, b) => [z_of_mode a; z_of_mode b] | None => [] end).
Definition zviewentry_eqb (a b : zview) : bool :=
  let '(n1, t1, r1, k1) := a in let '(n2, t2, r2, k2) := b in
  zview_eqb n1 n2 && zpath_eqb t1 t2 && zpath_eqb r1 r2 && zl_eqb k1 k2.

(* -- make_views(setup, max_number_of_reflection, tfm_unique_only) -- *)
Definition check_views (c : list Z * Z * bool * (Z * list zview)) : bool :=
  let '(s, r, uo, (ecode, got)) := c in
  let '(ec, vs) := zres (map z_of_viewentry) [] (make_views (setup_of_z s) r uo) in
  (ec =? ecode)%Z && list_eqb zviewentry_eqb vs got
  && list_eqb zview_eqb (map (fun e => z_of_view (v_name (snd e)))
                             (match make_views (setup_of_z s) r uo with inl v => v | inr _ => [] end))
                        (map (fun e => let '(n, _, _, _) := e in n) got).

(* -- make_views_from_paths on a sub-dictionary (given key order) of the paths of a setup -- *)
Definition select (names : list word) (d : pdict) : pdict :=
  flat_map (fun w => match plookup w d with Some p => [(w, p)] | None => [] end) names.
Definition check_subviews (c : list Z * Z * list (list Z) * bool * (Z * list zview)) : bool :=
  let '(s, r, names, uo, (ecode, got)) := c in
  let '(ec, vs) :=
    zres (map z_of_viewentry) []
      (bind (make_paths (setup_of_z s) r)
            (fun d => make_views_from_paths (select (map word_of_z names) d) uo)) in
  (ec =? ecode)%Z && list_eqb zviewentry_eqb vs got.

(* -- Interface.reverse -- *)
Definition check_iface_reverse (c : list Z * (Z * list Z)) : bool :=
  let '(i, (ecode, got)) := c in
  let '(ec, ri) := zres z_of_iface [] (iface_reverse (iface_of_z i)) in
  (ec =? ecode)%Z && zl_eqb ri got.

(* -- Path.reverse, with rays -- *)
Definition zmat := (Z * Z * list (list Z))%type.       (* rows, cols, row-major data *)
Definition zrays := (zmat * list zmat * list Z)%type.
Definition mat_of_z (m : zmat) : mat Z :=
  let '(n, c, d) := m in
  mkMat (Z.to_nat n) (Z.to_nat c) (fun i j => nth j (nth i d []) (-7)%Z).
Definition z_of_mat (m : mat Z) : zmat :=
  (Z.of_nat (m_rows m), Z.of_nat (m_cols m),
   map (fun i => map (fun j => m_at m i j) (seq 0 (m_cols m))) (seq 0 (m_rows m))).
Definition zmat_eqb (a b : zmat) : bool :=
  let '(n1, c1, d1) := a in let '(n2, c2, d2) := b in
  (n1 =? n2)%Z && (c1 =? c2)%Z && list_eqb zl_eqb d1 d2.
Definition rays_of_z (r : zrays) : Rays :=
  let '(t, i, f) := r in mkRays (mat_of_z t) (map mat_of_z i) f.
Definition z_of_rays (r : Rays) : zrays :=
  (z_of_mat (r_times r), map z_of_mat (r_interior r), r_fpath r).
Definition zrays_eqb (a b : zrays) : bool :=
  let '(t1, i1, f1) := a in let '(t2, i2, f2) := b in
  zmat_eqb t1 t2 && list_eqb zmat_eqb i1 i2 && zl_eqb f1 f2.

Definition path_of_z (p : zpath) (r : option zrays) : Path :=
  let '(n, m, t, i) := p in
  mkPath (map iface_of_z i) (map material_of_z t) (word_of_z m) (word_of_z n)
         (option_map rays_of_z r).

Definition check_path_reverse
  (c : zpath * option zrays * (Z * zpath * option zrays * list zmat)) : bool :=
  let '(p, r, (ecode, gp, gr, gidx)) := c in
  match path_reverse (path_of_z p r) with
  | inr e => (z_of_err e =? ecode)%Z
  | inl q =>
      (ecode =? 0)%Z && zpath_eqb (z_of_path q) gp
      && option_eqb zrays_eqb (option_map z_of_rays (p_rays q)) gr
      && list_eqb zmat_eqb
           (match p_rays q with Some rr => map z_of_mat (rays_indices rr) | None => [] end) gidx
  end.

(* -- the same observation compared with the SPEC (spec_paths), so that the harness can
      tell "differs from the code's model" from "differs from what the names mean" -- *)
Definition check_paths_spec (c : list Z * Z * (Z * list zpath)) : bool :=
  let '(s, r, (ecode, got)) := c in
  let '(ec, ps) := zres (map (fun kp => z_of_path (snd kp))) [] (spec_paths (setup_of_z s) r) in
  (ec =? ecode)%Z && list_eqb zpath_eqb ps got.

(* -- Interface.__init__ -- *)
Definition check_iface_new (c : list Z * (Z * list Z)) : bool :=
  let '(i, (ecode, got)) := c in
  let j := iface_of_z i in
  let '(ec, ri) := zres z_of_iface []
                     (new_iface (i_points j) (i_kind j) (i_tr j) (i_against j) (i_inc j) (i_out j)) in
  (ec =? ecode)%Z && zl_eqb ri got.
