(* Model/GeometryGlue.v — the glue of arim.geometry around the per-point kernels of
   Model/Geometry.v (C17).  Definitions only.

   What is put inside the model here (src/arim/geometry.py):
     * point arrays of ANY shape: an n-d array is (shape, flat data in C order); multi-index
       <-> flat index (ravel / unravel), numpy.ndindex (the order of Points.__iter__ and
       Points.enumerate), Points.__init__ (last-dimension check), shape / ndim / size / len,
       the x / y / z views, Points.reshape (int or tuple, one inferred dimension) and
       Points.to_1d_points, Points.translate / rotate / norm2 / closest_point / allclose
       (are_points_close, with numpy's broadcasting of shapes of equal length);
     * points_in_rectbox as it is written (shape check, out = ones, the list valid_ones
       appended in the order xmin, ymin, zmin, xmax, ymax, zmax, the loop of logical_and) on
       n-d arrays, the Points method and the Grid method;
     * Grid.__init__ as a whole: unpacking of pixel_size (one number or a sequence of three),
       the three axes with their warnings and error kinds, the (numx, numy, numz, 3) array,
       xvect / yvect / zvect, the properties xmin .. zmax, numx .. numz, dx .. dz, resample,
       to_oriented_points, grid_centred_at_point with its assertion / ZeroDivisionError;
     * CoordinateSystem as a mutable object: the validating setters of origin / i_hat / j_hat
       (shape (3,) check, unit-norm check, assignment only after the checks), __init__, a
       history of assignments some of which are refused, k_hat, basis_matrix, convert_from_gcs /
       convert_to_gcs on point arrays of any shape, convert_from_gcs_pairwise (outer difference of
       an n-d point array, n >= 1, against a 1-d array of origins; NotModelled otherwise), translate, rotate, copy, isclose;
     * distance_pairwise on Points objects: the dimension check in front of the blockwise
       function of Model/Blocks.v (C13).

   Encoding: a vector is a triple, a (3,3) array a triple of ROWS (Model/Vec3.v); an array
   argument that the code passes through numpy.asarray is `arr` = (shape, flat data); a raise
   is `inl <exception kind>`. *)
From Coq Require Import List ZArith Bool Arith.
From Arim Require Import Base.Num Model.Vec3 Model.Geometry.
From Arim Require Model.Blocks.
Import ListNotations.

(* ---- exceptions ------------------------------------------------------------------------ *)
(* NotModelled is NOT an exception: it marks an input outside the part of the function that
   the model describes (no theorem says anything about it) *)
Inductive gerr := ValueError | IndexError | TypeError | AssertionError | ZeroDivisionError
                | InvalidDimension | InvalidShape | NotModelled | OverflowError.
Definition res (A : Type) : Type := (gerr + A)%type.

Definition of_blocks_err (e : Blocks.pyerr) : gerr :=
  match e with
  | Blocks.IndexError => IndexError
  | Blocks.ZeroDivisionError => ZeroDivisionError
  | Blocks.ValueError => ValueError
  | Blocks.InvalidShape => InvalidShape
  | Blocks.TypeError => TypeError
  end.

(* ---- n-d arrays in C order --------------------------------------------------------------- *)
Record nd (A : Type) := mkNd { nd_shape : list nat; nd_data : list A }.
Arguments mkNd {A}. Arguments nd_shape {A}. Arguments nd_data {A}.

(* number of entries of an array of this shape *)
Definition size (s : list nat) : nat := fold_right Nat.mul 1 s.
(* the invariant of every real array *)
Definition nd_wf {A} (a : nd A) : Prop := length (nd_data a) = size (nd_shape a).

(* flat (C order) position of a multi-index: the last index varies the quickest *)
Fixpoint ravel (shape idx : list nat) : nat :=
  match shape, idx with
  | _ :: s, i :: r => i * size s + ravel s r
  | _, _ => 0
  end.
(* a full multi-index of non-negative integers inside the shape *)
Fixpoint in_bounds (shape idx : list nat) : bool :=
  match shape, idx with
  | [], [] => true
  | n :: s, i :: r => (i <? n) && in_bounds s r
  | _, _ => false
  end.
(* numpy.unravel_index *)
Fixpoint unravel (shape : list nat) (k : nat) : list nat :=
  match shape with
  | [] => []
  | _ :: s => (k / size s) :: unravel s (k mod size s)
  end.
(* numpy.ndindex(shape): nested loops, the first index outermost *)
Fixpoint ndindex (shape : list nat) : list (list nat) :=
  match shape with
  | [] => [[]]
  | n :: s => flat_map (fun i => map (cons i) (ndindex s)) (seq 0 n)
  end.

(* a[idx] for a full multi-index (None = IndexError) *)
Definition nd_get {A} (a : nd A) (idx : list nat) : option A :=
  if in_bounds (nd_shape a) idx then nth_error (nd_data a) (ravel (nd_shape a) idx) else None.

Definition nd_map {A B} (f : A -> B) (a : nd A) : nd B := mkNd (nd_shape a) (map f (nd_data a)).
Definition map2 {A B C} (f : A -> B -> C) (l1 : list A) (l2 : list B) : list C :=
  map (fun p => f (fst p) (snd p)) (combine l1 l2).

Fixpoint shape_eqb (s1 s2 : list nat) : bool :=
  match s1, s2 with
  | [], [] => true
  | a :: r1, b :: r2 => (a =? b) && shape_eqb r1 r2
  | _, _ => false
  end.

(* the shape argument of ndarray.reshape: Python ints; every negative entry is "unknown"
   (numpy: `if dimensions[i] < 0`), at most one is allowed and it is inferred from the number
   of entries; every failure is a ValueError *)
Definition known_prod (l : list Z) : Z := fold_right (fun d acc => if (d <? 0)%Z then acc else (d * acc)%Z) 1%Z l.
Definition count_unknown (l : list Z) : nat := length (filter (fun d => (d <? 0)%Z) l).
Definition np_reshape_shape (total : nat) (new_shape : list Z) : res (list nat) :=
  let kp := known_prod new_shape in
  match count_unknown new_shape with
  | 0 => if (kp =? Z.of_nat total)%Z then inr (map Z.to_nat new_shape) else inl ValueError
  | 1 =>
      if (kp =? 0)%Z then inl ValueError
      else if (Z.of_nat total mod kp =? 0)%Z
           then inr (map (fun d => if (d <? 0)%Z then Z.to_nat (Z.of_nat total / kp) else Z.to_nat d) new_shape)
           else inl ValueError
  | _ => inl ValueError                          (* can only specify one unknown dimension *)
  end.

(* ---- Points ------------------------------------------------------------------------------ *)
Fixpoint group3 {T} (l : list T) : list (vec3 T) :=
  match l with
  | a :: b :: c :: r => (a, b, c) :: group3 r
  | _ => []
  end.
Definition ungroup3 {T} (l : list (vec3 T)) : list T := flat_map (fun v => [vx v; vy v; vz v]) l.

(* a Points object: shape = coords.shape[:-1], one triple per point, C order *)
Definition points (T : Type) : Type := nd (vec3 T).

(* Points.__init__(coords): coords = an array of shape `ashape` with flat data `flat`;
   coords.shape[-1] of a 0-d array is an IndexError, a last dimension <> 3 a ValueError *)
Definition points_init {T} (ashape : list nat) (flat : list T) : res (points T) :=
  match rev ashape with
  | [] => inl IndexError
  | last :: r => if last =? 3 then inr (mkNd (rev r) (group3 flat)) else inl ValueError
  end.
(* the coords array back: shape ( *shape, 3) *)
Definition points_coords_shape {T} (P : points T) : list nat := nd_shape P ++ [3].
Definition points_coords_flat {T} (P : points T) : list T := ungroup3 (nd_data P).

Definition points_ndim {T} (P : points T) : nat := length (points_coords_shape P) - 1.
(* coords.size // 3 *)
Definition points_size {T} (P : points T) : nat := size (points_coords_shape P) / 3.
(* __len__: shape[0], TypeError("Points is unsized") for one point *)
Definition points_len {T} (P : points T) : res nat :=
  match nd_shape P with [] => inl TypeError | n :: _ => inr n end.
(* coords[..., 0], coords[..., 1], coords[..., 2] *)
Definition pts_x {T} (P : points T) : nd T := nd_map vx P.
Definition pts_y {T} (P : points T) : nd T := nd_map vy P.
Definition pts_z {T} (P : points T) : nd T := nd_map vz P.
(* __iter__ / enumerate: for idx in np.ndindex(self.shape): yield idx, coords[idx] *)
Definition points_enumerate {T} (P : points T) : list (list nat * option (vec3 T)) :=
  map (fun idx => (idx, nd_get P idx)) (ndindex (nd_shape P)).

(* Points.reshape(new_shape): an int is made a 1-tuple; coords.reshape(( *new_shape, 3)) *)
Inductive shape_arg := RsInt (n : Z) | RsTuple (l : list Z).
Definition points_reshape {T} (P : points T) (a : shape_arg) : res (points T) :=
  let new_shape := match a with RsInt n => [n] | RsTuple l => l end in
  match np_reshape_shape (size (points_coords_shape P)) (new_shape ++ [3%Z]) with
  | inl e => inl e
  | inr s => points_init s (points_coords_flat P)
  end.
(* Points.to_1d_points(): self.reshape(self.size) *)
Definition points_to_1d {T} (P : points T) : res (points T) :=
  points_reshape P (RsInt (Z.of_nat (points_size P))).

(* an argument that goes through numpy.asarray: (shape, flat data) *)
Definition arr (T : Type) : Type := (list nat * list T)%type.
Definition as_vec3 {T} (a : arr T) : res (vec3 T) :=
  match a with
  | ([3], [x; y; z]) => inr (x, y, z)
  | _ => inl ValueError
  end.
Definition arr_of_vec3 {T} (v : vec3 T) : arr T := ([3], [vx v; vy v; vz v]).

(* numpy broadcasting of two shapes of the SAME length: entries equal, or one of them 1 *)
Fixpoint bcast_shape (s1 s2 : list nat) : option (list nat) :=
  match s1, s2 with
  | [], [] => Some []
  | a :: r1, b :: r2 =>
      match bcast_shape r1 r2 with
      | None => None
      | Some r => if a =? b then Some (a :: r) else if a =? 1 then Some (b :: r)
                  else if b =? 1 then Some (a :: r) else None
      end
  | _, _ => None
  end.
(* the index read in an operand of shape s for the index idx of the broadcast result *)
Fixpoint bcast_index (s idx : list nat) : list nat :=
  match s, idx with
  | n :: s', i :: r => (if n =? 1 then 0 else i) :: bcast_index s' r
  | _, _ => []
  end.

Section Glue.
  Context {T : Type} (N : Num T).
  Local Notation "a + b" := (nadd N a b).
  Local Notation "a - b" := (nsub N a b).
  Local Notation "a * b" := (nmul N a b).
  Local Notation "a / b" := (ndiv N a b).
  Local Notation "0" := (n0 N).
  Local Notation "1" := (n1 N).

  (* ---- Points methods -------------------------------------------------------------------- *)
  (* Points.translate(direction): coords + direction; the two documented uses: one direction
     of shape (3,) for all points, or one per point (the shape of coords).  Any other shape
     goes through numpy's general broadcasting, which is NOT modelled here *)
  Definition points_translate (P : points T) (dshape : list nat) (dflat : list T) : res (points T) :=
    if shape_eqb dshape [3] then
      match dflat with
      | [a; b; c] => inr (nd_map (fun p => vadd N p (a, b, c)) P)
      | _ => inl ValueError
      end
    else if shape_eqb dshape (points_coords_shape P)
    then inr (mkNd (nd_shape P) (map2 (vadd N) (nd_data P) (group3 dflat)))
    else inl NotModelled.
  (* Points.rotate(rotation_matrix, centre) with ONE (3,3) matrix and one centre *)
  Definition points_rotate (P : points T) (R : mat3 T) (centre : option (vec3 T)) : points T :=
    nd_map (rotate N R centre) P.
  (* Points.norm2() *)
  Definition points_norm2 (P : points T) : nd T := nd_map (norm2_v N) P.

  (* numpy.argmin of a flat list: the FIRST position of the minimum (strict <) *)
  Fixpoint argmin_from (best_i : nat) (best : T) (i : nat) (l : list T) : nat :=
    match l with
    | [] => best_i
    | v :: r => if nltb N v best then argmin_from i v (S i) r else argmin_from best_i best (S i) r
    end.
  Definition argmin (l : list T) : res nat :=
    match l with [] => inl ValueError | v :: r => inr (argmin_from 0 v 1 r) end.
  (* dx = self.x - x; ...; np.argmin(dx * dx + dy * dy + dz * dz): a FLAT index *)
  Definition sqdist_to (x y z : T) (p : vec3 T) : T :=
    let dx := vx p - x in let dy := vy p - y in let dz := vz p - z in
    (dx * dx + dy * dy) + dz * dz.
  Definition closest_point (P : points T) (x y z : T) : res nat :=
    argmin (map (sqdist_to x y z) (nd_data P)).

  (* ---- points_in_rectbox -------------------------------------------------------------------- *)
  (* the free function on three arrays x, y, z *)
  Definition rectbox_valid_ones (x y z : nd T) (xmin xmax ymin ymax zmin zmax : option T)
    : list (list bool) :=
    (match xmin with Some b => [map (fun v => nleb N b v) (nd_data x)] | None => [] end) ++
    (match ymin with Some b => [map (fun v => nleb N b v) (nd_data y)] | None => [] end) ++
    (match zmin with Some b => [map (fun v => nleb N b v) (nd_data z)] | None => [] end) ++
    (match xmax with Some b => [map (fun v => nleb N v b) (nd_data x)] | None => [] end) ++
    (match ymax with Some b => [map (fun v => nleb N v b) (nd_data y)] | None => [] end) ++
    (match zmax with Some b => [map (fun v => nleb N v b) (nd_data z)] | None => [] end).
  Definition rectbox_free (x y z : nd T) (xmin xmax ymin ymax zmin zmax : option T) : res (nd bool) :=
    if negb (shape_eqb (nd_shape x) (nd_shape y) && shape_eqb (nd_shape y) (nd_shape z))
    then inl ValueError                                             (* "shape must be equal" *)
    else
      let out := repeat true (size (nd_shape x)) in                 (* np.ones(x.shape, bool) *)
      inr (mkNd (nd_shape x)
                (fold_left (map2 andb) (rectbox_valid_ones x y z xmin xmax ymin ymax zmin zmax) out)).
  (* Points.points_in_rectbox (inherited unchanged by Grid) *)
  Definition rectbox_points (P : points T) (xmin xmax ymin ymax zmin zmax : option T) : res (nd bool) :=
    rectbox_free (pts_x P) (pts_y P) (pts_z P) xmin xmax ymin ymax zmin zmax.

  (* ---- Grid ------------------------------------------------------------------------------------ *)
  (* pixel_size: `dx, dy, dz = pixel_size` — a number is not iterable (TypeError, caught: the
     same size on the three axes); a sequence of another length than 3 is a ValueError that is
     NOT caught *)
  Inductive pixel_arg := PxScalar (d : T) | PxSeq (l : list T).
  Definition unpack_pixel (p : pixel_arg) : res (T * T * T) :=
    match p with
    | PxScalar d => inr (d, d, d)
    | PxSeq [dx; dy; dz] => inr (dx, dy, dz)
    | PxSeq _ => inl ValueError
    end.

  (* one axis with its exception kinds: (.. + d) / d with d = 0 is a ZeroDivisionError,
     numpy.linspace with a negative number of points a ValueError *)
  Definition grid_axis_err (lo hi d : T) : res (list T) :=
    if neqb N lo hi then inr [lo]
    else if neqb N d 0 then inl ZeroDivisionError
    else match linspace N lo hi (grid_numpoints N lo hi d) with
         | Some v => inr v
         | None => inl ValueError
         end.
  (* warn("xmin > xmax in grid"): only on a non-degenerate axis *)
  Inductive axis_name := AxX | AxY | AxZ.
  Definition axis_warning (a : axis_name) (lo hi : T) : list axis_name :=
    if neqb N lo hi then [] else if nltb N hi lo then [a] else [].

  Record grid_obj := mkGO {
    go_points : points T;                  (* shape (numx, numy, numz) *)
    go_xvect : list T; go_yvect : list T; go_zvect : list T;
    go_warnings : list axis_name
  }.

  Definition grid_init (xmin xmax ymin ymax zmin zmax : T) (pixel : pixel_arg) : res grid_obj :=
    match unpack_pixel pixel with
    | inl e => inl e
    | inr (dx, dy, dz) =>
        match grid_axis_err xmin xmax dx with
        | inl e => inl e
        | inr xs =>
            match grid_axis_err ymin ymax dy with
            | inl e => inl e
            | inr ys =>
                match grid_axis_err zmin zmax dz with
                | inl e => inl e
                | inr zs =>
                    inr (mkGO (mkNd [length xs; length ys; length zs] (flatten_c (meshgrid_ij xs ys zs)))
                              xs ys zs
                              (axis_warning AxX xmin xmax ++ axis_warning AxY ymin ymax
                                 ++ axis_warning AxZ zmin zmax))
                end
            end
        end
    end.

  (* properties: xvect[0], xvect[-1] (IndexError on an empty axis), len(xvect),
     xvect[1] - xvect[0] or None *)
  Definition vect_min (v : list T) : res T := match v with [] => inl IndexError | a :: _ => inr a end.
  Definition vect_max (v : list T) : res T := match rev v with [] => inl IndexError | a :: _ => inr a end.
  Definition vect_step (v : list T) : option T := match v with a :: b :: _ => Some (b - a) | _ => None end.
  Definition go_numx (g : grid_obj) : nat := length (go_xvect g).
  Definition go_numy (g : grid_obj) : nat := length (go_yvect g).
  Definition go_numz (g : grid_obj) : nat := length (go_zvect g).

  (* Grid.resample(new_pixel_size) = self.__class__(self.xmin, ..., self.zmax, new_pixel_size).
     The six bounds handed to the constructor are NUMPY scalars (xvect[0], xvect[-1], ...): on a
     non-degenerate axis with a zero pixel size, (abs(xmax - xmin) + dx) / dx is then a numpy division
     (a warning and inf, no ZeroDivisionError) and round(inf) raises OverflowError ("cannot convert float
     infinity to integer"), at the place in the axis order where the constructor called with Python
     floats raises ZeroDivisionError.  (The bounds of a constructed grid are finite, so the numerator is
     a positive finite number.) *)
  Definition np_zero_err (e : gerr) : gerr :=
    match e with ZeroDivisionError => OverflowError | _ => e end.
  Definition grid_resample (g : grid_obj) (pixel : pixel_arg) : res grid_obj :=
    match vect_min (go_xvect g), vect_max (go_xvect g), vect_min (go_yvect g), vect_max (go_yvect g),
          vect_min (go_zvect g), vect_max (go_zvect g) with
    | inr x0, inr x1, inr y0, inr y1, inr z0, inr z1 =>
        match grid_init x0 x1 y0 y1 z0 z1 pixel with
        | inl e => inl (np_zero_err e)
        | inr r => inr r
        end
    | _, _, _, _, _, _ => inl IndexError
    end.

  (* Grid.to_oriented_points(): (to_1d_points, identity orientation broadcast to every point) *)
  Definition grid_to_oriented_points (g : grid_obj) : res (points T * nd (mat3 T)) :=
    match points_to_1d (go_points g) with
    | inl e => inl e
    | inr P => inr (P, mkNd (nd_shape P) (repeat (mid3 N) (size (nd_shape P))))
    end.
  (* Grid.points_in_rectbox: the inherited Points method *)
  Definition rectbox_grid (g : grid_obj) (xmin xmax ymin ymax zmin zmax : option T) : res (nd bool) :=
    rectbox_points (go_points g) xmin xmax ymin ymax zmin zmax.

  (* Grid.grid_centred_at_point: assert size >= 0 (three times), size / pixel_size with
     pixel_size = 0 (ZeroDivisionError), then cls(centre -+ size / 2, (dx, dy, dz)) *)
  Definition grid_centred_obj (cx cy cz sx sy sz pixel : T) : res grid_obj :=
    if negb (nleb N 0 sx) then inl AssertionError
    else if negb (nleb N 0 sy) then inl AssertionError
    else if negb (nleb N 0 sz) then inl AssertionError
    else if neqb N pixel 0 then inl ZeroDivisionError
    else
      let two := nofZ N 2 in
      grid_init (cx - sx / two) (cx + sx / two) (cy - sy / two) (cy + sy / two)
                (cz - sz / two) (cz + sz / two)
                (PxSeq [centred_step N sx (centred_numpoints N sx pixel);
                        centred_step N sy (centred_numpoints N sy pixel);
                        centred_step N sz (centred_numpoints N sz pixel)]).

  (* ---- CoordinateSystem --------------------------------------------------------------------------- *)
  (* the object after a successful construction: the three private slots *)
  Record cstate := mkCst { c_origin : vec3 T; c_i : vec3 T; c_j : vec3 T }.

  (* np.isclose(norm2( *v ), 1.0) *)
  Definition unit_ok (v : vec3 T) : bool := isclose N (norm2_v N v) 1.

  (* the three setters: np.asarray, shape check, (norm check,) THEN the assignment *)
  Definition set_origin (c : cstate) (a : arr T) : res cstate :=
    match as_vec3 a with
    | inl e => inl e
    | inr v => inr (mkCst v (c_i c) (c_j c))
    end.
  Definition set_i_hat (c : cstate) (a : arr T) : res cstate :=
    match as_vec3 a with
    | inl e => inl e
    | inr v => if unit_ok v then inr (mkCst (c_origin c) v (c_j c)) else inl ValueError
    end.
  Definition set_j_hat (c : cstate) (a : arr T) : res cstate :=
    match as_vec3 a with
    | inl e => inl e
    | inr v => if unit_ok v then inr (mkCst (c_origin c) (c_i c) v) else inl ValueError
    end.

  (* CoordinateSystem(origin, i_hat, j_hat): the setters in the order origin, i_hat, j_hat;
     the first exception leaves no object *)
  Definition cs_new (o i j : arr T) : res cstate :=
    match as_vec3 o with
    | inl e => inl e
    | inr vo =>
        match as_vec3 i with
        | inl e => inl e
        | inr vi =>
            if negb (unit_ok vi) then inl ValueError
            else match as_vec3 j with
                 | inl e => inl e
                 | inr vj => if negb (unit_ok vj) then inl ValueError else inr (mkCst vo vi vj)
                 end
        end
    end.

  (* a history of assignments on ONE object; an exception is caught by the caller *)
  Inductive cs_op := SetOrigin (a : arr T) | SetI (a : arr T) | SetJ (a : arr T).
  Definition cs_assign (c : cstate) (o : cs_op) : res cstate :=
    match o with
    | SetOrigin a => set_origin c a
    | SetI a => set_i_hat c a
    | SetJ a => set_j_hat c a
    end.
  Definition cs_step (c : cstate) (o : cs_op) : cstate :=
    match cs_assign c o with inr c' => c' | inl _ => c end.
  Definition cs_run (c : cstate) (ops : list cs_op) : cstate := fold_left cs_step ops c.
  (* what each assignment of the history answered *)
  Fixpoint cs_trace (c : cstate) (ops : list cs_op) : list (option gerr) :=
    match ops with
    | [] => []
    | o :: r => match cs_assign c o with
                | inr c' => None :: cs_trace c' r
                | inl e => Some e :: cs_trace c r
                end
    end.

  (* k_hat, basis_matrix: recomputed from the slots at every access *)
  Definition c_k_hat (c : cstate) : vec3 T := cs_k_hat N (c_i c) (c_j c).
  Definition c_basis_matrix (c : cstate) : mat3 T := cs_basis_matrix N (c_i c) (c_j c).

  (* convert_from_gcs / convert_to_gcs on a Points object of any shape: a new Points object
     of the same shape *)
  Definition c_convert_from_gcs (c : cstate) (P : points T) : points T :=
    nd_map (cs_convert_from_gcs N (c_origin c) (c_i c) (c_j c)) P.
  Definition c_convert_to_gcs (c : cstate) (P : points T) : points T :=
    nd_map (cs_convert_to_gcs N (c_origin c) (c_i c) (c_j c)) P.

  (* convert_from_gcs_pairwise(points_gcs, origins):
       x = points_cs.x[..., newaxis] - origins.x[newaxis, ...]
     For 1-d origins (m,) and points with at least one dimension this is the outer difference of
     shape pshape ++ [m].  Outside that domain numpy BROADCASTS (pshape ++ [1]) against ([1] ++ oshape)
     and the result is not an outer difference: 0-d origins with points (2,) give shape (2, 1);
     origins (2, 1) with points (2,) give (1, 2, 1) with 2 entries; 0-d points with origins (1,) give
     (1, 1).  The model states only the part it can state faithfully: outside the domain it answers
     the marker NotModelled (no exception: the library returns arrays there) and no theorem speaks
     about those inputs. *)
  Definition pairwise_modelled (P origins : points T) : bool :=
    (length (nd_shape origins) =? 1) && negb (length (nd_shape P) =? 0).
  Definition outer_sub (f : vec3 T -> T) (P O : points T) : nd T :=
    mkNd (nd_shape P ++ nd_shape O)
         (flat_map (fun p => map (fun o => f p - f o) (nd_data O)) (nd_data P)).
  Definition c_convert_from_gcs_pairwise (c : cstate) (P origins : points T) : res (nd T * nd T * nd T) :=
    if pairwise_modelled P origins then
      let Pcs := c_convert_from_gcs c P in
      inr (outer_sub vx Pcs origins, outer_sub vy Pcs origins, outer_sub vz Pcs origins)
    else inl NotModelled.

  (* CoordinateSystem.translate(vector): Points(origin).translate(vector)[()] through the
     constructor.  origin + vector broadcasts: the result has shape (3,) — what the origin
     setter demands — exactly for a vector of shape (3,), () or (1,); every other shape ends
     in a ValueError (of the broadcast or of the setter) *)
  Definition translate_vector (v : arr T) : res (vec3 T) :=
    match v with
    | ([3], [x; y; z]) => inr (x, y, z)
    | ([], [a]) => inr (a, a, a)
    | ([1], [a]) => inr (a, a, a)
    | _ => inl ValueError
    end.
  Definition c_translate (c : cstate) (v : arr T) : res cstate :=
    match translate_vector v with
    | inl e => inl e
    | inr d => cs_new (arr_of_vec3 (vadd N (c_origin c) d)) (arr_of_vec3 (c_i c)) (arr_of_vec3 (c_j c))
    end.
  (* CoordinateSystem.rotate(rotation_matrix, centre): the points O, O + i_hat, O + j_hat are
     rotated, the new axes are differences of the rotated points; through the constructor *)
  Definition c_rotate (c : cstate) (R : mat3 T) (centre : option (vec3 T)) : res cstate :=
    let b0 := rotate N R centre (c_origin c) in
    let b1 := rotate N R centre (vadd N (c_origin c) (c_i c)) in
    let b2 := rotate N R centre (vadd N (c_origin c) (c_j c)) in
    cs_new (arr_of_vec3 b0) (arr_of_vec3 (vsub N b1 b0)) (arr_of_vec3 (vsub N b2 b0)).
  (* CoordinateSystem.copy() *)
  Definition c_copy (c : cstate) : res cstate :=
    cs_new (arr_of_vec3 (c_origin c)) (arr_of_vec3 (c_i c)) (arr_of_vec3 (c_j c)).
  (* CoordinateSystem.isclose(other, atol, rtol): np.allclose = all |a - b| <= atol + rtol |b| *)
  Definition close_to (atol rtol a b : T) : bool := nleb N (nabs N (a - b)) (atol + rtol * nabs N b).
  Definition vclose (atol rtol : T) (a b : vec3 T) : bool :=
    close_to atol rtol (vx a) (vx b) && close_to atol rtol (vy a) (vy b) && close_to atol rtol (vz a) (vz b).
  Definition c_isclose (c other : cstate) (atol rtol : T) : bool :=
    vclose atol rtol (c_origin c) (c_origin other) && vclose atol rtol (c_i c) (c_i other)
    && vclose atol rtol (c_j c) (c_j other).

  (* Points.allclose(other, atol, rtol) = are_points_close:
       len(points1.shape) == len(points2.shape) and np.allclose(points1.coords, points2.coords, rtol, atol)
     only the NUMBER of dimensions is compared; np.allclose then broadcasts the two coords arrays
     (ValueError when they cannot be broadcast) *)
  Definition points_allclose (P Q : points T) (atol rtol : T) : res bool :=
    if negb (length (nd_shape P) =? length (nd_shape Q)) then inr false
    else match bcast_shape (nd_shape P) (nd_shape Q) with
         | None => inl ValueError
         | Some s =>
             inr (forallb (fun idx =>
                             match nd_get P (bcast_index (nd_shape P) idx), nd_get Q (bcast_index (nd_shape Q) idx) with
                             | Some p, Some q => vclose atol rtol p q
                             | _, _ => false
                             end) (ndindex s))
         end.

  (* a history of method calls that REPLACE the object (cs = cs.translate(v), ...) mixed with
     assignments; an exception leaves the previous object in place *)
  Inductive cs_call :=
  | CAssign (o : cs_op)
  | CTranslate (v : arr T)
  | CRotate (R : mat3 T) (centre : option (vec3 T))
  | CCopy.
  Definition cs_call_res (c : cstate) (k : cs_call) : res cstate :=
    match k with
    | CAssign o => cs_assign c o
    | CTranslate v => c_translate c v
    | CRotate R ce => c_rotate c R ce
    | CCopy => c_copy c
    end.
  Definition cs_call_step (c : cstate) (k : cs_call) : cstate :=
    match cs_call_res c k with inr c' => c' | inl _ => c end.
  Definition cs_calls (c : cstate) (ks : list cs_call) : cstate := fold_left cs_call_step ks c.

  (* ---- distance_pairwise on Points objects ------------------------------------------------------ *)
  (* `(num1,) = points1.x.shape` — InvalidDimension unless both are 1-d; the x / y / z views of
     a Points object always have equal shapes; then the blockwise function of Model/Blocks.v *)
  Definition blocks_points (P : points T) : Blocks.points (T := T) :=
    Blocks.mkPts (map vx (nd_data P)) (map vy (nd_data P)) (map vz (nd_data P)).
  Definition distance_pairwise_points (P1 P2 : points T) (out : option (nat * nat * list (list T)))
             (block_size numthreads : Z)
             (sched : list Blocks.dist_views -> list Blocks.dist_views) : res (list (list T)) :=
    match nd_shape P1, nd_shape P2 with
    | [_], [_] =>
        match Blocks.distance_pairwise N (blocks_points P1) (blocks_points P2) out block_size numthreads sched with
        | inl e => inl (of_blocks_err e)
        | inr t => inr t
        end
    | _, _ => inl InvalidDimension
    end.
End Glue.

Arguments PxScalar {T}. Arguments PxSeq {T}.
Arguments mkGO {T}. Arguments go_points {T}. Arguments go_xvect {T}. Arguments go_yvect {T}.
Arguments go_zvect {T}. Arguments go_warnings {T}.
Arguments mkCst {T}. Arguments c_origin {T}. Arguments c_i {T}. Arguments c_j {T}.
Arguments SetOrigin {T}. Arguments SetI {T}. Arguments SetJ {T}.
Arguments CAssign {T}. Arguments CTranslate {T}. Arguments CRotate {T}. Arguments CCopy {T}.
