(* Model/ScatData.v — the glue of arim.scat around the interpolation kernel (C10):

     scipy.interpolate.interp1d(kind='linear')  as arim.scat.ScatFromData.freq_interp_matrices
                                                uses it: stable argsort of the frequencies, take,
                                                searchsorted, clip, the two weights, the
                                                bounds_error / fill_value handling
     ScatFromData.freq_interp_matrices          single-frequency branch, key loop, warning
     ScatFromData.__call__                      frequency interpolation, then angle interpolation
     ScatFromData.__init__                      validation of the shapes
     make_angles_grid / as_single_freq_matrices / as_multi_freq_matrices
                                                meshgrid 'xy', late initialisation of the output
                                                with the dtype of the first frequency, stacking
     rotate_matrices / interpolate_matrices     dict comprehension: same keys, same order
     scat_factory                               dispatch on kind.lower(), argument wiring

   Definitions only.  Numeric parts are polymorphic over `Num T`. *)
From Coq Require Import ZArith String Ascii List Bool.
From Arim Require Import Base.Num Model.ScatMatrix.
Import ListNotations.
Local Open Scope Z_scope.

(* SCAT_KEYS = frozenset(("LL", "LT", "TL", "TT")) *)
Inductive skey := LL | LT | TL | TT.
Definition skey_eqb (a b : skey) : bool :=
  match a, b with LL, LL | LT, LT | TL, TL | TT, TT => true | _, _ => false end.
Definition SCAT_KEYS : list skey := [LL; LT; TL; TT].

(* a dict whose keys are scattering keys *)
Definition sdict (A : Type) := skey -> option A.
Definition dict_empty {A} : sdict A := fun _ => None.
Definition dict_set {A} (d : sdict A) (k : skey) (v : A) : sdict A :=
  fun k' => if skey_eqb k' k then Some v else d k'.

(* Python indexing of a sequence with a possibly negative index *)
Definition pyget {A} (d : A) (l : list A) (i : Z) : A :=
  nth (Z.to_nat (if i <? 0 then i + Z.of_nat (length l) else i)) l d.

(* ndarray.clip(a_min, a_max) = minimum(maximum(a, a_min), a_max) *)
Definition clip (a lo hi : Z) : Z := Z.min (Z.max a lo) hi.

(* np.take(l, ind) / l[ind] *)
Definition take {A} (d : A) (l : list A) (ind : list nat) : list A := map (fun k => nth k l d) ind.

Section Interp1d.
  Context {T : Type} (N : Num T).
  Local Notation "a + b" := (nadd N a b) : num_scope.
  Local Notation "a - b" := (nsub N a b) : num_scope.
  Local Notation "a * b" := (nmul N a b) : num_scope.
  Local Notation "a / b" := (ndiv N a b) : num_scope.

  (* np.argsort(x, kind="mergesort"): STABLE sort of the positions by key.  Realised as the
     insertion of each element, from the last to the first, in front of the first element whose
     key is not smaller: equal keys keep their original order. *)
  Fixpoint insert_key {A} (x : T * A) (l : list (T * A)) : list (T * A) :=
    match l with
    | [] => [x]
    | y :: r => if nltb N (fst y) (fst x) then y :: insert_key x r else x :: l
    end.
  Definition sort_key {A} (l : list (T * A)) : list (T * A) := fold_right insert_key [] l.
  Definition argsort (xs : list T) : list nat :=
    map snd (sort_key (combine xs (seq 0 (length xs)))).

  (* np.searchsorted(x, v) (side='left') on a sorted x: the first position whose entry is not < v *)
  Fixpoint searchsorted (xs : list T) (v : T) : Z :=
    match xs with
    | [] => 0
    | y :: r => if nltb N y v then 1 + searchsorted r v else 0
    end.

  (* interp_freq_kwargs: bounds_error in {None, True, False}; fill_value 'extrapolate', a value,
     or a pair (below, above) *)
  Inductive fillv := Extrapolate | FillBoth (v : T) | FillPair (below above : T).
  Record i1kwargs := mk_kw { kw_bounds_error : option bool; kw_fill : fillv }.
  (* ScatFromData.__init__: dict(bounds_error=False, fill_value="extrapolate") *)
  Definition arim_default_kwargs : i1kwargs := mk_kw (Some false) Extrapolate.

  Inductive ferr :=
  | ErrTooFew                (* ValueError: x and y arrays must have at least 1 entries *)
  | ErrExtrapolateAndRaise   (* ValueError: Cannot extrapolate and raise at the same time. *)
  | ErrBelowRange            (* ValueError: A value in x_new is below the interpolation range *)
  | ErrAboveRange            (* ValueError: A value in x_new is above the interpolation range *)
  | ErrIndex.                (* IndexError: frequencies[0] / matrix[0] of an empty sequence *)

  (* the fill_value setter: (extrapolate?, bounds_error, fill below, fill above) *)
  Definition resolve_fill (kw : i1kwargs) : ferr + (bool * bool * T * T) :=
    let be_default := match kw_bounds_error kw with None => true | Some b => b end in
    match kw_fill kw with
    | Extrapolate =>
        match kw_bounds_error kw with
        | Some true => inl ErrExtrapolateAndRaise
        | _ => inr (true, false, n0 N, n0 N)
        end
    | FillBoth v => inr (false, be_default, v, v)
    | FillPair b a => inr (false, be_default, b, a)
    end.

  (* What one interp1d object does to ANY sample column y, decided from the frequencies alone
     (scipy broadcasts the two weights over the trailing axes of y):
       PLin ind lo hi wlo whi : y = take(y, ind); whi * y[hi] + wlo * y[lo]
       PConst v               : the fill value
       PTake k                : y[k]  (single-frequency branch of arim: matrix[0]) *)
  Inductive plan :=
  | PLin (ind : list nat) (lo hi : Z) (wlo whi : T)
  | PConst (v : T)
  | PTake (k : nat).

  Definition apply_plan (p : plan) (ys : list T) : T :=
    match p with
    | PLin ind lo hi wlo whi =>
        let y := take (n0 N) ys ind in
        (whi * pyget (n0 N) y hi + wlo * pyget (n0 N) y lo)%num
    | PConst v => v
    | PTake k => nth k ys (n0 N)
    end.

  (* interp1d(xs, y, axis=0, **kw)(f), kind='linear', assume_sorted=False *)
  Definition interp1d_plan (kw : i1kwargs) (xs : list T) (f : T) : ferr + plan :=
    let ind := argsort xs in
    let x := take (n0 N) xs ind in
    let len := Z.of_nat (length x) in
    if len <? 1 then inl ErrTooFew else
    match resolve_fill kw with
    | inl e => inl e
    | inr (extrap, be, below, above) =>
        (* _call_linear *)
        let idx := clip (searchsorted x f) 1 (len - 1) in
        let lo := idx - 1 in
        let hi := idx in
        let x_lo := pyget (n0 N) x lo in
        let x_hi := pyget (n0 N) x hi in
        let p := PLin ind lo hi ((x_hi - f) / (x_hi - x_lo))%num ((f - x_lo) / (x_hi - x_lo))%num in
        (* _evaluate / _check_bounds *)
        if extrap then inr p else
        let below_bounds := nltb N f (pyget (n0 N) x 0) in
        let above_bounds := nltb N (pyget (n0 N) x (-1)) f in
        if be && below_bounds then inl ErrBelowRange
        else if be && above_bounds then inl ErrAboveRange
        else inr (if above_bounds then PConst above else if below_bounds then PConst below else p)
    end.

  Definition interp1d (kw : i1kwargs) (xs ys : list T) (f : T) : ferr + T :=
    match interp1d_plan kw xs f with
    | inl e => inl e
    | inr p => inr (apply_plan p ys)
    end.

  (* ---- ScatFromData.freq_interp_matrices -------------------------------------------------- *)
  Definition mat := Z -> Z -> T.
  (* orig_matrices[key][k][j, i] as the list over k of the matrices *)
  Definition apply_plan_mat (p : plan) (ms : list mat) : mat :=
    fun j i => apply_plan p (map (fun M : mat => M j i) ms).

  (* the body of the key loop for a key that is present *)
  Definition freq_interp_one (kw : i1kwargs) (freqs : list T) (new_freq : T) (ms : list mat)
    : ferr + mat :=
    if (1 <? length freqs)%nat then
      match interp1d_plan kw freqs new_freq with
      | inl e => inl e
      | inr p => inr (apply_plan_mat p ms)
      end
    else match ms with [] => inl ErrIndex | _ :: _ => inr (apply_plan_mat (PTake 0) ms) end.

  Fixpoint freq_interp_loop (kw : i1kwargs) (freqs : list T) (new_freq : T)
           (D : sdict (list mat)) (keys : list skey) (out : sdict mat) : ferr + sdict mat :=
    match keys with
    | [] => inr out
    | k :: r =>
        match D k with
        | None => freq_interp_loop kw freqs new_freq D r out          (* except KeyError: continue *)
        | Some ms =>
            match freq_interp_one kw freqs new_freq ms with
            | inl e => inl e
            | inr m => freq_interp_loop kw freqs new_freq D r (dict_set out k m)
            end
        end
    end.

  (* the warning "No available scattering data at f=..." *)
  Definition freq_interp_warns (freqs : list T) (new_freq : T) : bool :=
    if (1 <? length freqs)%nat then false
    else match freqs with f0 :: _ => negb (neqb N new_freq f0) | [] => false end.

  Definition freq_interp_matrices (kw : i1kwargs) (freqs : list T) (new_freq : T)
             (D : sdict (list mat)) : ferr + sdict mat :=
    if (1 <? length freqs)%nat then freq_interp_loop kw freqs new_freq D SCAT_KEYS dict_empty
    else match freqs with
         | [] => inl ErrIndex                       (* frequencies[0] *)
         | _ :: _ => freq_interp_loop kw freqs new_freq D SCAT_KEYS dict_empty
         end.

  (* ---- ScatFromData.__call__(inc_theta, out_theta, frequency): to_compute is ignored -------- *)
  Definition scat_from_data_call (P : T) (n : Z) (kw : i1kwargs) (freqs : list T)
             (D : sdict (list mat)) (inc_theta out_theta frequency : T) : ferr + sdict T :=
    match freq_interp_matrices kw freqs frequency D with
    | inl e => inl e
    | inr matrices =>
        inr (fun k => match matrices k with
                      | Some M => Some (interp N P n M inc_theta out_theta)
                      | None => None
                      end)
    end.

  (* ---- make_angles_grid: np.meshgrid(theta, theta, indexing="xy") -------------------------- *)
  Definition make_angles_grid (P : T) (n : Z) : mat * mat :=
    (fun j i => angle N P n i, fun j i => angle N P n j).

  (* an elementwise scattering function evaluated on two grids *)
  Definition matrix_on_grid (f : T -> T -> T) (inc_g out_g : mat) : mat :=
    fun j i => f (inc_g j i) (out_g j i).
End Interp1d.

Arguments Extrapolate {T}.
Arguments PLin {T}. Arguments PConst {T}. Arguments PTake {T}.

(* ---- ScatFromData.__init__: validation of the shapes -------------------------------------- *)
Inductive init_err :=
| EFreqNot1d        (* 'frequencies' must be 1d *)
| ENoMatrix         (* at least one scattering matrix must be passed *)
| EShapesDiffer     (* scattering matrices must have the same shape *)
| EWrongShape.      (* Scattering matrices' shape must be (numfreq, numangles, numangles) *)

Definition shape := list nat.
Definition shape_eq_dec : forall a b : shape, {a = b} + {a <> b} := list_eq_dec Nat.eq_dec.

(* returns (numfreq, numangles) *)
Definition sfd_init (freq_shape : shape) (shapes : sdict shape) : init_err + (nat * nat) :=
  match (match freq_shape with
         | [] => inr 1%nat                 (* ndim == 0: np.array([frequencies]) *)
         | [k] => inr k
         | _ => inl EFreqNot1d
         end) with
  | inl e => inl e
  | inr numfreq =>
      let present := nodup shape_eq_dec
                       (flat_map (fun k => match shapes k with Some s => [s] | None => [] end) SCAT_KEYS) in
      match present with
      | [] => inl ENoMatrix
      | [s] =>
          match s with
          | [a; b; c] =>
              if negb (b =? c)%nat then inl EWrongShape
              else if negb (a =? numfreq)%nat then inl EWrongShape
              else inr (numfreq, b)
          | _ => inl EWrongShape
          end
      | _ => inl EShapesDiffer
      end
  end.

(* ---- as_single_freq_matrices / as_multi_freq_matrices -------------------------------------- *)
Inductive dtype := F64 | C128.

Section Matrices.
  Context {T : Type} (N : Num T).
  Definition cmat := Z -> Z -> T * T.           (* entries (re, im) *)
  Definition arr3 := nat -> Z -> Z -> T * T.    (* [k][j, i] *)
  (* a Scattering2d object: __call__(inc_theta, out_theta, frequency, to_compute) on two grids *)
  Definition scat_call := mat (T:=T) -> mat (T:=T) -> T -> list skey -> sdict (dtype * cmat).

  Definition as_single_freq_matrices (S : scat_call) (P : T) (frequency : T) (n : Z)
             (to_compute : list skey) : sdict (dtype * cmat) :=
    let '(inc_theta, out_theta) := make_angles_grid N P n in
    S inc_theta out_theta frequency to_compute.

  (* assignment into an array of dtype dt: a complex value stored into a float array loses its
     imaginary part (ComplexWarning), everything else is kept *)
  Definition cast_to (dt : dtype) (v : T * T) : T * T :=
    match dt with F64 => (fst v, n0 N) | C128 => v end.

  Inductive multi_err := MKeyError (k : skey).

  (* out = {scat_key: np.zeros((len(frequencies), n, n), matrices[scat_key].dtype) for scat_key in to_compute} *)
  Fixpoint multi_init (tc : list skey) (matrices : sdict (dtype * cmat)) (acc : sdict (dtype * arr3))
    : multi_err + sdict (dtype * arr3) :=
    match tc with
    | [] => inr acc
    | k :: r =>
        match matrices k with
        | None => inl (MKeyError k)
        | Some (dt, _) => multi_init r matrices (dict_set acc k (dt, fun _ _ _ => (n0 N, n0 N)))
        end
    end.

  (* for scat_key in to_compute: out[scat_key][i] = matrices[scat_key] *)
  Fixpoint multi_assign (tc : list skey) (matrices : sdict (dtype * cmat)) (i : nat)
           (acc : sdict (dtype * arr3)) : multi_err + sdict (dtype * arr3) :=
    match tc with
    | [] => inr acc
    | k :: r =>
        match matrices k with
        | None => inl (MKeyError k)
        | Some (_, m) =>
            match acc k with
            | None => inl (MKeyError k)
            | Some (dt, a) =>
                multi_assign r matrices i
                  (dict_set acc k (dt, fun i' => if Nat.eqb i' i then (fun j l => cast_to dt (m j l)) else a i'))
            end
        end
    end.

  Fixpoint multi_loop (S : scat_call) (inc_theta out_theta : mat (T:=T)) (tc : list skey)
           (i : nat) (fs : list T) (out : option (sdict (dtype * arr3)))
    : multi_err + option (sdict (dtype * arr3)) :=
    match fs with
    | [] => inr out
    | f :: r =>
        let matrices := S inc_theta out_theta f tc in
        match (match out with
               | None => multi_init tc matrices dict_empty   (* late initialisation *)
               | Some o => inr o
               end) with
        | inl e => inl e
        | inr o =>
            match multi_assign tc matrices i o with
            | inl e => inl e
            | inr o' => multi_loop S inc_theta out_theta tc (Datatypes.S i) r (Some o')
            end
        end
    end.

  (* returns None (Python None) for an empty list of frequencies *)
  Definition as_multi_freq_matrices (S : scat_call) (P : T) (frequencies : list T) (n : Z)
             (to_compute : list skey) : multi_err + option (sdict (dtype * arr3)) :=
    let '(inc_theta, out_theta) := make_angles_grid N P n in
    multi_loop S inc_theta out_theta to_compute 0%nat frequencies None.
End Matrices.

(* ---- rotate_matrices / interpolate_matrices: {key: g(m) for key, m in d.items()} ----------- *)
Definition dict_map_values {K A B} (g : A -> B) (items : list (K * A)) : list (K * B) :=
  map (fun kv => (fst kv, g (snd kv))) items.

(* dict lookup in an item list with distinct keys *)
Fixpoint lookup {K A} (eqb : K -> K -> bool) (k : K) (items : list (K * A)) : option A :=
  match items with
  | [] => None
  | (k', v) :: r => if eqb k k' then Some v else lookup eqb k r
  end.

(* rotate_matrices by a whole number k of grid steps (rotate_matrix = shift_matrix, C10) *)
Definition rotate_matrices_steps {K T} (n k : Z) (items : list (K * (Z -> Z -> T))) :=
  dict_map_values (shift_matrix n k) items.

(* ---- scat_factory --------------------------------------------------------------------------- *)
(* str.lower() on ASCII strings *)
Definition lower_ascii (c : ascii) : ascii :=
  let n := N_of_ascii c in
  if ((65 <=? n) && (n <=? 90))%N then ascii_of_N (n + 32) else c.
Fixpoint lower (s : string) : string :=
  match s with
  | EmptyString => EmptyString
  | String c r => String (lower_ascii c) (lower r)
  end.

Record material (A : Type) := mk_material { m_vl : A; m_vt : A; m_rho : A }.
Arguments mk_material {A}. Arguments m_vl {A}. Arguments m_vt {A}. Arguments m_rho {A}.

Inductive scat_ctor := CLoadScat | CCrackCentreScat | CCrackTipScat | CSdhScat | CPointSourceScat.
(* the call that scat_factory makes: callee, positional arguments, keyword arguments in order *)
Record ctor_call (A : Type) := mk_call { c_ctor : scat_ctor; c_args : list A; c_kwargs : list (string * A) }.
Arguments mk_call {A}. Arguments c_ctor {A}. Arguments c_args {A}. Arguments c_kwargs {A}.

Local Open Scope string_scope.
(* inl s = NotImplementedError("no strategy for kind='s'") *)
Definition scat_factory {A} (kind : string) (m : material A) (args : list A) (kwargs : list (string * A))
  : string + ctor_call A :=
  let kind := lower kind in
  if String.eqb kind "file" then inr (mk_call CLoadScat args kwargs)
  else if String.eqb kind "crack_centre" then
    inr (mk_call CCrackCentreScat args
           ([("longitudinal_vel", m_vl m); ("transverse_vel", m_vt m); ("density", m_rho m)] ++ kwargs))
  else if String.eqb kind "crack_tip" then
    inr (mk_call CCrackTipScat (m_vl m :: m_vt m :: args) kwargs)
  else if String.eqb kind "sdh" then
    inr (mk_call CSdhScat args ([("longitudinal_vel", m_vl m); ("transverse_vel", m_vt m)] ++ kwargs))
  else if String.eqb kind "point" then
    inr (mk_call CPointSourceScat (m_vl m :: m_vt m :: args) kwargs)
  else inl kind.
