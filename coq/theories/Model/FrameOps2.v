(* Model/FrameOps2.v — C15, second part of the model: the glue of arim.core.Frame around the
   row bookkeeping of Model/Frame.v.  Definitions only (lemmas: Proofs/FrameOps2Proofs.v);
   imports Model/Frame.v and, for the numpy index expressions and the whole Probe object,
   Model/ProbeOps.v of C16 (never edits them).

   What Model/Frame.v abstracts away and this file spells out, statement by statement:
     * a Frame is NOT a list of rows (tx, rx, samples) but three parallel arrays
       `timetraces`, `tx`, `rx` (+ time, probe, examination_object, metadata) that every
       method indexes / rebuilds separately and hands to Frame.__init__ again;
     * Frame.__init__ (core.py:128-170): the checks in their order and the exception each
       raises (time without .samples, dtype kind of tx / rx, shapes, duplicate pairs),
       metadata None -> {};
     * the index argument of Frame.subframe (core.py:323-354) and
       Frame.subframe_from_probe_elements (core.py:356-410) is ANY numpy index: one
       integer, a list of (possibly negative, possibly repeated) integers, a slice
       (None / negative start, stop, step), a boolean mask (array or list; of the length of
       the axis, or the EMPTY boolean array, which numpy accepts on any axis) — the np_idx of
       Model/ProbeOps.v, with Python's slice.indices;  the same index expression is used
       three times (np.arange(numelements)[idx], Probe.subprobe(idx), mapper[idx] = ...);
     * np.isin is membership (whatever the order / repetitions of the retained elements);
     * Frame.get_timetrace (core.py:222-242) with any integer arguments;
     * Frame.expand_frame_assuming_reciprocity (core.py:252-305) through the dictionary
       pair -> ROW INDEX and the row-by-row copy into a new array, new_tx, new_rx = the unzipped all_pairs;
     * Frame.apply_filter (core.py:194-220) for an ARBITRARY filter of the 2-D array (it may
       mix rows or change the shape; the constructor then decides);
     * Frame.capture_method (core.py:190-192) = CaptureMethod[ut.infer_capture_method(tx, rx)]:
       the metadata dictionary is never consulted; every method passes metadata, time and
       examination_object on by reference.

   Encoding.  A 2-D array is the list of its rows (a 0-row array has no observable width:
   encode only (0, numsamples) arrays that way).  tx / rx entries are naturals (element
   labels); their dtype kind is a separate tag.  A raise of the implementation is
   `Err <exception class>`. *)
From Coq Require Import Arith List Bool ZArith.
From Arim Require Import Base.Num Model.Vec3 Model.Probe Model.ProbeOps.
From Arim Require Import Model.Frame.
Import ListNotations.

(* ---- results: the exception classes that can escape ------------------------------------ *)
Inductive ferror : Type :=
| ErrType          (* TypeError *)
| ErrValue         (* ValueError *)
| ErrIndex         (* IndexError *)
| ErrKey           (* KeyError *)
| ErrDimension     (* arim.exceptions.InvalidDimension *)
| ErrShape.        (* arim.exceptions.InvalidShape *)

Inductive res (A : Type) : Type := Ok (a : A) | Err (e : ferror).
Arguments Ok {A}. Arguments Err {A}.

Definition res_opt {A} (r : res A) : option A := match r with Ok a => Some a | Err _ => None end.
Definition rbind {A B} (r : res A) (k : A -> res B) : res B :=
  match r with Ok a => k a | Err e => Err e end.
Definition of_opt {A} (e : ferror) (o : option A) : res A :=
  match o with Some a => Ok a | None => Err e end.

(* np.asarray(x).dtype.kind *)
Inductive dkind : Type := KInt | KUInt | KBool | KFloat | KOther.
Definition is_index_kind (k : dkind) : bool := match k with KInt | KUInt => true | _ => false end.

(* the exception of a failing x[idx]: "slice step cannot be zero" is a ValueError, an integer
   out of bounds or a boolean mask of the wrong length an IndexError *)
Definition idx_error (idx : np_idx) : ferror :=
  match idx with IdxSlice _ _ _ => ErrValue | _ => ErrIndex end.

(* x[idx] on axis 0, keeping the axis (idx is not a bare integer) *)
Definition take_res {A} (idx : np_idx) (l : list A) : res (list A) := of_opt (idx_error idx) (np_take idx l).

(* np.arange(n)[idx] as np.isin sees it: a bare integer gives one (0-d) value *)
Definition retained_elements (n : nat) (idx : np_idx) : res (list nat) :=
  match idx with
  | IdxInt k => match py_index (seq 0 n) k with Some e => Ok [e] | None => Err ErrIndex end
  | _ => take_res idx (seq 0 n)
  end.

(* np.logical_and(np.isin(tx, E), np.isin(rx, E)) *)
Definition retained_mask (E : list nat) (tx rx : list nat) : list bool :=
  map (fun p => isin (fst p) E && isin (snd p) E) (combine tx rx).

(* mapper = np.zeros(numelements, int); mapper[elements_idx] = np.arange(k): the positions
   designated by the index (E) receive 0 .. k-1 in order, a later assignment overriding an
   earlier one; numpy refuses (ValueError) values that do not match the selection *)
Definition assign_arange (numel : nat) (E : list nat) (k : nat) : res (list nat) :=
  if length E =? k
  then Ok (fold_left (fun m ke => set_nth m (snd ke) (fst ke)) (combine (seq 0 k) E) (repeat 0 numel))
  else Err ErrValue.

(* mapper[a] for an array a of naturals *)
Definition gather (m : list nat) (a : list nat) : res (list nat) := of_opt ErrIndex (mapM (nth_error m) a).

(* pair_to_scan_idx = {(tx, rx): i for i, (tx, rx) in enumerate(zip(tx, rx))} ; d[k] *)
Definition index_last (pairs : list (nat * nat)) (k : nat * nat) : option nat :=
  fold_left (fun acc ip => if pair_eqb (snd ip) k then Some (fst ip) else acc)
            (combine (seq 0 (length pairs)) pairs) None.

Section Frame2.
  Variable S : Type.          (* one sample *)
  Variable L : Type.          (* what is known of one probe element *)
  Variable M : Type.          (* the metadata dictionary *)
  Variable X : Type.          (* the examination object *)

  Definition array2 := list (list S).

  Record frame2 : Type := mkFrame2 {
    f_tt : array2;            (* timetraces *)
    f_ns : nat;               (* len(time) = numsamples *)
    f_tx : list nat;
    f_rx : list nat;
    f_probe : list L;
    f_exam : X;
    f_meta : M;
    f_ntt : nat               (* numtimetraces *)
  }.

  (* Frame.__init__(timetraces, time, tx, rx, probe, examination_object, metadata).
     time_ok: `time.samples` exists; ns = len(time); ktx / krx = dtype kinds. *)
  Definition init_core (time_ok : bool) (ns : nat) (tt : array2) (ktx : dkind) (tx : list nat)
      (krx : dkind) (rx : list nat) (pr : list L) (ex : X) (meta : M) : res frame2 :=
    if negb time_ok then Err ErrType
    else if negb (is_index_kind ktx) then Err ErrType
    else if negb (is_index_kind krx) then Err ErrType
    else if negb (forallb (fun row => length row =? ns) tt) then Err ErrShape   (* (None, numsamples) *)
    else
      let numtimetraces := length tt in
      if negb (length tx =? numtimetraces) then Err ErrShape
      else if negb (length rx =? numtimetraces) then Err ErrShape
      else if negb (nodupb (combine tx rx)) then Err ErrValue                    (* duplicate timetraces *)
      else Ok (mkFrame2 tt ns tx rx pr ex meta numtimetraces).

  (* `if metadata is None: metadata = {}` (the assignment is the last statement of the
     constructor; it cannot raise, so resolving the default first is the same function) *)
  Definition init_frame (mempty : M) (time_ok : bool) (ns : nat) (tt : array2) (ktx : dkind) (tx : list nat)
      (krx : dkind) (rx : list nat) (pr : list L) (ex : X) (meta : option M) : res frame2 :=
    init_core time_ok ns tt ktx tx krx rx pr ex (match meta with None => mempty | Some m => m end).

  (* self.__class__(timetraces, self.time, tx, rx, probe, self.examination_object, self.metadata):
     the tail shared by every method that returns a new frame (index arrays built by numpy
     indexing / zip of ints are of integer kind) *)
  Definition reinit (F : frame2) (tt : array2) (tx rx : list nat) (pr : list L) : res frame2 :=
    init_core true (f_ns F) tt KInt tx KInt rx pr (f_exam F) (f_meta F).

  Definition pairs_of (F : frame2) : list (nat * nat) := combine (f_tx F) (f_rx F).

  (* Frame.capture_method: CaptureMethod[ut.infer_capture_method(self.tx, self.rx)]
     (None: np.max of an empty array raises ValueError) *)
  Definition capture_method2 (F : frame2) : option capture := infer_capture_method (pairs_of F).

  Definition is_complete2 (F : frame2) : bool := set_eqb (pairs_of F) (map swap (pairs_of F)).

  (* Frame.get_timetrace(tx, rx): match = (self.tx == tx) & (self.rx == rx);
     self.timetraces[match]; exactly one row or IndexError *)
  Definition get_timetrace2 (F : frame2) (t r : Z) : res (list S) :=
    let mtch := map (fun p => Z.eqb (Z.of_nat (fst p)) t && Z.eqb (Z.of_nat (snd p)) r) (pairs_of F) in
    match np_take (IdxMask mtch) (f_tt F) with
    | Some [row] => Ok row
    | _ => Err ErrIndex
    end.

  (* Frame.subframe(timetraces_idx) *)
  Definition subframe2 (F : frame2) (idx : np_idx) : res frame2 :=
    match idx with
    | IdxInt k =>
        (* timetraces[k] is 1-D: IndexError if out of bounds, else the constructor refuses it *)
        match py_index (f_tt F) k with None => Err ErrIndex | Some _ => Err ErrDimension end
    | _ =>
        rbind (take_res idx (f_tt F)) (fun tt =>
        rbind (take_res idx (f_tx F)) (fun tx =>
        rbind (take_res idx (f_rx F)) (fun rx =>
        reinit F tt tx rx (f_probe F))))
    end.

  (* Frame.subframe_from_probe_elements(elements_idx, make_subprobe) *)
  Definition sub_elements2 (F : frame2) (idx : np_idx) (make_subprobe : bool) : res frame2 :=
    let numel := length (f_probe F) in
    rbind (retained_elements numel idx) (fun E =>
    let m := retained_mask E (f_tx F) (f_rx F) in
    if negb make_subprobe then subframe2 F (IdxMask m)
    else
      match idx with
      | IdxInt _ => Err ErrType                      (* Probe.subprobe(int): "Points is unsized" *)
      | _ =>
        rbind (take_res idx (f_probe F)) (fun sp =>                  (* self.probe.subprobe(elements_idx) *)
        rbind (assign_arange numel E (length sp)) (fun mp =>         (* mapper *)
        rbind (take_res (IdxMask m) (f_tx F)) (fun tx0 =>
        rbind (gather mp tx0) (fun tx1 =>
        rbind (take_res (IdxMask m) (f_rx F)) (fun rx0 =>
        rbind (gather mp rx0) (fun rx1 =>
        rbind (take_res (IdxMask m) (f_tt F)) (fun tt0 =>
        reinit F tt0 tx1 rx1 sp)))))))
      end).

  (* the row copied into new_timetraces[new_scan_idx] *)
  Definition expand_row (F : frame2) (k : nat * nat) : res (list S) :=
    match index_last (pairs_of F) k with
    | Some i => of_opt ErrIndex (nth_error (f_tt F) i)
    | None => match index_last (pairs_of F) (swap k) with
              | Some i => of_opt ErrIndex (nth_error (f_tt F) i)
              | None => Err ErrKey
              end
    end.

  Fixpoint rmapM {A B} (g : A -> res B) (l : list A) : res (list B) :=
    match l with
    | [] => Ok []
    | x :: l' => rbind (g x) (fun y => rbind (rmapM g l') (fun r => Ok (y :: r)))
    end.

  (* Frame.expand_frame_assuming_reciprocity() *)
  Definition expand2 (F : frame2) : res frame2 :=
    let orig_pairs := pairs_of F in
    let reciprocal_pairs := map swap (pairs_of F) in
    if set_eqb orig_pairs reciprocal_pairs then Ok F            (* return self *)
    else
      let all_pairs := sorted_set (orig_pairs ++ reciprocal_pairs) in
      rbind (rmapM (expand_row F) all_pairs) (fun new_timetraces =>
      reinit F new_timetraces (map fst all_pairs) (map snd all_pairs) (f_probe F)).

  (* Frame.apply_filter(filt): filt sees the whole 2-D array *)
  Definition apply_filter2 (filt : array2 -> array2) (F : frame2) : res frame2 :=
    reinit F (filt (f_tt F)) (f_tx F) (f_rx F) (f_probe F).

  (* ---- histories -------------------------------------------------------------------------- *)
  Inductive op2 : Type :=
  | Op2Subframe (idx : np_idx)
  | Op2Elements (idx : np_idx) (make_subprobe : bool)
  | Op2Expand
  | Op2Filter (filt : array2 -> array2).

  Definition step2 (o : op2) (F : frame2) : res frame2 :=
    match o with
    | Op2Subframe idx => subframe2 F idx
    | Op2Elements idx mk => sub_elements2 F idx mk
    | Op2Expand => expand2 F
    | Op2Filter filt => apply_filter2 filt F
    end.

  Fixpoint run2 (ops : list op2) (F : frame2) : res frame2 :=
    match ops with
    | [] => Ok F
    | o :: ops' => rbind (step2 o F) (run2 ops')
    end.

  (* ---- the view of Model/Frame.v: rows (tx, rx, samples) and the probe -------------------- *)
  Definition rows_of (F : frame2) : frame (list S) := combine (combine (f_tx F) (f_rx F)) (f_tt F).
  Definition abs_state (F : frame2) : state (list S) L := (f_probe F, rows_of F).
End Frame2.

Arguments mkFrame2 {S L M X}. Arguments f_tt {S L M X}. Arguments f_ns {S L M X}.
Arguments f_tx {S L M X}. Arguments f_rx {S L M X}. Arguments f_probe {S L M X}.
Arguments f_exam {S L M X}. Arguments f_meta {S L M X}. Arguments f_ntt {S L M X}.
Arguments init_core {S L M X}. Arguments init_frame {S L M X}. Arguments reinit {S L M X}. Arguments pairs_of {S L M X}.
Arguments capture_method2 {S L M X}. Arguments is_complete2 {S L M X}.
Arguments get_timetrace2 {S L M X}. Arguments subframe2 {S L M X}. Arguments sub_elements2 {S L M X}.
Arguments expand_row {S L M X}. Arguments expand2 {S L M X}. Arguments apply_filter2 {S L M X}.
Arguments Op2Subframe {S}. Arguments Op2Elements {S}. Arguments Op2Expand {S}. Arguments Op2Filter {S}.
Arguments step2 {S L M X}. Arguments run2 {S L M X}. Arguments rows_of {S L M X}.
Arguments abs_state {S L M X}. Arguments rmapM {A B}.

(* ---- the whole Probe object of C16 as a list of per-element attribute tuples -------------
   (location, orientation or None, dimensions or None, shape or None, dead flag): what the
   `L` of a frame stands for when the probe is a real arim.core.Probe *)
Definition spread {A} (n : nat) (o : option (list A)) : list (option A) :=
  match o with None => repeat None n | Some l => map Some l end.

Section ProbeElems.
  Context {T : Type}.
  Definition elem_attr : Type := (vec3 T * (option (vec3 T) * (option (vec3 T) * (option Z * bool))))%type.
  Definition probe_elems (px : probe_x (T:=T)) : list elem_attr :=
    let n := length (p_locs (x_core px)) in
    combine (p_locs (x_core px))
      (combine (spread n (p_oris (x_core px)))
        (combine (spread n (x_dims px)) (combine (spread n (x_shapes px)) (x_dead px)))).
End ProbeElems.

(* ---- Z-facing wrappers for replaying examples against the library ------------------------- *)
Definition zlist (l : list nat) : list Z := map Z.of_nat l.
Definition frame2_view {S L M X} (F : frame2 S L M X) : list Z * list Z * list (list S) * list L * M :=
  (zlist (f_tx F), zlist (f_rx F), f_tt F, f_probe F, f_meta F).
Definition res_view {S L M X} (r : res (frame2 S L M X)) :=
  match r with Ok F => Ok (frame2_view F) | Err e => Err e end.
