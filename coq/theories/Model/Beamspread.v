(* Model/Beamspread.v — arim.model.beamspread_2d_for_path and
   reverse_beamspread_2d_for_path for ONE ray, written over a Num record
   (C06, C07, C03).

   A ray through interfaces A_0 .. A_n has n legs.  Inputs, as the code reads them:
     vel   = [v_0; ...; v_{n-1}]      velocities of the legs (fermat_path.velocities)
     legs  = [r_1; ...; r_n]          inc_leg_size(1..n)
     thetas= [th_1; ...; th_{n-1}]    conventional_inc_angle(1..n-1)
   Loop structure, operation order and the recomputation of the prefix product
   of gammas for every k are those of the source. *)
From Coq Require Import List ZArith.
From Arim Require Import Base.Num.
Import ListNotations.

Section Beamspread.
  Context {T : Type} (N : Num T).
  Local Notation "a + b" := (nadd N a b).
  Local Notation "a - b" := (nsub N a b).
  Local Notation "a * b" := (nmul N a b).
  Local Notation "a / b" := (ndiv N a b).

  (* gamma_list.append((nu*nu - sin*sin) / (nu*cos*cos)), nu = v[k-1]/v[k] *)
  Definition gamma_of (v_prev v_cur theta : T) : T :=
    let nu := v_prev / v_cur in
    let s := nsin N theta in let c := ncos N theta in
    (nu * nu - s * s) / (nu * c * c).

  (* for k in range(1, n): theta_k, v[k-1], v[k] *)
  Fixpoint gamma_list (vel thetas : list T) : list T :=
    match vel, thetas with
    | v0 :: ((v1 :: _) as vel'), th :: thetas' => gamma_of v0 v1 th :: gamma_list vel' thetas'
    | _, _ => []
    end.

  (* gamma = 1.0; for i in range(k): gamma *= gamma_list[i] *)
  Definition gamma_prefix (gl : list T) (k : nat) : T :=
    fold_left (fun g x => g * x) (firstn k gl) (n1 N).

  (* virtual_distance = r_1; for k in 1..n-1: virtual_distance += r_{k+1} / gamma_prefix k *)
  Definition virtual_distance (legs gl : list T) : T :=
    match legs with
    | [] => n0 N   (* n = 0: the code raises (inc_leg_size(1) does not exist); never used *)
    | r1 :: rest =>
        fold_left (fun vd kr => vd + snd kr / gamma_prefix gl (fst kr))
                  (combine (seq 1 (length rest)) rest) r1
    end.

  (* np.reciprocal(np.sqrt(virtual_distance)) *)
  Definition beamspread (vel legs thetas : list T) : T :=
    n1 N / nsqrt N (virtual_distance legs (gamma_list vel thetas)).

  (* ---- reverse_beamspread_2d_for_path --------------------------------
     for k in 1..n-1: theta = conventional_inc_angle(n-k),
                      nu = v[n-k] / v[n-k-1],
                      gamma = nu*cos^2 / (1 - nu^2 sin^2)
     virtual_distance = r_n; for k in 1..n-1: += r_{n-k} / prefix_k
     i.e. the same accumulation on the reversed lists. *)
  Definition rev_gamma_of (v_next v_prev theta : T) : T :=
    let nu := v_next / v_prev in
    let s := nsin N theta in let c := ncos N theta in
    (nu * c * c) / (n1 N - nu * nu * s * s).

  (* on reversed inputs: rvel = [v_{n-1}; ...; v_0], rthetas = [th_{n-1}; ...; th_1] *)
  Fixpoint rev_gamma_list (rvel rthetas : list T) : list T :=
    match rvel, rthetas with
    | vn :: ((vp :: _) as rvel'), th :: rthetas' => rev_gamma_of vn vp th :: rev_gamma_list rvel' rthetas'
    | _, _ => []
    end.

  Definition reverse_beamspread (vel legs thetas : list T) : T :=
    n1 N / nsqrt N (virtual_distance (rev legs) (rev_gamma_list (rev vel) (rev thetas))).
End Beamspread.

(* ---- material_attenuation_for_path for one ray --------------------------------
   log_att = 0; for each leg k (in path order): if the material has an attenuation for the
   leg's mode: log_att -= att_coeff * inc_leg_size(k); result exp(log_att).
   `atts` holds one optional coefficient per leg (None = no attenuation defined). *)
Section Attenuation.
  Context {T : Type} (N : Num T).
  Definition attenuation (atts : list (option T)) (legs : list T) : T :=
    nexp N (fold_left (fun acc ar => match fst ar with
                                     | None => acc
                                     | Some a => nsub N acc (nmul N a (snd ar))
                                     end) (combine atts legs) (n0 N)).
End Attenuation.

(* ---- specification: divergence of an infinitesimal ray tube ---------------
   State after a leg: (rho, amp) = (radius of curvature of the wavefront at the
   end of the leg, amplitude there).  Leg 1: (r_1, 1/sqrt r_1).  Crossing an
   interface multiplies the radius of curvature by beta (curvature_transfer);
   along the next leg of length r the tube cross-section grows from rho*beta to
   rho*beta + r, and in 2D the amplitude scales with 1/sqrt(cross-section). *)
Section Tube.
  Context {T : Type} (N : Num T).
  Definition tube_step (st : T * T) (br : T * T) : T * T :=
    let '(rho, amp) := st in let '(beta, r) := br in
    let rho_start := nmul N rho beta in
    let rho_end := nadd N rho_start r in
    (rho_end, nmul N amp (nsqrt N (ndiv N rho_start rho_end))).

  Definition tube (legs betas : list T) : T * T :=
    match legs with
    | [] => (n0 N, n0 N)
    | r1 :: rest => fold_left tube_step (combine betas rest) (r1, ndiv N (n1 N) (nsqrt N r1))
    end.

  (* Snell refraction/reflection of the tube:
     beta = c_in cos^2(th_out) / (c_out cos^2(th_in)) *)
  Definition beta_of (c_in c_out cos_in cos_out : T) : T :=
    ndiv N (nmul N c_in (nmul N cos_out cos_out)) (nmul N c_out (nmul N cos_in cos_in)).

  (* betas of a whole ray from its velocities and incidence angles, the outgoing
     angle being given by Snell's law: sin(th_out) = (c_out/c_in) sin(th_in) *)
  Fixpoint snell_betas (vel thetas : list T) : list T :=
    match vel, thetas with
    | v0 :: ((v1 :: _) as vel'), th :: thetas' =>
        let s_out := nmul N (ndiv N v1 v0) (nsin N th) in
        let cos_out2 := nsub N (n1 N) (nmul N s_out s_out) in
        ndiv N (nmul N v0 cos_out2) (nmul N v1 (nmul N (ncos N th) (ncos N th)))
        :: snell_betas vel' thetas'
    | _, _ => []
    end.

  Definition tube_amplitude (vel legs thetas : list T) : T := snd (tube legs (snell_betas vel thetas)).
End Tube.
