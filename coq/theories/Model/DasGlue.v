(* Model/DasGlue.v — the glue of arim.im.das around the numba kernels of Model/Das.v (C02):

     das.delay_and_sum                 the dispatcher on focal_law.amplitudes          plan / das_call
     das.delay_and_sum_numba           TxRxAmplitudes path                             plan_amp
     das.delay_and_sum_numba_noamp     no-amplitude path                               plan_noamp
     das._check_shapes                 the assertions, in source order                 check_shapes
     das._infer_datatypes              np.result_type of the data arrays               infer_datatypes
     tfm.FocalLaw.__init__, TxRxAmplitudes.__init__, numtimetraces / numtx / ...       focal_law_init, txrx_init
     tfm.FocalLaw.weigh_timetraces     broadcasting rule, dtype, object identity       weighted_rows, weigh_desc, weigh_obj
     `result=`                         np.full((numpoints,), 0, dtype_data) or the caller's array, FILLED by
                                       `result[point] = ...` in a prange                write_pixels / store
     `interpolation` / `aggregation`   a name or a (name, args...) tuple, `.lower()`   pyopt, lower, interp_code, aggr_code

   Two layers:
     plan      : a call described by shapes / dtypes / contiguity flags / option spellings  ->
                 the first exception in evaluation order, or "the kernel k runs and the returned
                 array has dtype d and is (not) the caller's object", or "undefined" (the library
                 checks nothing and the kernel would read out of bounds);
     das_call  : the same call with the data: plan, then the kernels of Model/Das.v and Model/Robust.v
                 on the broadcast weights, then the writes into `result`.
   Everything is total and computable; no theorem here. *)
From Coq Require Import Ascii String.
From Coq Require Import List ZArith Bool.
From Arim Require Import Base.Num Model.Das Model.Robust.
Import ListNotations.

(* ==========================================================================
   1. dtypes: the four floating dtypes of the statement.  NumPy promotion on them is the join of
      (real < complex) x (single < double). *)
Inductive dtype := F32 | F64 | C64 | C128.

Definition is_cplx (d : dtype) : bool := match d with C64 | C128 => true | _ => false end.
Definition is_dbl (d : dtype) : bool := match d with F64 | C128 => true | _ => false end.
Definition mk_dtype (c b : bool) : dtype :=
  if c then (if b then C128 else C64) else (if b then F64 else F32).
(* np.promote_types(a, b) *)
Definition promote (a b : dtype) : dtype := mk_dtype (is_cplx a || is_cplx b) (is_dbl a || is_dbl b).
(* np.result_type( *arrays_and_dtypes ): ValueError without argument *)
Definition result_type (l : list dtype) : option dtype :=
  match l with [] => None | d :: r => Some (fold_left promote r d) end.

Definition dtype_eqb (a b : dtype) : bool :=
  match a, b with F32, F32 | F64, F64 | C64, C64 | C128, C128 => true | _, _ => false end.

(* `dtype_data != np.complex_` looks at this class only *)
Definition class_of (d : dtype) : dtype_class :=
  match d with C128 => DComplex128 | C64 => DComplex64 | _ => DReal end.

(* das._infer_datatypes(timetraces, focal_law, result):
     dtype_float = np.result_type(lookup_times_tx, lookup_times_rx)
     dtype_amp   = None | focal_law.amplitudes.dtype
     data_arrays = [timetraces] or [timetraces, dtype_amp]; if result is not None: append(result)
     dtype_data  = np.result_type( *data_arrays ) *)
Definition infer_datatypes (timetraces ltx lrx : dtype) (amp : option dtype) (result : option dtype)
  : option (dtype * option dtype * dtype) :=
  let dtype_float := result_type [ltx; lrx] in
  let data_arrays :=
    (match amp with Some a => [timetraces; a] | None => [timetraces] end)
    ++ (match result with Some r => [r] | None => [] end) in
  match dtype_float, result_type data_arrays with
  | Some f, Some d => Some (f, amp, d)
  | _, _ => None
  end.

(* ==========================================================================
   2. the spelling of `interpolation` / `aggregation`: str.lower() on ASCII, then comparison *)
Definition lower_ascii (c : ascii) : ascii :=
  let n := nat_of_ascii c in
  if (65 <=? n)%nat && (n <=? 90)%nat then ascii_of_nat (n + 32) else c.
Fixpoint lower (s : string) : string :=
  match s with EmptyString => EmptyString | String c r => String (lower_ascii c) (lower r) end.

Definition interp_code (lowered : string) : Z :=
  if (lowered =? "nearest")%string then 0%Z
  else if (lowered =? "linear")%string then 1%Z
  else if (lowered =? "lanczos")%string then 2%Z else 3%Z.
Definition aggr_code (lowered : string) : Z :=
  if (lowered =? "mean")%string then 0%Z
  else if (lowered =? "median")%string then 1%Z
  else if (lowered =? "huber")%string then 2%Z else 3%Z.

(* what the caller passes: a string, a non-empty sequence (name, args...), or an empty sequence *)
Inductive pyopt (X : Type) := PStr (s : string) | PTup (s : string) (args : list X) | PEmpty.
Arguments PStr {X}. Arguments PTup {X}. Arguments PEmpty {X}.

(* if isinstance(x, str): name = x.lower(); args = ()  else: name = x[0].lower(); args = x[1:] *)
Definition to_interp_arg {X} (o : pyopt X) : option interp_arg :=
  match o with
  | PStr s => Some (IStr (interp_code (lower s)))
  | PTup s args => Some (ITuple (interp_code (lower s)) (Z.of_nat (length args)))
  | PEmpty => None                                   (* x[0]: IndexError *)
  end.
Definition to_aggr_arg {X} (o : pyopt X) : option aggr_arg :=
  match o with
  | PStr s => Some (AStr (aggr_code (lower s)))
  | PTup s args => Some (ATuple (aggr_code (lower s)) (Z.of_nat (length args)))
  | PEmpty => None
  end.
Definition first_arg {X} (dflt : X) (o : pyopt X) : X :=
  match o with PTup _ (a :: _) => a | _ => dflt end.
Definition map_name {X} (f : string -> string) (o : pyopt X) : pyopt X :=
  match o with PStr s => PStr (f s) | PTup s args => PTup (f s) args | PEmpty => PEmpty end.

(* ==========================================================================
   3. exceptions, by site *)
Inductive assert_site :=
  (* das._check_shapes, in source order *)
  | SAmpTxShape | SAmpRxShape | SAmpTxContig | SAmpRxContig
  | SFrameTxShape | SFrameRxShape
  | SLtxContig | SLrxContig | STtContig | STxContig | SRxContig
  (* FocalLaw.weigh_timetraces: assert timetraces.ndim == 2 *)
  | STtNdim
  (* assert result.shape == (numpoints,) *)
  | SResultShape
  (* assert len(interpolation_args) == ... *)
  | SInterpArgs.

Inductive err :=
  | EAssert (s : assert_site)   (* AssertionError *)
  | EBroadcast                  (* ValueError: operands could not be broadcast together (weigh_timetraces) *)
  | ENotImpl                    (* NotImplementedError *)
  | ENotImplTyping              (* das.NotImplementedTyping (NotImplementedError and TypeError) *)
  | EValueInterp                (* ValueError: invalid interpolation *)
  | EAttribute                  (* 'tuple' object has no attribute 'lower' (amplitude path) *)
  | EIndex                      (* x[0] on an empty sequence *)
  | EUnbound                    (* UnboundLocalError: das_func (unknown aggregation, no-amplitude path) *)
  | EArgCount                   (* TypeError: too many / not enough arguments for the kernel *)
  | ETyping                     (* numba TypingError: a complex value stored into a real array *)
  | EKernelRuntime.             (* the robust kernel fails inside numba at run time (observed: SystemError):
                                   datapoints.view(np.float_).reshape((n, 2)) on timetraces that are not complex128 *)

Definition err_of_class (e : err_class) : err :=
  match e with
  | ENotImplemented => ENotImpl
  | ENotImplementedTyping => ENotImplTyping
  | EValue => EValueInterp
  | Das.EAttribute => EAttribute
  | EAssertion => EAssert SInterpArgs
  | EUnboundLocal => EUnbound
  | Das.EArgCount => EArgCount
  end.

(* nothing is checked and the kernel reads out of bounds (never executed by the tie) *)
Inductive undef :=
  | UShapeDrift      (* the weighted timetraces do not have len(frame.tx) rows *)
  | UIndex.          (* a frame.tx / frame.rx value is not a column of the focal-law tables *)

(* ==========================================================================
   4. descriptors of the objects *)
Record arr2d := mkArr2d { a_rows : nat; a_cols : nat; a_dtype : dtype; a_contig : bool }.

Definition shape_eqb (a b : list nat) : bool :=
  (length a =? length b)%nat && forallb (fun p => (fst p =? snd p)%nat) (combine a b).

(* ---- TxRxAmplitudes.__init__(amplitudes_tx, amplitudes_rx, force_c_order=True):
        ascontiguousarray; assert tx.dtype == rx.dtype; assert tx.ndim == rx.ndim == 2 *)
Record raw_arr := mkRaw { r_shape : list nat; r_dtype : dtype; r_contig : bool }.

Inductive ctor_site :=
  | TDtype | TNdim                               (* TxRxAmplitudes: tfm.py:52, 54 *)
  | LNdim | LRows | LWeightsNdim | LAmpTx | LAmpRx   (* FocalLaw: tfm.py:213, 214, 219, 228, 229 *)
  | LArrNdim | LArrCols | LArrWeights.           (* FocalLaw with an ndarray `amplitudes`: tfm.py:232, 233, 235 *)

Definition to_arr2d (force_c_order : bool) (a : raw_arr) : option arr2d :=
  match r_shape a with
  | [m; p] => Some (mkArr2d m p (r_dtype a) (force_c_order || r_contig a))
  | _ => None
  end.

Definition txrx_init (tx rx : raw_arr) (force_c_order : bool) : ctor_site + (arr2d * arr2d) :=
  if negb (dtype_eqb (r_dtype tx) (r_dtype rx)) then inl TDtype
  else match to_arr2d force_c_order tx, to_arr2d force_c_order rx with
       | Some a, Some b => inr (a, b)
       | _, _ => inl TNdim
       end.

Inductive amp_desc := FNone | FTxRx (tx rx : arr2d) | FOther.
(* the `amplitudes` argument of FocalLaw: None, a TxRxAmplitudes, an ndarray of some shape *)
Inductive amp_arg := ANone | ATxRx (tx rx : arr2d) | AArr (shape : list nat).

Record focal_desc := mkFocalD {
  f_ltx : arr2d; f_lrx : arr2d; f_amp : amp_desc;
  f_w : option (nat * dtype);          (* timetrace_weights: length, dtype *)
  f_numtimetraces : option nat }.      (* _numtimetraces *)

(* np.ascontiguousarray of a 0-d array is 1-d of length 1 *)
Definition weights_shape_after_c_order (force_c_order : bool) (s : list nat) : list nat :=
  match s with [] => if force_c_order then [1%nat] else [] | _ => s end.

(* FocalLaw.__init__(lookup_times_tx, lookup_times_rx, amplitudes, timetrace_weights, force_c_order) *)
Definition focal_law_init (ltx lrx : raw_arr) (amp : amp_arg) (w : option (list nat * dtype))
           (force_c_order : bool) : ctor_site + focal_desc :=
  match to_arr2d force_c_order ltx, to_arr2d force_c_order lrx with
  | Some tx, Some rx =>
      if negb (a_rows tx =? a_rows rx)%nat then inl LRows
      else
        let wres : ctor_site + option (nat * dtype) :=
          match w with
          | None => inr None
          | Some (s, d) =>
              match weights_shape_after_c_order force_c_order s with
              | [m] => inr (Some (m, d))
              | _ => inl LWeightsNdim
              end
          end in
        match wres with
        | inl e => inl e
        | inr wd =>
            let numtimetraces := option_map fst wd in
            match amp with
            | ANone => inr (mkFocalD tx rx FNone wd numtimetraces)
            | ATxRx atx arx =>
                if negb ((a_rows atx =? a_rows tx)%nat && (a_cols atx =? a_cols tx)%nat) then inl LAmpTx
                else if negb ((a_rows arx =? a_rows rx)%nat && (a_cols arx =? a_cols rx)%nat) then inl LAmpRx
                else inr (mkFocalD tx rx (FTxRx atx arx) wd numtimetraces)
            | AArr s =>
                match s with
                | [_; c] =>
                    if negb (c =? a_cols tx)%nat then inl LArrCols
                    else match numtimetraces with
                         | Some n => if (c =? n)%nat then inr (mkFocalD tx rx FOther wd (Some n)) else inl LArrWeights
                         | None => inr (mkFocalD tx rx FOther wd (Some c))
                         end
                | _ => inl LArrNdim
                end
            end
        end
  | _, _ => inl LNdim
  end.

(* the properties; numtimetraces raises AttributeError when nothing tells it *)
Definition numtx (f : focal_desc) : nat := a_cols (f_ltx f).
Definition numrx (f : focal_desc) : nat := a_cols (f_lrx f).
Definition numelements (f : focal_desc) : nat := a_cols (f_ltx f).      (* deprecated alias of numtx *)
Definition numgridpoints (f : focal_desc) : nat := a_rows (f_ltx f).
Definition numtimetraces (f : focal_desc) : option nat := f_numtimetraces f.

(* ---- the frame, as das reads it *)
Record frame_desc := mkFrameD {
  fr_numtimetraces : nat;                   (* the attribute set by Frame.__init__ *)
  fr_tt_shape : list nat; fr_tt_dtype : dtype; fr_tt_contig : bool;    (* frame.timetraces *)
  fr_tx_shape : list nat; fr_tx_contig : bool;
  fr_rx_shape : list nat; fr_rx_contig : bool }.

(* a frame out of Frame.__init__ (np.asarray of sequences) with n timetraces of ns samples *)
Definition frame_built (n ns : nat) (d : dtype) (tt_contig : bool) : frame_desc :=
  mkFrameD n [n; ns] d tt_contig [n] true [n] true.

(* ---- das._check_shapes: the first assertion that fails, in source order *)
Definition first_fail (l : list (bool * assert_site)) : option assert_site :=
  match find (fun p => negb (fst p)) l with Some p => Some (snd p) | None => None end.

Definition check_shapes (fr : frame_desc) (fl : focal_desc) : option assert_site :=
  let numtimetraces := fr_numtimetraces fr in
  let numpoints := a_rows (f_ltx fl) in
  let numtx := a_cols (f_ltx fl) in
  let numrx := a_cols (f_lrx fl) in
  first_fail
    ((match f_amp fl with
      | FTxRx atx arx =>
          [ ((a_rows atx =? numpoints)%nat && (a_cols atx =? numtx)%nat, SAmpTxShape);
            ((a_rows arx =? numpoints)%nat && (a_cols arx =? numrx)%nat, SAmpRxShape);
            (a_contig atx, SAmpTxContig); (a_contig arx, SAmpRxContig) ]
      | _ => []
      end)
     ++ [ (shape_eqb (fr_tx_shape fr) [numtimetraces], SFrameTxShape);
          (shape_eqb (fr_rx_shape fr) [numtimetraces], SFrameRxShape);
          (a_contig (f_ltx fl), SLtxContig); (a_contig (f_lrx fl), SLrxContig);
          (fr_tt_contig fr, STtContig); (fr_tx_contig fr, STxContig); (fr_rx_contig fr, SRxContig) ]).

(* ---- FocalLaw.weigh_timetraces on shapes and dtypes:
        assert timetraces.ndim == 2
        None -> timetraces itself;  else  timetraces * timetrace_weights[:, np.newaxis]
   (n, ns) * (m, 1): n rows when m = n or m = 1, m rows when n = 1, else ValueError *)
Inductive bshape := BRows (r : nat) | BValueError.
Definition weighted_rows (n : nat) (m : option nat) : bshape :=
  match m with
  | None => BRows n
  | Some m => if (m =? n)%nat then BRows n
              else if (m =? 1)%nat then BRows n
              else if (n =? 1)%nat then BRows m
              else BValueError
  end.

Definition weigh_desc (fr : frame_desc) (fl : focal_desc) : err + (dtype * nat) :=
  match fr_tt_shape fr with
  | [n; _] =>
      match f_w fl with
      | None => inr (fr_tt_dtype fr, n)
      | Some (m, wd) =>
          match weighted_rows n (Some m) with
          | BRows r => inr (promote (fr_tt_dtype fr) wd, r)
          | BValueError => inl EBroadcast
          end
      end
  | _ => inl (EAssert STtNdim)
  end.

(* ==========================================================================
   5. the call *)
Record call_desc (X Y : Type) := mkCall {
  c_frame : frame_desc; c_focal : focal_desc;
  c_fill_cplx : bool;                        (* fillvalue is a Python complex *)
  c_interp : pyopt X; c_aggr : pyopt Y;
  c_result : option (list nat * dtype) }.    (* result=: shape, dtype *)
Arguments mkCall {X Y}. Arguments c_frame {X Y}. Arguments c_focal {X Y}. Arguments c_fill_cplx {X Y}.
Arguments c_interp {X Y}. Arguments c_aggr {X Y}. Arguments c_result {X Y}.

Inductive plan_out :=
  | PRaise (e : err)
  | PUndefined (u : undef)
  | PRun (k : kernel) (out : dtype) (given : bool).   (* kernel; dtype of the returned array; it is the caller's `result` *)

Definition is_robust (k : kernel) : bool :=
  match k with KMedianNearest | KMedianLanczos | KHuberLanczos => true | _ => false end.

(* the kernel call: numba typing (compile time), then the run.
     mean kernels:   res_tmp is complex as soon as the timetraces, an amplitude or fillvalue is;
                     result[point] = res_tmp / numtimetraces needs a complex result then
     robust kernels: datapoints = np.empty(n, weighted_timetraces.dtype); datapoints[scan] = fillvalue;
                     result[point] = res.view(np.complex_)[0] *)
Definition run_kernel (k : kernel) (wt : dtype) (amp : option dtype) (fill_cplx : bool)
           (wrows txlen : nat) (out : dtype) (given : bool) : plan_out :=
  let amp_cplx := match amp with Some a => is_cplx a | None => false end in
  let typing_ok :=
    if is_robust k then is_cplx out && (is_cplx wt || negb fill_cplx)
    else is_cplx out || negb (is_cplx wt || amp_cplx || fill_cplx) in
  if negb typing_ok then PRaise ETyping
  else if negb (wrows =? txlen)%nat then PUndefined UShapeDrift
  else if is_robust k && negb (dtype_eqb wt C128) then PRaise EKernelRuntime
  else PRun k out given.

Section Plan.
  Context {X Y : Type}.

  Definition tx_len (fr : frame_desc) : nat := fr_numtimetraces fr.   (* after SFrameTxShape passed *)

  Definition result_shape_ok (c : call_desc X Y) : bool :=
    match c_result c with
    | None => true
    | Some (s, _) => shape_eqb s [a_rows (f_ltx (c_focal c))]
    end.
  Definition out_dtype (c : call_desc X Y) (dtype_data : dtype) : dtype :=
    match c_result c with Some (_, d) => d | None => dtype_data end.
  Definition result_given (c : call_desc X Y) : bool :=
    match c_result c with Some _ => true | None => false end.

  (* delay_and_sum_numba_noamp *)
  Definition plan_noamp (c : call_desc X Y) : plan_out :=
    match check_shapes (c_frame c) (c_focal c) with
    | Some s => PRaise (EAssert s)
    | None =>
        match weigh_desc (c_frame c) (c_focal c) with
        | inl e => PRaise e
        | inr (wt, wrows) =>
            match infer_datatypes wt (a_dtype (f_ltx (c_focal c))) (a_dtype (f_lrx (c_focal c))) None
                                  (option_map snd (c_result c)) with
            | None => PRaise ENotImpl       (* unreachable: result_type of a non-empty list *)
            | Some (_, _, dtype_data) =>
                if negb (result_shape_ok c) then PRaise (EAssert SResultShape)
                else
                  match to_interp_arg (c_interp c) with
                  | None => PRaise EIndex
                  | Some i =>
                      match to_aggr_arg (c_aggr c) with
                      | None => PRaise EIndex
                      | Some a =>
                          match dispatch_noamp i a (class_of dtype_data) with
                          | Raise e => PRaise (err_of_class e)
                          | Call k => run_kernel k wt None (c_fill_cplx c) wrows (tx_len (c_frame c))
                                                 (out_dtype c dtype_data) (result_given c)
                          end
                      end
                  end
            end
        end
    end.

  (* delay_and_sum_numba *)
  Definition plan_amp (c : call_desc X Y) (ampd : dtype) : plan_out :=
    match check_shapes (c_frame c) (c_focal c) with
    | Some s => PRaise (EAssert s)
    | None =>
        match weigh_desc (c_frame c) (c_focal c) with
        | inl e => PRaise e
        | inr (wt, wrows) =>
            match infer_datatypes wt (a_dtype (f_ltx (c_focal c))) (a_dtype (f_lrx (c_focal c))) (Some ampd)
                                  (option_map snd (c_result c)) with
            | None => PRaise ENotImpl
            | Some (_, _, dtype_data) =>
                match c_aggr c with
                | PStr s =>
                    if negb (aggr_code (lower s) =? 0)%Z then PRaise ENotImpl
                    else if negb (result_shape_ok c) then PRaise (EAssert SResultShape)
                    else
                      match c_interp c with
                      | PStr i =>
                          let n := interp_code (lower i) in
                          if (n =? 0)%Z then
                            run_kernel KAmpNearest wt (Some ampd) (c_fill_cplx c) wrows (tx_len (c_frame c))
                                       (out_dtype c dtype_data) (result_given c)
                          else if (n =? 1)%Z then
                            run_kernel KAmpLinear wt (Some ampd) (c_fill_cplx c) wrows (tx_len (c_frame c))
                                       (out_dtype c dtype_data) (result_given c)
                          else PRaise EValueInterp
                      | _ => PRaise EAttribute          (* interpolation.lower() *)
                      end
                | _ => PRaise EAttribute                (* aggregation.lower() *)
                end
            end
        end
    end.

  (* delay_and_sum *)
  Definition plan (c : call_desc X Y) : plan_out :=
    match f_amp (c_focal c) with
    | FTxRx atx _ => plan_amp c (a_dtype atx)
    | FNone => plan_noamp c
    | FOther => PRaise ENotImpl
    end.
End Plan.

(* ==========================================================================
   6. the result array: `for point in numba.prange(numpoints): ... result[point] = value`.
      One write per point, executed in some order. *)
Fixpoint upd {A} (l : list A) (i : nat) (v : A) : list A :=
  match l, i with
  | [], _ => []
  | _ :: r, O => v :: r
  | x :: r, S j => x :: upd r j v
  end.
Definition write_pixels {A} (order : list nat) (pix : nat -> A) (prev : list A) : list A :=
  fold_left (fun res p => upd res p (pix p)) order prev.
(* the kernel has computed `img`; the writes in index order *)
Definition store {A} (dflt : A) (prev img : list A) : list A :=
  write_pixels (seq 0 (length img)) (fun p => nth p img dflt) prev.

(* ==========================================================================
   7. the call with its data *)
(* what is not derived from the data: dtypes, contiguity, the kind of `amplitudes` *)
Record ctl := mkCtl {
  k_tt_dtype : dtype; k_tt_contig : bool;
  k_ltx_dtype : dtype; k_lrx_dtype : dtype; k_lt_contig : bool;
  k_w_dtype : dtype;                 (* read only when weights are given *)
  k_amp : amp_kind;                  (* TxRxAmplitudes / None / something else *)
  k_amp_dtype : dtype;               (* read only when k_amp = AmpTxRx *)
  k_fill_cplx : bool;
  k_res_dtype : dtype }.             (* read only when result= is given *)

Inductive das_out (T D : Type) :=
  | ORaise (e : err)
  | OUndefined (u : undef)
  | OMean (out : dtype) (given : bool) (img : list D)
  | ORobust (out : dtype) (given : bool) (img : list (rres (T * T))).
Arguments ORaise {T D}. Arguments OUndefined {T D}. Arguments OMean {T D}. Arguments ORobust {T D}.

Section Call.
  Context {T D : Type} (N : Num T) (V : Data T D).
  (* datapoints.view(np.float_).reshape((n, 2)): a complex128 value as its (re, im) pair.  Only read
     when a robust kernel runs, i.e. when the weighted timetraces are complex128. *)
  Context (view2 : D -> T * T).

  (* timetraces * w[:, np.newaxis]: the per-timetrace weights actually applied *)
  Definition effective_weights (w : option (list T)) (n : nat) : option (list T) :=
    match w with
    | None => None
    | Some ws => if (length ws =? n)%nat then Some ws else Some (repeat (hd (n0 N) ws) n)
    end.

  Definition numcols (rows : list (prow T D)) (f : prow T D -> nat) : nat :=
    match rows with [] => 0%nat | r :: _ => f r end.

  Definition describe (k : ctl) (ns : Z) (interp : pyopt Z) (aggr : pyopt T) (w : option (list T))
             (rows : list (prow T D)) (ss : list (scan D)) (result : option (list D))
    : call_desc Z T :=
    let numpoints := length rows in
    let ltx := mkArr2d numpoints (numcols rows (fun r => length (r_lt_tx r))) (k_ltx_dtype k) (k_lt_contig k) in
    let lrx := mkArr2d numpoints (numcols rows (fun r => length (r_lt_rx r))) (k_lrx_dtype k) (k_lt_contig k) in
    let amp := match k_amp k with
               | AmpNone => FNone
               | AmpOther => FOther
               | AmpTxRx => FTxRx (mkArr2d numpoints (a_cols ltx) (k_amp_dtype k) true)
                                  (mkArr2d numpoints (a_cols lrx) (k_amp_dtype k) true)
               end in
    let wd := option_map (fun ws => (length ws, k_w_dtype k)) w in
    mkCall (frame_built (length ss) (Z.to_nat ns) (k_tt_dtype k) (k_tt_contig k))
           (mkFocalD ltx lrx amp wd (option_map fst wd))
           (k_fill_cplx k) interp aggr
           (option_map (fun prev => ([length prev], k_res_dtype k)) result).

  (* every tx / rx value addresses a column of the tables of every point (the kernels do not check) *)
  Definition indices_ok (with_amp : bool) (rows : list (prow T D)) (ss : list (scan D)) : bool :=
    forallb (fun r =>
      forallb (fun s =>
        (s_tx s <? length (r_lt_tx r))%nat && (s_rx s <? length (r_lt_rx r))%nat
        && (negb with_amp || ((s_tx s <? length (r_a_tx r))%nat && (s_rx s <? length (r_a_rx r))%nat))) ss) rows.

  Definition is_amp_kernel (k : kernel) : bool :=
    match k with KAmpNearest | KAmpLinear => true | _ => false end.

  (* the robust kernels work on the (re, im) pairs *)
  Definition view_scan (s : scan D) : scan (T * T) := mkScan (s_tx s) (s_rx s) (map view2 (s_x s)).
  Definition view_row (r : prow T D) : prow T (T * T) := mkRow (r_lt_tx r) (r_lt_rx r) [] [].

  Definition das_call (k : ctl) (xtol c rho : T) (ns : Z) (dt t0 : T) (fill : D)
             (interp : pyopt Z) (aggr : pyopt T) (w : option (list T))
             (rows : list (prow T D)) (ss : list (scan D)) (result : option (list D)) : das_out T D :=
    match plan (describe k ns interp aggr w rows ss result) with
    | PRaise e => ORaise e
    | PUndefined u => OUndefined u
    | PRun kn out given =>
        if negb (indices_ok (is_amp_kernel kn) rows ss) then OUndefined UIndex
        else
          let weff := effective_weights w (length ss) in
          (* result = np.full((numpoints,), 0, dtype=dtype_data) when not given *)
          let prev := match result with Some p => p | None => repeat (dzero V) (length rows) end in
          let a := first_arg 0%Z interp in
          let tau := first_arg (n0 N) aggr in
          let mean (o : option (list D)) :=
            match o with
            | Some img => OMean out given (store (dzero V) prev img)
            | None => ORaise EBroadcast
            end in
          let robust (o : option (list (rres (T * T)))) :=
            match o with
            | Some img => ORobust out given (store RMaxIter (map (fun d => ROk (view2 d)) prev) img)
            | None => ORaise EBroadcast
            end in
          let vrows := map view_row rows in
          let vss := map view_scan ss in
          match kn with
          | KAmpNearest => mean (das_amp N V Nearest ns dt t0 fill weff rows ss)
          | KAmpLinear => mean (das_amp N V Linear ns dt t0 fill weff rows ss)
          | KNoampNearest => mean (das_noamp N V Nearest ns dt t0 fill weff rows ss)
          | KNoampLinear => mean (das_noamp N V Linear ns dt t0 fill weff rows ss)
          | KNoampLanczos => mean (das_noamp N V (Lanczos a) ns dt t0 fill weff rows ss)
          | KMedianNearest => robust (das_robust N Median Nearest xtol c rho ns dt t0 (view2 fill) weff vrows vss)
          | KMedianLanczos => robust (das_robust N Median (Lanczos a) xtol c rho ns dt t0 (view2 fill) weff vrows vss)
          | KHuberLanczos => robust (das_robust N (Huber tau) (Lanczos a) xtol c rho ns dt t0 (view2 fill) weff vrows vss)
          end
    end.

  (* block-wise imaging: how the outcomes of two calls on two blocks of points combine *)
  Definition out_app (o1 o2 : das_out T D) : das_out T D :=
    match o1, o2 with
    | ORaise e, _ => ORaise e
    | _, ORaise e => ORaise e
    | OUndefined u, _ => OUndefined u
    | _, OUndefined u => OUndefined u
    | OMean d g i1, OMean _ _ i2 => OMean d g (i1 ++ i2)
    | ORobust d g i1, ORobust _ _ i2 => ORobust d g (i1 ++ i2)
    | OMean d g i1, ORobust _ _ _ => OMean d g i1        (* never: both calls run the same kernel *)
    | ORobust d g i1, OMean _ _ _ => ORobust d g i1
    end.
End Call.

(* ==========================================================================
   8. object identity and the heap: which arrays a call reads, allocates and writes.
      An address holds a 2-d array (timetraces) or a 1-d array (result). *)
Inductive obj (D : Type) := Arr2 (rows : list (list D)) | Arr1 (v : list D).
Arguments Arr2 {D}. Arguments Arr1 {D}.

Record heap (D : Type) := mkHeap { h_next : nat; h_at : nat -> option (obj D) }.
Arguments mkHeap {D}. Arguments h_next {D}. Arguments h_at {D}.

Definition h_set {D} (h : heap D) (a : nat) (o : obj D) : heap D :=
  mkHeap (h_next h) (fun b => if (b =? a)%nat then Some o else h_at h b).
Definition h_alloc {D} (h : heap D) (o : obj D) : nat * heap D :=
  (h_next h, mkHeap (S (h_next h)) (fun b => if (b =? h_next h)%nat then Some o else h_at h b)).

Section Heap.
  Context {T D : Type} (N : Num T) (V : Data T D).

  (* FocalLaw.weigh_timetraces(timetraces) on addresses: the SAME object without weights, a NEW array
     otherwise (numpy multiplication allocates) *)
  Definition weigh_obj (h : heap D) (w : option (list T)) (tt : nat) : option (nat * heap D) :=
    match h_at h tt with
    | Some (Arr2 rows) =>
        match w with
        | None => Some (tt, h)
        | Some ws =>
            if (length ws =? length rows)%nat
            then Some (h_alloc h (Arr2 (map (fun rw => map (dscale V (snd rw)) (fst rw)) (combine rows ws))))
            else None
        end
    | _ => None
    end.

  (* one call of a no-amplitude mean kernel on objects of the heap:
       tt     address of frame.timetraces (tx, rx are the frame's index arrays)
       res    address of the caller's `result`, or None (np.full allocates)
     returns the address of the returned array *)
  Definition scans_of (tx rx : list nat) (rows : list (list D)) : list (scan D) :=
    map (fun p => mkScan (fst (fst p)) (snd (fst p)) (snd p)) (combine (combine tx rx) rows).

  Definition call_obj (sc : scheme) (ns : Z) (dt t0 : T) (fill : D) (w : option (list T))
             (frows : list (prow T D)) (tx rx : list nat) (tt : nat) (res : option nat) (h : heap D)
    : option (nat * heap D) :=
    match weigh_obj h w tt with
    | None => None
    | Some (wt, h1) =>
        match h_at h1 wt with
        | Some (Arr2 wrows) =>
            (* the kernel READS wt, tx, rx, the focal law; it WRITES result only *)
            match das_noamp N V sc ns dt t0 fill None frows (scans_of tx rx wrows) with
            | None => None
            | Some img =>
                match res with
                | None => Some (h_alloc h1 (Arr1 (store (dzero V) (repeat (dzero V) (length frows)) img)))
                | Some r =>
                    match h_at h1 r with
                    | Some (Arr1 prev) =>
                        if (length prev =? length frows)%nat
                        then Some (r, h_set h1 r (Arr1 (store (dzero V) prev img)))
                        else None
                    | _ => None
                    end
                end
            end
        | _ => None
        end
    end.
End Heap.
