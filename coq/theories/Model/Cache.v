(* Model/Cache.v — C14: the memoisation of arim.ray.RayGeometry as a state machine.
   Definitions only (lemmas: Proofs/CacheProofs.v, statements: Props/C14.v).

   Mirrors /repo/src/arim/ray.py (_cache_ray_geometry, _to_readonly, RayGeometry and
   its 17 decorated query methods, precompute, clear_intermediate_results,
   clear_all_results), /repo/src/arim/helpers.py (Cache, NoCache) and the clients in
   /repo/src/arim/model.py (beamspread_2d_for_path, reverse_beamspread_2d_for_path,
   transmission_reflection_for_path, reverse_transmission_reflection_for_path).

   What is modelled exactly:
   * Python negative indexing of `self._interface_indices[idx]`, `self.interfaces[idx]`
     and `self.rays.indices[idx]` (IndexError outside [-n, n)), and WHERE the code uses
     the raw index (`interface_idx`, `interface_idx - 1`, `interface_idx + 1`) and where
     the resolved one (`self._interface_indices[interface_idx]`);
   * the cache key (method name, resolved index), hit / miss, promotion to final,
     Cache vs NoCache (NoCache.__setitem__ ignores; `_final_keys.add` still happens),
     the two clear operations, precompute exit (not executed if the body raised);
   * which method calls which, in source order, always with is_final=False;
   * None / ValueError / IndexError branches;
   * object identity and the numpy `writeable` flag: arrays live in a heap, a query
     returns a handle; `inc_angle`, `out_angle` and the conventional angles with
     normals on the ray side return THE SAME object as `*_leg_polar`;
     `_to_readonly` clears the flag of the returned object (in both cache modes);
     in-place numpy operations fail (ValueError) on a read-only object.
   Array contents are symbolic terms (what was computed from what), not numbers. *)
From Coq Require Import ZArith List Bool.
Import ListNotations.
Open Scope Z_scope.

(* ------------------------------------------------------------------ *)
(* the 17 decorated methods                                            *)
Inductive meth :=
| MLegPoints | MOrient
| MIncLegSize | MIncLegCart | MIncLegRadius | MIncLegPolar | MIncLegAzimuth
| MIncAngle | MSignedInc | MConvInc
| MOutLegCart | MOutLegRadius | MOutLegPolar | MOutLegAzimuth
| MOutAngle | MSignedOut | MConvOut.

Definition meth_code (m : meth) : Z :=
  match m with
  | MLegPoints => 0 | MOrient => 1
  | MIncLegSize => 2 | MIncLegCart => 3 | MIncLegRadius => 4 | MIncLegPolar => 5
  | MIncLegAzimuth => 6 | MIncAngle => 7 | MSignedInc => 8 | MConvInc => 9
  | MOutLegCart => 10 | MOutLegRadius => 11 | MOutLegPolar => 12 | MOutLegAzimuth => 13
  | MOutAngle => 14 | MSignedOut => 15 | MConvOut => 16
  end.

Definition all_meths : list meth :=
  [MLegPoints; MOrient; MIncLegSize; MIncLegCart; MIncLegRadius; MIncLegPolar;
   MIncLegAzimuth; MIncAngle; MSignedInc; MConvInc; MOutLegCart; MOutLegRadius;
   MOutLegPolar; MOutLegAzimuth; MOutAngle; MSignedOut; MConvOut].

Definition meth_of_code (z : Z) : option meth :=
  find (fun m => meth_code m =? z) all_meths.

Definition meth_eqb (a b : meth) : bool := meth_code a =? meth_code b.

(* ------------------------------------------------------------------ *)
(* symbolic array contents                                             *)
Inductive term :=
| TPoints (ip ri : Z)        (* interfaces[ip].points.coords.take(rays.indices[ri]) *)
| TOrient (ip ri : Z)        (* interfaces[ip].orientations.coords.take(rays.indices[ri]) *)
| TNormDiff (s e : term)     (* Points(s - e).norm2() *)
| TFromGcs (p o q : term)    (* g.from_gcs(p, o, q) *)
| TSphR (c : term)           (* spherical_coordinates_r(c.x, c.y, c.z) *)
| TSphTheta (c r : term)     (* spherical_coordinates_theta(c.z, r) *)
| TSphPhi (c : term)         (* spherical_coordinates_phi(c.x, c.y) *)
| TSigned (p a : term)       (* _signed_leg_angle(polar, azimuth) *)
| TPiMinus (t : term)        (* out *= -1; out += pi   (in place, on a copy) *)
| TIadd (self other : term)  (* self += f(other)       (in place) *)
| TWritten (t : term).       (* any in-place write by a caller *)

(* ------------------------------------------------------------------ *)
(* Python sequence indexing                                            *)
Definition py_get {A} (l : list A) (i : Z) : option A :=
  let n := Z.of_nat (length l) in
  if (0 <=? i) && (i <? n) then nth_error l (Z.to_nat i)
  else if (- n <=? i) && (i <? 0) then nth_error l (Z.to_nat (i + n))
  else None.

Fixpoint upd {A} (l : list A) (i : nat) (x : A) : list A :=
  match l, i with
  | [], _ => []
  | _ :: l, O => x :: l
  | y :: l, S i => y :: upd l i x
  end.

(* ------------------------------------------------------------------ *)
(* objects, values, errors, state                                      *)
Record obj := { o_val : term; o_w : bool }.
Definition heap := list obj.

Inductive pyval := PNone | PRef (h : nat).

Inductive err :=
| EIndex      (* IndexError *)
| EValue      (* ValueError raised by conventional_*_angle (normal side not set) *)
| EType       (* TypeError / AttributeError: None used as an array *)
| EReadOnly   (* ValueError of numpy: assignment destination is read-only *)
| EDangling.  (* model-internal: handle outside the heap (never happens) *)

Inductive res (A : Type) := Ok (a : A) | Err (e : err).
Arguments Ok {A} a. Arguments Err {A} e.

Definition key := (meth * Z)%type.
Definition key_eqb (a b : key) : bool := meth_eqb (fst a) (fst b) && (snd a =? snd b).

Record state := { s_cache : list (key * pyval); s_finals : list key; s_heap : heap }.
Definition empty_state : state := {| s_cache := []; s_finals := []; s_heap := [] |}.

Fixpoint lookup (k : key) (c : list (key * pyval)) : option pyval :=
  match c with
  | [] => None
  | (k', v) :: c => if key_eqb k k' then Some v else lookup k c
  end.

Definition mem_key (k : key) (l : list key) : bool := existsb (key_eqb k) l.

(* per-interface data that the queries branch on *)
Record iface := { i_inc : option bool; i_out : option bool }.

Definition M (A : Type) := state -> res A * state.
Definition ret {A} (a : A) : M A := fun s => (Ok a, s).
Definition fail {A} (e : err) : M A := fun s => (Err e, s).
Definition bind {A B} (x : M A) (f : A -> M B) : M B :=
  fun s => match x s with
           | (Ok a, s1) => f a s1
           | (Err e, s1) => (Err e, s1)
           end.
Notation "x <- c1 ;; c2" := (bind c1 (fun x => c2))
  (at level 61, c1 at next level, right associativity).

Definition lift {A} (o : option A) (e : err) : M A :=
  match o with Some a => ret a | None => fail e end.

(* a new (writeable) array *)
Definition alloc (t : term) : M pyval :=
  fun s => (Ok (PRef (length (s_heap s))),
            {| s_cache := s_cache s; s_finals := s_finals s;
               s_heap := s_heap s ++ [{| o_val := t; o_w := true |}] |}).

(* reading the contents (`.coords`, arithmetic on it, ...) *)
Definition deref (v : pyval) : M term :=
  match v with
  | PNone => fail EType
  | PRef h => fun s => match nth_error (s_heap s) h with
                       | Some o => (Ok (o_val o), s)
                       | None => (Err EDangling, s)
                       end
  end.

(* numpy in-place operation `x[...] op= ...` *)
Definition inplace (v : pyval) (f : term -> term) : M unit :=
  match v with
  | PNone => fail EType
  | PRef h => fun s =>
      match nth_error (s_heap s) h with
      | Some o =>
          if o_w o
          then (Ok tt, {| s_cache := s_cache s; s_finals := s_finals s;
                          s_heap := upd (s_heap s) h {| o_val := f (o_val o); o_w := true |} |})
          else (Err EReadOnly, s)
      | None => (Err EDangling, s)
      end
  end.

(* `.copy()` *)
Definition copy (v : pyval) : M pyval := t <- deref v ;; alloc t.

(* _to_readonly (Points: the coords array; ndarray: itself; None: nothing) *)
Definition set_ro (v : pyval) (s : state) : state :=
  match v with
  | PNone => s
  | PRef h =>
      match nth_error (s_heap s) h with
      | Some o => {| s_cache := s_cache s; s_finals := s_finals s;
                     s_heap := upd (s_heap s) h {| o_val := o_val o; o_w := false |} |}
      | None => s
      end
  end.

Definition add_final (k : key) (s : state) : state :=
  {| s_cache := s_cache s;
     s_finals := if mem_key k (s_finals s) then s_finals s else k :: s_finals s;
     s_heap := s_heap s |}.

(* ------------------------------------------------------------------ *)
Section RayGeometry.
  Variable ifs : list iface.        (* self.interfaces *)
  Variable use_cache : bool.        (* Cache() or NoCache() *)

  Definition numif : Z := Z.of_nat (length ifs).
  (* self._interface_indices = tuple(range(numinterfaces)) *)
  Definition indices : list Z := map Z.of_nat (seq 0 (length ifs)).
  (* self._interface_indices[idx] *)
  Definition resolve (raw : Z) : option Z := py_get indices raw.
  (* self.interfaces[idx], together with its position *)
  Definition get_iface (raw : Z) : option (Z * iface) := py_get (combine indices ifs) raw.
  (* self.rays.indices[idx]  (first axis has length numinterfaces) *)
  Definition rays_row (raw : Z) : option Z := py_get indices raw.

  (* Cache.__getitem__ / NoCache: never holds anything *)
  Definition cache_get (k : key) (s : state) : option pyval :=
    if use_cache then lookup k (s_cache s) else None.
  (* dict.__setitem__ / NoCache.__setitem__ (ignored) *)
  Definition cache_set (k : key) (v : pyval) (s : state) : state :=
    if use_cache
    then {| s_cache := (k, v) :: filter (fun kv => negb (key_eqb (fst kv) k)) (s_cache s);
            s_finals := s_finals s; s_heap := s_heap s |}
    else s.

  (* _cache_ray_geometry.wrapper *)
  Definition wrapper (m : meth) (body : Z -> M pyval) (raw : Z) (final : bool) : M pyval :=
    fun s =>
      match resolve raw with
      | None => (Err EIndex, s)
      | Some a =>
          let k := (m, a) in
          match cache_get k s with
          | Some v => (Ok v, if final then add_final k s else s)
          | None =>
              match body raw s with
              | (Err e, s1) => (Err e, s1)
              | (Ok v, s1) =>
                  let s3 := cache_set k v (set_ro v s1) in
                  (Ok v, if final then add_final k s3 else s3)
              end
          end
      end.

  (* ---- level 0 ---- *)
  Definition body_leg_points (raw : Z) : M pyval :=
    i <- lift (get_iface raw) EIndex ;;
    r <- lift (rays_row raw) EIndex ;;
    alloc (TPoints (fst i) r).
  Definition leg_points := wrapper MLegPoints body_leg_points.

  Definition body_orient (raw : Z) : M pyval :=
    i <- lift (get_iface raw) EIndex ;;
    r <- lift (rays_row raw) EIndex ;;
    alloc (TOrient (fst i) r).
  Definition orient := wrapper MOrient body_orient.

  (* ---- level 1 ---- *)
  Definition body_inc_leg_size (raw : Z) : M pyval :=
    a <- lift (resolve raw) EIndex ;;
    if a =? 0 then ret PNone else
    s0 <- leg_points (raw - 1) false ;; ts <- deref s0 ;;
    e0 <- leg_points raw false ;; te <- deref e0 ;;
    alloc (TNormDiff ts te).
  Definition inc_leg_size := wrapper MIncLegSize body_inc_leg_size.

  Definition body_inc_leg_cart (raw : Z) : M pyval :=
    a <- lift (resolve raw) EIndex ;;
    if a =? 0 then ret PNone else
    s0 <- leg_points (raw - 1) false ;; ts <- deref s0 ;;
    e0 <- leg_points raw false ;; te <- deref e0 ;;
    o0 <- orient raw false ;; to <- deref o0 ;;
    alloc (TFromGcs ts to te).
  Definition inc_leg_cart := wrapper MIncLegCart body_inc_leg_cart.

  Definition body_out_leg_cart (raw : Z) : M pyval :=
    a <- lift (resolve raw) EIndex ;;
    if a =? numif - 1 then ret PNone else
    s0 <- leg_points raw false ;; ts <- deref s0 ;;
    e0 <- leg_points (raw + 1) false ;; te <- deref e0 ;;
    o0 <- orient raw false ;; to <- deref o0 ;;
    alloc (TFromGcs te to ts).
  Definition out_leg_cart := wrapper MOutLegCart body_out_leg_cart.

  (* ---- level 2..4, parametrised by the cartesian method of the side ---- *)
  Definition body_radius (cart : Z -> bool -> M pyval) (raw : Z) : M pyval :=
    c <- cart raw false ;;
    match c with
    | PNone => ret PNone
    | _ => tc <- deref c ;; alloc (TSphR tc)
    end.
  Definition inc_leg_radius := wrapper MIncLegRadius (body_radius inc_leg_cart).
  Definition out_leg_radius := wrapper MOutLegRadius (body_radius out_leg_cart).

  Definition body_azimuth (cart : Z -> bool -> M pyval) (raw : Z) : M pyval :=
    c <- cart raw false ;;
    match c with
    | PNone => ret PNone
    | _ => tc <- deref c ;; alloc (TSphPhi tc)
    end.
  Definition inc_leg_azimuth := wrapper MIncLegAzimuth (body_azimuth inc_leg_cart).
  Definition out_leg_azimuth := wrapper MOutLegAzimuth (body_azimuth out_leg_cart).

  Definition body_polar (cart radius : Z -> bool -> M pyval) (raw : Z) : M pyval :=
    c <- cart raw false ;;
    match c with
    | PNone => ret PNone
    | _ => r <- radius raw false ;;
           tc <- deref c ;; tr <- deref r ;; alloc (TSphTheta tc tr)
    end.
  Definition inc_leg_polar := wrapper MIncLegPolar (body_polar inc_leg_cart inc_leg_radius).
  Definition out_leg_polar := wrapper MOutLegPolar (body_polar out_leg_cart out_leg_radius).

  (* inc_angle / out_angle: return the polar object itself *)
  Definition body_angle (polar : Z -> bool -> M pyval) (raw : Z) : M pyval := polar raw false.
  Definition inc_angle := wrapper MIncAngle (body_angle inc_leg_polar).
  Definition out_angle := wrapper MOutAngle (body_angle out_leg_polar).

  Definition body_signed (azimuth polar : Z -> bool -> M pyval) (raw : Z) : M pyval :=
    az <- azimuth raw false ;;
    match az with
    | PNone => ret PNone
    | _ => p <- polar raw false ;;
           tp <- deref p ;; ta <- deref az ;; alloc (TSigned tp ta)
    end.
  Definition signed_inc := wrapper MSignedInc (body_signed inc_leg_azimuth inc_leg_polar).
  Definition signed_out := wrapper MSignedOut (body_signed out_leg_azimuth out_leg_polar).

  (* shared tail of conventional_inc_angle / conventional_out_angle *)
  Definition conv_tail (flag : option bool) (polar : Z -> bool -> M pyval) (raw : Z) : M pyval :=
    match flag with
    | None => fail EValue
    | Some true => polar raw false
    | Some false =>
        p <- polar raw false ;;
        out <- copy p ;;
        _ <- inplace out TPiMinus ;;
        ret out
    end.

  Definition body_conv_inc (raw : Z) : M pyval :=
    a <- lift (resolve raw) EIndex ;;
    if a =? 0 then ret PNone else
    i <- lift (get_iface raw) EIndex ;;
    conv_tail (i_inc (snd i)) inc_leg_polar raw.
  Definition conv_inc := wrapper MConvInc body_conv_inc.

  Definition body_conv_out (raw : Z) : M pyval :=
    a <- lift (resolve raw) EIndex ;;
    if a =? numif - 1 then ret PNone else
    i <- lift (get_iface raw) EIndex ;;
    conv_tail (i_out (snd i)) out_leg_polar raw.
  Definition conv_out := wrapper MConvOut body_conv_out.

  Definition call (m : meth) : Z -> bool -> M pyval :=
    match m with
    | MLegPoints => leg_points | MOrient => orient
    | MIncLegSize => inc_leg_size | MIncLegCart => inc_leg_cart
    | MIncLegRadius => inc_leg_radius | MIncLegPolar => inc_leg_polar
    | MIncLegAzimuth => inc_leg_azimuth | MIncAngle => inc_angle
    | MSignedInc => signed_inc | MConvInc => conv_inc
    | MOutLegCart => out_leg_cart | MOutLegRadius => out_leg_radius
    | MOutLegPolar => out_leg_polar | MOutLegAzimuth => out_leg_azimuth
    | MOutAngle => out_angle | MSignedOut => signed_out | MConvOut => conv_out
    end.

  (* clear_intermediate_results / clear_all_results *)
  Definition clear_inter (s : state) : state :=
    {| s_cache := filter (fun kv => mem_key (fst kv) (s_finals s)) (s_cache s);
       s_finals := s_finals s; s_heap := s_heap s |}.
  Definition clear_all (s : state) : state :=
    {| s_cache := []; s_finals := []; s_heap := s_heap s |}.

  (* ---- clients (arim.model) ---- *)
  Definition zrange (a : Z) (len : nat) : list Z := map (fun i => a + Z.of_nat i) (seq 0 len).

  (* for k in ks: theta = conventional_inc_angle(k); np.sin(theta) ... *)
  Fixpoint client_angles (ks : list Z) : M (list term) :=
    match ks with
    | [] => ret []
    | k :: ks => v <- conv_inc k true ;; t <- deref v ;;
                 ts <- client_angles ks ;; ret (t :: ts)
    end.

  (* for k in ks: r = inc_leg_size(k); virtual_distance += r / gamma *)
  Fixpoint client_acc (acc : pyval) (ks : list Z) : M unit :=
    match ks with
    | [] => ret tt
    | k :: ks => v <- inc_leg_size k true ;; t <- deref v ;;
                 _ <- inplace acc (fun self => TIadd self t) ;;
                 client_acc acc ks
    end.

  Definition client_beam (angles : list Z) (first : Z) (rest : list Z) : M (list term) :=
    ts <- client_angles angles ;;
    v <- inc_leg_size first true ;;
    acc <- copy v ;;
    _ <- client_acc acc rest ;;
    t <- deref acc ;;
    ret (ts ++ [t]).

  (* 0: beamspread_2d_for_path   1: reverse_beamspread_2d_for_path
     2: transmission_reflection_for_path   3: reverse_transmission_reflection_for_path *)
  Definition client (c : Z) : M (list term) :=
    let n := numif - 1 in
    let cnt := Z.to_nat (n - 1) in
    if c =? 0 then client_beam (zrange 1 cnt) 1 (zrange 2 cnt)
    else if c =? 1 then client_beam (rev (zrange 1 cnt)) n (rev (zrange 1 cnt))
    else client_angles (zrange 1 cnt).

  (* ---- histories ---- *)
  Inductive op :=
  | Query (m : meth) (raw : Z) (final : bool)
  | ClearInter
  | ClearAll
  | Pre (qs : list (meth * Z * bool))   (* with rg.precompute(): q1; q2; ... *)
  | Client (c : Z)
  | Mutate (i : nat).                   (* write into the object answered at step i *)

  Inductive answer :=
  | AVal (h : nat) | ANone | AErr (e : err) | AUnit | AClient (ts : list term) | ASkip.

  (* what the caller can observe of an answer *)
  Inductive obs :=
  | OVal (t : term) (w : bool) | ONone | OErr (e : err) | OUnit | OClient (ts : list term) | OSkip.

  Definition observe (s : state) (a : answer) : obs :=
    match a with
    | AVal h => match nth_error (s_heap s) h with
                | Some o => OVal (o_val o) (o_w o)
                | None => OErr EDangling
                end
    | ANone => ONone | AErr e => OErr e | AUnit => OUnit
    | AClient ts => OClient ts | ASkip => OSkip
    end.

  Record entry := { e_ans : answer; e_obs : obs; e_state : state }.

  Definition answer_of (r : res pyval) : answer :=
    match r with
    | Ok PNone => ANone
    | Ok (PRef h) => AVal h
    | Err e => AErr e
    end.

  Definition mk_entry (a : answer) (s : state) : entry :=
    {| e_ans := a; e_obs := observe s a; e_state := s |}.

  Definition run_query (q : meth * Z * bool) (s : state) : entry * state :=
    let '(m, raw, final) := q in
    let (r, s1) := call m raw final s in
    (mk_entry (answer_of r) s1, s1).

  Definition is_error (a : answer) : bool := match a with AErr _ => true | _ => false end.

  (* body of a precompute() block: stops at the first exception (which then also skips
     the clear_intermediate_results() after the `yield`) *)
  Fixpoint run_pre (qs : list (meth * Z * bool)) (s : state) : list entry * state :=
    match qs with
    | [] => let s1 := clear_inter s in ([mk_entry AUnit s1], s1)
    | q :: qs =>
        let (e, s1) := run_query q s in
        if is_error (e_ans e) then ([e], s1)
        else let (es, s2) := run_pre qs s1 in (e :: es, s2)
    end.

  (* trace: chronological list of entries *)
  Definition step (tr : list entry) (s : state) (o : op) : list entry * state :=
    match o with
    | Query m raw final => let (e, s1) := run_query (m, raw, final) s in ([e], s1)
    | ClearInter => let s1 := clear_inter s in ([mk_entry AUnit s1], s1)
    | ClearAll => let s1 := clear_all s in ([mk_entry AUnit s1], s1)
    | Pre qs => run_pre qs s
    | Client c =>
        match client c s with
        | (Ok ts, s1) => ([mk_entry (AClient ts) s1], s1)
        | (Err e, s1) => ([mk_entry (AErr e) s1], s1)
        end
    | Mutate i =>
        match nth_error tr i with
        | Some {| e_ans := AVal h |} =>
            match inplace (PRef h) TWritten s with
            | (Ok _, s1) => ([mk_entry AUnit s1], s1)
            | (Err e, s1) => ([mk_entry (AErr e) s1], s1)
            end
        | _ => ([mk_entry ASkip s], s)
        end
    end.

  Fixpoint run_from (tr : list entry) (s : state) (ops : list op) : list entry * state :=
    match ops with
    | [] => (tr, s)
    | o :: ops => let (es, s1) := step tr s o in run_from (tr ++ es) s1 ops
    end.

  Definition run (ops : list op) : list entry * state := run_from [] empty_state ops.

  (* ---------------------------------------------------------------- *)
  (* SPEC: the answer of a fresh object, in closed form, by RESOLVED index *)
  Definition pts (a : Z) : term := TPoints a a.
  Definition ori (a : Z) : term := TOrient a a.
  Definition t_inc_cart (a : Z) : term := TFromGcs (pts (a - 1)) (ori a) (pts a).
  Definition t_out_cart (a : Z) : term := TFromGcs (pts (a + 1)) (ori a) (pts a).
  Definition t_polar (c : term) : term := TSphTheta c (TSphR c).

  Definition flag_inc (a : Z) : option bool :=
    match nth_error ifs (Z.to_nat a) with Some i => i_inc i | None => None end.
  Definition flag_out (a : Z) : option bool :=
    match nth_error ifs (Z.to_nat a) with Some i => i_out i | None => None end.

  Definition spec_conv (flag : option bool) (c : term) : obs :=
    match flag with
    | None => OErr EValue
    | Some true => OVal (t_polar c) false
    | Some false => OVal (TPiMinus (t_polar c)) false
    end.

  (* answer for the valid resolved index a *)
  Definition spec_at (m : meth) (a : Z) : obs :=
    let first := a =? 0 in
    let last := a =? numif - 1 in
    let ic := t_inc_cart a in
    let oc := t_out_cart a in
    match m with
    | MLegPoints => OVal (pts a) false
    | MOrient => OVal (ori a) false
    | MIncLegSize => if first then ONone else OVal (TNormDiff (pts (a - 1)) (pts a)) false
    | MIncLegCart => if first then ONone else OVal ic false
    | MIncLegRadius => if first then ONone else OVal (TSphR ic) false
    | MIncLegPolar => if first then ONone else OVal (t_polar ic) false
    | MIncLegAzimuth => if first then ONone else OVal (TSphPhi ic) false
    | MIncAngle => if first then ONone else OVal (t_polar ic) false
    | MSignedInc => if first then ONone else OVal (TSigned (t_polar ic) (TSphPhi ic)) false
    | MConvInc => if first then ONone else spec_conv (flag_inc a) ic
    | MOutLegCart => if last then ONone else OVal oc false
    | MOutLegRadius => if last then ONone else OVal (TSphR oc) false
    | MOutLegPolar => if last then ONone else OVal (t_polar oc) false
    | MOutLegAzimuth => if last then ONone else OVal (TSphPhi oc) false
    | MOutAngle => if last then ONone else OVal (t_polar oc) false
    | MSignedOut => if last then ONone else OVal (TSigned (t_polar oc) (TSphPhi oc)) false
    | MConvOut => if last then ONone else spec_conv (flag_out a) oc
    end.

  (* Python index resolution, as a formula *)
  Definition resolved (raw : Z) : option Z :=
    if (0 <=? raw) && (raw <? numif) then Some raw
    else if (- numif <=? raw) && (raw <? 0) then Some (raw + numif)
    else None.

  Definition spec (m : meth) (raw : Z) : obs :=
    match resolved raw with
    | None => OErr EIndex
    | Some a => spec_at m a
    end.

  (* spec of the clients: the same loops over the pure answers *)
  Definition obs_term (o : obs) : res term :=
    match o with
    | OVal t _ => Ok t
    | OErr e => Err e
    | _ => Err EType
    end.

  Fixpoint spec_angles (ks : list Z) : res (list term) :=
    match ks with
    | [] => Ok []
    | k :: ks =>
        match obs_term (spec MConvInc k) with
        | Err e => Err e
        | Ok t => match spec_angles ks with
                  | Err e => Err e
                  | Ok ts => Ok (t :: ts)
                  end
        end
    end.

  Fixpoint spec_acc (acc : term) (ks : list Z) : res term :=
    match ks with
    | [] => Ok acc
    | k :: ks =>
        match obs_term (spec MIncLegSize k) with
        | Err e => Err e
        | Ok t => spec_acc (TIadd acc t) ks
        end
    end.

  Definition spec_beam (angles : list Z) (first : Z) (rest : list Z) : res (list term) :=
    match spec_angles angles with
    | Err e => Err e
    | Ok ts =>
        match obs_term (spec MIncLegSize first) with
        | Err e => Err e
        | Ok t0 => match spec_acc t0 rest with
                   | Err e => Err e
                   | Ok t => Ok (ts ++ [t])
                   end
        end
    end.

  Definition spec_client (c : Z) : obs :=
    let n := numif - 1 in
    let cnt := Z.to_nat (n - 1) in
    let r := if c =? 0 then spec_beam (zrange 1 cnt) 1 (zrange 2 cnt)
             else if c =? 1 then spec_beam (rev (zrange 1 cnt)) n (rev (zrange 1 cnt))
             else spec_angles (zrange 1 cnt) in
    match r with Ok ts => OClient ts | Err e => OErr e end.

  Definition obs_is_error (o : obs) : bool := match o with OErr _ => true | _ => false end.

  Fixpoint spec_pre (qs : list (meth * Z * bool)) : list obs :=
    match qs with
    | [] => [OUnit]
    | (m, raw, _) :: qs =>
        let o := spec m raw in
        if obs_is_error o then [o] else o :: spec_pre qs
    end.

  (* observations that a history must produce (tr: observations so far) *)
  Definition spec_step (tr : list obs) (o : op) : list obs :=
    match o with
    | Query m raw _ => [spec m raw]
    | ClearInter | ClearAll => [OUnit]
    | Pre qs => spec_pre qs
    | Client c => [spec_client c]
    | Mutate i => match nth_error tr i with
                  | Some (OVal _ _) => [OErr EReadOnly]
                  | _ => [OSkip]
                  end
    end.

  Fixpoint spec_run_from (tr : list obs) (ops : list op) : list obs :=
    match ops with
    | [] => tr
    | o :: ops => spec_run_from (tr ++ spec_step tr o) ops
    end.

  Definition spec_run (ops : list op) : list obs := spec_run_from [] ops.

  (* replace every query index by its resolved (non-negative) form *)
  Definition norm_idx (raw : Z) : Z := match resolved raw with Some a => a | None => raw end.
  Definition norm_op (o : op) : op :=
    match o with
    | Query m raw f => Query m (norm_idx raw) f
    | Pre qs => Pre (map (fun q => let '(m, raw, f) := q in (m, norm_idx raw, f)) qs)
    | o => o
    end.

  Definition keys_of (s : state) : list key := map fst (s_cache s).

End RayGeometry.

(* ------------------------------------------------------------------ *)
(* Executable checking functions for the correspondence harness        *)
(* (harness/prop_C14.py generates cases; all numbers are Z).           *)

Definition flag_of_Z (z : Z) : option bool :=
  if z =? 1 then Some true else if z =? 0 then Some false else None.

Definition ifs_of_Z (l : list (Z * Z)) : list iface :=
  map (fun p => {| i_inc := flag_of_Z (fst p); i_out := flag_of_Z (snd p) |}) l.

Definition meth_of_Z (z : Z) : meth :=
  match meth_of_code z with Some m => m | None => MLegPoints end.

Definition query_of_Z (q : Z * Z * Z) : meth * Z * bool :=
  let '(m, raw, f) := q in (meth_of_Z m, raw, negb (f =? 0)).

(* (kind, args): 0 Query [(m,raw,final)] | 1 ClearInter | 2 ClearAll | 3 Client [(c,_,_)]
   | 4 Mutate [(i,_,_)] | 5 Pre [(m,raw,final); ...] *)
Definition op_of_Z (c : Z * list (Z * Z * Z)) : op :=
  let (k, args) := c in
  match args with
  | q :: _ =>
      if k =? 0 then let '(m, raw, f) := query_of_Z q in Query m raw f
      else if k =? 3 then Client (fst (fst q))
      else if k =? 4 then Mutate (Z.to_nat (fst (fst q)))
      else if k =? 5 then Pre (map query_of_Z args)
      else if k =? 1 then ClearInter else ClearAll
  | [] => if k =? 1 then ClearInter else if k =? 5 then Pre [] else ClearAll
  end.

Definition err_code (e : err) : Z :=
  match e with EIndex => 2 | EValue => 3 | EType => 8 | EReadOnly => 5 | EDangling => 9 end.

Definition answer_code (a : answer) : Z :=
  match a with
  | ANone => 0 | AVal _ => 1 | AErr e => err_code e | AUnit => 4 | ASkip => 6 | AClient _ => 7
  end.

Definition key_bit (k : key) : Z := Z.shiftl 1 (meth_code (fst k) * 8 + snd k).
Definition mask_of (l : list key) : Z := fold_left (fun acc k => Z.lor acc (key_bit k)) l 0.

(* an entry as seen by the harness: (answer code, handle or -1, key mask, finals mask,
   writeable flag of the answered object (1/0, -1 if none)) *)
Definition entry_view (e : entry) : Z * Z * Z * Z * Z :=
  (answer_code (e_ans e),
   match e_ans e with AVal h => Z.of_nat h | _ => -1 end,
   mask_of (keys_of (e_state e)),
   mask_of (s_finals (e_state e)),
   match e_obs e with OVal _ w => if w then 1 else 0 | _ => -1 end).

(* identity partition: two answers are the same Python object iff same model handle *)
Fixpoint alias_ok1 (p : Z) (h : Z) (l : list (Z * Z)) : bool :=
  match l with
  | [] => true
  | (p', h') :: l => Bool.eqb (p =? p') (h =? h') && alias_ok1 p h l
  end.
Fixpoint alias_ok (l : list (Z * Z)) : bool :=
  match l with
  | [] => true
  | (p, h) :: l => alias_ok1 p h l && alias_ok l
  end.

(* key masks are transmitted in base 2^24, least significant chunk first (big decimal
   literals are slow to parse) *)
Fixpoint unchunk (l : list Z) : Z :=
  match l with
  | [] => 0
  | c :: l => c + Z.shiftl (unchunk l) 24
  end.

Definition exp_entry := (Z * Z * list Z * list Z)%type.
Definition case_t := (list (Z * Z) * Z * list (Z * list (Z * Z * Z)) * list exp_entry)%type.

(* expected entry from the implementation: (code, python identity class or -1, key mask,
   finals mask) ; values must be read-only *)
Fixpoint views_match (exp : list exp_entry) (got : list (Z * Z * Z * Z * Z)) : bool :=
  match exp, got with
  | [], [] => true
  | (c, _, km, fm) :: exp, (c', _, km', fm', w) :: got =>
      (c =? c') && (unchunk km =? km') && (unchunk fm =? fm') && (if c' =? 1 then w =? 0 else true)
      && views_match exp got
  | _, _ => false
  end.

Fixpoint alias_pairs (exp : list exp_entry) (got : list (Z * Z * Z * Z * Z)) : list (Z * Z) :=
  match exp, got with
  | (c, p, _, _) :: exp, (_, h, _, _, _) :: got =>
      if c =? 1 then (p, h) :: alias_pairs exp got else alias_pairs exp got
  | _, _ => []
  end.

(* one correspondence case: interfaces' flags, cache mode, history, expected entries *)
Definition check_case (c : case_t) : bool :=
  let '(fl, uc, ops, exp) := c in
  let tr := fst (run (ifs_of_Z fl) (negb (uc =? 0)) (map op_of_Z ops)) in
  let got := map entry_view tr in
  views_match exp got && (if uc =? 0 then true else alias_ok (alias_pairs exp got)).

(* exhaustive prefix-closed sets of histories: `exp` holds only the entries produced by
   the LAST operation (the earlier steps are the last steps of the shorter histories) *)
Definition check_case_last (c : case_t) : bool :=
  let '(fl, uc, ops, exp) := c in
  let tr := fst (run (ifs_of_Z fl) (negb (uc =? 0)) (map op_of_Z ops)) in
  let got := map entry_view tr in
  let k := (length got - length exp)%nat in
  (length exp <=? length got)%nat && views_match exp (skipn k got)
  && (if uc =? 0 then true else alias_ok (alias_pairs exp (skipn k got))).

(* exhaustive sets of histories, shared prefixes: a block = a table of distinct expected
   entries (code, key mask chunks, finals mask chunks) + prefixes; for each prefix, the
   expected entries of the last operation for EVERY symbol of the alphabet, as
   (index into the table, python identity class) *)
Definition tab_entry := (Z * list Z * list Z)%type.
Definition op_code := (Z * list (Z * Z * Z))%type.

Definition expand (table : list tab_entry) (ip : Z * Z) : exp_entry :=
  match nth_error table (Z.to_nat (fst ip)) with
  | Some (c, km, fm) => (c, snd ip, km, fm)
  | None => (-1, -1, [], [])
  end.

Definition check_prefix (ifs : list iface) (uc : bool) (alpha : list op_code) (table : list tab_entry)
    (c : list op_code * list (list (Z * Z))) : bool :=
  let '(pre, exps) := c in
  let '(tr, s) := run ifs uc (map op_of_Z pre) in
  (length alpha =? length exps)%nat &&
  forallb (fun oe : op_code * list (Z * Z) =>
             let got := map entry_view (fst (step ifs uc tr s (op_of_Z (fst oe)))) in
             let exp := map (expand table) (snd oe) in
             views_match exp got && (if uc then alias_ok (alias_pairs exp got) else true))
          (combine alpha exps).

Definition block_t := (list tab_entry * list (list op_code * list (list (Z * Z))))%type.

Definition check_block (fl : list (Z * Z)) (ucz : Z) (alpha : list op_code) (b : block_t) : bool :=
  forallb (check_prefix (ifs_of_Z fl) (negb (ucz =? 0)) alpha (fst b)) (snd b).

(* random histories, with the expected entries of all steps given through a table *)
Definition full_block_t :=
  (list tab_entry * list (list (Z * Z) * Z * list op_code * list (Z * Z)))%type.

Definition check_full_block (b : full_block_t) : bool :=
  forallb (fun c : list (Z * Z) * Z * list op_code * list (Z * Z) =>
             let '(fl, uc, ops, e) := c in
             check_case (fl, uc, ops, map (expand (fst b)) e))
          (snd b).

(* ---- packed encodings (numerals are the dominant cost of the generated files) ----
   query  q = m + 32 * (raw + 16) + 1024 * final
   op     z = kind + 8 * payload ; payload = q | client | trace position |
              nq + 4 * (q1 + 2048 * (q2 + 2048 * q3))   for a precompute block (nq <= 3)
   entry  e = 256 * (index into the table) + (identity class + 1)
   flags  f = (inc flag) + 3 * (out flag), flags 0 False / 1 True / 2 None *)
Definition unpack_query (q : Z) : Z * Z * Z := (q mod 32, (q / 32) mod 32 - 16, q / 1024).

Definition op_of_packed (z : Z) : op :=
  let k := z mod 8 in
  let p := z / 8 in
  if k =? 0 then let '(m, raw, f) := query_of_Z (unpack_query p) in Query m raw f
  else if k =? 1 then ClearInter
  else if k =? 2 then ClearAll
  else if k =? 3 then Client p
  else if k =? 4 then Mutate (Z.to_nat p)
  else let nq := p mod 4 in
       let r := p / 4 in
       Pre (map query_of_Z
              (firstn (Z.to_nat nq)
                 [unpack_query (r mod 2048); unpack_query ((r / 2048) mod 2048);
                  unpack_query (r / 4194304)])).

Definition ifs_of_packed (l : list Z) : list iface :=
  map (fun f => {| i_inc := flag_of_Z (f mod 3); i_out := flag_of_Z (f / 3) |}) l.

Definition exp_of_packed (table : list tab_entry) (l : list Z) : list exp_entry :=
  map (fun e => expand table (e / 256, e mod 256 - 1)) l.

(* expected masks are transmitted as XOR-deltas (few distinct values, so the tables stay
   small): relative to the previous entry of the trace (chain = true, first entry relative
   to the empty state) or relative to a fixed base state (chain = false) *)
Fixpoint views_match_d (chain : bool) (bk bf : Z) (exp : list exp_entry)
    (got : list (Z * Z * Z * Z * Z)) : bool :=
  match exp, got with
  | [], [] => true
  | (c, _, dk, df) :: exp, (c', _, km', fm', w) :: got =>
      (c =? c') && (unchunk dk =? Z.lxor km' bk) && (unchunk df =? Z.lxor fm' bf)
      && (if c' =? 1 then w =? 0 else true)
      && views_match_d chain (if chain then km' else bk) (if chain then fm' else bf) exp got
  | _, _ => false
  end.

Definition check_history (ifs : list iface) (uc : bool) (ops : list op) (exp : list exp_entry) : bool :=
  let got := map entry_view (fst (run ifs uc ops)) in
  views_match_d true 0 0 exp got && (if uc then alias_ok (alias_pairs exp got) else true).

Definition full_block_p := (list tab_entry * list (list Z * Z * list Z * list Z))%type.

Definition check_full_block_p (b : full_block_p) : bool :=
  forallb (fun c : list Z * Z * list Z * list Z =>
             let '(fl, uc, ops, e) := c in
             check_history (ifs_of_packed fl) (negb (uc =? 0)) (map op_of_packed ops)
                           (exp_of_packed (fst b) e))
          (snd b).

Definition check_prefix_p (ifs : list iface) (uc : bool) (alpha : list op) (table : list tab_entry)
    (c : list Z * list (list Z)) : bool :=
  let '(pre, exps) := c in
  let '(tr, s) := run ifs uc (map op_of_packed pre) in
  let bk := mask_of (keys_of s) in
  let bf := mask_of (s_finals s) in
  (length alpha =? length exps)%nat &&
  forallb (fun oe : op * list Z =>
             let got := map entry_view (fst (step ifs uc tr s (fst oe))) in
             let exp := exp_of_packed table (snd oe) in
             views_match_d false bk bf exp got
             && (if uc then alias_ok (alias_pairs exp got) else true))
          (combine alpha exps).

Definition block_p := (list tab_entry * list (list Z * list (list Z)))%type.

Definition check_block_p (fl : list Z) (ucz : Z) (alpha : list Z) (b : block_p) : bool :=
  forallb (check_prefix_p (ifs_of_packed fl) (negb (ucz =? 0)) (map op_of_packed alpha) (fst b)) (snd b).

(* example data for the non-vacuity Examples of Props/C14.v *)
Definition ex_ifs : list iface :=
  [ {| i_inc := None; i_out := Some true |};
    {| i_inc := Some false; i_out := None |};
    {| i_inc := Some true; i_out := None |} ].
