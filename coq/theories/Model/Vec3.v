(* Model/Vec3.v — 3-vectors and 3x3 matrices over a Num record (definitions
   only; shared by the geometry models C17, C05, C16).

   A vector is a triple (x, y, z); a matrix is a triple of ROWS, as numpy stores
   a (3, 3) array: M = (r0, r1, r2) with M[i, j] = component j of row i.
   Sums of three products are associated to the left, (a + b) + c, as a plain
   loop `acc += ...` does. *)
From Coq Require Import List ZArith.
From Arim Require Import Base.Num.
Import ListNotations.

Definition vec3 (T : Type) : Type := (T * T * T)%type.
Definition mat3 (T : Type) : Type := (vec3 T * vec3 T * vec3 T)%type.

Definition vx {T} (v : vec3 T) : T := fst (fst v).
Definition vy {T} (v : vec3 T) : T := snd (fst v).
Definition vz {T} (v : vec3 T) : T := snd v.
Definition mrow0 {T} (m : mat3 T) : vec3 T := fst (fst m).
Definition mrow1 {T} (m : mat3 T) : vec3 T := snd (fst m).
Definition mrow2 {T} (m : mat3 T) : vec3 T := snd m.
(* columns and transpose need no arithmetic: they take no Num argument *)
Definition mcol0 {T} (m : mat3 T) : vec3 T := (vx (mrow0 m), vx (mrow1 m), vx (mrow2 m)).
Definition mcol1 {T} (m : mat3 T) : vec3 T := (vy (mrow0 m), vy (mrow1 m), vy (mrow2 m)).
Definition mcol2 {T} (m : mat3 T) : vec3 T := (vz (mrow0 m), vz (mrow1 m), vz (mrow2 m)).
Definition mtrans {T} (m : mat3 T) : mat3 T := (mcol0 m, mcol1 m, mcol2 m).

Section Vec3.
  Context {T : Type} (N : Num T).
  Local Notation "a + b" := (nadd N a b).
  Local Notation "a - b" := (nsub N a b).
  Local Notation "a * b" := (nmul N a b).

  Definition vzero : vec3 T := (n0 N, n0 N, n0 N).
  Definition vadd (a b : vec3 T) : vec3 T := (vx a + vx b, vy a + vy b, vz a + vz b).
  Definition vsub (a b : vec3 T) : vec3 T := (vx a - vx b, vy a - vy b, vz a - vz b).
  Definition vopp (a : vec3 T) : vec3 T := (nopp N (vx a), nopp N (vy a), nopp N (vz a)).
  Definition vscale (k : T) (a : vec3 T) : vec3 T := (k * vx a, k * vy a, k * vz a).

  Definition vdot (a b : vec3 T) : T := vx a * vx b + vy a * vy b + vz a * vz b.
  (* numpy.cross *)
  Definition vcross (a b : vec3 T) : vec3 T :=
    (vy a * vz b - vz a * vy b, vz a * vx b - vx a * vz b, vx a * vy b - vy a * vx b).
  (* squared Euclidean norm and Euclidean norm *)
  Definition vnorm2 (a : vec3 T) : T := vdot a a.
  Definition vnorm (a : vec3 T) : T := nsqrt N (vnorm2 a).
  Definition vdist (a b : vec3 T) : T := vnorm (vsub a b).

  Definition mid3 : mat3 T :=
    ((n1 N, n0 N, n0 N), (n0 N, n1 N, n0 N), (n0 N, n0 N, n1 N)).
  (* M . v : out[j] = sum_i M[j, i] v[i] *)
  Definition mvec (m : mat3 T) (v : vec3 T) : vec3 T :=
    (vdot (mrow0 m) v, vdot (mrow1 m) v, vdot (mrow2 m) v).
  (* M^T . v : out[j] = sum_i M[i, j] v[i] *)
  Definition mtvec (m : mat3 T) (v : vec3 T) : vec3 T :=
    (vdot (mcol0 m) v, vdot (mcol1 m) v, vdot (mcol2 m) v).
  (* A . B : (A B)[i, j] = sum_k A[i, k] B[k, j] *)
  Definition mmul (a b : mat3 T) : mat3 T :=
    (mtvec b (mrow0 a), mtvec b (mrow1 a), mtvec b (mrow2 a)).
  (* determinant: triple product row0 . (row1 x row2) *)
  Definition mdet (m : mat3 T) : T := vdot (mrow0 m) (vcross (mrow1 m) (mrow2 m)).

  (* orthonormality: rows orthonormal (M M^T = I), columns orthonormal
     (M^T M = I); an orthonormal frame satisfies both (over a field each implies
     the other, see Proofs/Vec3Proofs.v), a proper rotation has determinant 1 *)
  Definition rows_orthonormal (m : mat3 T) : Prop := mmul m (mtrans m) = mid3.
  Definition cols_orthonormal (m : mat3 T) : Prop := mmul (mtrans m) m = mid3.
  Definition orthonormal (m : mat3 T) : Prop := rows_orthonormal m /\ cols_orthonormal m.
  Definition proper_rotation (m : mat3 T) : Prop := orthonormal m /\ mdet m = n1 N.
End Vec3.
