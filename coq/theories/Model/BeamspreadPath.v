(* Model/BeamspreadPath.v — arim.model.beamspread_2d_for_path(ray_geometry) and
   reverse_beamspread_2d_for_path(ray_geometry) as PUBLIC functions of a RayGeometry
   object, for ONE ray (C06).  Definitions only.

   Model/Beamspread.v models the arithmetic of the two functions on three lists that
   the caller has already read from the RayGeometry (leg sizes, velocities, angles).
   This file models the glue around it, statement by statement (src/arim/model.py
   1073-1144 and 1147-1207):

     velocities = ray_geometry.rays.fermat_path.velocities
     n = ray_geometry.numinterfaces - 1
     gamma_list = []
     for k in range(1, n):
         theta_inc = ray_geometry.conventional_inc_angle(k)      (reverse: n - k)
         nu = velocities[k - 1] / velocities[k]                  (reverse: [n-k] / [n-k-1])
         ... gamma_list.append(...)
     virtual_distance = ray_geometry.inc_leg_size(1).copy()      (reverse: n)
     for k in range(1, n):
         r = ray_geometry.inc_leg_size(k + 1)                    (reverse: n - k)
         gamma = 1.0
         for i in range(k): gamma *= gamma_list[i]
         virtual_distance += r / gamma
     return np.reciprocal(np.sqrt(virtual_distance))

   A RayGeometry object is (ifs, ray) as in Model/RayGeom.v (the interfaces and the
   column rays.indices[:, i, j] of one ray; every operation of the two functions is
   elementwise in (i, j)); `vel` is the tuple fermat_path.velocities.  The
   RayGeometry methods are Model/RayGeom.v's (C05).  Python's outcomes are RayGeom's
   `res`:
     Val x     the [i, j] entry of the returned array
     NoLeg     a RayGeometry method returned None and the code used it as an array:
               AttributeError ('NoneType' object has no attribute 'copy') or TypeError
     IndexErr  IndexError (tuple index out of range in _interface_indices / velocities,
               point index out of range in take)
     ValueErr  ValueError (are_normals_on_inc_rays_side is None at an interface whose
               conventional angle is read)
   The FIRST error in evaluation order is the outcome (rbind sequencing, loops stop at
   the first error).  Not modelled: the result cache of RayGeometry (C14), the
   read-only flag and .copy() (aliasing; C14), array shapes/broadcasting. *)
From Coq Require Import List ZArith Bool Arith.
From Arim Require Import Base.Num Model.Vec3 Model.RayGeom Model.Beamspread.
Import ListNotations.

(* the statements of a Python `for` body executed in order over a list, collecting
   the appended values; stops at the first error *)
Fixpoint rmapM {A B} (f : A -> res B) (l : list A) : res (list B) :=
  match l with
  | [] => Val []
  | a :: l' => rbind (f a) (fun b => rbind (rmapM f l') (fun bs => Val (b :: bs)))
  end.

(* range(1, n) for a Python int n (empty when n <= 1) *)
Definition range1 (n : Z) : list Z := map Z.of_nat (seq 1 (Z.to_nat (n - 1))).

Section BeamspreadPath.
  Context {T : Type} (N : Num T).
  Variable ifs : list (iface (T:=T)).     (* ray_geometry.interfaces *)
  Variable ray : list nat.                (* ray_geometry.rays.indices[:, i, j] *)
  Variable vel : list T.                  (* ray_geometry.rays.fermat_path.velocities *)

  (* n = ray_geometry.numinterfaces - 1 *)
  Definition n_of_path : Z := Z.of_nat (numinterfaces ifs) - 1.

  (* velocities[idx] (a tuple: Python indexing, IndexError outside -len .. len-1) *)
  Definition vel_at (idx : Z) : res T :=
    match resolve (length vel) idx with
    | None => IndexErr
    | Some a => of_opt (nth_error vel a)
    end.

  (* ---- beamspread_2d_for_path ------------------------------------------------ *)
  (* body of the first loop for one k *)
  Definition fwd_gamma_at (k : Z) : res T :=
    rbind (conventional_inc_angle N ifs ray k) (fun theta_inc =>
    rbind (vel_at (k - 1)) (fun v_prev =>
    rbind (vel_at k) (fun v_cur =>
    Val (gamma_of N v_prev v_cur theta_inc)))).

  (* body of the second loop for one k: virtual_distance += r / gamma *)
  Definition fwd_vd_step (gamma_list : list T) (acc : res T) (k : Z) : res T :=
    rbind acc (fun virtual_distance =>
    rbind (inc_leg_size N ifs ray (k + 1)) (fun r =>
    Val (nadd N virtual_distance (ndiv N r (gamma_prefix N gamma_list (Z.to_nat k)))))).

  Definition beamspread_2d_for_path : res T :=
    let n := n_of_path in
    rbind (rmapM fwd_gamma_at (range1 n)) (fun gamma_list =>
    rbind (inc_leg_size N ifs ray 1) (fun r1 =>
    rbind (fold_left (fwd_vd_step gamma_list) (range1 n) (Val r1)) (fun virtual_distance =>
    Val (ndiv N (n1 N) (nsqrt N virtual_distance))))).

  (* ---- reverse_beamspread_2d_for_path ---------------------------------------- *)
  Definition rev_gamma_at (n k : Z) : res T :=
    rbind (conventional_inc_angle N ifs ray (n - k)) (fun theta_out =>
    rbind (vel_at (n - k)) (fun v_a =>
    rbind (vel_at (n - k - 1)) (fun v_b =>
    Val (rev_gamma_of N v_a v_b theta_out)))).

  Definition rev_vd_step (n : Z) (gamma_list : list T) (acc : res T) (k : Z) : res T :=
    rbind acc (fun virtual_distance =>
    rbind (inc_leg_size N ifs ray (n - k)) (fun r =>
    Val (nadd N virtual_distance (ndiv N r (gamma_prefix N gamma_list (Z.to_nat k)))))).

  Definition reverse_beamspread_2d_for_path : res T :=
    let n := n_of_path in
    rbind (rmapM (rev_gamma_at n) (range1 n)) (fun gamma_list =>
    rbind (inc_leg_size N ifs ray n) (fun rn =>
    rbind (fold_left (rev_vd_step n gamma_list) (range1 n) (Val rn)) (fun virtual_distance =>
    Val (ndiv N (n1 N) (nsqrt N virtual_distance))))).

  (* ---- what a caller reads to feed Model/Beamspread.v ------------------------- *)
  (* [inc_leg_size(1); ...; inc_leg_size(n)] and [conventional_inc_angle(1); ...;
     conventional_inc_angle(n-1)] *)
  Definition path_legs : res (list T) :=
    rmapM (inc_leg_size N ifs ray) (map Z.of_nat (seq 1 (Z.to_nat n_of_path))).
  Definition path_thetas : res (list T) :=
    rmapM (conventional_inc_angle N ifs ray) (range1 n_of_path).
End BeamspreadPath.

(* ---- rigid motion of a whole set-up: every point p -> Q.p + t, every frame
   B -> B.Q^T (the rows of B, the local axes, are rotated by Q) ------------------- *)
Section Move.
  Context {T : Type} (N : Num T).
  Definition move_point (Q : mat3 T) (t : vec3 T) (p : vec3 T) : vec3 T := vadd N (mvec N Q p) t.
  Definition move_frame (Q : mat3 T) (B : mat3 T) : mat3 T := mmul N B (mtrans Q).
  Definition move_iface (Q : mat3 T) (t : vec3 T) (f : iface (T:=T)) : iface (T:=T) :=
    mkIface (map (move_point Q t) (if_points f)) (map (move_frame Q) (if_orient f)) (if_inc f) (if_out f).
  (* change of length unit: every point p -> s.p, frames and flags unchanged *)
  Definition scale_iface (s : T) (f : iface (T:=T)) : iface (T:=T) :=
    mkIface (map (vscale N s) (if_points f)) (if_orient f) (if_inc f) (if_out f).
End Move.

(* ---- the floating-point special values of the last line --------------------------
   np.reciprocal(np.sqrt(d)), every class of binary64 argument (numpy warns, never raises):
     d nan            nan   (reachable with real objects: a ray that meets the same point of
                            the same wall twice has a zero-length leg, hence a nan angle
                            arccos(0/0), a nan gamma and a nan virtual distance)
     d < 0 or -inf    nan   (sqrt of a negative number)
     d = +0.0         +inf
     d = -0.0         -inf  (np.sqrt(-0.0) = -0.0 and 1 / -0.0 = -inf; the additions of the
                            loop cannot produce it, because the first term inc_leg_size is
                            a square root, +0.0 at least, and +0.0 + x is never -0.0 -- the
                            class is modelled all the same so that the reading is total)
     d > 0 or +inf    the value 1 / sqrt(d) (finite, +0.0 for d = +inf)
   The tests use only the comparisons of the Num record:
     d is nan      <->  not (d == d)
     d is -0.0     <->  d == 0 and 1 / d < 0          (1 / -0.0 = -inf, 1 / +0.0 = +inf)
   Over the reals (and the rationals) d == d always holds and 1 / 0 = 0 is not negative
   (Coq's total division), so the classes NaN-by-nan and MinusInf are never taken there and
   the real-number reading is the three-class one: d < 0 NaN, d = 0 PlusInf, d > 0 Finite.
   (Before the repair of this definition the nan test was missing: d = nan fell through
   both comparisons and was classified `Finite nan`; d = -0.0 was classified PlusInf.) *)
Inductive fval (T : Type) : Type :=
| Finite (x : T)
| PlusInf
| MinusInf
| NaN.
Arguments Finite {T}. Arguments PlusInf {T}. Arguments MinusInf {T}. Arguments NaN {T}.

Section Outcome.
  Context {T : Type} (N : Num T).
  Definition recip_sqrt_outcome (d : T) : fval T :=
    if negb (neqb N d d) then NaN
    else if nltb N d (n0 N) then NaN
    else if neqb N d (n0 N) then
           (if nltb N (ndiv N (n1 N) d) (n0 N) then MinusInf else PlusInf)
    else Finite (ndiv N (n1 N) (nsqrt N d)).
  Definition beamspread_outcome (vel legs thetas : list T) : fval T :=
    recip_sqrt_outcome (virtual_distance N legs (gamma_list N vel thetas)).
End Outcome.

(* ---- specification vocabulary (reals-free definitions, used by the theorems) ----- *)
Section Spec.
  Context {T : Type} (N : Num T).
  (* Horner form of the virtual-source distance:
     d = r1 + (r2 + (r3 + ...) / g2) / g1 *)
  Fixpoint vd_horner (r1 : T) (rest gl : list T) : T :=
    match rest, gl with
    | r2 :: rest', g :: gl' => nadd N r1 (ndiv N (vd_horner r2 rest' gl') g)
    | _, _ => r1
    end.

  (* Snell's law as a computation: the refraction (or reflection) angle of a ray
     meeting an interface with incidence angle th, from velocity v_in to v_out *)
  Definition snell_out_angle (v_in v_out th : T) : T :=
    nasin N (nmul N (ndiv N v_out v_in) (nsin N th)).

  (* [th'_1; ...; th'_{n-1}] : outgoing angles along a ray *)
  Fixpoint snell_out_angles (vel thetas : list T) : list T :=
    match vel, thetas with
    | v0 :: ((v1 :: _) as vel'), th :: thetas' => snell_out_angle v0 v1 th :: snell_out_angles vel' thetas'
    | _, _ => []
    end.

  (* ray-tube factors with the refracted angle computed by Snell's law INSIDE:
     beta_k = c_in cos^2(asin((c_out/c_in) sin th)) / (c_out cos^2 th) *)
  Fixpoint angle_betas (vel thetas : list T) : list T :=
    match vel, thetas with
    | v0 :: ((v1 :: _) as vel'), th :: thetas' =>
        beta_of N v0 v1 (ncos N th) (ncos N (snell_out_angle v0 v1 th)) :: angle_betas vel' thetas'
    | _, _ => []
    end.
  Definition angle_tube_amplitude (vel legs thetas : list T) : T := snd (tube N legs (angle_betas vel thetas)).

  (* incidence angles of the REVERSED ray (in its own order) computed by Snell's law
     from the forward incidence angles: at the interface between rvel[j] (forward
     outgoing side) and rvel[j+1] (forward incoming side), th' = asin((v_out/v_in) sin th) *)
  Fixpoint reversed_inc_angles (rvel rthetas : list T) : list T :=
    match rvel, rthetas with
    | vn :: ((vp :: _) as rvel'), th :: rthetas' => snell_out_angle vp vn th :: reversed_inc_angles rvel' rthetas'
    | _, _ => []
    end.

  (* sum of r_k * v_{k-1} over the legs *)
  Fixpoint dot_list (a b : list T) : T :=
    match a, b with
    | x :: a', y :: b' => nadd N (nmul N x y) (dot_list a' b')
    | _, _ => n0 N
    end.
  Definition sum_list (a : list T) : T := fold_right (nadd N) (n0 N) a.
End Spec.
