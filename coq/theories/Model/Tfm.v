(* Model/Tfm.v — arim.im.tfm: the two TFM pipelines (C12).

   Mirrors (definitions only; lemmas are in Proofs/TfmProofs.v):
     arim.im.tfm.FocalLaw.__init__ / arim.im.das._check_shapes   focal_rows
     arim.im.das.delay_and_sum (dispatch on the amplitudes)      delay_and_sum
     arim.im.tfm.contact_tfm                                     contact_tfm
     arim.im.tfm.tfm_for_view                                    tfm_for_view
     arim.ut.default_timetrace_weights (as the float array)      default_weights
     arim.core.Frame.expand_frame_assuming_reciprocity           expand_frame
   built ON the models of the parts:
     Model/Das.v     the numba kernels, weigh_timetraces, das_spec        (C02)
     Model/Frame.v   fmc, hmc, default_timetrace_weights, expand          (C15)
     Model/Fermat.v  dist, distance_pairwise, leg_times, the Rays record  (C01)
     Model/MinPlus.v transpose

   contact_tfm:
       lookup_times = g.distance_pairwise(grid.to_1d_points(), frame.probe.locations) / velocity
       if timetrace_weights == "default": ut.default_timetrace_weights(frame.tx, frame.rx)
       focal_law = FocalLaw(lookup_times, lookup_times, amplitudes, timetrace_weights)
       res = das.delay_and_sum(frame, focal_law, **kwargs); res.reshape(grid.shape)
   tfm_for_view:
       lookup_times_tx = view.tx_path.rays.times.T ; lookup_times_rx = view.rx_path.rays.times.T
       focal_law = FocalLaw(lookup_times_tx, lookup_times_rx, amplitudes)      (no weights)
       res = das.delay_and_sum(frame, focal_law, **kwargs); res.reshape(grid.shape)

   An image is the list of its pixel values in the C order of grid.to_1d_points()
   (`reshape(grid.shape)` does not move values: glue, exercised by the harness).
   A call that raises in Python (shape assertions of FocalLaw / _check_shapes,
   broadcasting error of the weights, an interpolation the amplitude kernels do not
   have) is `None`.  `amplitudes` is None or a TxRxAmplitudes (a plain ndarray makes
   delay_and_sum raise NotImplementedError and is not modelled). *)
From Coq Require Import List ZArith Bool Arith.
From Arim Require Import Base.Num Model.MinPlus Model.Fermat Model.Das Model.Frame.
Import ListNotations.

(* frame.tx[k], frame.rx[k] of every timetrace *)
Definition frame_pairs {D} (ss : list (scan D)) : list (nat * nat) := map (fun s => (s_tx s, s_rx s)) ss.

(* ---- Frame.expand_frame_assuming_reciprocity on a frame of timetraces:
   the operation of Model/Frame.v with payload = the row of samples ------------- *)
Definition entry_of_scan {D} (s : scan D) : entry (list D) := (s_tx s, s_rx s, s_x s).
Definition scan_of_entry {D} (e : entry (list D)) : scan D := mkScan (fst (fst e)) (snd (fst e)) (snd e).
Definition expand_frame {D} (ss : list (scan D)) : option (list (scan D)) :=
  option_map (map scan_of_entry) (expand (map entry_of_scan ss)).

(* a frame recorded on the element pairs `pairs`, g i j = the timetrace of (tx i, rx j) *)
Definition frame_of {D} (g : nat -> nat -> list D) (pairs : list (nat * nat)) : list (scan D) :=
  map (fun p => mkScan (fst p) (snd p) (g (fst p) (snd p))) pairs.

(* the timetrace recorded with the elements swapped *)
Definition mirror {D} (s : scan D) : scan D := mkScan (s_rx s) (s_tx s) (s_x s).

(* timetrace_weights argument of contact_tfm: "default", None, or an array *)
Inductive weights_arg (T : Type) := WDefault | WNone | WGiven (w : list T).
Arguments WDefault {T}. Arguments WNone {T}. Arguments WGiven {T}.

(* (a.shape == b.shape) for two 2-D tables *)
Definition same_shape2 {A B} (a : list (list A)) (b : list (list B)) : bool :=
  (length a =? length b) && forallb (fun ab => length (fst ab) =? length (snd ab)) (combine a b).

Section Tfm.
  Context {T D : Type} (N : Num T) (V : Data T D).

  (* TxRxAmplitudes(amplitudes_tx, amplitudes_rx): (numgridpoints, numtx), (numgridpoints, numrx) *)
  Definition amp_tables := (list (list D) * list (list D))%type.

  (* FocalLaw.__init__ + das._check_shapes: one row per grid point;
       assert lookup_times_tx.shape[0] == lookup_times_rx.shape[0]
       assert amplitudes.amplitudes_tx.shape == lookup_times_tx.shape   (and rx) *)
  Definition focal_rows (ltx lrx : list (list T)) (amps : option amp_tables) : option (list (prow T D)) :=
    if length ltx =? length lrx then
      match amps with
      | None => Some (map (fun p => mkRow (fst p) (snd p) [] []) (combine ltx lrx))
      | Some (atx, arx) =>
          if same_shape2 atx ltx && same_shape2 arx lrx then
            Some (map (fun q => mkRow (fst (fst q)) (snd (fst q)) (fst (snd q)) (snd (snd q)))
                      (combine (combine ltx lrx) (combine atx arx)))
          else None
      end
    else None.

  (* das.delay_and_sum: isinstance(amplitudes, TxRxAmplitudes) -> delay_and_sum_numba,
     amplitudes is None -> delay_and_sum_numba_noamp (Model/Das.v: das_amp, das_noamp) *)
  Definition delay_and_sum (sc : scheme) (ns : Z) (dt t0 : T) (fill : D) (w : option (list T))
             (ltx lrx : list (list T)) (amps : option amp_tables) (ss : list (scan D)) : option (list D) :=
    match focal_rows ltx lrx amps with
    | None => None
    | Some rows =>
        match amps with
        | None => das_noamp N V sc ns dt t0 fill w rows ss
        | Some _ => das_amp N V sc ns dt t0 fill w rows ss
        end
    end.

  (* ut.default_timetrace_weights(frame.tx, frame.rx): np.ones, 2.0 where the mirrored pair is
     absent (Model/Frame.v computes the integers 1 / 2) *)
  Definition default_weights (ss : list (scan D)) : list T :=
    map (fun k => nofZ N (Z.of_nat k)) (default_timetrace_weights (frame_pairs ss)).

  Definition resolve_weights (wa : weights_arg T) (ss : list (scan D)) : option (list T) :=
    match wa with
    | WDefault => Some (default_weights ss)
    | WNone => None
    | WGiven w => Some w
    end.

  (* g.distance_pairwise(grid.to_1d_points(), probe.locations) / velocity : (numgridpoints, numelements).
     This is the `distance / speed` table of one ray leg (Model/Fermat.v: leg_times). *)
  Definition contact_lookup_times (grid probe : list (T * T * T)) (velocity : T) : list (list T) :=
    leg_times (ndiv N) (distance_pairwise N (0%Z, grid) (1%Z, probe)) velocity.

  Definition contact_tfm (sc : scheme) (ns : Z) (dt t0 : T) (fill : D) (wa : weights_arg T)
             (grid probe : list (T * T * T)) (velocity : T) (amps : option amp_tables)
             (ss : list (scan D)) : option (list D) :=
    let lookup_times := contact_lookup_times grid probe velocity in
    delay_and_sum sc ns dt t0 fill (resolve_weights wa ss) lookup_times lookup_times amps ss.

  (* view.tx_path.rays, view.rx_path.rays: Rays objects whose `times` have shape
     (numelements, numgridpoints); `.T` is MinPlus.transpose with the number of columns *)
  Definition tfm_for_view (sc : scheme) (ns : Z) (dt t0 : T) (fill : D) (numgridpoints : nat)
             (tx_rays rx_rays : rays T) (amps : option amp_tables) (ss : list (scan D)) : option (list D) :=
    let lookup_times_tx := transpose numgridpoints (r_times tx_rays) in
    let lookup_times_rx := transpose numgridpoints (r_times rx_rays) in
    delay_and_sum sc ns dt t0 fill None lookup_times_tx lookup_times_rx amps ss.

  (* ---- data used by the statements ----------------------------------------------- *)
  (* a unit spike at sample k of a timetrace of ns samples (all zero when k is outside) *)
  Definition spike (ns k : Z) : list D :=
    map (fun i => if (i =? k)%Z then done V else dzero V) (zrange 0%Z (Z.to_nat ns)).

  (* the sample where the echo of a scatterer sitting on the grid point of row r0 arrives on
     the timetrace s:  round((tau_tx + tau_rx - t0) / dt) *)
  Definition arrival_index (dt t0 : T) (r0 : prow T D) (s : scan D) : Z :=
    nround N (position N dt t0 r0 s).

  (* the row of the per-point tables with tx and rx exchanged (the reciprocal view) *)
  Definition swap_row (r : prow T D) : prow T D := mkRow (r_lt_rx r) (r_lt_tx r) (r_a_rx r) (r_a_tx r).
End Tfm.

Definition swap_amps {D} (a : option (list (list D) * list (list D))) : option (list (list D) * list (list D)) :=
  match a with None => None | Some (atx, arx) => Some (arx, atx) end.

(* ==========================================================================
   Float-facing wrappers used by the generated correspondence files (the model
   evaluated on binary64 by vm_compute inside coqc).  A case = one frame + one
   geometry (contact: grid, probe, velocity; view: the two ray-time tables as the
   implementation's ray tracing returned them) + the implementation's images for
   several (interpolation, fill, weights) requests.  Values are pairs (re, im); for
   real data only `re` is used and the real instance DataReal is run.
   No theorem mentions this part. *)
From Coq Require Import PrimFloat.
From Arim Require Import Base.NumF.

Record trun := mkTRun {
  tr_scheme : Z;                  (* 0 nearest, 1 linear, 2 ("lanczos", 3): error cases only (no libm here) *)
  tr_fill : float * float;
  tr_wmode : Z;                   (* contact: 0 "default", 1 None, 2 the array tc_w; view: ignored *)
  tr_keep : list Z;               (* pixels compared (C order of the grid) *)
  tr_res : list (float * float);  (* the implementation's TfmResult.res.ravel() at those pixels *)
  tr_atol : float }.              (* 0 = exact *)

Record tcase := mkTCase {
  tc_cplx : bool; tc_ns : Z; tc_dt : float; tc_t0 : float;
  tc_kind : Z;                    (* 0 contact_tfm, 1 tfm_for_view *)
  tc_grid : list (float * float * float);
  tc_probe : list (float * float * float);
  tc_vel : float;
  tc_ttx : list (list float);     (* view.tx_path.rays.times (numelements, numgridpoints) *)
  tc_trx : list (list float);
  tc_w : list float;
  tc_amp : bool;
  tc_atx : list (list (float * float));
  tc_arx : list (list (float * float));
  tc_scans : list (Z * Z * list (float * float));
  tc_runs : list trun }.

Section TExec.
  Context {D : Type} (V : Data float D) (inj : float * float -> D) (proj : D -> float * float).

  Definition t_scans (c : tcase) : list (scan D) :=
    map (fun s => mkScan (Z.to_nat (fst (fst s))) (Z.to_nat (snd (fst s))) (map inj (snd s))) (tc_scans c).

  Definition t_amps (c : tcase) : option (list (list D) * list (list D)) :=
    if tc_amp c then Some (map (map inj) (tc_atx c), map (map inj) (tc_arx c)) else None.

  Definition t_image (c : tcase) (r : trun) : option (list D) :=
    let sc := if (tr_scheme r =? 0)%Z then Nearest else if (tr_scheme r =? 1)%Z then Linear else Lanczos 3 in
    let ss := t_scans c in
    if (tc_kind c =? 0)%Z then
      let wa := if (tr_wmode r =? 0)%Z then WDefault else if (tr_wmode r =? 1)%Z then WNone else WGiven (tc_w c) in
      contact_tfm NumF V sc (tc_ns c) (tc_dt c) (tc_t0 c) (inj (tr_fill r)) wa
                  (tc_grid c) (tc_probe c) (tc_vel c) (t_amps c) ss
    else
      let p := match tc_ttx c with [] => 0 | row :: _ => length row end in
      tfm_for_view NumF V sc (tc_ns c) (tc_dt c) (tc_t0 c) (inj (tr_fill r)) p
                   (mkRays (tc_ttx c) []) (mkRays (tc_trx c) []) (t_amps c) ss.

  Definition t_check_run (c : tcase) (r : trun) : bool :=
    match t_image c r with
    | Some img =>
        list_all2 (fun k i => match nth_error img (Z.to_nat k) with
                              | Some m => cclose (tr_atol r) (proj m) i
                              | None => false
                              end) (tr_keep r) (tr_res r)
    | None => false
    end.
End TExec.

Definition t_check (c : tcase) : bool :=
  if tc_cplx c
  then forallb (t_check_run (DataCplx NumF) (fun v => v) (fun v => v) c) (tc_runs c)
  else forallb (t_check_run (DataReal NumF) fst (fun v => (v, zero)) c) (tc_runs c).

(* the implementation raised on every run of the case: the model must answer None on each *)
Definition t_check_raises (c : tcase) : bool :=
  forallb (fun r =>
             match (if tc_cplx c then option_map (fun _ => tt) (t_image (DataCplx NumF) (fun v => v) c r)
                    else option_map (fun _ => tt) (t_image (DataReal NumF) fst c r)) with
             | None => true
             | Some _ => false
             end) (tc_runs c).

(* indices of the runs of a case that disagree (diagnostics) *)
Definition t_bad_runs (c : tcase) : list Z :=
  let chk := if tc_cplx c then t_check_run (DataCplx NumF) (fun v => v) (fun v => v) c
             else t_check_run (DataReal NumF) fst (fun v => (v, zero)) c in
  let fix go (i : Z) (l : list trun) : list Z :=
    match l with [] => [] | r :: l => if chk r then go (i + 1)%Z l else i :: go (i + 1)%Z l end in
  go 0%Z (tc_runs c).

(* the model's image (diagnostics) *)
Definition t_model_image (c : tcase) (k : Z) : option (list (float * float)) :=
  match nth_error (tc_runs c) (Z.to_nat k) with
  | None => None
  | Some r =>
      if tc_cplx c then t_image (DataCplx NumF) (fun v => v) c r
      else option_map (map (fun v => (v, zero))) (t_image (DataReal NumF) fst c r)
  end.
