(* Model/PathReverse.v — the OBJECT-LEVEL glue of property C07: the Path / Interface / ray
   geometry objects, their reversal, and the three receive-side functions written as the
   loops of the source with the index arithmetic of the source (the list-level kernels of
   Model/Weights.v and Model/Beamspread.v are what these loops are proved equal to in
   Proofs/PathReverseProofs.v).

   Mirrors (src/arim):
     core.InterfaceKind.reverse                        core.py:911-924   (Model/Interface.v ikind_reverse)
     core.Interface.__init__ (the two ValueError)      core.py:1005-1016 pint_init
     core.Interface.reverse                            core.py:1060-1092 pint_reverse
     core.Path.__init__ (the three asserts)            core.py:1142-1155 ppath_init
     core.Path.velocities                              core.py:1168-1173 ppath_velocities
     core.Path.reverse                                 core.py:1188-1203 ppath_reverse
     core.Material.velocity / .attenuation             core.py:1270-1325 pm_velocity_opt, pm_attenuation
     ray.Rays.reverse + FermatPath.reverse + RayGeometry on the reversed rays, for ONE ray
                                                       ray.py:512-535, 587-588   rg_reverse
     ray.RayGeometry.from_path                         ray.py:948-964    ray_geometry_from_path
     the unit strings: unit.lower() == "stress" / "displacement" / else ValueError
                                                       model.py:696-701, 833-838  parse_unit
     model.transmission_reflection_for_path            model.py:919-987  transrefl_path
     model.reverse_transmission_reflection_for_path    model.py:990-1070 reverse_transrefl_path
     model.beamspread_2d_for_path                      model.py:1073-1144 beamspread_idx
     model.reverse_beamspread_2d_for_path              model.py:1147-1207 reverse_beamspread_idx
     model.material_attenuation_for_path               model.py:1210-1243 material_attenuation_path

   Every function of arim.model works elementwise on the (n, m) arrays of rays, so the model
   answers for ONE ray (i, j); `raygeom` holds what RayGeometry answers for that ray.
   Python's outcomes are explicit: Ok v / Raise e.

   REPAIR (after the run-time tie, see harness/ties/tie_C07.py):
   (1) a fluid's transverse velocity is `None` in the model as in arim.Material (pm_vt : option T);
       reverse_transmission_reflection_for_path hands the two velocities to snell_angles BEFORE the
       per-interface helper is entered, so a None velocity raises TypeError (class EHelper) before
       the helper's ValueError (unit) / NotImplementedError (kind None) / AttributeError (missing
       reflection_against): tr_step_reverse tests this first; the helpers raise (TypeError, class
       EHelper) when the material in the SOLID role of the interface has no transverse velocity.
   (2) rg_inc holds conventional_inc_angle(i) for i = 1..n (the LAST interface included: a
       RayGeometry answers there when the interface's inc flag is set, and a path longer than the
       ray geometry reads it), rg_out holds conventional_out_angle(i) for i = 0..n-1 (the FIRST
       interface included), so that the reversed record is again of this form.

   Definitions only. *)
From Coq Require Import String Ascii.
From Coq Require Import List ZArith Bool Arith.   (* after String: `length` is List.length *)
From Arim Require Import Base.Num Model.Interface Model.Weights Model.Beamspread.
Import ListNotations.

(* ---- outcomes ------------------------------------------------------------------------- *)
Inductive perr :=
| EAssert     (* AssertionError *)
| EValue      (* ValueError *)
| EIndex      (* IndexError *)
| EAttr       (* AttributeError (an attribute / method of None) *)
| ENotImpl    (* NotImplementedError *)
| EHelper.    (* raised inside transmission_at_interface / reflection_at_interface after the
                 unit and kind dispatch (AssertionError "you've broken the physics", or the
                 TypeError of a transverse velocity None): the `None` of Model/Interface.v; ALSO
                 the TypeError of snell_angles called by reverse_transmission_reflection_for_path
                 itself with a velocity None, before the helper is entered *)

Inductive outcome (A : Type) : Type := Ok (a : A) | Raise (e : perr).
Arguments Ok {A}. Arguments Raise {A}.

Definition obind {A B} (r : outcome A) (f : A -> outcome B) : outcome B :=
  match r with Ok a => f a | Raise e => Raise e end.

(* seq[i] for a non-negative i *)
Definition lookup {A} (l : list A) (i : nat) : outcome A :=
  match nth_error l i with Some a => Ok a | None => Raise EIndex end.

(* [f(x) for x in l]: the first error, in order *)
Fixpoint omapM {A B} (f : A -> outcome B) (l : list A) : outcome (list B) :=
  match l with
  | [] => Ok []
  | x :: l' => obind (f x) (fun y => obind (omapM f l') (fun r => Ok (y :: r)))
  end.

(* the relation under which the property compares two calls: equal values, or both raise *)
Definition same_outcome {A} (r1 r2 : outcome A) : Prop :=
  match r1, r2 with
  | Ok a, Ok b => a = b
  | Raise _, Raise _ => True
  | _, _ => False
  end.

(* ---- unit strings (ASCII) -------------------------------------------------------------- *)
Definition ascii_lower (c : ascii) : ascii :=
  let n := nat_of_ascii c in
  if (65 <=? n) && (n <=? 90) then ascii_of_nat (n + 32) else c.
Definition ascii_upper (c : ascii) : ascii :=
  let n := nat_of_ascii c in
  if (97 <=? n) && (n <=? 122) then ascii_of_nat (n - 32) else c.
Fixpoint str_map (f : ascii -> ascii) (s : String.string) : String.string :=
  match s with
  | String.EmptyString => String.EmptyString
  | String.String c s' => String.String (f c) (str_map f s')
  end.
Definition str_lower := str_map ascii_lower.     (* str.lower() on ASCII text *)
Definition str_upper := str_map ascii_upper.

(* if unit.lower() == "stress": ... elif unit.lower() == "displacement": ... else: raise ValueError *)
Definition parse_unit (s : String.string) : option cunit :=
  if String.eqb (str_lower s) "stress"%string then Some Stress
  else if String.eqb (str_lower s) "displacement"%string then Some Displacement
  else None.

(* interfaces[1:-1] *)
Definition interior {A} (l : list A) : list A := removelast (tl l).

(* ---- the objects ----------------------------------------------------------------------- *)
Inductive trkind := Transmission | Reflection.      (* TransmissionReflection *)

Section Objects.
  Context {T : Type}.

  (* arim.Material as far as C07's functions read it: density and longitudinal_vel (real
     floats), transverse_vel (a float or None: a fluid) and the two optional attenuation laws
     (functions of the frequency) *)
  Record pmaterial := mkPMat {
    pm_rho : T; pm_vl : T;
    pm_vt : option T;                 (* transverse_vel; None for a fluid *)
    pm_attl : option (T -> T);        (* longitudinal_att *)
    pm_attt : option (T -> T)         (* transverse_att   *)
  }.
  (* Material.velocity(mode): longitudinal_vel / transverse_vel, None included *)
  Definition pm_velocity_opt (m : pmaterial) (md : wmode) : option T :=
    match md with ModeL => Some (pm_vl m) | ModeT => pm_vt m end.
  Definition pm_vt_missing (m : pmaterial) : bool :=
    match pm_vt m with None => true | Some _ => false end.
  Definition pm_velocity_missing (m : pmaterial) (md : wmode) : bool :=
    match pm_velocity_opt m md with None => true | Some _ => false end.
  (* the NUMBER handed to the kernels of Model/Interface.v (whose `material K` has no None).
     For a missing transverse velocity it is a placeholder (the longitudinal velocity) that is
     never read: the loops below raise before a None velocity is used in arithmetic
     (tr_step_reverse, transmission_call, reflection_call), and the kernels do not read the
     transverse velocity of the material in the fluid role
     (Proofs/PathReverseProofs.v, helper_ignores_fluid_role_vt) *)
  Definition pm_vt_num (m : pmaterial) : T :=
    match pm_vt m with Some v => v | None => pm_vl m end.
  Definition pm_velocity (m : pmaterial) (md : wmode) : T :=
    match md with ModeL => pm_vl m | ModeT => pm_vt_num m end.
  Definition pm_attenuation (m : pmaterial) (md : wmode) : option (T -> T) :=
    match md with ModeL => pm_attl m | ModeT => pm_attt m end.

  (* arim.Interface; pi_points stands for the Points object AND its orientations (an
     identifier: reversal keeps them) *)
  Record pinterface := mkPInt {
    pi_points : nat;
    pi_kind : option ikind;
    pi_tr : option trkind;
    pi_against : option pmaterial;
    pi_inc_side : option bool;        (* are_normals_on_inc_rays_side *)
    pi_out_side : option bool         (* are_normals_on_out_rays_side *)
  }.

  (* Interface.__init__: the two ValueError checks, in their order *)
  Definition pint_init (pts : nat) (kind : option ikind) (tr : option trkind)
             (against : option pmaterial) (inc_side out_side : option bool) : outcome pinterface :=
    match against, tr with
    | Some _, Some Reflection => Ok (mkPInt pts kind tr against inc_side out_side)
    | Some _, _ => Raise EValue       (* 'reflection_against' must be None for anything but a reflection *)
    | None, Some Reflection => Raise EValue   (* must be defined for a reflection *)
    | None, _ => Ok (mkPInt pts kind tr against inc_side out_side)
    end.

  (* Interface.reverse *)
  Definition pint_rev_kind (x : pinterface) : outcome (option ikind) :=
    match pi_kind x with
    | None => Ok None
    | Some k =>
        match pi_tr x with
        | None => Raise EValue                        (* "reverse path is ambiguous" *)
        | Some Transmission => Ok (Some (ikind_reverse k))
        | Some Reflection => Ok (Some k)
        end
    end.
  Definition pint_reverse (x : pinterface) : outcome pinterface :=
    obind (pint_rev_kind x) (fun rk =>
      pint_init (pi_points x) rk (pi_tr x) (pi_against x) (pi_out_side x) (pi_inc_side x)).

  (* what RayGeometry answers for one ray of a path with numinterfaces = n + 1:
       rg_vel  = rays.fermat_path.velocities              (n entries)
       rg_leg  = [inc_leg_size(k) for k = 1..n]            rg_leg[k-1]
       rg_inc  = [conventional_inc_angle(i), i = 1..n]     rg_inc[i-1]
       rg_out  = [conventional_out_angle(i), i = 0..n-1]   rg_out[i]
     (conventional_inc_angle(0) and conventional_out_angle(n) are None; the entry of the last /
     first interface exists when that interface's inc / out normal-side flag is set, as
     block-in-immersion set-ups do for the grid / the probe; the loops of beamspread read
     i = 1..n-1 only, a path LONGER than the ray geometry reads conventional_inc_angle(n)) *)
  Record raygeom := mkRG {
    rg_numinterfaces : nat;
    rg_vel : list T;
    rg_leg : list T;
    rg_inc : list T;
    rg_out : list T
  }.

  (* Rays.reverse() seen through RayGeometry: the fermat path is reversed, the legs are
     walked backwards, and the incoming conventional angle of the reversed ray at an
     interface is the outgoing conventional angle of the forward ray there (C05,
     inc_is_out_of_reverse: Interface.reverse swaps the normal-side flags): interface i of the
     reversed path is interface n - i of the path, so inc'(i) = out(n - i) for i = 1..n and
     out'(i) = inc(n - i) for i = 0..n-1 *)
  Definition rg_reverse (rg : raygeom) : raygeom :=
    mkRG (rg_numinterfaces rg) (rev (rg_vel rg)) (rev (rg_leg rg)) (rev (rg_out rg)) (rev (rg_inc rg)).

  Definition rg_velocity (rg : raygeom) (k : nat) : outcome T := lookup (rg_vel rg) k.
  (* inc_leg_size(k) / conventional_inc_angle(i): None at the first interface (the callers then
     fail on None), IndexError beyond the last; the last interface (i = n) answers *)
  Definition rg_inc_leg_size (rg : raygeom) (k : nat) : outcome T :=
    if k =? 0 then Raise EAttr
    else if rg_numinterfaces rg <=? k then Raise EIndex
    else lookup (rg_leg rg) (k - 1).
  Definition rg_conv_inc_angle (rg : raygeom) (i : nat) : outcome T :=
    if i =? 0 then Raise EAttr
    else if rg_numinterfaces rg <=? i then Raise EIndex
    else lookup (rg_inc rg) (i - 1).

  (* arim.Path; pp_rays = path.rays (None before ray tracing), for the ray under study *)
  Record ppath := mkPPath {
    pp_interfaces : list pinterface;
    pp_materials : list pmaterial;
    pp_modes : list wmode;
    pp_rays : option raygeom
  }.

  (* Path.__init__: assert numinterfaces >= 2; len(materials) == numlegs; len(modes) == numlegs;
     self.rays = None *)
  Definition ppath_init (interfaces : list pinterface) (materials : list pmaterial)
             (modes : list wmode) : outcome ppath :=
    let numinterfaces := length interfaces in
    let numlegs := numinterfaces - 1 in
    if negb (2 <=? numinterfaces) then Raise EAssert
    else if negb (length materials =? numlegs) then Raise EAssert
    else if negb (length modes =? numlegs) then Raise EAssert
    else Ok (mkPPath interfaces materials modes None).

  (* Path.velocities: tuple(material.velocity(mode) for material, mode in zip(materials, modes));
     an entry is None for the T mode in a fluid *)
  Definition ppath_velocities (p : ppath) : list (option T) :=
    map (fun mm => pm_velocity_opt (fst mm) (snd mm)) (combine (pp_materials p) (pp_modes p)).

  (* Path.reverse *)
  Definition ppath_reverse (p : ppath) : outcome ppath :=
    obind (omapM pint_reverse (pp_interfaces p)) (fun ris =>
    obind (ppath_init (rev ris) (rev (pp_materials p)) (rev (pp_modes p))) (fun q =>
      Ok (mkPPath (pp_interfaces q) (pp_materials q) (pp_modes q)
                  (match pp_rays p with None => None | Some r => Some (rg_reverse r) end)))).

  (* RayGeometry.from_path: ValueError("Rays must be computed first."); numinterfaces =
     len(path.interfaces) *)
  Definition ray_geometry_from_path (p : ppath) : outcome raygeom :=
    match pp_rays p with
    | None => Raise EValue
    | Some r => Ok (mkRG (length (pp_interfaces p)) (rg_vel r) (rg_leg r) (rg_inc r) (rg_out r))
    end.
End Objects.

Arguments pmaterial T : clear implicits. Arguments pinterface T : clear implicits.
Arguments raygeom T : clear implicits. Arguments ppath T : clear implicits.

(* ---- transmission_reflection_for_path / reverse_transmission_reflection_for_path -------- *)
Section TransRefl.
  (* T: the float type of the angles and material constants.  K: the dtype of the
     coefficients; emb = the conversion np.asarray(angles, complex) and numpy's promotion of
     the real constants:  force_complex=True  -> K = T * T, NK = NumC N, emb = cre N
                          force_complex=False -> K = T,     NK = N,      emb = id *)
  Context {T K : Type} (N : Num T) (NK : Num K) (emb : T -> K).

  Definition kmat (m : pmaterial T) : material K :=
    mkMaterial (emb (pm_rho m)) (emb (pm_vl m)) (emb (pm_vt_num m)).

  (* transmission_at_interface as called: unit check, kind dispatch, then the formulas.  Inside
     a kind's branch every exception is of class EHelper; the material in the SOLID role
     (material_out for fluid_solid, material_inc for solid_fluid) has its transverse_vel read
     (snell_angles(alpha_fluid, c_fluid, solid.transverse_vel) / solid_l_fluid(c_t=...)): None
     there is a TypeError *)
  Definition transmission_call (kind : option ikind) (m_inc m_out : pmaterial T)
             (mode_inc mode_out : wmode) (alpha : K) (u : option cunit) : outcome K :=
    match u with
    | None => Raise EValue
    | Some u =>
        match kind with
        | None => Raise ENotImpl
        | Some k =>
            if pm_vt_missing (match k with FluidSolid => m_out | SolidFluid => m_inc end)
            then Raise EHelper
            else
            match transmission_at_interface NK k (kmat m_inc) (kmat m_out) mode_inc mode_out alpha u with
            | Some v => Ok v
            | None => Raise EHelper
            end
        end
    end.

  (* reflection_at_interface as called; a missing reflection_against fails on None
     (AttributeError on material_against.state_of_matter, before any arithmetic); the solid role
     is material_inc for solid_fluid, material_against for fluid_solid *)
  Definition reflection_call (kind : option ikind) (m_inc : pmaterial T) (against : option (pmaterial T))
             (mode_inc mode_out : wmode) (alpha : K) (u : option cunit) : outcome K :=
    match u with
    | None => Raise EValue
    | Some u =>
        match kind with
        | None => Raise ENotImpl
        | Some k =>
            match against with
            | None => Raise EAttr
            | Some ag =>
                if pm_vt_missing (match k with FluidSolid => ag | SolidFluid => m_inc end)
                then Raise EHelper
                else
                match reflection_at_interface NK k (kmat m_inc) (kmat ag) mode_inc mode_out alpha u with
                | Some v => Ok v
                | None => Raise EHelper
                end
            end
        end
    end.

  (* body of the loop of transmission_reflection_for_path for interface number i *)
  Definition tr_step_forward (p : ppath T) (rg : raygeom T) (u : option cunit)
             (i : nat) (x : pinterface T) : outcome K :=
    match pi_tr x with
    | None => Raise EAssert                   (* assert interface.transmission_reflection is not None *)
    | Some tr =>
        obind (lookup (pp_materials p) (i - 1)) (fun material_inc =>
        obind (lookup (pp_modes p) (i - 1)) (fun mode_inc =>
        obind (lookup (pp_modes p) i) (fun mode_out =>
        obind (rg_conv_inc_angle rg i) (fun theta =>
        match tr with
        | Transmission =>
            obind (lookup (pp_materials p) i) (fun material_out =>
            transmission_call (pi_kind x) material_inc material_out mode_inc mode_out (emb theta) u)
        | Reflection =>
            reflection_call (pi_kind x) material_inc (pi_against x) mode_inc mode_out (emb theta) u
        end))))
    end.

  (* body of the loop of reverse_transmission_reflection_for_path.  The complex conversion of
     the angle is made in the transmission branch only: at a reflection snell_angles is
     applied to the REAL angle (real arcsin) and the result is converted afterwards.
     snell_angles(angles, c_incident, c_refracted) = arcsin(c_refracted / c_incident * sin(angles))
     is called HERE, before the helper: a velocity None (T mode in a fluid) is a TypeError of the
     division, raised before the helper looks at the unit, the kind or reflection_against (but
     after interface.kind.reverse() of a transmission). *)
  Definition tr_step_reverse (p : ppath T) (rg : raygeom T) (u : option cunit)
             (i : nat) (x : pinterface T) : outcome K :=
    match pi_tr x with
    | None => Raise EAssert
    | Some tr =>
        obind (lookup (pp_modes p) i) (fun mode_inc =>
        obind (lookup (pp_materials p) i) (fun material_inc =>
        obind (lookup (pp_modes p) (i - 1)) (fun mode_out =>
        obind (rg_conv_inc_angle rg i) (fun theta =>
        match tr with
        | Transmission =>
            obind (lookup (pp_materials p) (i - 1)) (fun material_out =>
            match pi_kind x with
            | None => Raise EAttr                (* interface.kind.reverse() on None *)
            | Some k =>
                if pm_velocity_missing material_out mode_out || pm_velocity_missing material_inc mode_inc
                then Raise EHelper               (* TypeError in snell_angles: float / None *)
                else
                transmission_call (Some (ikind_reverse k)) material_inc material_out mode_inc mode_out
                  (snell_angles NK (emb theta) (emb (pm_velocity material_out mode_out))
                                               (emb (pm_velocity material_inc mode_inc))) u
            end)
        | Reflection =>
            if pm_velocity_missing material_inc mode_out || pm_velocity_missing material_inc mode_inc
            then Raise EHelper                   (* TypeError in snell_angles *)
            else
            reflection_call (pi_kind x) material_inc (pi_against x) mode_inc mode_out
              (emb (snell_angles N theta (pm_velocity material_inc mode_out)
                                         (pm_velocity material_inc mode_inc))) u
        end))))
    end.

  (* transrefl = None; for i, interface in enumerate(path.interfaces[1:-1], start=1):
       tmp = ...;  transrefl = tmp  /  transrefl *= tmp;   return transrefl *)
  Fixpoint tr_loop (step : nat -> pinterface T -> outcome K) (i : nat) (l : list (pinterface T))
           (acc : option K) : outcome (option K) :=
    match l with
    | [] => Ok acc
    | x :: l' =>
        obind (step i x) (fun t =>
          tr_loop step (S i) l' (Some (match acc with None => t | Some a => nmul NK a t end)))
    end.

  Definition transrefl_path (p : ppath T) (rg : raygeom T) (u : option cunit) : outcome (option K) :=
    tr_loop (tr_step_forward p rg u) 1 (interior (pp_interfaces p)) None.
  Definition reverse_transrefl_path (p : ppath T) (rg : raygeom T) (u : option cunit) : outcome (option K) :=
    tr_loop (tr_step_reverse p rg u) 1 (interior (pp_interfaces p)) None.
End TransRefl.

(* the public signatures: force_complex and the unit string *)
Section PublicTransRefl.
  Context {T : Type} (N : Num T).
  Definition coeff (force_complex : bool) : Type := if force_complex then (T * T)%type else T.
  Definition transmission_reflection_for_path (p : ppath T) (rg : raygeom T) (force_complex : bool)
             (unit : String.string) : outcome (option (coeff force_complex)) :=
    match force_complex return outcome (option (coeff force_complex)) with
    | true => transrefl_path (NumC N) (cre N) p rg (parse_unit unit)
    | false => transrefl_path N (fun x => x) p rg (parse_unit unit)
    end.
  Definition reverse_transmission_reflection_for_path (p : ppath T) (rg : raygeom T) (force_complex : bool)
             (unit : String.string) : outcome (option (coeff force_complex)) :=
    match force_complex return outcome (option (coeff force_complex)) with
    | true => reverse_transrefl_path N (NumC N) (cre N) p rg (parse_unit unit)
    | false => reverse_transrefl_path N N (fun x => x) p rg (parse_unit unit)
    end.
End PublicTransRefl.

(* ---- beamspread_2d_for_path / reverse_beamspread_2d_for_path with the source's indices ---- *)
Section BeamspreadIdx.
  Context {T : Type} (N : Num T).

  (* virtual_distance = inc_leg_size(first).copy()
     for k in range(1, n): r = inc_leg_size(legidx k); gamma = prod gamma_list[:k];
                           virtual_distance += r / gamma *)
  Definition vd_loop (rg : raygeom T) (first : nat) (legidx : nat -> nat) (gl : list T) (n : nat) : outcome T :=
    obind (rg_inc_leg_size rg first) (fun r1 =>
      fold_left (fun acc k =>
                   obind acc (fun vd =>
                   obind (rg_inc_leg_size rg (legidx k)) (fun r =>
                     Ok (nadd N vd (ndiv N r (gamma_prefix N gl k))))))
                (seq 1 (n - 1)) (Ok r1)).

  Definition gamma_list_idx (rg : raygeom T) : outcome (list T) :=
    let n := rg_numinterfaces rg - 1 in
    omapM (fun k =>
             obind (rg_conv_inc_angle rg k) (fun theta_inc =>
             obind (rg_velocity rg (k - 1)) (fun v_prev =>
             obind (rg_velocity rg k) (fun v_cur =>
               Ok (gamma_of N v_prev v_cur theta_inc)))))
          (seq 1 (n - 1)).

  Definition beamspread_idx (rg : raygeom T) : outcome T :=
    let n := rg_numinterfaces rg - 1 in
    obind (gamma_list_idx rg) (fun gl =>
    obind (vd_loop rg 1 (fun k => k + 1) gl n) (fun vd =>
      Ok (ndiv N (n1 N) (nsqrt N vd)))).

  (* theta_out = conventional_inc_angle(n - k); nu = velocities[n - k] / velocities[n - k - 1] *)
  Definition rev_gamma_list_idx (rg : raygeom T) : outcome (list T) :=
    let n := rg_numinterfaces rg - 1 in
    omapM (fun k =>
             obind (rg_conv_inc_angle rg (n - k)) (fun theta_out =>
             obind (rg_velocity rg (n - k)) (fun v_next =>
             obind (rg_velocity rg (n - k - 1)) (fun v_prev =>
               Ok (rev_gamma_of N v_next v_prev theta_out)))))
          (seq 1 (n - 1)).

  Definition reverse_beamspread_idx (rg : raygeom T) : outcome T :=
    let n := rg_numinterfaces rg - 1 in
    obind (rev_gamma_list_idx rg) (fun gl =>
    obind (vd_loop rg n (fun k => n - k) gl n) (fun vd =>
      Ok (ndiv N (n1 N) (nsqrt N vd)))).

  (* ---- material_attenuation_for_path ----
     log_att = 0
     for k, (material, mode) in enumerate(zip(path.materials, path.modes), start=1):
         att_obj = material.attenuation(mode)
         if att_obj is None: continue
         log_att -= att_obj(frequency) * ray_geometry.inc_leg_size(k)
     return exp(log_att) *)
  Fixpoint att_loop (rg : raygeom T) (frequency : T) (k : nat) (mm : list (pmaterial T * wmode))
           (log_att : T) : outcome T :=
    match mm with
    | [] => Ok log_att
    | (material, mode) :: mm' =>
        match pm_attenuation material mode with
        | None => att_loop rg frequency (S k) mm' log_att
        | Some att_obj =>
            obind (rg_inc_leg_size rg k) (fun d =>
              att_loop rg frequency (S k) mm' (nsub N log_att (nmul N (att_obj frequency) d)))
        end
    end.

  Definition material_attenuation_path (p : ppath T) (rg : raygeom T) (frequency : T) : outcome T :=
    obind (att_loop rg frequency 1 (combine (pp_materials p) (pp_modes p)) (n0 N)) (fun log_att =>
      Ok (nexp N log_att)).

  (* the optional coefficient of every leg, as Model/Beamspread.v's `attenuation` takes them *)
  Definition att_coeffs_of_path (p : ppath T) (frequency : T) : list (option T) :=
    map (fun mm => match pm_attenuation (fst mm) (snd mm) with
                   | None => None
                   | Some f => Some (f frequency)
                   end) (combine (pp_materials p) (pp_modes p)).
End BeamspreadIdx.

(* ---- the view of a path as the list-level records of Model/Weights.v -------------------- *)
Section View.
  Context {T K : Type} (emb : T -> K).
  (* the interior interface number i (1-based) as Model.Weights.iface; None when something
     the loops need is missing — which includes the transverse velocity of the materials in the
     solid role of the interface in either direction (a transmission: materials[i] for
     fluid_solid, materials[i-1] for solid_fluid; a reflection: materials[i-1] and materials[i]
     for solid_fluid, reflection_against for fluid_solid): Model.Weights has no None velocity *)
  Definition solid_roles_ok (k : ikind) (tr : trkind) (mp mn : pmaterial T) (ag : option (pmaterial T)) : bool :=
    match tr, k with
    | Transmission, FluidSolid => negb (pm_vt_missing mn)
    | Transmission, SolidFluid => negb (pm_vt_missing mp)
    | Reflection, SolidFluid => negb (pm_vt_missing mp) && negb (pm_vt_missing mn)
    | Reflection, FluidSolid => match ag with Some a => negb (pm_vt_missing a) | None => false end
    end.
  Definition view_iface (p : ppath T) (rg : raygeom T) (i : nat) (x : pinterface T) : option (iface (K := K)) :=
    match pi_kind x, pi_tr x, nth_error (pp_materials p) (i - 1), nth_error (pp_materials p) i,
          nth_error (pp_modes p) (i - 1), nth_error (pp_modes p) i, nth_error (rg_inc rg) (i - 1) with
    | Some k, Some tr, Some mp, Some mn, Some mdp, Some mdn, Some th =>
        if negb (solid_roles_ok k tr mp mn (pi_against x)) then None else
        match tr, pi_against x with
        | Transmission, _ =>
            Some (mkIface k true (kmat emb mp) (kmat emb mn) (kmat emb mn) mdp mdn (emb th))
        | Reflection, Some ag =>
            Some (mkIface k false (kmat emb mp) (kmat emb mn) (kmat emb ag) mdp mdn (emb th))
        | Reflection, None => None
        end
    | _, _, _, _, _, _, _ => None
    end.

  Fixpoint view_from (p : ppath T) (rg : raygeom T) (i : nat) (l : list (pinterface T)) : option (list (iface (K := K))) :=
    match l with
    | [] => Some []
    | x :: l' =>
        match view_iface p rg i x, view_from p rg (S i) l' with
        | Some y, Some r => Some (y :: r)
        | _, _ => None
        end
    end.
  Definition view_path (p : ppath T) (rg : raygeom T) : option (list (iface (K := K))) :=
    view_from p rg 1 (interior (pp_interfaces p)).
End View.

(* ---- the ray geometry record READ OFF the geometric model of C05 (Model/RayGeom.v) ----------
   RayGeometry(interfaces, rays) for the ray whose column of point indices rays.indices[:, i, j]
   is `ray`; vels = rays.fermat_path.velocities.  Every entry must be a value (a missing
   normal-side flag gives ValueError, a bad index IndexError): the inc flag of the interfaces
   1..n and the out flag of the interfaces 0..n-1. *)
From Arim Require Model.Vec3 Model.RayGeom.

Section OfGeometry.
  Context {T : Type} (N : Num T).
  Definition res_to_outcome {A} (r : RayGeom.res A) : outcome A :=
    match r with
    | RayGeom.Val a => Ok a
    | RayGeom.NoLeg => Raise EAttr
    | RayGeom.IndexErr => Raise EIndex
    | RayGeom.ValueErr => Raise EValue
    end.

  Definition rg_of_geometry (ifs : list (RayGeom.iface (T:=T))) (ray : list nat) (vels : list T) : outcome (raygeom T) :=
    let n := length ifs - 1 in
    obind (omapM (fun k => res_to_outcome (RayGeom.inc_leg_size N ifs ray (Z.of_nat k))) (seq 1 n)) (fun legs =>
    obind (omapM (fun i => res_to_outcome (RayGeom.conventional_inc_angle N ifs ray (Z.of_nat i))) (seq 1 n)) (fun incs =>
    obind (omapM (fun i => res_to_outcome (RayGeom.conventional_out_angle N ifs ray (Z.of_nat i))) (seq 0 n)) (fun outs =>
      Ok (mkRG (length ifs) vels legs incs outs)))).
End OfGeometry.
