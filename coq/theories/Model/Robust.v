(* Model/Robust.v — arim.im.geomed.geomed (Newton descent with backtracking line
   search), arim.im.huber.huber_m_estimate (iteratively reweighted mean) and the
   three robust delay-and-sum kernels that call them (C02).

   2-D points are pairs (x, y) = (re, im) of the complex delayed samples
   (`datapoints.view(np.float_).reshape((numtimetraces, 2))`).
   `while l1_update > xtol: if k >= maxiter: raise ...` becomes structural
   recursion on fuel = maxiter; exhausting it is the error value RMaxIter, the
   line search running out of its 1000 trials is RNoAlpha. *)
From Coq Require Import List ZArith Bool.
From Arim Require Import Base.Num Model.Das.
Import ListNotations.

Inductive rres (A : Type) := ROk (a : A) | RMaxIter | RNoAlpha.
Arguments ROk {A}. Arguments RMaxIter {A}. Arguments RNoAlpha {A}.

Section Robust.
  Context {T : Type} (N : Num T).
  Local Notation "a + b" := (nadd N a b).
  Local Notation "a - b" := (nsub N a b).
  Local Notation "a * b" := (nmul N a b).
  Local Notation "a / b" := (ndiv N a b).
  Local Notation "- a" := (nopp N a).
  Definition pt := (T * T)%type.

  (* geomed._f: out = 0; for i: out += sqrt((x - data[i][0])**2 + (y - data[i][1])**2) *)
  Definition dist (z d : pt) : T :=
    nsqrt N ((fst z - fst d) * (fst z - fst d) + (snd z - snd d) * (snd z - snd d)).
  Definition geomed_f (data : list pt) (z : pt) : T :=
    fold_left (fun out d => out + dist z d) data (n0 N).

  (* the sums accumulated by geomed._gradf_and_inv_hessf: (gx, gy, a11, a12, a22) *)
  Definition grad_hess_step (z : pt) (st : T * T * T * T * T) (d : pt) : T * T * T * T * T :=
    let '(gx, gy, a11, a12, a22) := st in
    let tx := fst z - fst d in
    let ty := snd z - snd d in
    let inv_l2_t := n1 N / nsqrt N (tx * tx + ty * ty) in
    let inv_l2_t3 := inv_l2_t * inv_l2_t * inv_l2_t in
    (gx + inv_l2_t * tx, gy + inv_l2_t * ty,
     a11 + (inv_l2_t - inv_l2_t3 * (tx * tx)),
     a12 - (tx * ty) * inv_l2_t3,
     a22 + (inv_l2_t - inv_l2_t3 * (ty * ty))).
  Definition grad_hess (data : list pt) (z : pt) : T * T * T * T * T :=
    fold_left (grad_hess_step z) data (n0 N, n0 N, n0 N, n0 N, n0 N).

  (* invdet = 1 / (a11*a22 - a12*a12); return gx, gy, a22*invdet, -a12*invdet, a11*invdet *)
  Definition gradf_and_inv_hessf (data : list pt) (z : pt) : T * T * T * T * T :=
    let '(gx, gy, a11, a12, a22) := grad_hess data z in
    let invdet := n1 N / (a11 * a22 - a12 * a12) in
    (gx, gy, a22 * invdet, (- a12) * invdet, a11 * invdet).

  (* _backtracking_line_search: alpha = 1; for k in range(1000):
       if f(x + alpha p) > fval + c*alpha*(g . p): alpha *= rho  else: return alpha
     else: raise *)
  Fixpoint backtrack (fuel : nat) (data : list pt) (x g p : pt) (rho c fval alpha : T) : option T :=
    match fuel with
    | O => None
    | S fuel' =>
        if nltb N (fval + c * alpha * (fst g * fst p + snd g * snd p))
                  (geomed_f data (fst x + alpha * fst p, snd x + alpha * snd p))
        then backtrack fuel' data x g p rho c fval (alpha * rho)
        else Some alpha
    end.
  Definition backtracking_line_search (data : list pt) (x g p : pt) (rho c : T) : option T :=
    backtrack 1000 data x g p rho c (geomed_f data x) (n1 N).

  (* one pass of the `while` body of geomed: new iterate and |update|_1 *)
  Definition geomed_step (data : list pt) (rho c : T) (xk : pt) : option (pt * T) :=
    let '(gx, gy, invh11, invh12, invh22) := gradf_and_inv_hessf data xk in
    let p := ((- invh11) * gx - invh12 * gy, (- invh12) * gx - invh22 * gy) in
    match backtracking_line_search data xk (gx, gy) p rho c with
    | None => None
    | Some alpha =>
        let update := (alpha * fst p, alpha * snd p) in
        Some ((fst xk + fst update, snd xk + snd update),
              nabs N (fst update) + nabs N (snd update))
    end.

  Fixpoint geomed_loop (fuel : nat) (data : list pt) (xtol rho c : T) (xk : pt) (l1_update : T) (k : Z)
    : rres (pt * Z) :=
    if nltb N xtol l1_update then
      match fuel with
      | O => RMaxIter
      | S fuel' =>
          match geomed_step data rho c xk with
          | None => RNoAlpha
          | Some (xk', l1') => geomed_loop fuel' data xtol rho c xk' l1' (k + 1)%Z
          end
      end
    else ROk (xk, k).

  (* geomed(data, xtol, maxiter, c, rho): xk = (0, 0); l1_update = 2*xtol *)
  Definition geomed (data : list pt) (xtol : T) (maxiter : nat) (c rho : T) : rres (pt * Z) :=
    geomed_loop maxiter data xtol rho c (n0 N, n0 N) (nofZ N 2 * xtol) 0%Z.

  (* ---- huber._huber_iter --------------------------------------------------
     w_i = min(1, tau / sqrt((x0 - x_i)**2 + (y0 - y_i)**2));  min(1, q) = q if q < 1 else 1 *)
  Definition huber_weight (tau : T) (z d : pt) : T :=
    let q := tau / dist z d in if nltb N q (n1 N) then q else n1 N.
  Definition huber_sums (data : list pt) (tau : T) (z : pt) : T * T * T :=
    fold_left (fun st d =>
                 let '(sum_w, x, y) := st in
                 let w_i := huber_weight tau z d in
                 (sum_w + w_i, x + fst d * w_i, y + snd d * w_i))
              data (n0 N, n0 N, n0 N).
  Definition huber_iter (data : list pt) (tau : T) (z : pt) : pt :=
    let '(sum_w, x, y) := huber_sums data tau z in
    let inv_sum_w := n1 N / sum_w in
    (x * inv_sum_w, y * inv_sum_w).

  Fixpoint huber_loop (fuel : nat) (data : list pt) (tau xtol : T) (zk : pt) (l1_update : T) (k : Z)
    : rres (pt * Z) :=
    if nltb N xtol l1_update then
      match fuel with
      | O => RMaxIter
      | S fuel' =>
          let zk1 := huber_iter data tau zk in
          huber_loop fuel' data tau xtol zk1
                     (nabs N (fst zk - fst zk1) + nabs N (snd zk - snd zk1)) (k + 1)%Z
      end
    else ROk (zk, k).

  Definition huber_m_estimate (data : list pt) (tau xtol : T) (maxiter : nat) : rres (pt * Z) :=
    huber_loop maxiter data tau xtol (n0 N, n0 N) (nofZ N 2 * xtol) 0%Z.

  (* ---- the robust kernels (complex128 data only, see dispatch) ------------ *)
  Definition V := DataCplx N.
  Definition res_point (r : rres (pt * Z)) : rres pt :=
    match r with ROk (z, _) => ROk z | RMaxIter => RMaxIter | RNoAlpha => RNoAlpha end.

  (* defaults of geomed: xtol=1e-9, maxiter=200, c=1e-4, rho=0.5; of huber_m_estimate:
     xtol=1e-9, maxiter=600 — passed in by the caller of the model as numbers of T *)
  Definition k_median_nearest (xtol c rho : T) ns invdt t0 fill (rows : list (prow T pt)) (ss : list (scan pt)) :=
    map (fun r => res_point (geomed (median_nearest_samples N V ns invdt t0 fill r ss) xtol 200 c rho)) rows.
  Definition k_median_lanczos (xtol c rho : T) a ns invdt t0 fill (rows : list (prow T pt)) (ss : list (scan pt)) :=
    map (fun r => res_point (geomed (median_lanczos_samples N V a ns invdt t0 fill r ss) xtol 200 c rho)) rows.
  Definition k_huber_lanczos (xtol : T) a tau ns invdt t0 fill (rows : list (prow T pt)) (ss : list (scan pt)) :=
    map (fun r => res_point (huber_m_estimate (huber_lanczos_samples N V a ns invdt t0 fill r ss) tau xtol 600)) rows.

  (* delay_and_sum_numba_noamp for the robust aggregations *)
  Inductive robust := Median | Huber (tau : T).
  Definition das_robust (ag : robust) (sc : scheme) (xtol c rho : T) ns dt t0 fill (w : option (list T)) rows ss
    : option (list (rres pt)) :=
    match weigh_timetraces V w ss with
    | None => None
    | Some wss =>
        let invdt := n1 N / dt in
        match ag, sc with
        | Median, Nearest => Some (k_median_nearest xtol c rho ns invdt t0 fill rows wss)
        | Median, Lanczos a => Some (k_median_lanczos xtol c rho a ns invdt t0 fill rows wss)
        | Huber tau, Lanczos a => Some (k_huber_lanczos xtol a tau ns invdt t0 fill rows wss)
        | _, _ => None          (* NotImplementedError: see dispatch *)
        end
    end.

  (* ---- specification side ------------------------------------------------- *)
  (* gradient of sum_i |z - d_i| (defined where z is not a data point) *)
  Definition geomed_grad (data : list pt) (z : pt) : pt :=
    fold_right (fun d g => (fst g + (fst z - fst d) / dist z d, snd g + (snd z - snd d) / dist z d))
               (n0 N, n0 N) data.
  (* Huber's estimating function sum_i psi_tau(z - d_i), psi_tau(v) = v * min(1, tau/|v|) *)
  Definition huber_psi_sum (data : list pt) (tau : T) (z : pt) : pt :=
    fold_right (fun d g => (fst g + huber_weight tau z d * (fst z - fst d),
                            snd g + huber_weight tau z d * (snd z - snd d)))
               (n0 N, n0 N) data.
End Robust.
Arguments Median {T}. Arguments Huber {T}.
