(* Model/RayGeom.v — ray geometry: leg lengths and angle conventions (C05).

   Mirrors (src/arim/ray.py, src/arim/geometry.py, src/arim/core.py):
     Rays.make_indices            indices = [i] ++ interior_indices ++ [j]
     Rays.reverse                 swapaxes(interior, 1, 2)[::-1]
     RayGeometry.leg_points / orientations_of_legs_points
                                  points.coords.take(rays.indices[idx], axis=0)
     RayGeometry.inc_leg_size     Points(starts - ends).norm2()
     geometry.norm2               out = 0; out += x*x; out += y*y; out += z*z; sqrt(out)
     geometry.from_gcs            einsum("...ji,...i->...j", bases, v - origins) = B . (v - o):
                                  the ROWS of B are the local axes i_hat, j_hat, k_hat
     RayGeometry.inc_/out_leg_cartesian, _radius, _polar, _azimuth, inc_/out_angle
     geometry.spherical_coordinates_r / _theta / _phi
                                  norm2(x, y, z); arccos(z / r); arctan2(y, x)
     ray._signed_leg_angle        polar if -pi/2 < azimuth <= pi/2 else -polar
                                  (as repaired in /repo by fix 447b98d)
     RayGeometry.signed_inc/out_angle, conventional_inc/out_angle
                                  (out *= -1; out += pi  when the normal-side flag is False)
     core.Interface.reverse       swaps are_normals_on_inc_rays_side / _out_rays_side
     core.Path.reverse            tuple(reversed([i.reverse() for i in interfaces]))

   Every RayGeometry method works elementwise on the (n, m) array of rays, so the
   model answers for ONE ray: `ray` is the column rays.indices[:, i, j] (a list with
   one point index per interface; `ray_column` extracts it from the index arrays).
   Python's outcomes are explicit:
     Val v     a value (the [i, j] entry of the returned array)
     NoLeg     None: no incoming leg at the first / no outgoing leg at the last interface
     IndexErr  IndexError (interface index outside -n .. n-1, point index outside its set)
     ValueErr  ValueError (conventional angle asked while the normal-side flag is None)
   Point indices are natural numbers (the solver never produces negative ones).
   Not modelled: the result cache (C14), Interface.kind / transmission_reflection
   (Interface.reverse also reverses the kind; irrelevant for geometry).
   Definitions only. *)
From Coq Require Import List ZArith Bool Arith.
From Arim Require Import Base.Num Model.Vec3.
Import ListNotations.

Inductive res (A : Type) : Type :=
| Val (a : A)
| NoLeg
| IndexErr
| ValueErr.
Arguments Val {A}. Arguments NoLeg {A}. Arguments IndexErr {A}. Arguments ValueErr {A}.

Definition rbind {A B} (r : res A) (f : A -> res B) : res B :=
  match r with Val a => f a | NoLeg => NoLeg | IndexErr => IndexErr | ValueErr => ValueErr end.
Definition rmap {A B} (f : A -> B) (r : res A) : res B := rbind r (fun a => Val (f a)).
Definition of_opt {A} (o : option A) : res A := match o with Some a => Val a | None => IndexErr end.

(* Python sequence indexing seq[idx] for a sequence of length n *)
Definition resolve (n : nat) (idx : Z) : option nat :=
  if (0 <=? idx)%Z then (if (idx <? Z.of_nat n)%Z then Some (Z.to_nat idx) else None)
  else if (- Z.of_nat n <=? idx)%Z then Some (Z.to_nat (idx + Z.of_nat n)) else None.

(* ---- ray index arrays (class Rays) ----------------------------------------- *)
Section Tables.
  Context {A : Type}.
  Definition tab (n m : nat) (f : nat -> nat -> A) : list (list A) :=
    map (fun i => map (fun j => f i j) (seq 0 m)) (seq 0 n).
  Definition get2 (t : list (list A)) (i j : nat) : option A :=
    match nth_error t i with Some row => nth_error row j | None => None end.
  (* transpose of a table whose rows have length p *)
  Fixpoint transpose (p : nat) (t : list (list A)) : list (list A) :=
    match t with
    | [] => repeat [] p
    | row :: t' => map (fun xl => fst xl :: snd xl) (combine row (transpose p t'))
    end.
  Fixpoint all_some (l : list (option A)) : option (list A) :=
    match l with
    | [] => Some []
    | None :: _ => None
    | Some x :: l' => match all_some l' with Some r => Some (x :: r) | None => None end
    end.
End Tables.

(* Rays.make_indices for n first points, m last points: shape (d + 2, n, m) *)
Definition make_indices (n m : nat) (interior : list (list (list nat))) : list (list (list nat)) :=
  [tab n m (fun i _ => i)] ++ interior ++ [tab n m (fun _ j => j)].

(* rays.indices[:, i, j] *)
Definition ray_column (indices : list (list (list nat))) (i j : nat) : option (list nat) :=
  all_some (map (fun lay => get2 lay i j) indices).

(* Rays.reverse: interior indices of the reversed rays; m = number of last points *)
Definition rays_reverse_interior (m : nat) (interior : list (list (list nat))) : list (list (list nat)) :=
  rev (map (transpose m) interior).

(* ---- interfaces, paths ------------------------------------------------------- *)
Section RayGeom.
  Context {T : Type} (N : Num T).
  Local Notation "a + b" := (nadd N a b) : num_scope.
  Local Notation "a - b" := (nsub N a b) : num_scope.
  Local Notation "a * b" := (nmul N a b) : num_scope.
  Local Notation "a / b" := (ndiv N a b) : num_scope.

  Record iface : Type := mkIface {
    if_points : list (vec3 T);       (* Interface.points, one per interface point *)
    if_orient : list (mat3 T);       (* Interface.orientations: rows = local axes  *)
    if_inc : option bool;            (* are_normals_on_inc_rays_side *)
    if_out : option bool             (* are_normals_on_out_rays_side *)
  }.

  (* Interface.reverse / Path.reverse *)
  Definition iface_reverse (f : iface) : iface :=
    mkIface (if_points f) (if_orient f) (if_out f) (if_inc f).
  Definition path_reverse (ifs : list iface) : list iface := rev (map iface_reverse ifs).

  (* geometry.norm2 *)
  Definition norm2_acc (v : vec3 T) : T :=
    nsqrt N (((n0 N + vx v * vx v) + vy v * vy v) + vz v * vz v)%num.

  (* geometry.from_gcs(points_gcs, bases, origins) *)
  Definition from_gcs (v : vec3 T) (B : mat3 T) (o : vec3 T) : vec3 T := mvec N B (vsub N v o).

  (* spherical coordinates of a local vector *)
  Definition sph_r (c : vec3 T) : T := norm2_acc c.
  Definition sph_theta (z r : T) : T := nacos N (z / r)%num.
  Definition sph_phi (x y : T) : T := natan2 N y x.

  (* ray._signed_leg_angle *)
  Definition half_pi : T := (npi N / nofZ N 2)%num.
  Definition signed_leg_angle (polar azimuth : T) : T :=
    if nltb N (nopp N half_pi) azimuth && nleb N azimuth half_pi then polar else nopp N polar.
  (* distance of the azimuth to the nearer decision boundary (class D margin) *)
  Definition signed_margin (azimuth : T) : T :=
    nmin N (nabs N (azimuth - half_pi)%num) (nabs N (azimuth + half_pi)%num).

  (* out = polar.copy(); out *= -1; out += pi *)
  Definition supplement (polar : T) : T := (polar * nopp N (n1 N) + npi N)%num.

  Section OneRay.
    Variable ifs : list iface.     (* RayGeometry.interfaces *)
    Variable ray : list nat.       (* rays.indices[:, i, j] *)

    Definition numinterfaces : nat := length ifs.

    (* leg_points(idx)[i, j]: the wrapper resolves idx in _interface_indices, the body
       indexes interfaces[idx] and rays.indices[idx], then takes the point *)
    Definition gather {X} (field : iface -> list X) (idx : Z) : res X :=
      match resolve numinterfaces idx with
      | None => IndexErr
      | Some a =>
          rbind (of_opt (nth_error ifs a)) (fun f =>
          rbind (of_opt (resolve (length ray) idx)) (fun b =>
          rbind (of_opt (nth_error ray b)) (fun p =>
          of_opt (nth_error (field f) p))))
      end.
    Definition leg_points (idx : Z) : res (vec3 T) := gather if_points idx.
    Definition orientations_of_legs_points (idx : Z) : res (mat3 T) := gather if_orient idx.

    (* answer of a method that returns None at interface `none_at` *)
    Definition guarded {X} (none_at : nat) (idx : Z) (body : res X) : res X :=
      match resolve numinterfaces idx with
      | None => IndexErr
      | Some a => if Nat.eqb a none_at then NoLeg else body
      end.

    (* the other end of a leg seen from the frame attached to the point at `here` *)
    Definition leg_local (other here : Z) : res (vec3 T) :=
      rbind (leg_points other) (fun o =>
      rbind (leg_points here) (fun h =>
      rbind (orientations_of_legs_points here) (fun B => Val (from_gcs o B h)))).

    (* ---- incoming legs ---- *)
    Definition inc_leg_size (idx : Z) : res T :=
      guarded 0 idx
        (rbind (leg_points (idx - 1)) (fun s =>
         rbind (leg_points idx) (fun e => Val (norm2_acc (vsub N s e))))).
    Definition inc_leg_cartesian (idx : Z) : res (vec3 T) :=
      guarded 0 idx (leg_local (idx - 1) idx).
    Definition inc_leg_radius (idx : Z) : res T := rmap sph_r (inc_leg_cartesian idx).
    Definition inc_leg_polar (idx : Z) : res T :=
      rbind (inc_leg_cartesian idx) (fun c =>
      rbind (inc_leg_radius idx) (fun r => Val (sph_theta (vz c) r))).
    Definition inc_leg_azimuth (idx : Z) : res T :=
      rmap (fun c => sph_phi (vx c) (vy c)) (inc_leg_cartesian idx).
    Definition inc_angle (idx : Z) : res T := inc_leg_polar idx.
    Definition signed_inc_angle (idx : Z) : res T :=
      rbind (inc_leg_azimuth idx) (fun az =>
      rbind (inc_leg_polar idx) (fun po => Val (signed_leg_angle po az))).
    Definition conventional (flag : option bool) (polar : res T) : res T :=
      match flag with
      | None => ValueErr
      | Some true => polar
      | Some false => rmap supplement polar
      end.
    Definition conventional_inc_angle (idx : Z) : res T :=
      match resolve numinterfaces idx with
      | None => IndexErr
      | Some a =>
          if Nat.eqb a 0 then NoLeg
          else rbind (of_opt (nth_error ifs a)) (fun f => conventional (if_inc f) (inc_leg_polar idx))
      end.

    (* ---- outgoing legs ---- *)
    Definition last_interface : nat := numinterfaces - 1.
    Definition out_leg_cartesian (idx : Z) : res (vec3 T) :=
      guarded last_interface idx (leg_local (idx + 1) idx).
    Definition out_leg_radius (idx : Z) : res T := rmap sph_r (out_leg_cartesian idx).
    Definition out_leg_polar (idx : Z) : res T :=
      rbind (out_leg_cartesian idx) (fun c =>
      rbind (out_leg_radius idx) (fun r => Val (sph_theta (vz c) r))).
    Definition out_leg_azimuth (idx : Z) : res T :=
      rmap (fun c => sph_phi (vx c) (vy c)) (out_leg_cartesian idx).
    Definition out_angle (idx : Z) : res T := out_leg_polar idx.
    Definition signed_out_angle (idx : Z) : res T :=
      rbind (out_leg_azimuth idx) (fun az =>
      rbind (out_leg_polar idx) (fun po => Val (signed_leg_angle po az))).
    Definition conventional_out_angle (idx : Z) : res T :=
      match resolve numinterfaces idx with
      | None => IndexErr
      | Some a =>
          if Nat.eqb a last_interface then NoLeg
          else rbind (of_opt (nth_error ifs a)) (fun f => conventional (if_out f) (out_leg_polar idx))
      end.

    (* ---- specification vocabulary ---- *)
    (* the point through which the ray goes at interface a (0-based, non-negative) *)
    Definition ray_point (a : nat) : option (vec3 T) :=
      match nth_error ifs a, nth_error ray a with
      | Some f, Some p => nth_error (if_points f) p
      | _, _ => None
      end.
    Definition ray_frame (a : nat) : option (mat3 T) :=
      match nth_error ifs a, nth_error ray a with
      | Some f, Some p => nth_error (if_orient f) p
      | _, _ => None
      end.
  End OneRay.

  (* travel time accumulated along the legs, left-nested as the solver adds it:
     ((l1/v0 + l2/v1) + l3/v2) + ...; vels = leg velocities; None if some leg size
     is not a value *)
  Fixpoint legs_time_from (ifs : list iface) (ray : list nat) (k : nat) (vels : list T) (acc : T) : option T :=
    match vels with
    | [] => Some acc
    | v :: vels' =>
        match inc_leg_size ifs ray (Z.of_nat k) with
        | Val l => legs_time_from ifs ray (S k) vels' (acc + l / v)%num
        | _ => None
        end
    end.
  Definition legs_time (ifs : list iface) (ray : list nat) (vels : list T) : option T :=
    match vels with
    | [] => None
    | v :: vels' =>
        match inc_leg_size ifs ray 1%Z with
        | Val l => legs_time_from ifs ray 2 vels' (l / v)%num
        | _ => None
        end
    end.
End RayGeom.

Arguments mkIface {T}. Arguments if_points {T}. Arguments if_orient {T}.
Arguments if_inc {T}. Arguments if_out {T}.
Arguments iface_reverse {T}. Arguments path_reverse {T}.
