(* Model/ScatMatrix.v — scattering matrices: layout, bilinear periodic interpolation,
   rotation, frequency interpolation (C10; the interpolation is reused by C08).

   Mirrors:
     arim.scat.make_angles / make_angles_grid          (linspace(-pi, pi, n, endpoint=False),
                                                        meshgrid 'xy': [j, i] = (inc i, out j))
     arim._scat._interpolate_scattering_matrix_kernel   line for line
     arim.scat.rotate_matrix                            (spec: cyclic shift of both indices;
                                                        the FFT route is tied to it in Dft)
     arim.scat.ScatFromData.freq_interp_matrices        (interp1d linear + extrapolate: oracle
                                                        given by its defining formula)
   The half period is a parameter P (instantiated with pi) so that exact executions can
   use a dyadic P.  Python's float `//` and `%` with a positive divisor are
   floor(x/d) and x - d*floor(x/d) in exact arithmetic; that is what the model uses. *)
From Coq Require Import ZArith List Bool.
From Arim Require Import Base.Num.
Import ListNotations.
Local Open Scope Z_scope.

Section ScatMatrix.
  Context {T : Type} (N : Num T).
  Variable P : T.    (* half period: np.pi *)
  Local Notation "a + b" := (nadd N a b) : num_scope.
  Local Notation "a - b" := (nsub N a b) : num_scope.
  Local Notation "a * b" := (nmul N a b) : num_scope.
  Local Notation "a / b" := (ndiv N a b) : num_scope.

  Definition two_P : T := (nofZ N 2 * P)%num.

  (* dtheta = 2 * np.pi / numpoints *)
  Definition dtheta (n : Z) : T := (two_P / nofZ N n)%num.

  (* np.linspace(-pi, pi, n, endpoint=False)[k] = -pi + k * (2 pi / n) *)
  Definition angle (n k : Z) : T := (nopp N P + nofZ N k * dtheta n)%num.

  (* int((theta + pi) // dtheta % numpoints) *)
  Definition theta_floor (n : Z) (theta : T) : Z := nfloor N ((theta + P) / dtheta n)%num.
  Definition theta_idx (n : Z) (theta : T) : Z := theta_floor n theta mod n.

  (* ((theta + pi) % dtheta) / dtheta *)
  Definition theta_frac (n : Z) (theta : T) : T :=
    (((theta + P) - dtheta n * nofZ N (theta_floor n theta)) / dtheta n)%num.

  Definition idx_plus1 (n i : Z) : Z := if i =? n - 1 then 0 else i + 1.

  (* the kernel; M j i = scattering_matrix[j, i] (row = scattered angle, column = incident) *)
  Definition interp (n : Z) (M : Z -> Z -> T) (inc_theta out_theta : T) : T :=
    let ii := theta_idx n inc_theta in
    let oi := theta_idx n out_theta in
    let fi := theta_frac n inc_theta in
    let fo := theta_frac n out_theta in
    let ii1 := idx_plus1 n ii in
    let oi1 := idx_plus1 n oi in
    let sw := M oi ii in
    let ne := M oi1 ii1 in
    let se := M oi ii1 in
    let nw := M oi1 ii in
    let f1 := (sw + (se - sw) * fi)%num in
    let f2 := (nw + (ne - nw) * fi)%num in
    (f1 + (f2 - f1) * fo)%num.

  (* as_single_freq_matrices: inc_theta, out_theta = meshgrid(theta, theta, 'xy');
     matrix[j, i] = f(inc_theta[j, i], out_theta[j, i]) = f(theta[i], theta[j]) *)
  Definition matrix_of (f : T -> T -> T) (n : Z) : Z -> Z -> T :=
    fun j i => f (angle n i) (angle n j).

  (* rotation of the scatterer by k grid steps: S'(a, b) = S(a - k dtheta, b - k dtheta) *)
  Definition shift_matrix (n k : Z) (M : Z -> Z -> T) : Z -> Z -> T :=
    fun j i => M ((j - k) mod n) ((i - k) mod n).

  (* scipy.interpolate.interp1d(kind='linear', fill_value='extrapolate') between the two
     frequencies bracketing f (or the two first / two last outside the range) *)
  Definition lerp (f0 f1 v0 v1 f : T) : T := (v0 + (v1 - v0) * ((f - f0) / (f1 - f0)))%num.
End ScatMatrix.
