(* Model/Scat.v — analytical scattering functions of arim.scat (C09).

   Mirrors (definitions only; lemmas are in Proofs/ScatProofs.v, Proofs/ScatCrackProofs.v):
     arim.scat.sdh_2d_scat                      modal sums n = 0..maxn, line for line
     arim.scat.PointSourceScat._scat_func
     arim.scat.crack_2d_scat                    mesh, to_compute -> use_incident_L/T, result dict
     arim._scat_crack.A_x / A_z                 only the assembly of the matrix from the table of
                                                quadrature values (mirrored table I_12, index
                                                matrix m_ind); the integrals are oracle values
     arim._scat_crack.basis_function
     arim._scat_crack.crack_2d_scat_kernel      one incident angle, one scattered angle
     arim._scat_crack.crack_2d_scat_matrix / crack_2d_scat_general   (index plumbing)
     to_compute gating of the three scatterers and the ValueError branch

   Complex numbers are pairs (re, im) over the numeric record; every complex operation
   used by the code is derived here from the real operations.  A real number multiplied
   with / added to a complex one is modelled by the exact-arithmetic meaning of numpy's
   promotion (r * z = (r re z, r im z)).

   Oracles (Section variables, arbitrary values):
     H1a H2a H1b H2b : Z -> complex      scipy.special.hankel1/2 (order, alpha | beta),
                                         orders -1 .. maxn
     ax az : Z -> complex                the quadrature values a_0 .. a_{N-1} of A_x / A_z
     solve_x solve_z                     numpy.linalg.solve (A_x, .), (A_z, .)              *)
From Coq Require Import ZArith List Bool String.
From Arim Require Import Base.Num.
Import ListNotations.
Local Open Scope Z_scope.

(* ------------------------------------------------------------------------------------ *)
(* complex numbers as pairs                                                              *)
(* ------------------------------------------------------------------------------------ *)
Section Cx.
  Context {T : Type} (N : Num T).
  Local Notation "a + b" := (nadd N a b) : num_scope.
  Local Notation "a - b" := (nsub N a b) : num_scope.
  Local Notation "a * b" := (nmul N a b) : num_scope.
  Local Notation "a / b" := (ndiv N a b) : num_scope.
  Local Notation "- a" := (nopp N a) : num_scope.

  Definition cx : Type := (T * T)%type.
  Definition c0 : cx := (n0 N, n0 N).
  Definition cofR (x : T) : cx := (x, n0 N).
  Definition ci : cx := (n0 N, n1 N).                        (* 1j *)
  Definition cadd (z w : cx) : cx := ((fst z + fst w)%num, (snd z + snd w)%num).
  Definition csub (z w : cx) : cx := ((fst z - fst w)%num, (snd z - snd w)%num).
  Definition copp (z : cx) : cx := ((- fst z)%num, (- snd z)%num).
  Definition cmul (z w : cx) : cx :=
    ((fst z * fst w - snd z * snd w)%num, (fst z * snd w + snd z * fst w)%num).
  (* complex / complex as numpy computes it (Smith's algorithm: scale by the larger component of
     the divisor, so |w|^2 is never formed and cannot overflow).  In exact arithmetic this is the
     quotient (Proofs/ScatProofs.v, cdiv_correct). *)
  Definition cdiv (z w : cx) : cx :=
    if nleb N (nabs N (snd w)) (nabs N (fst w)) then
      let rat := (snd w / fst w)%num in
      let scl := (n1 N / (fst w + snd w * rat))%num in
      (((fst z + snd z * rat) * scl)%num, ((snd z - fst z * rat) * scl)%num)
    else
      let rat := (fst w / snd w)%num in
      let scl := (n1 N / (snd w + fst w * rat))%num in
      (((fst z * rat + snd z) * scl)%num, ((snd z * rat - fst z) * scl)%num).
  Definition rscale (r : T) (z : cx) : cx := ((r * fst z)%num, (r * snd z)%num).   (* r * z *)
  Definition cmulr (z : cx) (r : T) : cx := ((fst z * r)%num, (snd z * r)%num).    (* z * r *)
  Definition cdivr (z : cx) (r : T) : cx := ((fst z / r)%num, (snd z / r)%num).    (* z / r *)
  Definition cis (t : T) : cx := (ncos N t, nsin N t).                              (* exp(1j t) *)

  (* accumulation k = 0, 1, .., n-1 from zero (einsum / np.dot over the last axis) *)
  Fixpoint csum_upto (f : Z -> cx) (n : nat) : cx :=
    match n with
    | O => c0
    | S k => cadd (csum_upto f k) (f (Z.of_nat k))
    end.

  (* np.dot of two complex vectors of length n (no conjugation) *)
  Definition cdot (n : nat) (u v : Z -> cx) : cx := csum_upto (fun m => cmul (u m) (v m)) n.

  (* specification of the linear-solver oracle: `solve b` returns x with A x = b (rows 0..n-1) *)
  Definition matvec (n : nat) (A : Z -> Z -> cx) (x : Z -> cx) (i : Z) : cx :=
    csum_upto (fun j => cmul (A i j) (x j)) n.
  Definition exact_solve (n : nat) (A : Z -> Z -> cx) (solve : (Z -> cx) -> (Z -> cx)) : Prop :=
    forall (b : Z -> cx) (i : Z), 0 <= i < Z.of_nat n -> matvec n A (solve b) i = b i.
  Definition symmetric_matrix (n : nat) (A : Z -> Z -> cx) : Prop :=
    forall i j : Z, 0 <= i < Z.of_nat n -> 0 <= j < Z.of_nat n -> A i j = A j i.
End Cx.

(* ------------------------------------------------------------------------------------ *)
(* to_compute: sets of scattering keys, result dictionaries                              *)
(* ------------------------------------------------------------------------------------ *)
Definition scat_keys : list string := ["LL"; "LT"; "TL"; "TT"]%string.
Definition valid_key (k : string) : bool := existsb (String.eqb k) scat_keys.
(* SCAT_KEYS.issuperset(to_compute) *)
Definition valid_to_compute (tc : list string) : bool := forallb valid_key tc.
(* "LL" in to_compute *)
Definition requested (tc : list string) (k : string) : bool := existsb (String.eqb k) tc.

Section Dict.
  Context {V : Type}.
  Definition dict : Type := list (string * V).
  Fixpoint lookup (k : string) (d : dict) : option V :=
    match d with
    | [] => None
    | (k', v) :: r => if String.eqb k k' then Some v else lookup k r
    end.
  Definition gate (tc : list string) (k : string) (v : V) : dict :=
    if requested tc k then [(k, v)] else [].

  (* result = dict(); if "LL" in to_compute: result["LL"] = ..; ... (sdh, point source) *)
  Definition gated_dict (tc : list string) (vLL vLT vTL vTT : V) : dict :=
    gate tc "LL"%string vLL ++ gate tc "LT"%string vLT ++ gate tc "TL"%string vTL ++ gate tc "TT"%string vTT.

  (* sdh_2d_scat / crack_2d_scat: ValueError unless to_compute is a subset of the four keys *)
  Definition checked (tc : list string) (d : dict) : option dict :=
    if valid_to_compute tc then Some d else None.

  (* crack_2d_scat: all four arrays are always returned; S_LL and S_LT are filled iff
     use_incident_L = "LL" in to_compute or "LT" in to_compute, S_TL and S_TT iff
     use_incident_T; unfilled arrays keep their initial zeros *)
  Definition use_incident_L (tc : list string) : bool := requested tc "LL"%string || requested tc "LT"%string.
  Definition use_incident_T (tc : list string) : bool := requested tc "TL"%string || requested tc "TT"%string.
  Definition crack_dict (tc : list string) (zero vLL vLT vTL vTT : V) : dict :=
    [("LL"%string, if use_incident_L tc then vLL else zero);
     ("LT"%string, if use_incident_L tc then vLT else zero);
     ("TL"%string, if use_incident_T tc then vTL else zero);
     ("TT"%string, if use_incident_T tc then vTT else zero)].
End Dict.
Arguments dict : clear implicits.

(* ------------------------------------------------------------------------------------ *)
(* side-drilled hole                                                                     *)
(* ------------------------------------------------------------------------------------ *)
Section Sdh.
  Context {T : Type} (N : Num T).
  Local Notation "a + b" := (nadd N a b) : num_scope.
  Local Notation "a - b" := (nsub N a b) : num_scope.
  Local Notation "a * b" := (nmul N a b) : num_scope.
  Local Notation "a / b" := (ndiv N a b) : num_scope.
  Local Notation "- a" := (nopp N a) : num_scope.
  Local Notation "# z" := (nofZ N z) (at level 5, format "# z").
  Local Notation cx := (@cx T).

  (* hankel1(n, alpha), hankel2(n, alpha), hankel1(n, beta), hankel2(n, beta) *)
  Variables H1a H2a H1b H2b : Z -> cx.
  Variables frequency radius vL vT : T.

  Definition two_pi : T := (#2 * npi N)%num.
  Definition sdh_kl : T := (two_pi * frequency / vL)%num.        (* 2 * pi * frequency / longitudinal_vel *)
  Definition sdh_kt : T := (two_pi * frequency / vT)%num.
  Definition sdh_alpha : T := (sdh_kl * radius)%num.
  Definition sdh_beta : T := (sdh_kt * radius)%num.
  Definition sdh_beta2 : T := (sdh_beta * sdh_beta)%num.

  (* maxn = max([int(min_terms), math.ceil(term_factor * alpha), math.ceil(term_factor * beta)]) *)
  Definition nceil (x : T) : Z := - nfloor N (- x)%num.
  Definition sdh_maxn (min_terms term_factor : Z) : Z :=
    Z.max min_terms (Z.max (nceil (#term_factor * sdh_alpha)%num) (nceil (#term_factor * sdh_beta)%num)).

  (* epsilon = np.full(n.shape, 2.0); epsilon[0] = 1.0 *)
  Definition epsilon (n : Z) : T := if n =? 0 then (#1)%num else (#2)%num.

  (* c_i(x) = (n2 + n - beta2 / 2) * hankel_i(n, x) - x * hankel_i(n - 1, x)
     d_i(x) = (n2 + n) * hankel_i(n, x) - n * x * hankel_i(n - 1, x)      (n2 + n: integers) *)
  Definition cfun (x : T) (H : Z -> cx) (n : Z) : cx :=
    csub N (rscale N (#(n * n + n) - sdh_beta2 / #2)%num (H n)) (rscale N x (H (n - 1))).
  Definition dfun (x : T) (H : Z -> cx) (n : Z) : cx :=
    csub N (rscale N (#(n * n + n))%num (H n)) (rscale N (#n * x)%num (H (n - 1))).
  Definition c1_alpha := cfun sdh_alpha H1a.
  Definition c2_alpha := cfun sdh_alpha H2a.
  Definition d1_alpha := dfun sdh_alpha H1a.
  Definition d2_alpha := dfun sdh_alpha H2a.
  Definition c1_beta := cfun sdh_beta H1b.
  Definition c2_beta := cfun sdh_beta H2b.
  Definition d1_beta := dfun sdh_beta H1b.
  Definition d2_beta := dfun sdh_beta H2b.

  (* c1_alpha * c1_beta - d1_alpha * d1_beta *)
  Definition sdh_den (n : Z) : cx :=
    csub N (cmul N (c1_alpha n) (c1_beta n)) (cmul N (d1_alpha n) (d1_beta n)).

  (* theta = out_theta - inc_theta; phi = theta + pi; n_phi = phi * n *)
  Definition sdh_phi (inc out : T) : T := ((out - inc) + npi N)%num.
  Definition n_phi (inc out : T) (n : Z) : T := (sdh_phi inc out * #n)%num.

  (* np.sqrt(1j) *)
  Definition sqrt_i : cx := ((nsqrt N #2 / #2)%num, (nsqrt N #2 / #2)%num).
  (* np.sqrt(1j) / pi * x *)
  Definition sdh_pref (x : T) : cx := cmulr N (cdivr N sqrt_i (npi N)) x.

  (* A_n = 1j / (2 * alpha) * (1 + (c2_alpha * c1_beta - d2_alpha * d1_beta) / den) *)
  Definition coef_LL (n : Z) : cx :=
    cmul N (cdivr N (ci N) (#2 * sdh_alpha)%num)
      (cadd N (cofR N #1%num)
         (cdiv N (csub N (cmul N (c2_alpha n) (c1_beta n)) (cmul N (d2_alpha n) (d1_beta n))) (sdh_den n))).
  (* B_n = 2 * n / (pi * alpha) * ((n2 - beta2 / 2 - 1) / den) *)
  Definition coef_LT (n : Z) : cx :=
    rscale N (#(2 * n) / (npi N * sdh_alpha))%num
      (cdiv N (cofR N (#(n * n) - sdh_beta2 / #2 - #1)%num) (sdh_den n)).
  (* A_n = 2 * n / (pi * beta) * (n2 - beta2 / 2 - 1) / den *)
  Definition coef_TL (n : Z) : cx :=
    cdiv N (cofR N (#(2 * n) / (npi N * sdh_beta) * (#(n * n) - sdh_beta2 / #2 - #1))%num) (sdh_den n).
  (* B_n = 1j / (2 * beta) * (1 + (c2_beta * c1_alpha - d2_beta * d1_alpha) / den) *)
  Definition coef_TT (n : Z) : cx :=
    cmul N (cdivr N (ci N) (#2 * sdh_beta)%num)
      (cadd N (cofR N #1%num)
         (cdiv N (csub N (cmul N (c2_beta n) (c1_alpha n)) (cmul N (d2_beta n) (d1_alpha n))) (sdh_den n))).

  (* np.einsum('...j,j->...', trig_n_phi, epsilon * coef), j = 0 .. maxn inclusive *)
  Definition modal_sum (trig : T -> T) (coef : Z -> cx) (maxn : nat) (inc out : T) : cx :=
    csum_upto N (fun n => rscale N (trig (n_phi inc out n)) (rscale N (epsilon n) (coef n))) (S maxn).

  Definition sdh_LL (maxn : nat) (inc out : T) : cx :=
    cmul N (sdh_pref sdh_alpha) (modal_sum (ncos N) coef_LL maxn inc out).
  Definition sdh_LT (maxn : nat) (inc out : T) : cx :=
    cmul N (sdh_pref sdh_beta) (modal_sum (nsin N) coef_LT maxn inc out).
  Definition sdh_TL (maxn : nat) (inc out : T) : cx :=
    cmul N (sdh_pref sdh_alpha) (modal_sum (nsin N) coef_TL maxn inc out).
  Definition sdh_TT (maxn : nat) (inc out : T) : cx :=
    cmul N (sdh_pref sdh_beta) (modal_sum (ncos N) coef_TT maxn inc out).

  (* the function as called: ValueError branch, maxn from the parameters, gating *)
  Definition sdh_2d_scat (min_terms term_factor : Z) (tc : list string) (inc out : T) : option (dict cx) :=
    let maxn := Z.to_nat (sdh_maxn min_terms term_factor) in
    checked tc (gated_dict tc (sdh_LL maxn inc out) (sdh_LT maxn inc out)
                              (sdh_TL maxn inc out) (sdh_TT maxn inc out)).
End Sdh.

(* ------------------------------------------------------------------------------------ *)
(* point source (debug scatterer): constants; no validation of to_compute               *)
(* ------------------------------------------------------------------------------------ *)
Section Point.
  Context {T : Type} (N : Num T).
  Variables vL vT : T.
  Definition point_LL (inc out : T) : T := n1 N.
  Definition point_LT (inc out : T) : T := ndiv N vL vT.
  Definition point_TL (inc out : T) : T := ndiv N (nopp N vT) vL.
  Definition point_TT (inc out : T) : T := n1 N.
  Definition point_scat (tc : list string) (inc out : T) : dict T :=
    gated_dict tc (point_LL inc out) (point_LT inc out) (point_TL inc out) (point_TT inc out).
End Point.

(* ------------------------------------------------------------------------------------ *)
(* crack centre                                                                          *)
(* ------------------------------------------------------------------------------------ *)
Section Crack.
  Context {T : Type} (N : Num T).
  Local Notation "a + b" := (nadd N a b) : num_scope.
  Local Notation "a - b" := (nsub N a b) : num_scope.
  Local Notation "a * b" := (nmul N a b) : num_scope.
  Local Notation "a / b" := (ndiv N a b) : num_scope.
  Local Notation "- a" := (nopp N a) : num_scope.
  Local Notation "# z" := (nofZ N z) (at level 5, format "# z").
  Local Notation cx := (@cx T).

  (* ---- assembly of the Galerkin matrices from the table of integrals (A_x, A_z) ------
     I_12 has 2N-1 entries; I_12[i + N - 1] = a_i (i = 0..N-1) is computed by quadrature,
     then I_12[:N-1] = I_12[:N-1:-1] mirrors it; m_ind[i, j] = N - 1 + i - j;
     A = I_12[m_ind]. *)
  Definition I12 (nn : Z) (a : Z -> cx) (k : Z) : cx :=
    if k <? nn - 1 then a ((2 * nn - 2 - k) - (nn - 1)) else a (k - (nn - 1)).
  Definition m_ind (nn i j : Z) : Z := (nn - 1) + i - j.
  Definition galerkin_matrix (nn : Z) (a : Z -> cx) (i j : Z) : cx := I12 nn a (m_ind nn i j).

  (* ---- mesh (crack_2d_scat) ---------------------------------------------------------- *)
  Definition magic_p : T := (#1133407986 / #10000000000)%num.        (* p = 0.1133407986 *)
  (* num_nodes = int(np.ceil(crack_length / lambda_L * nodes_per_wavelength)) *)
  Definition crack_num_nodes (crack_length vL frequency : T) (npw : Z) : Z :=
    nceil N (crack_length / (vL / frequency) * #npw)%num.
  (* h_nodes = crack_length / (num_nodes + 2 * p) *)
  Definition crack_h_nodes (crack_length : T) (nn : Z) : T := (crack_length / (#nn + #2 * magic_p))%num.
  (* x_nodes = np.arange(num_nodes) * h_nodes + (h_nodes * (1 / 2 + p) - crack_length / 2) *)
  Definition crack_x_nodes (crack_length : T) (nn : Z) (m : Z) : T :=
    let h := crack_h_nodes crack_length nn in
    (#m * h + (h * (#1 / #2 + magic_p) - crack_length / #2))%num.

  (* ---- basis_function ------------------------------------------------------------------ *)
  Definition basis_function (k : T) : T :=
    if nleb N (nabs N k) (#1 / #10)%num
    then (#1 - #1 / #18 * (k * k) + #1 / #792 * (k * k * (k * k)))%num
    else (#105 / (k * k * k * k * k * k * k) * (k * (k * k - #15) * ncos N k - (#6 * k * k - #15) * nsin N k))%num.

  (* ---- kernel ---------------------------------------------------------------------------- *)
  (* parameters of one call of crack_2d_scat_kernel (everything except the two angles) *)
  Record crack_params : Type := mkCrack {
    cp_vL : T; cp_vT : T; cp_density : T; cp_frequency : T;
    cp_nn : nat;                                  (* num_nodes *)
    cp_h : T;                                     (* h_nodes *)
    cp_x : Z -> T;                                (* x_nodes *)
    cp_solve_x : (Z -> cx) -> (Z -> cx);          (* np.linalg.solve(A_x, .) *)
    cp_solve_z : (Z -> cx) -> (Z -> cx)           (* np.linalg.solve(A_z, .) *)
  }.
  Variable p : crack_params.
  Local Notation vL := (cp_vL p).
  Local Notation vT := (cp_vT p).
  Local Notation density := (cp_density p).
  Local Notation frequency := (cp_frequency p).
  Local Notation h_nodes := (cp_h p).
  Local Notation x_nodes := (cp_x p).

  Definition lame_lambda : T := (density * (vL * vL - #2 * (vT * vT)))%num.
  Definition lame_mu : T := (density * (vT * vT))%num.
  Definition omega : T := (#2 * npi N * frequency)%num.
  Definition xi1 : T := (#2 * npi N * frequency / vL)%num.
  Definition xi2 : T := (#2 * npi N * frequency / vT)%num.
  Definition lambda_L : T := (vL / frequency)%num.
  Definition lambda_T : T := (vT / frequency)%num.
  Definition xi : T := (vT / vL)%num.
  (* a_L = -1j * k_L * pi / xi2**2 *)
  Definition a_inc (k : T) : cx := cdivr N (cmulr N (cmulr N (copp N (ci N)) k) (npi N)) (xi2 * xi2)%num.
  Definition a_L : cx := a_inc xi1.
  Definition a_T : cx := a_inc xi2.
  Definition rhodw2 : T := (density * (omega * omega))%num.          (* density * omega**2 *)

  (* x ** (5 / 2) *)
  Definition pow52 (x : T) : T := nexp N (#5 / #2 * nln N x)%num.
  (* 1 / 4 * sqrt(2 / pi) * exp(-1j * pi / 4) * k ** (5 / 2) *)
  Definition crack_pref (k : T) : cx :=
    cmulr N (rscale N (#1 / #4 * nsqrt N (#2 / npi N))%num (cis N (- (npi N / #4))%num)) (pow52 k).

  (* incident direction: sv = [-sin(phi_in), -cos(phi_in)], tv = [sv[1], -sv[0]] *)
  Definition sv0 (phi_in : T) : T := (- nsin N phi_in)%num.
  Definition sv1 (phi_in : T) : T := (- ncos N phi_in)%num.
  (* b = exp(1j * k * x_nodes * sv[0]) * basis_function(-k * h_nodes * sv[0]) *)
  Definition b_inc (k phi_in : T) (m : Z) : cx :=
    cmulr N (cis N (k * x_nodes m * sv0 phi_in)%num) (basis_function (- k * h_nodes * sv0 phi_in)%num).
  (* incident L: b_x = -2 * sv[0] * sv[1] * b_L;  b_z = -(1 / xi**2 - 2 * sv[0]**2) * b_L *)
  Definition rx_L (phi_in : T) : T := (- #2 * sv0 phi_in * sv1 phi_in)%num.
  Definition rz_L (phi_in : T) : T := (- (#1 / (xi * xi) - #2 * (sv0 phi_in * sv0 phi_in)))%num.
  Definition bx_L (phi_in : T) (m : Z) : cx := rscale N (rx_L phi_in) (b_inc xi1 phi_in m).
  Definition bz_L (phi_in : T) (m : Z) : cx := rscale N (rz_L phi_in) (b_inc xi1 phi_in m).
  (* incident T: b_x = -(tv[0] * sv[1] + tv[1] * sv[0]) * b_T;  b_z = -2 * tv[1] * sv[1] * b_T *)
  Definition rx_T (phi_in : T) : T := (- (sv1 phi_in * sv1 phi_in + (- sv0 phi_in) * sv0 phi_in))%num.
  Definition rz_T (phi_in : T) : T := (- #2 * (- sv0 phi_in) * sv1 phi_in)%num.
  Definition bx_T (phi_in : T) (m : Z) : cx := rscale N (rx_T phi_in) (b_inc xi2 phi_in m).
  Definition bz_T (phi_in : T) (m : Z) : cx := rscale N (rz_T phi_in) (b_inc xi2 phi_in m).

  (* scattered direction: ev = [sin(phi_out), cos(phi_out)], tv = [ev[1], -ev[0]], nv = [0, 1]
     c = basis_function(k * h_nodes * ev[0]) * exp(-1j * k * ev[0] * x_nodes) *)
  Definition c_out (k phi_out : T) (m : Z) : cx :=
    rscale N (basis_function (k * h_nodes * nsin N phi_out)%num) (cis N (- (k * nsin N phi_out * x_nodes m))%num).

  (* np.dot of two 2-vectors, first complex, second real (cast to complex) *)
  Definition dot2 (v0 v1 : cx) (e0 e1 : T) : cx := cadd N (cmulr N v0 e0) (cmulr N v1 e1).
  Definition rdot2 (a0 a1 e0 e1 : T) : T := (a0 * e0 + a1 * e1)%num.

  (* lame_lambda / (density * omega**2) * np.dot(v, nv)
     + 2 * lame_mu / (density * omega**2) * np.dot(v, ev) * np.dot(ev, nv) *)
  Definition form_L (v0 v1 : cx) (e0 e1 : T) : cx :=
    cadd N (rscale N (lame_lambda / rhodw2)%num (dot2 v0 v1 #0 #1))
           (cmulr N (rscale N (#2 * lame_mu / rhodw2)%num (dot2 v0 v1 e0 e1)) (rdot2 e0 e1 #0 #1)).
  (* np.dot(v, tv) * np.dot(ev, nv) + np.dot(v, ev) * np.dot(tv, nv),  tv = [ev[1], -ev[0]] *)
  Definition form_T (v0 v1 : cx) (e0 e1 : T) : cx :=
    cadd N (cmulr N (dot2 v0 v1 e1 (- e0)%num) (rdot2 e0 e1 #0 #1))
           (cmulr N (dot2 v0 v1 e0 e1) (rdot2 e1 (- e0)%num #0 #1)).

  (* 1/4 sqrt(2/pi) exp(-i pi/4) xi1**(5/2) * ( form_L ) / sqrt(lambda_L) *)
  Definition amp_L (v0 v1 : cx) (e0 e1 : T) : cx :=
    cdivr N (cmul N (crack_pref xi1) (form_L v0 v1 e0 e1)) (nsqrt N lambda_L).
  (* 1/4 sqrt(2/pi) exp(-i pi/4) xi2**(5/2) * lame_mu / (density omega**2) * ( form_T ) / sqrt(lambda_T) *)
  Definition amp_T (v0 v1 : cx) (e0 e1 : T) : cx :=
    cdivr N (cmul N (cdivr N (cmulr N (crack_pref xi2) lame_mu) rhodw2) (form_T v0 v1 e0 e1)) (nsqrt N lambda_T).

  (* if use_incident_L: vxL = solve(A_x, b_x); vzL = solve(A_z, b_z)   (b from the incident L wave)
     v_L = [a_L * dot(vxL, c_L), a_L * dot(vzL, c_L)],  v_T = [a_L * dot(vxL, c_T), a_L * dot(vzL, c_T)] *)
  Definition crack_LL (phi_in phi_out : T) : cx :=
    let vx := cp_solve_x p (bx_L phi_in) in let vz := cp_solve_z p (bz_L phi_in) in
    let c := c_out xi1 phi_out in
    amp_L (cmul N a_L (cdot N (cp_nn p) vx c)) (cmul N a_L (cdot N (cp_nn p) vz c)) (nsin N phi_out) (ncos N phi_out).
  Definition crack_LT (phi_in phi_out : T) : cx :=
    let vx := cp_solve_x p (bx_L phi_in) in let vz := cp_solve_z p (bz_L phi_in) in
    let c := c_out xi2 phi_out in
    amp_T (cmul N a_L (cdot N (cp_nn p) vx c)) (cmul N a_L (cdot N (cp_nn p) vz c)) (nsin N phi_out) (ncos N phi_out).
  (* if use_incident_T: the same with b from the incident T wave and a_T; minus sign (polarisation) *)
  Definition crack_TL (phi_in phi_out : T) : cx :=
    let vx := cp_solve_x p (bx_T phi_in) in let vz := cp_solve_z p (bz_T phi_in) in
    let c := c_out xi1 phi_out in
    copp N (amp_L (cmul N a_T (cdot N (cp_nn p) vx c)) (cmul N a_T (cdot N (cp_nn p) vz c)) (nsin N phi_out) (ncos N phi_out)).
  Definition crack_TT (phi_in phi_out : T) : cx :=
    let vx := cp_solve_x p (bx_T phi_in) in let vz := cp_solve_z p (bz_T phi_in) in
    let c := c_out xi2 phi_out in
    copp N (amp_T (cmul N a_T (cdot N (cp_nn p) vx c)) (cmul N a_T (cdot N (cp_nn p) vz c)) (nsin N phi_out) (ncos N phi_out)).

  (* crack_2d_scat for one pair of angles: ValueError branch + the four arrays *)
  Definition crack_2d_scat (tc : list string) (phi_in phi_out : T) : option (dict cx) :=
    checked tc (crack_dict tc (c0 N) (crack_LL phi_in phi_out) (crack_LT phi_in phi_out)
                                       (crack_TL phi_in phi_out) (crack_TT phi_in phi_out)).

  Definition crack_four (phi_in phi_out : T) : (cx * cx) * (cx * cx) :=
    ((crack_LL phi_in phi_out, crack_LT phi_in phi_out), (crack_TL phi_in phi_out, crack_TT phi_in phi_out)).

  (* ---- drivers (index plumbing), for a 2-D pair of broadcast angle arrays [row, column] ----
     general:   S[i, j] = kernel(inc[i, j], out[i, j])
     optimised: for each column i: phi_in = inc[0, i];  S[j, i] = kernel(inc[0, i], out[j, i]) *)
  Definition driver_general (kern : T -> T -> cx) (inc out : Z -> Z -> T) (i j : Z) : cx :=
    kern (inc i j) (out i j).
  Definition driver_optimised (kern : T -> T -> cx) (inc out : Z -> Z -> T) (j i : Z) : cx :=
    kern (inc 0 i) (out j i).
End Crack.

(* all four values at once, with the full parameter list (used by the extracted driver) *)
Definition sdh_four {T : Type} (N : Num T) (H1a H2a H1b H2b : Z -> cx) (frequency radius vL vT : T)
    (maxn : nat) (inc out : T) : (cx * cx) * (cx * cx) :=
  ((sdh_LL N H1a H2a H1b frequency radius vL vT maxn inc out,
    sdh_LT N H1a H1b frequency radius vL vT maxn inc out),
   (sdh_TL N H1a H1b frequency radius vL vT maxn inc out,
    sdh_TT N H1a H1b H2b frequency radius vL vT maxn inc out)).
