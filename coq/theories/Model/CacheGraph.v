(* Model/CacheGraph.v — C14 (extension): the call graph of the 17 cached RayGeometry
   methods as DATA, the bookkeeping of arim.helpers.Cache / NoCache (hits, misses,
   ignored, counter, the "Reassigning a cached value" warning, the precompute() warning),
   the literal dictionary keys f"{name}:{idx}", a pure evaluator of the call graph over key
   lists, RayGeometry.from_path and several RayGeometry objects living in one Python heap.
   Definitions only (lemmas: Proofs/CacheGraphProofs.v, statements: Props/C14.v).

   Mirrors /repo/src/arim/ray.py:855-907 (_cache_ray_geometry.wrapper), 919-964
   (__init__, from_path), 974-997 (precompute), 999-1353 (the 17 decorated methods),
   1043-1056 (the two clears) and /repo/src/arim/helpers.py:107-176 (Cache, NoCache).

   Model/Cache.v writes the 17 methods as 17 Gallina functions.  Here the SAME methods are
   described by a table `shape_of : meth -> shape` (which other cached methods a method
   calls, in source order, with which index, and where it returns None / raises) and ONE
   interpreter `icall`, whose wrapper additionally performs the bookkeeping of
   Cache.__getitem__ / Cache.__setitem__ / NoCache.__setitem__.  Proofs/CacheGraphProofs.v
   shows that erasing the bookkeeping from `icall` gives exactly `Cache.call` (so every
   theorem about Model/Cache.v speaks about this interpreter too). *)
From Coq Require Import String Ascii DecimalString DecimalZ.
From Coq Require Import ZArith List Bool.
From Arim Require Import Model.Cache.
Import ListNotations.
Open Scope Z_scope.

(* ------------------------------------------------------------------ *)
(* the literal keys of RayGeometry._cache: f"{user_func.__name__}:{actual_interface_idx}" *)
Definition meth_name (m : meth) : string :=
  match m with
  | MLegPoints => "leg_points"
  | MOrient => "orientations_of_legs_points"
  | MIncLegSize => "inc_leg_size"
  | MIncLegCart => "inc_leg_cartesian"
  | MIncLegRadius => "inc_leg_radius"
  | MIncLegPolar => "inc_leg_polar"
  | MIncLegAzimuth => "inc_leg_azimuth"
  | MIncAngle => "inc_angle"
  | MSignedInc => "signed_inc_angle"
  | MConvInc => "conventional_inc_angle"
  | MOutLegCart => "out_leg_cartesian"
  | MOutLegRadius => "out_leg_radius"
  | MOutLegPolar => "out_leg_polar"
  | MOutLegAzimuth => "out_leg_azimuth"
  | MOutAngle => "out_angle"
  | MSignedOut => "signed_out_angle"
  | MConvOut => "conventional_out_angle"
  end%string.

(* Python's str(int) *)
Definition py_str_int (z : Z) : string := NilZero.string_of_int (Z.to_int z).

Definition key_string (k : key) : string :=
  String.append (meth_name (fst k)) (String ":"%char (py_str_int (snd k))).

Fixpoint has_colon (s : string) : bool :=
  match s with
  | EmptyString => false
  | String c s => Ascii.eqb c ":"%char || has_colon s
  end.

(* ------------------------------------------------------------------ *)
(* the call graph as data                                              *)
Inductive shape :=
| ShLeaf (mk : Z -> Z -> term)         (* leg_points, orientations_of_legs_points *)
| ShSize                               (* inc_leg_size *)
| ShCartInc                            (* inc_leg_cartesian *)
| ShCartOut                            (* out_leg_cartesian *)
| ShUnary (F : term -> term) (cart : meth)   (* *_leg_radius, *_leg_azimuth *)
| ShPolar (cart radius : meth)         (* *_leg_polar *)
| ShAlias (polar : meth)               (* inc_angle, out_angle *)
| ShSigned (azimuth polar : meth)      (* signed_*_angle *)
| ShConv (inc : bool) (polar : meth).  (* conventional_*_angle *)

Definition shape_of (m : meth) : shape :=
  match m with
  | MLegPoints => ShLeaf TPoints
  | MOrient => ShLeaf TOrient
  | MIncLegSize => ShSize
  | MIncLegCart => ShCartInc
  | MIncLegRadius => ShUnary TSphR MIncLegCart
  | MIncLegPolar => ShPolar MIncLegCart MIncLegRadius
  | MIncLegAzimuth => ShUnary TSphPhi MIncLegCart
  | MIncAngle => ShAlias MIncLegPolar
  | MSignedInc => ShSigned MIncLegAzimuth MIncLegPolar
  | MConvInc => ShConv true MIncLegPolar
  | MOutLegCart => ShCartOut
  | MOutLegRadius => ShUnary TSphR MOutLegCart
  | MOutLegPolar => ShPolar MOutLegCart MOutLegRadius
  | MOutLegAzimuth => ShUnary TSphPhi MOutLegCart
  | MOutAngle => ShAlias MOutLegPolar
  | MSignedOut => ShSigned MOutLegAzimuth MOutLegPolar
  | MConvOut => ShConv false MOutLegPolar
  end.

(* depth of a method in the call graph: a method only calls methods of smaller rank *)
Definition rank (m : meth) : nat :=
  match m with
  | MLegPoints | MOrient => 0
  | MIncLegSize | MIncLegCart | MOutLegCart => 1
  | MIncLegRadius | MIncLegAzimuth | MOutLegRadius | MOutLegAzimuth => 2
  | MIncLegPolar | MOutLegPolar => 3
  | MIncAngle | MSignedInc | MConvInc | MOutAngle | MSignedOut | MConvOut => 4
  end%nat.

(* ------------------------------------------------------------------ *)
(* the attributes of helpers.Cache / NoCache and the two warnings       *)
Record stats := {
  st_hits : Z;              (* Cache.hits *)
  st_misses : Z;            (* Cache.misses *)
  st_ignored : Z;           (* NoCache.ignored *)
  st_counter : list key;    (* Cache.counter: the keys of the hits, most recent first *)
  st_warn : Z;              (* number of "Reassigning a cached value" warnings emitted *)
  st_prewarn : Z            (* number of "Caching is not enabled ..." warnings emitted *)
}.

Definition stats0 : stats :=
  {| st_hits := 0; st_misses := 0; st_ignored := 0; st_counter := []; st_warn := 0; st_prewarn := 0 |}.

(* Cache.__getitem__, key present: misses += 1; (found); misses -= 1; hits += 1; counter.update([key]) *)
Definition stat_hit (k : key) (st : stats) : stats :=
  {| st_hits := st_hits st + 1; st_misses := st_misses st + 1 - 1; st_ignored := st_ignored st;
     st_counter := k :: st_counter st; st_warn := st_warn st; st_prewarn := st_prewarn st |}.
(* Cache.__getitem__, key absent: misses += 1; KeyError *)
Definition stat_miss (st : stats) : stats :=
  {| st_hits := st_hits st; st_misses := st_misses st + 1; st_ignored := st_ignored st;
     st_counter := st_counter st; st_warn := st_warn st; st_prewarn := st_prewarn st |}.
(* Cache.__setitem__: warn if `key in self`;  NoCache.__setitem__: ignored += 1 *)
Definition stat_set (use_cache present : bool) (st : stats) : stats :=
  if use_cache
  then {| st_hits := st_hits st; st_misses := st_misses st; st_ignored := st_ignored st;
          st_counter := st_counter st;
          st_warn := if present then st_warn st + 1 else st_warn st; st_prewarn := st_prewarn st |}
  else {| st_hits := st_hits st; st_misses := st_misses st; st_ignored := st_ignored st + 1;
          st_counter := st_counter st; st_warn := st_warn st; st_prewarn := st_prewarn st |}.
(* clear_all_results: self._cache = self._cache.__class__()  — a new object, new counters *)
Definition stat_reset (st : stats) : stats :=
  {| st_hits := 0; st_misses := 0; st_ignored := 0; st_counter := [];
     st_warn := st_warn st; st_prewarn := st_prewarn st |}.
(* precompute(): if not self._use_cache: warnings.warn(...) *)
Definition stat_pre (use_cache : bool) (st : stats) : stats :=
  {| st_hits := st_hits st; st_misses := st_misses st; st_ignored := st_ignored st;
     st_counter := st_counter st; st_warn := st_warn st;
     st_prewarn := if use_cache then st_prewarn st else st_prewarn st + 1 |}.

(* ------------------------------------------------------------------ *)
(* state-error monad over (state of Model/Cache.v, bookkeeping)         *)
Definition istate := (state * stats)%type.
Definition IM (A : Type) := istate -> res A * istate.
Definition iret {A} (a : A) : IM A := fun x => (Ok a, x).
Definition ifail {A} (e : err) : IM A := fun x => (Err e, x).
Definition ibind {A B} (c : IM A) (f : A -> IM B) : IM B :=
  fun x => match c x with
           | (Ok a, x1) => f a x1
           | (Err e, x1) => (Err e, x1)
           end.
Notation "x <~ c1 ;; c2" := (ibind c1 (fun x => c2))
  (at level 61, c1 at next level, right associativity).

(* an operation of Model/Cache.v that does not touch the bookkeeping *)
Definition ilift {A} (c : M A) : IM A :=
  fun x => (fst (c (fst x)), (snd (c (fst x)), snd x)).

(* forgetting the bookkeeping *)
Definition erase {A} (p : res A * istate) : res A * state := (fst p, fst (snd p)).

Section Graph.
  Variable ifs : list iface.        (* self.interfaces *)
  Variable use_cache : bool.        (* Cache() or NoCache() *)

  Local Notation numif := (numif ifs).

  (* _cache_ray_geometry.wrapper with the bookkeeping of Cache.__getitem__/__setitem__ *)
  Definition iwrapper (m : meth) (body : Z -> IM pyval) (raw : Z) (final : bool) : IM pyval :=
    fun x =>
      match resolve ifs raw with
      | None => (Err EIndex, x)
      | Some a =>
          let k := (m, a) in
          match cache_get use_cache k (fst x) with
          | Some v => (Ok v, (if final then add_final k (fst x) else fst x, stat_hit k (snd x)))
          | None =>
              match body raw (fst x, stat_miss (snd x)) with
              | (Err e, x1) => (Err e, x1)
              | (Ok v, x1) =>
                  let s2 := set_ro v (fst x1) in
                  let st2 := stat_set use_cache (mem_key k (keys_of s2)) (snd x1) in
                  let s3 := cache_set use_cache k v s2 in
                  (Ok v, (if final then add_final k s3 else s3, st2))
              end
          end
      end.

  (* the body of a method, given the (already wrapped) methods it may call *)
  Definition ibody (rec : meth -> Z -> bool -> IM pyval) (m : meth) (raw : Z) : IM pyval :=
    match shape_of m with
    | ShLeaf mk =>
        ilift (i <- lift (get_iface ifs raw) EIndex ;;
               r <- lift (rays_row ifs raw) EIndex ;;
               alloc (mk (fst i) r))
    | ShSize =>
        a <~ ilift (lift (resolve ifs raw) EIndex) ;;
        if a =? 0 then iret PNone else
        s0 <~ rec MLegPoints (raw - 1) false ;; ts <~ ilift (deref s0) ;;
        e0 <~ rec MLegPoints raw false ;; te <~ ilift (deref e0) ;;
        ilift (alloc (TNormDiff ts te))
    | ShCartInc =>
        a <~ ilift (lift (resolve ifs raw) EIndex) ;;
        if a =? 0 then iret PNone else
        s0 <~ rec MLegPoints (raw - 1) false ;; ts <~ ilift (deref s0) ;;
        e0 <~ rec MLegPoints raw false ;; te <~ ilift (deref e0) ;;
        o0 <~ rec MOrient raw false ;; to <~ ilift (deref o0) ;;
        ilift (alloc (TFromGcs ts to te))
    | ShCartOut =>
        a <~ ilift (lift (resolve ifs raw) EIndex) ;;
        if a =? numif - 1 then iret PNone else
        s0 <~ rec MLegPoints raw false ;; ts <~ ilift (deref s0) ;;
        e0 <~ rec MLegPoints (raw + 1) false ;; te <~ ilift (deref e0) ;;
        o0 <~ rec MOrient raw false ;; to <~ ilift (deref o0) ;;
        ilift (alloc (TFromGcs te to ts))
    | ShUnary F cart =>
        c <~ rec cart raw false ;;
        match c with
        | PNone => iret PNone
        | _ => tc <~ ilift (deref c) ;; ilift (alloc (F tc))
        end
    | ShPolar cart radius =>
        c <~ rec cart raw false ;;
        match c with
        | PNone => iret PNone
        | _ => r <~ rec radius raw false ;;
               tc <~ ilift (deref c) ;; tr <~ ilift (deref r) ;; ilift (alloc (TSphTheta tc tr))
        end
    | ShAlias polar => rec polar raw false
    | ShSigned azimuth polar =>
        az <~ rec azimuth raw false ;;
        match az with
        | PNone => iret PNone
        | _ => p <~ rec polar raw false ;;
               tp <~ ilift (deref p) ;; ta <~ ilift (deref az) ;; ilift (alloc (TSigned tp ta))
        end
    | ShConv inc polar =>
        a <~ ilift (lift (resolve ifs raw) EIndex) ;;
        if (if inc then a =? 0 else a =? numif - 1) then iret PNone else
        i <~ ilift (lift (get_iface ifs raw) EIndex) ;;
        match (if inc then i_inc (snd i) else i_out (snd i)) with
        | None => ifail EValue
        | Some true => rec polar raw false
        | Some false =>
            p <~ rec polar raw false ;;
            out <~ ilift (copy p) ;;
            _ <~ ilift (inplace out TPiMinus) ;;
            iret out
        end
    end.

  (* tying the knot: `fuel` bounds the depth of nested calls (5 levels exist) *)
  Fixpoint icall_fuel (fuel : nat) (m : meth) : Z -> bool -> IM pyval :=
    match fuel with
    | O => fun _ _ => ifail EDangling
    | S fuel => iwrapper m (ibody (icall_fuel fuel) m)
    end.

  Definition icall : meth -> Z -> bool -> IM pyval := icall_fuel 5.

  (* ---- clients (arim.model), as in Model/Cache.v ---- *)
  Fixpoint iclient_angles (ks : list Z) : IM (list term) :=
    match ks with
    | [] => iret []
    | k :: ks => v <~ icall MConvInc k true ;; t <~ ilift (deref v) ;;
                 ts <~ iclient_angles ks ;; iret (t :: ts)
    end.

  Fixpoint iclient_acc (acc : pyval) (ks : list Z) : IM unit :=
    match ks with
    | [] => iret tt
    | k :: ks => v <~ icall MIncLegSize k true ;; t <~ ilift (deref v) ;;
                 _ <~ ilift (inplace acc (fun self => TIadd self t)) ;;
                 iclient_acc acc ks
    end.

  Definition iclient_beam (angles : list Z) (first : Z) (rest : list Z) : IM (list term) :=
    ts <~ iclient_angles angles ;;
    v <~ icall MIncLegSize first true ;;
    acc <~ ilift (copy v) ;;
    _ <~ iclient_acc acc rest ;;
    t <~ ilift (deref acc) ;;
    iret (ts ++ [t]).

  Definition iclient (c : Z) : IM (list term) :=
    let n := numif - 1 in
    let cnt := Z.to_nat (n - 1) in
    if c =? 0 then iclient_beam (zrange 1 cnt) 1 (zrange 2 cnt)
    else if c =? 1 then iclient_beam (rev (zrange 1 cnt)) n (rev (zrange 1 cnt))
    else iclient_angles (zrange 1 cnt).

  (* ---- histories, as in Model/Cache.v ---- *)
  Definition irun_query (q : meth * Z * bool) (x : istate) : entry * istate :=
    let '(m, raw, final) := q in
    let (r, x1) := icall m raw final x in
    (mk_entry (answer_of r) (fst x1), x1).

  Fixpoint irun_pre (qs : list (meth * Z * bool)) (x : istate) : list entry * istate :=
    match qs with
    | [] => let s1 := clear_inter (fst x) in ([mk_entry AUnit s1], (s1, snd x))
    | q :: qs =>
        let (e, x1) := irun_query q x in
        if is_error (e_ans e) then ([e], x1)
        else let (es, x2) := irun_pre qs x1 in (e :: es, x2)
    end.

  Definition istep (tr : list entry) (x : istate) (o : op) : list entry * istate :=
    match o with
    | Query m raw final => let (e, x1) := irun_query (m, raw, final) x in ([e], x1)
    | ClearInter => let s1 := clear_inter (fst x) in ([mk_entry AUnit s1], (s1, snd x))
    | ClearAll => let s1 := clear_all (fst x) in ([mk_entry AUnit s1], (s1, stat_reset (snd x)))
    | Pre qs => irun_pre qs (fst x, stat_pre use_cache (snd x))
    | Client c =>
        match iclient c x with
        | (Ok ts, x1) => ([mk_entry (AClient ts) (fst x1)], x1)
        | (Err e, x1) => ([mk_entry (AErr e) (fst x1)], x1)
        end
    | Mutate i =>
        match nth_error tr i with
        | Some {| e_ans := AVal h |} =>
            match inplace (PRef h) TWritten (fst x) with
            | (Ok _, s1) => ([mk_entry AUnit s1], (s1, snd x))
            | (Err e, s1) => ([mk_entry (AErr e) s1], (s1, snd x))
            end
        | _ => ([mk_entry ASkip (fst x)], x)
        end
    end.

  Fixpoint irun_from (tr : list entry) (x : istate) (ops : list op) : list entry * istate :=
    match ops with
    | [] => (tr, x)
    | o :: ops => let (es, x1) := istep tr x o in irun_from (tr ++ es) x1 ops
    end.

  (* RayGeometry.__init__: Cache() / NoCache() with zeroed counters, _final_keys = set() *)
  Definition irun (ops : list op) : list entry * istate := irun_from [] (empty_state, stats0) ops.

  (* ---------------------------------------------------------------- *)
  (* PURE evaluation of the call graph: key lists only, no arrays        *)

  (* the cached methods that the body of (m, a) calls, in source order, when the cache is
     cold (a = resolved index).  A body stops early exactly where the source returns None
     or raises; whether a callee answers None is read off the closed-form answer spec_at. *)
  Definition is_none (o : obs) : bool := match o with ONone => true | _ => false end.

  Definition callees (m : meth) (a : Z) : list key :=
    match shape_of m with
    | ShLeaf _ => []
    | ShSize => if a =? 0 then [] else [(MLegPoints, a - 1); (MLegPoints, a)]
    | ShCartInc => if a =? 0 then [] else [(MLegPoints, a - 1); (MLegPoints, a); (MOrient, a)]
    | ShCartOut => if a =? numif - 1 then [] else [(MLegPoints, a); (MLegPoints, a + 1); (MOrient, a)]
    | ShUnary _ cart => [(cart, a)]
    | ShPolar cart radius =>
        if is_none (spec_at ifs cart a) then [(cart, a)] else [(cart, a); (radius, a)]
    | ShAlias polar => [(polar, a)]
    | ShSigned azimuth polar =>
        if is_none (spec_at ifs azimuth a) then [(azimuth, a)] else [(azimuth, a); (polar, a)]
    | ShConv inc polar =>
        if (if inc then a =? 0 else a =? numif - 1) then []
        else match (if inc then flag_inc ifs a else flag_out ifs a) with
             | None => []
             | Some _ => [(polar, a)]
             end
    end.

  (* does the body of (m, a) raise (then nothing is stored) *)
  Definition raises (m : meth) (a : Z) : bool := obs_is_error (spec_at ifs m a).

  (* one wrapped call on (list of cached keys — most recent first —, bookkeeping) *)
  Fixpoint kcall (fuel : nat) (k : key) (y : list key * stats) : list key * stats :=
    match fuel with
    | O => y
    | S fuel =>
        if use_cache && mem_key k (fst y) then (fst y, stat_hit k (snd y))
        else
          let y1 := fold_left (fun acc d => kcall fuel d acc) (callees (fst k) (snd k))
                              (fst y, stat_miss (snd y)) in
          if raises (fst k) (snd k) then y1
          else (if use_cache then k :: fst y1 else fst y1, stat_set use_cache false (snd y1))
    end.

  Definition add_key (k : key) (l : list key) : list key := if mem_key k l then l else k :: l.

  (* (cached keys, final keys, bookkeeping) *)
  Definition kstate := (list key * list key * stats)%type.
  Definition k_keys (y : kstate) : list key := fst (fst y).
  Definition k_finals (y : kstate) : list key := snd (fst y).
  Definition k_stats (y : kstate) : stats := snd y.

  (* a public query; the boolean says whether it raised *)
  Definition kquery (m : meth) (raw : Z) (final : bool) (y : kstate) : bool * kstate :=
    match resolved ifs raw with
    | None => (true, y)
    | Some a =>
        let y1 := kcall 5 (m, a) (k_keys y, k_stats y) in
        let e := raises m a in
        (e, (fst y1, if final && negb e then add_key (m, a) (k_finals y) else k_finals y, snd y1))
    end.

  Definition kclear_inter (y : kstate) : kstate :=
    (filter (fun k => mem_key k (k_finals y)) (k_keys y), k_finals y, k_stats y).
  Definition kclear_all (y : kstate) : kstate := ([], [], stat_reset (k_stats y)).

  Fixpoint kpre (qs : list (meth * Z * bool)) (y : kstate) : kstate :=
    match qs with
    | [] => kclear_inter y
    | (m, raw, final) :: qs =>
        let (e, y1) := kquery m raw final y in
        if e then y1 else kpre qs y1
    end.

  (* a client's loop: final queries whose answers are used as arrays; it stops after the
     first query that raises or answers None (then the boolean is true) *)
  Fixpoint kseq (qs : list (meth * Z)) (y : kstate) : bool * kstate :=
    match qs with
    | [] => (false, y)
    | (m, raw) :: qs =>
        let y1 := snd (kquery m raw true y) in
        match obs_term (spec ifs m raw) with
        | Ok _ => kseq qs y1
        | Err _ => (true, y1)
        end
    end.

  Definition client_queries (c : Z) : list (meth * Z) :=
    let n := numif - 1 in
    let cnt := Z.to_nat (n - 1) in
    let conv := map (fun k => (MConvInc, k)) in
    let size := map (fun k => (MIncLegSize, k)) in
    if c =? 0 then conv (zrange 1 cnt) ++ [(MIncLegSize, 1)] ++ size (zrange 2 cnt)
    else if c =? 1 then conv (rev (zrange 1 cnt)) ++ [(MIncLegSize, n)] ++ size (rev (zrange 1 cnt))
    else conv (zrange 1 cnt).

  Definition kstep (y : kstate) (o : op) : kstate :=
    match o with
    | Query m raw final => snd (kquery m raw final y)
    | ClearInter => kclear_inter y
    | ClearAll => kclear_all y
    | Pre qs => kpre qs (k_keys y, k_finals y, stat_pre use_cache (k_stats y))
    | Client c => snd (kseq (client_queries c) y)
    | Mutate _ => y
    end.

  Definition krun_from (y : kstate) (ops : list op) : kstate := fold_left kstep ops y.
  Definition krun (ops : list op) : kstate := krun_from ([], [], stats0) ops.

  (* all keys that can ever exist: 17 methods x numinterfaces *)
  Definition all_keys : list key :=
    flat_map (fun m => map (fun a => (m, a)) (indices ifs)) all_meths.

End Graph.

(* ------------------------------------------------------------------ *)
(* RayGeometry.from_path and several objects in one Python heap         *)

(* from_path(path, use_cache): ValueError if path.rays is None, else a NEW object with its own
   Cache()/NoCache() and its own _final_keys *)
Definition from_path (has_rays use_cache : bool) : res (bool * state) :=
  if has_rays then Ok (use_cache, empty_state) else Err EValue.

(* one RayGeometry object: its cache mode, its private cache and finals, the trace of what it
   has answered so far and (for the statements only) the operations it has been asked;
   the arrays of ALL objects live in the one heap of the world *)
Record robj := { r_uc : bool; r_cache : list (key * pyval); r_finals : list key;
                 r_trace : list entry; r_hist : list op }.
Record world := { w_objs : list robj; w_heap : heap; w_errors : list err }.

Definition world0 : world := {| w_objs := []; w_heap := []; w_errors := [] |}.

Inductive wop :=
| WNew (has_rays use_cache : bool)   (* RayGeometry.from_path(path, use_cache) *)
| WOn (j : nat) (o : op).            (* an operation on the j-th object created so far *)

Definition robj_state (ob : robj) (H : heap) : state :=
  {| s_cache := r_cache ob; s_finals := r_finals ob; s_heap := H |}.

Section World.
  Variable ifs : list iface.         (* path.interfaces: shared by all objects *)

  Definition wstep (w : world) (o : wop) : world :=
    match o with
    | WNew has_rays uc =>
        match from_path has_rays uc with
        | Ok (uc', s) =>
            {| w_objs := w_objs w ++ [{| r_uc := uc'; r_cache := s_cache s; r_finals := s_finals s;
                                         r_trace := []; r_hist := [] |}];
               w_heap := w_heap w; w_errors := w_errors w |}
        | Err e => {| w_objs := w_objs w; w_heap := w_heap w; w_errors := w_errors w ++ [e] |}
        end
    | WOn j o =>
        match nth_error (w_objs w) j with
        | None => w
        | Some ob =>
            let (es, s1) := step ifs (r_uc ob) (r_trace ob) (robj_state ob (w_heap w)) o in
            {| w_objs := upd (w_objs w) j {| r_uc := r_uc ob; r_cache := s_cache s1;
                                             r_finals := s_finals s1;
                                             r_trace := r_trace ob ++ es;
                                             r_hist := r_hist ob ++ [o] |};
               w_heap := s_heap s1; w_errors := w_errors w |}
        end
    end.

  Definition wrun (ops : list wop) : world := fold_left wstep ops world0.

End World.

(* ------------------------------------------------------------------ *)
(* example data for the Examples of Props/C14.v *)
Definition ex_history : list op :=
  [Query MIncAngle 1 true; Query MSignedInc (-2) false; ClearInter; Query MConvInc 2 true;
   Query MConvOut 1 true; Client 0; Pre [(MOutAngle, 0, true); (MLegPoints, 7, true)];
   Query MIncLegPolar (-2) false].


Definition ex_world : list wop :=
  [WNew true true; WNew false true; WNew true true; WOn 0 (Query MIncAngle 1 true);
   WOn 1 (Query MOutAngle 0 false); WNew true false; WOn 0 ClearInter; WOn 2 (Pre [(MIncAngle, 1, true)]);
   WOn 1 (Query MIncAngle (-2) true); WOn 0 (Mutate 0); WOn 5 ClearAll; WOn 2 (Client 0)].

