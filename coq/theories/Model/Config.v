(* Model/Config.v — configuration merging, .arim directory loading, the
   *_from_conf builders seen as record views, and the BRAIN loader's index
   arithmetic (C20).  Definitions only; lemmas are in Proofs/ConfigProofs.v.

   Mirrors (code as it is NOW in /repo, i.e. with the sorted() repair):
     arim.config.recursive_dict_merge / Config.merge
     arim.io.native.load_conf         (conf.yaml, then sorted(glob("conf.d/*.yaml")),
                                       extra keys, _resolve_filenames)
     arim.io.native._resolve_filenames
     arim.io.native.grid_from_conf / examination_object_from_conf / probe_from_conf (key handling)
     arim.io.brain._load_frame        (tx-1, rx-1, transpose iff f_contiguous)
     arim.core.Time.from_vect

   A configuration is a finite map  string -> (leaf | configuration).  It is
   represented by an association list with Python-dict behaviour (assignment
   to an existing key replaces the value in place, a new key is appended);
   two configurations are COMPARED up to key order (`cfg_equiv`, `cfg_eqb`),
   because the property does not speak about dict order.  Leaves are opaque
   (type parameter L): scalars, strings, None, lists — everything that is
   not a `collections.abc.Mapping`.  Python dicts have no duplicate keys:
   that invariant is `wf`.

   Oracles (Section variables, never axioms): the content of each file after
   YAML parsing (`read`), the directory listing (any list of names; the
   theorems quantify over all its permutations), path joining (`joinp`),
   `result_dir` resolution. *)
From Coq Require Import List String Ascii Bool ZArith Arith QArith.
Import ListNotations.
Local Open Scope list_scope.

(* ------------------------------------------------------------------ *)
(* configurations                                                      *)
(* ------------------------------------------------------------------ *)
Inductive cfg (L : Type) : Type :=
| Leaf : L -> cfg L
| Map : list (string * cfg L) -> cfg L.
Arguments Leaf {L} _.
Arguments Map {L} _.

Definition items (V : Type) := list (string * V).

(* d.get(k) / `k in d` : first match (with `wf` there is at most one) *)
Fixpoint lookup {V} (k : string) (m : items V) : option V :=
  match m with
  | [] => None
  | (k', v) :: m' => if String.eqb k k' then Some v else lookup k m'
  end.

(* d[k] = v : replace in place, or append a new key *)
Fixpoint set {V} (k : string) (v : V) (m : items V) : items V :=
  match m with
  | [] => [(k, v)]
  | (k', v') :: m' => if String.eqb k k' then (k', v) :: m' else (k', v') :: set k v m'
  end.

Definition keys {V} (m : items V) : list string := map fst m.

Definition is_map {L} (c : cfg L) : bool := match c with Map _ => true | Leaf _ => false end.

(* One iteration of `for key, val in list(top_dict.items())`:
     if key in base and isinstance(base[key], Mapping) and isinstance(val, Mapping):
         recursive_dict_merge(base[key], val)          (in place: same position)
     else:
         base[key] = val
   `mv b val` is the value stored under `key` when the base already holds b. *)
Definition merge_step {V} (mv : V -> V -> V) (bm : items V) (kv : string * V) : items V :=
  set (fst kv) (match lookup (fst kv) bm with Some b => mv b (snd kv) | None => snd kv end) bm.

(* value stored at a key that holds b in the base when the top holds v:
   both mappings -> merged recursively (the base mapping is updated), any
   other combination (leaf/leaf, leaf over mapping, mapping over leaf) -> v
   replaces b entirely. *)
Fixpoint merge_val {L} (b v : cfg L) {struct v} : cfg L :=
  match v, b with
  | Map tm, Map bm => Map (fold_left (merge_step merge_val) tm bm)
  | _, _ => v
  end.

(* recursive_dict_merge(base_dict, top_dict) on the dicts themselves *)
Definition merge_map {L} (bm tm : items (cfg L)) : items (cfg L) :=
  fold_left (merge_step merge_val) tm bm.

(* Python dict invariant: no duplicate keys, recursively *)
Fixpoint wf {L} (c : cfg L) : Prop :=
  match c with
  | Leaf _ => True
  | Map m => NoDup (keys m) /\
             (fix all (m : items (cfg L)) : Prop :=
                match m with [] => True | kv :: m' => wf (snd kv) /\ all m' end) m
  end.
Definition wf_items {L} (m : items (cfg L)) : Prop := wf (Map m).

(* "c never puts a mapping where b holds a leaf" (at any depth reached by merging c over b):
   the condition under which merging is associative (Props/C20.v merge_assoc_compatible) *)
Fixpoint no_map_over_leaf {L} (b c : cfg L) {struct b} : Prop :=
  match b, c with
  | Leaf _, Map _ => False
  | Map bm, Map cm =>
      (fix all (bm : items (cfg L)) : Prop :=
         match bm with
         | [] => True
         | kv :: bm' => match lookup (fst kv) cm with
                        | Some vc => no_map_over_leaf (snd kv) vc
                        | None => True
                        end /\ all bm'
         end) bm
  | _, _ => True
  end.

(* ---- comparison up to key order ----------------------------------- *)
(* node reached by a path of keys *)
Fixpoint get {L} (p : list string) (c : cfg L) : option (cfg L) :=
  match p with
  | [] => Some c
  | k :: p' => match c with
               | Map m => match lookup k m with Some c' => get p' c' | None => None end
               | Leaf _ => None
               end
  end.
(* what is observable at a node: the leaf value, or "is a mapping" *)
Definition kind {L} (c : cfg L) : L + unit := match c with Leaf v => inl v | Map _ => inr tt end.
Definition cfg_equiv {L} (c1 c2 : cfg L) : Prop :=
  forall p, option_map kind (get p c1) = option_map kind (get p c2).

(* executable comparison used by the correspondence (sound for wf arguments):
   same number of keys, and every key of the first is in the second with an
   equal value. *)
Fixpoint cfg_eqb {L} (leb : L -> L -> bool) (c1 c2 : cfg L) {struct c1} : bool :=
  match c1, c2 with
  | Leaf a, Leaf b => leb a b
  | Map m1, Map m2 =>
      Nat.eqb (List.length m1) (List.length m2) &&
      forallb (fun kv => match lookup (fst kv) m2 with
                         | Some v2 => cfg_eqb leb (snd kv) v2
                         | None => false end) m1
  | _, _ => false
  end.
Fixpoint nodupb (l : list string) : bool :=
  match l with [] => true | x :: l' => negb (existsb (String.eqb x) l') && nodupb l' end.
Fixpoint wfb {L} (c : cfg L) : bool :=
  match c with
  | Leaf _ => true
  | Map m => nodupb (keys m) && forallb (fun kv => wfb (snd kv)) m
  end.

(* ------------------------------------------------------------------ *)
(* "alphabetical order" of the fragment files                          *)
(* ------------------------------------------------------------------ *)
(* sorted(root_dir.glob("conf.d/*.yaml")) sorts pathlib.Path objects: on POSIX
   PurePath.__lt__ compares the lists of path components, each component by
   Python str order = code-point order, case-sensitive ('Z' < '_' < 'a',
   '-' < '.' < '0' < '9' < 'A').  All fragments have the same parent, so the
   order is that of the FILE NAMES INCLUDING the ".yaml" suffix.  The model
   takes `String.leb` = lexicographic order of the byte strings (for ASCII
   names byte = code point).  Insertion sort; which stable algorithm is used
   is irrelevant because names in one directory are pairwise distinct. *)
Fixpoint insert (x : string) (l : list string) : list string :=
  match l with
  | [] => [x]
  | y :: l' => if String.leb x y then x :: l else y :: insert x l'
  end.
Fixpoint sort_names (l : list string) : list string :=
  match l with [] => [] | x :: l' => insert x (sort_names l') end.

(* ------------------------------------------------------------------ *)
(* load_conf                                                           *)
(* ------------------------------------------------------------------ *)
Section Load.
  Variable L : Type.
  (* content of conf.d/<name> after yaml.safe_load + Config(...):
     None = the document is not a mapping (empty file, scalar): Config(...)
     raises TypeError/ValueError and load_conf propagates it *)
  Variable read : string -> option (items (cfg L)).

  Definition merge_file (acc : option (items (cfg L))) (name : string) : option (items (cfg L)) :=
    match acc, read name with
    | Some c, Some f => Some (merge_map c f)
    | _, _ => None
    end.

  (* merging the fragments in a GIVEN order (what the loop does with its iterable) *)
  Definition merge_files (base : items (cfg L)) (order : list string) : option (items (cfg L)) :=
    fold_left merge_file order (Some base).

  (* conf.yaml: None = absent (-> {}), Some None = not a mapping (error) *)
  Definition base_conf (base_file : option (option (items (cfg L)))) : option (items (cfg L)) :=
    match base_file with None => Some [] | Some r => r end.

  (* the part of load_conf that the property is about: `listing` is what
     Path.glob returned, in whatever order *)
  Definition load_fragments (base_file : option (option (items (cfg L)))) (listing : list string)
    : option (items (cfg L)) :=
    match base_conf base_file with
    | Some b => merge_files b (sort_names listing)
    | None => None
    end.

  (* --- the tail of load_conf: extra keys and file name resolution --- *)
  Variable dataset_name root_dir : L.
  (* result_dir handling: `conf.get("result_dir", None)`; None (absent or YAML null) ->
     root_dir; otherwise Path(root/value).resolve(strict=True), which raises when
     the directory does not exist or the value is not path-like (resolve_dir = None) *)
  Variable is_none : L -> bool.
  Variable resolve_dir : L -> option L.
  (* str(root_dir / v): None = v is not a str/Path (TypeError) *)
  Variable joinp : L -> option L.
  Variable is_target : string -> bool.      (* k in filepath_keys *)

  Definition result_dir_of (c : items (cfg L)) : option L :=
    match lookup "result_dir"%string c with
    | None => Some root_dir
    | Some (Leaf v) => if is_none v then Some root_dir else resolve_dir v
    | Some (Map _) => None
    end.

  Definition add_extra (c : items (cfg L)) : option (items (cfg L)) :=
    let c1 := set "dataset_name"%string (Leaf dataset_name) c in
    let c2 := set "root_dir"%string (Leaf root_dir) c1 in
    match result_dir_of c2 with
    | Some r => Some (set "result_dir"%string (Leaf r) c2)
    | None => None
    end.

  (* _resolve_filenames(d, root_dir, target_keys): only dicts are visited (leaves,
     including lists, are left alone); under a target key the value is replaced by
     str(root_dir / v) — a mapping or a non-string there raises TypeError. *)
  Definition resolve_entry (rec : cfg L -> option (cfg L)) (k : string) (v : cfg L) : option (cfg L) :=
    if is_target k
    then match v with Leaf x => option_map Leaf (joinp x) | Map _ => None end
    else rec v.
  Definition resolve_items (rec : cfg L -> option (cfg L)) : items (cfg L) -> option (items (cfg L)) :=
    fix go (m : items (cfg L)) : option (items (cfg L)) :=
      match m with
      | [] => Some []
      | (k, v) :: m' =>
          match resolve_entry rec k v, go m' with
          | Some v', Some r => Some ((k, v') :: r)
          | _, _ => None
          end
      end.
  Fixpoint resolve (c : cfg L) : option (cfg L) :=
    match c with
    | Leaf v => Some (Leaf v)
    | Map m => option_map Map (resolve_items resolve m)
    end.

  Definition load_conf (resolve_files : bool) (base_file : option (option (items (cfg L))))
             (listing : list string) : option (cfg L) :=
    match load_fragments base_file listing with
    | None => None
    | Some c => match add_extra c with
                | None => None
                | Some c' => if resolve_files then resolve (Map c') else Some (Map c')
                end
    end.
End Load.

(* ------------------------------------------------------------------ *)
(* builders: which configured values reach the constructor             *)
(* ------------------------------------------------------------------ *)
(* `if k not in d: d[k] = default` *)
Definition with_default {V} (k : string) (d : V) (m : items V) : items V :=
  match lookup k m with Some _ => m | None => set k d m end.

(* grid_from_conf: Grid(kwargs = conf["grid"]) with ymin, ymax defaulting to 0.0 *)
Definition grid_kwargs {L} (zero : L) (conf : items (cfg L)) : option (items (cfg L)) :=
  match lookup "grid"%string conf with
  | Some (Map g) => Some (with_default "ymax"%string (Leaf zero) (with_default "ymin"%string (Leaf zero) g))
  | _ => None                               (* KeyError / TypeError *)
  end.

(* examination_object_from_conf dispatch *)
Inductive exam_kind := ExImmersion | ExContact | ExNotImplemented.
Definition has {V} (k : string) (m : items V) : bool := match lookup k m with Some _ => true | None => false end.
Definition exam_dispatch {V} (conf : items V) : exam_kind :=
  if has "frontwall"%string conf && has "backwall"%string conf
     && has "couplant_material"%string conf && has "block_material"%string conf then ExImmersion
  else if has "block_material"%string conf then ExContact
  else ExNotImplemented.

(* probe_from_conf: 'probe' and 'probe_key' are mutually exclusive *)
Inductive probe_source := PsError | PsLibrary | PsMatrix.
Definition probe_dispatch {V} (conf : items V) : probe_source :=
  if has "probe_key"%string conf && has "probe"%string conf then PsError
  else if has "probe_key"%string conf then PsLibrary else PsMatrix.

(* ------------------------------------------------------------------ *)
(* BRAIN exp_data loader                                               *)
(* ------------------------------------------------------------------ *)
(* tx = np.squeeze(exp_data["tx"]).astype(uint32) - 1  (wraps modulo 2^32) *)
Definition to0 (stored : Z) : Z := ((stored - 1) mod 4294967296)%Z.
Definition load_indices (stored : list Z) : list Z := map to0 stored.

Inductive mem_order := COrder | FOrder.
Section Brain.
  Variable V : Type.
  Variable dflt : V.
  (* a 2-D numpy array over a flat buffer *)
  Record arr2 := mkArr { a_rows : nat; a_cols : nat; a_order : mem_order; a_mem : list V }.
  Definition aget (A : arr2) (i j : nat) : V :=
    nth (match a_order A with
         | COrder => i * a_cols A + j
         | FOrder => i + j * a_rows A end) (a_mem A) dflt.
  Definition flip (o : mem_order) := match o with COrder => FOrder | FOrder => COrder end.
  Definition transpose (A : arr2) : arr2 :=
    mkArr (a_cols A) (a_rows A) (flip (a_order A)) (a_mem A).
  (* numpy's flags.f_contiguous: a matrix with both dimensions >= 2 is contiguous
     in its own order only; with a dimension <= 1 in both *)
  Definition f_contiguous (A : arr2) : bool :=
    match a_order A with
    | FOrder => true
    | COrder => (a_rows A <=? 1) || (a_cols A <=? 1)
    end.
  (* `if timetraces.flags.f_contiguous: timetraces = timetraces.T` *)
  Definition load_timetraces (A : arr2) : arr2 := if f_contiguous A then transpose A else A.

  (* The two ways an exp_data.time_data with N timetraces of S samples reaches
     _load_frame; in both the S samples of one timetrace are consecutive in the
     buffer (mem[i*S + j] = sample j of timetrace i):
       scipy.io.loadmat : shape (S, N), Fortran order
       h5py (MAT 7.3)   : shape (N, S), C order *)
  Definition view_scipy (N S : nat) (mem : list V) : arr2 := mkArr S N FOrder mem.
  Definition view_hdf5 (N S : nat) (mem : list V) : arr2 := mkArr N S COrder mem.
End Brain.
Arguments mkArr {V}. Arguments a_rows {V}. Arguments a_cols {V}. Arguments a_order {V}. Arguments a_mem {V}.

(* Time.from_vect over exact rationals: start = t[0], step = mean(diff(t)),
   num = len(t); rejected (ValueError) unless every step is within rtol = 1e-2 of the
   mean (np.allclose(steps, avg, atol=0, rtol)).  Fewer than 2 samples: mean of an
   empty array (nan) — rejected here. *)
Fixpoint diffs (t : list Q) : list Q :=
  match t with
  | a :: ((b :: _) as t') => (b - a)%Q :: diffs t'
  | _ => []
  end.
Definition qsum (l : list Q) : Q := fold_left Qplus l 0%Q.
Definition qabs (x : Q) : Q := if Qle_bool 0 x then x else Qopp x.
Definition time_from_vect (t : list Q) : option (Q * Q * nat) :=
  match t with
  | t0 :: _ :: _ =>
      let ds := diffs t in
      let avg := (qsum ds / inject_Z (Z.of_nat (List.length ds)))%Q in
      if forallb (fun s => Qle_bool (qabs (s - avg)) ((1 # 100) * qabs avg)) ds
      then Some (t0, avg, List.length t) else None
  | _ => None
  end.

(* a linearly spaced time vector t0 + k*step, k = start .. start+n-1 *)
Definition linspaceQ (t0 step : Q) (start n : nat) : list Q :=
  map (fun k => (t0 + inject_Z (Z.of_nat k) * step)%Q) (seq start n).

