(* Model/ConfLoad.v — the `*_from_conf` builders of arim.io.native as functions from the
   configuration tree to the CALLS they make (which constructor, with which keyword
   arguments, in which order), the unpacking of `pixel_size` in Grid.__init__, the
   chain frame_from_conf -> load_expdata / probe_from_conf / examination_object_from_conf,
   and the parts of arim.io.brain (_load_probe, _load_frame + the checks of Frame.__init__
   and Time.__init__) that Model/Config.v leaves out (C20).  Definitions only; lemmas in
   Proofs/ConfLoadProofs.v.

   Mirrors (code as it is NOW in /repo/src/arim):
     io/native.py:186-226  probe_from_conf
     io/native.py:229-253  examination_object_from_conf
     io/native.py:256-284  material_attenuation_from_conf / _material_from_conf
     io/native.py:287-307  material_from_conf
     io/native.py:310-348  block_in_immersion_from_conf / block_in_contact_from_conf
     io/native.py:351-370  grid_from_conf          geometry.py:657-663 (pixel_size unpacking)
     io/native.py:373-434  frame_from_conf
     io/brain.py:86-120    _load_probe             io/brain.py:123-158  _load_frame
     core.py:128-168       Frame.__init__ (shape / duplicate checks)
     core.py:1440-1443, 1482-1507  Time.__init__ (step < 0 rejected), Time.from_vect
     _probes/registry.py:33-34     ProbeRegistry.__getitem__ (as the parameter `registered`)

   Conventions.  A configuration is `cfg L` of Model/Config.v (leaves opaque).  What
   Python can ask of a leaf is a Section variable (never an axiom):
     is_none v      `v is None`                    (YAML null)
     is_float v     `isinstance(v, float)`
     leaf_has v k   `k in v`      (None = TypeError: v is not a container)
     leaf_seq v     `a, b, c = v` iterates v (None = TypeError: v is not iterable)
   A raise is `Err kind`; the kind is the Python exception class.  A call
   `f( **mapping, name=...)` is modelled up to the binding of the arguments to the
   signature of f (unexpected / missing / duplicate keyword = TypeError); what f then
   does with the values belongs to the constructors (Model/Probe.v, Geometry.v ...). *)
From Coq Require Import List String Bool ZArith Arith QArith.
From Arim Require Import Model.Config.
Import ListNotations.
Local Close Scope Q_scope.
Local Open Scope list_scope.
Local Open Scope string_scope.

(* ------------------------------------------------------------------ *)
(* raises                                                              *)
(* ------------------------------------------------------------------ *)
Inductive err :=
| EKey              (* KeyError: conf["absent"] *)
| EType             (* TypeError: **leaf, bad keyword, k in 5 *)
| EAttr             (* AttributeError: leaf.get(...); `raise config.InvalidConf(...)` (see probe_source) *)
| EValue            (* ValueError *)
| ENotImplemented   (* NotImplementedError: no examination object in the conf *)
| ELoad.            (* whatever brain.load_expdata / pooch.fetch raise (oracle) *)

Inductive res (A : Type) : Type := Ok (a : A) | Err (e : err).
Arguments Ok {A} _.
Arguments Err {A} _.

Definition bind {A B} (r : res A) (f : A -> res B) : res B :=
  match r with Ok a => f a | Err e => Err e end.
Notation "x <- r ;; k" := (bind r (fun x => k)) (at level 61, r at next level, right associativity).

Definition map_values {A B} (f : A -> B) (m : items A) : items B :=
  map (fun kv => (fst kv, f (snd kv))) m.

Definition mem (k : string) (l : list string) : bool := existsb (String.eqb k) l.

(* binding `**kw` to a signature: every keyword must be a parameter, every parameter
   without default must be given (TypeError otherwise) *)
Definition sig_ok {V} (required allowed : list string) (kw : items V) : bool :=
  forallb (fun k => mem k allowed) (keys kw) && forallb (fun k => has k kw) required.
Definition sig_check {V} (required allowed : list string) (kw : items V) : res unit :=
  if sig_ok required allowed kw then Ok tt else Err EType.

(* conf[k] *)
Definition getitem {V} (k : string) (m : items V) : res V :=
  match lookup k m with Some v => Ok v | None => Err EKey end.

Section Builders.
  Variable L : Type.
  Variable is_none : L -> bool.
  Variable is_float : L -> bool.
  Variable leaf_has : L -> string -> option bool.
  Variable leaf_seq : L -> option (list L).

  (* `x = conf.get(k, None)` followed by `if x is None`: None when the key is absent
     or holds YAML null *)
  Definition get_not_none (k : string) (m : items (cfg L)) : option (cfg L) :=
    match lookup k m with
    | None => None
    | Some (Leaf v) => if is_none v then None else Some (Leaf v)
    | Some c => Some c
    end.

  (* `k in c` *)
  Definition contains (c : cfg L) (k : string) : res bool :=
    match c with
    | Map m => Ok (has k m)
    | Leaf v => match leaf_has v k with Some b => Ok b | None => Err EType end
    end.

  (* c[k] for a string k: only a mapping can answer *)
  Definition subitem (c : cfg L) (k : string) : res (cfg L) :=
    match c with Map m => getitem k m | Leaf _ => Err EType end.

  (* f( **c) *)
  Definition as_kwargs (c : cfg L) : res (items (cfg L)) :=
    match c with Map m => Ok m | Leaf _ => Err EType end.

  (* ---------------------------------------------------------------- *)
  (* material attenuation, material                                    *)
  (* ---------------------------------------------------------------- *)
  Inductive att_call :=
  | AttConstant (v : L)                    (* material_attenuation_factory("constant", v) *)
  | AttFactory (kw : items (cfg L)).       (* material_attenuation_factory( **kw) *)

  (* material_attenuation_from_conf: a float, else "assume we have a dict";
     the factory's first parameter `kind` has no default *)
  Definition material_attenuation_from_conf (c : cfg L) : res att_call :=
    match c with
    | Leaf v => if is_float v then Ok (AttConstant v) else Err EType
    | Map kw => if has "kind" kw then Ok (AttFactory kw) else Err EType
    end.

  (* a keyword argument of Material(...): a configured value passed as it is, or the
     attenuation function built from it (None = Python None) *)
  Inductive marg :=
  | MCfg (c : cfg L)
  | MAtt (a : option att_call).

  (* _material_from_conf(material_kwargs.get(k)) *)
  Definition att_arg (k : string) (kw : items marg) : res (option att_call) :=
    match lookup k kw with
    | None => Ok None
    | Some (MCfg (Leaf v)) =>
        if is_none v then Ok None
        else a <- material_attenuation_from_conf (Leaf v) ;; Ok (Some a)
    | Some (MCfg c) => a <- material_attenuation_from_conf c ;; Ok (Some a)
    | Some (MAtt None) => Ok None
    | Some (MAtt (Some _)) => Err EType      (* a function is neither a float nor a mapping *)
    end.

  Definition material_required := ["longitudinal_vel"].
  Definition material_params :=
    ["longitudinal_vel"; "transverse_vel"; "density"; "state_of_matter";
     "longitudinal_att"; "transverse_att"; "metadata"].

  (* material_from_conf: the keyword arguments reaching core.Material( **material_kwargs) *)
  Definition material_from_conf (conf : cfg L) : res (items marg) :=
    match conf with
    | Leaf _ => Err EAttr                            (* deepcopy(leaf).get *)
    | Map m =>
        let kw0 := map_values MCfg m in              (* copy.deepcopy(conf) *)
        la <- att_arg "longitudinal_att" kw0 ;;
        let kw1 := set "longitudinal_att" (MAtt la) kw0 in
        ta <- att_arg "transverse_att" kw1 ;;
        let kw2 := set "transverse_att" (MAtt ta) kw1 in
        _ <- sig_check material_required material_params kw2 ;;
        Ok kw2
    end.

  (* Material.__init__ seen from outside: each attribute is the keyword argument, a
     missing one is None; `metadata=None` becomes {} (the *1.0 and the enum parsing are
     the constructor's) *)
  Record material := mkMaterial {
    mat_longitudinal_vel : option marg;
    mat_transverse_vel : option marg;
    mat_density : option marg;
    mat_state_of_matter : option marg;
    mat_longitudinal_att : option att_call;
    mat_transverse_att : option att_call;
    mat_metadata : marg }.
  Definition marg_not_none (o : option marg) : option marg :=
    match o with
    | Some (MCfg (Leaf v)) => if is_none v then None else o
    | Some (MAtt None) => None
    | _ => o
    end.
  Definition att_of (o : option marg) : option att_call :=
    match o with Some (MAtt a) => a | _ => None end.
  Definition material_of_kwargs (kw : items marg) : material :=
    mkMaterial (marg_not_none (lookup "longitudinal_vel" kw))
               (marg_not_none (lookup "transverse_vel" kw))
               (marg_not_none (lookup "density" kw))
               (marg_not_none (lookup "state_of_matter" kw))
               (att_of (lookup "longitudinal_att" kw))
               (att_of (lookup "transverse_att" kw))
               (match marg_not_none (lookup "metadata" kw) with
                | Some md => md | None => MCfg (Map []) end).

  (* ---------------------------------------------------------------- *)
  (* walls, examination objects                                        *)
  (* ---------------------------------------------------------------- *)
  Record wall_call := mkWall { w_kwargs : items (cfg L); w_name : string }.
  Definition wall_required := ["xmin"; "xmax"; "z"; "numpoints"].
  Definition wall_params := ["xmin"; "xmax"; "z"; "numpoints"; "y"; "name"; "dtype"].

  (* geometry.points_1d_wall_z( **c, name=name): `name` given twice = TypeError *)
  Definition wall_from_conf (c : cfg L) (name : string) : res wall_call :=
    kw <- as_kwargs c ;;
    if has "name" kw then Err EType
    else _ <- sig_check wall_required wall_params kw ;; Ok (mkWall kw name).

  Inductive exam_obj :=
  | BlockInImmersion (block couplant : items marg) (frontwall backwall : wall_call)
  | BlockInContact (block : items marg) (frontwall backwall : option wall_call)
                   (under : option (items marg)).

  Definition block_in_immersion_from_conf (conf : items (cfg L)) : res exam_obj :=
    cc <- getitem "couplant_material" conf ;;
    couplant <- material_from_conf cc ;;
    bc <- getitem "block_material" conf ;;
    block <- material_from_conf bc ;;
    fc <- getitem "frontwall" conf ;;
    frontwall <- wall_from_conf fc "Frontwall" ;;
    kc <- getitem "backwall" conf ;;
    backwall <- wall_from_conf kc "Backwall" ;;
    Ok (BlockInImmersion block couplant frontwall backwall).

  Definition opt_wall (o : option (cfg L)) (name : string) : res (option wall_call) :=
    match o with
    | None => Ok None
    | Some c => w <- wall_from_conf c name ;; Ok (Some w)
    end.

  Definition block_in_contact_from_conf (conf : items (cfg L)) : res exam_obj :=
    bc <- getitem "block_material" conf ;;
    block <- material_from_conf bc ;;
    frontwall <- opt_wall (get_not_none "frontwall" conf) "Frontwall" ;;
    backwall <- opt_wall (get_not_none "backwall" conf) "Backwall" ;;
    under <- match get_not_none "under_material" conf with
             | None => Ok None
             | Some c => m <- material_from_conf c ;; Ok (Some m)
             end ;;
    Ok (BlockInContact block frontwall backwall under).

  Definition examination_object_from_conf (conf : items (cfg L)) : res exam_obj :=
    match exam_dispatch conf with
    | ExImmersion => block_in_immersion_from_conf conf
    | ExContact => block_in_contact_from_conf conf
    | ExNotImplemented => Err ENotImplemented
    end.

  (* ---------------------------------------------------------------- *)
  (* probe                                                             *)
  (* ---------------------------------------------------------------- *)
  Inductive probe_src :=
  | SrcLibrary (key : cfg L)                 (* _probes.probes[conf["probe_key"]] *)
  | SrcMatrix (kw : items (cfg L)).          (* Probe.make_matrix_probe( **conf["probe"]) *)

  (* the calls made on the probe, in order *)
  Inductive probe_op :=
  | OpSetRef (v : cfg L)        (* probe.set_reference_element(v) *)
  | OpToO                       (* probe.translate_to_point_O() *)
  | OpRotY (deg : cfg L)        (* probe.rotate(rotation_matrix_y(deg2rad(deg))) *)
  | OpTranslateZ (v : cfg L).   (* probe.translate([0, 0, v]) *)

  Record probe_plan := mkPlan { pp_src : probe_src; pp_ops : list probe_op }.

  Definition matrix_required := ["numx"; "pitch_x"; "numy"; "pitch_y"; "frequency"].
  Definition matrix_params :=
    ["numx"; "pitch_x"; "numy"; "pitch_y"; "frequency"; "dimensions"; "orientations";
     "shapes"; "dead_elements"; "bandwidth"; "pcs"; "metadata"].

  (* the probe library `_probes.probes` (a Mapping over an OrderedDict of makers), asked
     `probes[key]` (native.py:205): Some true = the key is registered, Some false = it is
     not (KeyError), None = the key is not hashable (a YAML sequence or mapping: TypeError).
     [repair: the registry used to be left out of the model, which answered
     Ok (SrcLibrary k) for every key] *)
  Variable registered : cfg L -> option bool.

  (* _probes.probes[key] *)
  Definition registry_lookup (k : cfg L) : res probe_src :=
    match registered k with
    | Some true => Ok (SrcLibrary k)
    | Some false => Err EKey
    | None => Err EType
    end.

  (* NB the statement `raise config.InvalidConf(...)` (native.py:203) itself fails:
     arim.config defines no InvalidConf (the class is defined in native.py), so the
     exception that leaves probe_from_conf is AttributeError.  Still a rejection. *)
  Definition probe_source (conf : items (cfg L)) : res probe_src :=
    if has "probe_key" conf && has "probe" conf then Err EAttr
    else if has "probe_key" conf then k <- getitem "probe_key" conf ;; registry_lookup k
    else p <- getitem "probe" conf ;;
         kw <- as_kwargs p ;;
         _ <- sig_check matrix_required matrix_params kw ;;
         Ok (SrcMatrix kw).

  (* the block `if apply_probe_location:`; each test is a MEMBERSHIP test on
     conf["probe_location"], each value is read from conf["probe_location"] again *)
  Definition probe_location_ops (conf : items (cfg L)) : res (list probe_op) :=
    pl <- getitem "probe_location" conf ;;
    b1 <- contains pl "ref_element" ;;
    o1 <- (if b1 then v <- subitem pl "ref_element" ;; Ok [OpSetRef v; OpToO] else Ok []) ;;
    b2 <- contains pl "angle_deg" ;;
    o2 <- (if b2 then v <- subitem pl "angle_deg" ;; Ok [OpRotY v] else Ok []) ;;
    b3 <- contains pl "standoff" ;;
    o3 <- (if b3 then v <- subitem pl "standoff" ;; Ok [OpTranslateZ v] else Ok []) ;;
    Ok ((o1 ++ o2 ++ o3)%list).

  Definition probe_from_conf (conf : items (cfg L)) (apply_probe_location : bool) : res probe_plan :=
    src <- probe_source conf ;;
    ops <- (if apply_probe_location then probe_location_ops conf else Ok []) ;;
    Ok (mkPlan src ops).

  (* ---------------------------------------------------------------- *)
  (* grid                                                              *)
  (* ---------------------------------------------------------------- *)
  Variable zero : L.                          (* the float 0.0 *)
  Definition grid_params := ["xmin"; "xmax"; "ymin"; "ymax"; "zmin"; "zmax"; "pixel_size"].

  (* grid_from_conf: the keyword arguments reaching geometry.Grid( **conf_grid) *)
  Definition grid_from_conf (conf : items (cfg L)) : res (items (cfg L)) :=
    g <- getitem "grid" conf ;;
    match g with
    | Leaf _ => Err EType
    | Map m =>
        let kw := with_default "ymax" (Leaf zero) (with_default "ymin" (Leaf zero) m) in
        _ <- sig_check grid_params grid_params kw ;;
        Ok kw
    end.

  (* `dx, dy, dz = pixel_size` / `except TypeError: dx = dy = dz = pixel_size`.
     Iterating a mapping yields its keys. *)
  Inductive pxv := PxLeaf (x : L) | PxKey (k : string).
  Definition unpack_pixel_size (c : cfg L) : res (pxv * pxv * pxv) :=
    match c with
    | Leaf v =>
        match leaf_seq v with
        | None => Ok (PxLeaf v, PxLeaf v, PxLeaf v)
        | Some [a; b; d] => Ok (PxLeaf a, PxLeaf b, PxLeaf d)
        | Some _ => Err EValue                (* too many / not enough values to unpack *)
        end
    | Map m =>
        match keys m with
        | [a; b; d] => Ok (PxKey a, PxKey b, PxKey d)
        | _ => Err EValue
        end
    end.

  (* (min, max, spacing) used for np.linspace on each axis *)
  Definition axis := (cfg L * cfg L * pxv)%type.
  Definition grid_axes (kw : items (cfg L)) : res (axis * axis * axis) :=
    ps <- getitem "pixel_size" kw ;;
    d <- unpack_pixel_size ps ;;
    let '(dx, dy, dz) := d in
    xmin <- getitem "xmin" kw ;; xmax <- getitem "xmax" kw ;;
    ymin <- getitem "ymin" kw ;; ymax <- getitem "ymax" kw ;;
    zmin <- getitem "zmin" kw ;; zmax <- getitem "zmax" kw ;;
    Ok ((xmin, xmax, dx), (ymin, ymax, dy), (zmin, zmax, dz)).

  Definition grid_axes_from_conf (conf : items (cfg L)) : res (axis * axis * axis) :=
    kw <- grid_from_conf conf ;; grid_axes kw.

  (* ---------------------------------------------------------------- *)
  (* frame_from_conf                                                   *)
  (* ---------------------------------------------------------------- *)
  Inductive frame_src :=
  | FromFile (fname : cfg L)                       (* frame.datafile *)
  | FromDataset (name item : cfg L).               (* datasets.DATASETS[name].fetch(item) *)

  Variable known_dataset : cfg L -> bool.          (* name in datasets.DATASETS (and hashable) *)
  Variable load_expdata : frame_src -> res unit.   (* fetch + brain.load_expdata succeed? *)

  Record frame_plan := mkFramePlan {
    fp_src : frame_src;
    fp_delay : option (cfg L);             (* Some d: time := Time(start - d, step, len) *)
    fp_probe : option probe_plan;          (* None: the probe stored in the file is kept *)
    fp_exam : option exam_obj }.           (* None: the file's examination object is kept *)

  Definition frame_source (conf : items (cfg L)) : res (frame_src * items (cfg L)) :=
    fc <- getitem "frame" conf ;;
    match fc with
    | Leaf _ => Err EType
    | Map f =>
        if has "datafile" f then v <- getitem "datafile" f ;; Ok (FromFile v, f)
        else n <- getitem "dataset_name" f ;;
             if known_dataset n
             then i <- getitem "dataset_item" f ;; Ok (FromDataset n i, f)
             else Err EValue
    end.

  Definition frame_from_conf (conf : items (cfg L))
             (use_probe_from_conf use_examination_object_from_conf : bool) : res frame_plan :=
    sf <- frame_source conf ;;
    let '(src, f) := sf in
    _ <- load_expdata src ;;
    let delay := get_not_none "instrument_delay" f in
    probe <- (if use_probe_from_conf
              then p <- probe_from_conf conf true ;; Ok (Some p) else Ok None) ;;
    exam <- (if use_examination_object_from_conf
             then e <- examination_object_from_conf conf ;; Ok (Some e) else Ok None) ;;
    Ok (mkFramePlan src delay probe exam).
End Builders.

Arguments AttConstant {L}. Arguments AttFactory {L}.
Arguments MCfg {L}. Arguments MAtt {L}.
Arguments mkWall {L}. Arguments w_kwargs {L}. Arguments w_name {L}.
Arguments BlockInImmersion {L}. Arguments BlockInContact {L}.
Arguments SrcLibrary {L}. Arguments SrcMatrix {L}.
Arguments OpSetRef {L}. Arguments OpToO {L}. Arguments OpRotY {L}. Arguments OpTranslateZ {L}.
Arguments mkPlan {L}. Arguments pp_src {L}. Arguments pp_ops {L}.
Arguments PxLeaf {L}. Arguments PxKey {L}.
Arguments FromFile {L}. Arguments FromDataset {L}.
Arguments mkFramePlan {L}. Arguments fp_src {L}. Arguments fp_delay {L}.
Arguments fp_probe {L}. Arguments fp_exam {L}.
Arguments mkMaterial {L}.

(* ------------------------------------------------------------------ *)
(* time axis: Time.from_vect INCLUDING the check of Time.__init__      *)
(* ------------------------------------------------------------------ *)
(* Time(start, step, num) raises ValueError when step < 0; Model/Config.time_from_vect
   stops before that call *)
Definition time_init (start step : Q) (n : nat) : option (Q * Q * nat) :=
  if Qle_bool 0%Q step then Some (start, step, n) else None.

(* what Time.from_vect answers.  The numbers of the model are exact rationals, so the one
   answer whose step is not a number has a constructor of its own. *)
Inductive time_outcome :=
| TimeAxis (tm : Q * Q * nat)   (* Time(start, step, num), step a number >= 0 *)
| StepNaN (start : Q)           (* Time(start, nan, 1) *)
| TimeRejected.                 (* an exception *)

(* Time.from_vect(timevect) for a 1-D timevect (core.py:1497-1507).
   ONE stored sample [t0]: steps = np.diff = [], avg_step = np.mean([]) = nan (a
   RuntimeWarning only), np.allclose([], nan) is True (nothing to compare), and in
   Time.__init__ `nan * 1.0 < 0` is False: the answer is Time(t0, nan, 1), whose samples are
   [t0].  NO sample: `timevect[0]` raises IndexError.
   [repair: the one-sample vector used to be answered None, like a rejection] *)
Definition time_of_vect (t : list Q) : time_outcome :=
  match t with
  | [t0] => StepNaN t0
  | _ =>
      match time_from_vect t with
      | Some (t0, avg, n) =>
          match time_init t0 avg n with Some tm => TimeAxis tm | None => TimeRejected end
      | None => TimeRejected
      end
  end.

(* frame_from_conf: frame.time = Time(frame.time.start - instrument_delay, frame.time.step, len(frame.time)) *)
Definition shift_time (tm : Q * Q * nat) (delay : Q) : option (Q * Q * nat) :=
  let '(t0, step, n) := tm in time_init (t0 - delay)%Q step n.

(* the samples of a Time object: start + k * step *)
Definition time_samples (tm : Q * Q * nat) : list Q :=
  let '(t0, step, n) := tm in linspaceQ t0 step 0 n.

(* ------------------------------------------------------------------ *)
(* BRAIN loader: _load_probe, _load_frame                              *)
(* ------------------------------------------------------------------ *)
Definition qmax (a b : Q) : Q := if Qle_bool a b then b else a.      (* np.maximum *)

(* dimensions_x = 2 * np.maximum(|el_x1 - el_xc|, |el_x2 - el_xc|) *)
Definition el_dim (c p1 p2 : Q) : Q := (2 * qmax (qabs (p1 - c)) (qabs (p2 - c)))%Q.

Fixpoint zip3 {A} (a b c : list A) : list (A * A * A) :=
  match a, b, c with
  | x :: a', y :: b', z :: c' => (x, y, z) :: zip3 a' b' c'
  | _, _, _ => []
  end.

Definition same_len {A} (n : nat) (ls : list (list A)) : bool :=
  forallb (fun l => Nat.eqb (List.length l) n) ls.

Record brain_probe := mkBrainProbe {
  bp_locations : list (Q * Q * Q);
  bp_dimensions : list (Q * Q * Q);
  bp_frequency : Q }.

(* numpy broadcasting of a squeezed corner vector against the n centres: a vector of n
   values is used as it is, a vector of ONE value (squeezed to a 0-d scalar) is repeated n
   times, every other length raises ValueError (operands could not be broadcast) *)
Definition bcast (n : nat) (l : list Q) : option (list Q) :=
  if Nat.eqb (List.length l) n then Some l
  else match l with [x] => Some (repeat x n) | _ => None end.

(* the value a stored corner vector contributes to element i (after broadcasting) *)
Definition bget (l : list Q) (i : nat) : Q :=
  match l with [x] => x | _ => nth i l 0%Q end.

(* 2 * np.maximum(np.absolute(p1 - c), np.absolute(p2 - c)) on whole vectors *)
Definition el_dims (c p1 p2 : list Q) : option (list Q) :=
  match bcast (List.length c) p1, bcast (List.length c) p2 with
  | Some a, Some b => Some (map (fun t => let '(c0, a0, b0) := t in el_dim c0 a0 b0) (zip3 c a b))
  | _, _ => None
  end.

(* _load_probe on the nine per-element vectors of exp_data.array, each squeezed to 1-D.
   Found by running the code on every combination of lengths 0..3 (brain.py:96-120):
   - the three CENTRE vectors must have the same length n (Points.from_xyz asserts equal
     shapes) and n <> 1 (a one-element vector squeezes to 0-d and len(locations) raises
     TypeError); n = 0 is accepted: a probe without elements;
   - each of the six CORNER vectors must have n values or ONE value: the squeezed scalar is
     broadcast by numpy against the n centres (`el_x1 - locations_x`); any other length
     raises ValueError.  The dimensions always have n entries since the centres have.
   [repair: the model used to demand n >= 2 and the same length n of all nine vectors] *)
Definition load_probe (xc yc zc x1 y1 z1 x2 y2 z2 : list Q) (freq : Q) : option brain_probe :=
  let n := List.length xc in
  if negb (Nat.eqb n 1) && same_len n [yc; zc] then
    match el_dims xc x1 x2, el_dims yc y1 y2, el_dims zc z1 z2 with
    | Some dx, Some dy, Some dz => Some (mkBrainProbe (zip3 xc yc zc) (zip3 dx dy dz) freq)
    | _, _, _ => None
    end
  else None.

Fixpoint nodup_pairs (l : list (Z * Z)) : bool :=
  match l with
  | [] => true
  | (a, b) :: l' => negb (existsb (fun p => Z.eqb a (fst p) && Z.eqb b (snd p)) l') && nodup_pairs l'
  end.

Section BrainFrame.
  Variable V : Type.
  Record brain_frame := mkBrainFrame {
    bf_timetraces : arr2 V;
    bf_time : Q * Q * nat;
    bf_tx : list Z;
    bf_rx : list Z }.

  (* _load_frame followed by the checks of Frame.__init__:
       timetraces.shape == (numtimetraces, len(time)), tx.shape == rx.shape == (numtimetraces,),
       no (tx, rx) pair twice.  `time_data` is the stored 2-D array (both dimensions >= 2,
       otherwise np.squeeze drops an axis and the shape check fails). *)
  Definition load_frame (time_data : arr2 V) (time : list Q) (tx rx : list Z) : option brain_frame :=
    let tx0 := load_indices tx in
    let rx0 := load_indices rx in
    let T := load_timetraces V time_data in
    match time_of_vect time with
    | TimeRejected => None
    | StepNaN _ => None      (* Time(t0, nan, 1) is built, then Frame.__init__ rejects: the squeezed
                                timetraces cannot have shape (numtimetraces, 1) with both dimensions >= 2 *)
    | TimeAxis tm =>
        let '(_, _, numsamples) := tm in
        if Nat.leb 2 (a_rows T) && Nat.leb 2 (a_cols T)
           && Nat.eqb (a_cols T) numsamples
           && Nat.eqb (List.length tx0) (a_rows T)
           && Nat.eqb (List.length rx0) (a_rows T)
           && nodup_pairs (combine tx0 rx0)
        then Some (mkBrainFrame T tm tx0 rx0)
        else None
    end.
End BrainFrame.
Arguments mkBrainFrame {V}. Arguments bf_timetraces {V}. Arguments bf_time {V}.
Arguments bf_tx {V}. Arguments bf_rx {V}.

(* ------------------------------------------------------------------ *)
(* a concrete leaf type for execution (examples, correspondence)       *)
(* ------------------------------------------------------------------ *)
(* the YAML scalars and sequences that occur in configurations; PyFloat n is the float
   n / 8 (dyadic: exact in binary64) *)
Inductive py :=
| PyNone
| PyBool (b : bool)
| PyInt (z : Z)
| PyFloat (eighths : Z)
| PyStr (s : string)
| PyList (l : list py).

Definition py_is_none (v : py) : bool := match v with PyNone => true | _ => false end.
Definition py_is_float (v : py) : bool := match v with PyFloat _ => true | _ => false end.

Definition is_substring (k s : string) : bool :=
  match String.index 0 k s with Some _ => true | None => false end.

(* `k in v`: substring test on a str, membership in a list, TypeError otherwise *)
Definition py_leaf_has (v : py) (k : string) : option bool :=
  match v with
  | PyStr s => Some (is_substring k s)
  | PyList l => Some (existsb (fun x => match x with PyStr s => String.eqb s k | _ => false end) l)
  | _ => None
  end.

Fixpoint chars (s : string) : list py :=
  match s with
  | EmptyString => []
  | String c s' => PyStr (String c EmptyString) :: chars s'
  end.

(* iteration for `dx, dy, dz = v` *)
Definition py_leaf_seq (v : py) : option (list py) :=
  match v with
  | PyList l => Some l
  | PyStr s => Some (chars s)
  | _ => None
  end.

Definition py_zero : py := PyFloat 0.
(* arim.datasets.DATASETS has the single key "examples" *)
Definition py_known_dataset (c : cfg py) : bool :=
  match c with Leaf (PyStr s) => String.eqb s "examples" | _ => false end.

(* the keys of arim._probes.probes (bristol_ndt.makers); a str key is looked up, any other
   hashable leaf is simply absent, a sequence or a mapping is not hashable *)
Definition py_probe_keys : list string :=
  ["ima_50_MHz_128_1d"; "ima_50_MHz_64_1d"; "ima_25_MHz_64_1d"; "sonaxis_150_MHz_110_1d";
   "ima_100_MHz_128_1d"].
Definition py_registered (c : cfg py) : option bool :=
  match c with
  | Leaf (PyStr s) => Some (mem s py_probe_keys)
  | Leaf (PyList _) => None
  | Leaf _ => Some false
  | Map _ => None
  end.

Definition py_material_from_conf := material_from_conf py py_is_none py_is_float.
Definition py_examination_object_from_conf := examination_object_from_conf py py_is_none py_is_float.
Definition py_probe_from_conf := probe_from_conf py py_leaf_has py_registered.
Definition py_grid_from_conf := grid_from_conf py py_zero.
Definition py_grid_axes_from_conf := grid_axes_from_conf py py_leaf_seq py_zero.
Definition py_frame_from_conf (load : frame_src py -> res unit) :=
  frame_from_conf py py_is_none py_is_float py_leaf_has py_registered py_known_dataset load.

(* abbreviations for writing example configurations *)
Definition pyF (eighths : Z) : cfg py := Leaf (PyFloat eighths).
Definition pyI (z : Z) : cfg py := Leaf (PyInt z).
Definition pyS (s : string) : cfg py := Leaf (PyStr s).
Definition pyN : cfg py := Leaf PyNone.
