(* Model/RayGeomGlue.v — the OBJECT-LEVEL glue of property C05: the numpy index table of a
   Rays object (dtype, memory order, flat buffer), the constructors Interface.__init__ /
   Rays.__init__ / Rays.make_indices / RayGeometry.__init__ / RayGeometry.from_path with
   their assertions and exceptions, np.take's index semantics for the point indices
   (negative spellings, out of range), the normal-side flags as Python values, and the 17
   query methods of RayGeometry written ONCE over the two gathers they are built from.

   Mirrors (src/arim):
     core.Interface.__init__ (flag asserts, one frame broadcast with np.resize,
                              ValueError on inconsistent shapes)       core.py:984-1026   interface_init
     core.Interface.reverse  (flags swapped)                           core.py:1060-1092  interface_reverse
     ray.Rays.__init__       (the six assertions)                      ray.py:293-310     rays_init
     ray.Rays.make_indices   (order selection, zeros, three assignments
                              with the cast to the dtype of the table) ray.py:344-376     make_indices_tbl
     ray.Rays.indices[:, i, j]                                                             tbl_column
     ray.Rays.reverse        (swapaxes, [::-1], asarray(order), cls()) ray.py:512-535     rays_reverse
     ray.Rays.to_fortran_order                                         ray.py:452-471     rays_to_fortran
     ray.RayGeometry.__init__ (assertion on the identity of the Points) ray.py:919-946    raygeom_init
     ray.RayGeometry.from_path (ValueError when path.rays is None)     ray.py:948-964     raygeom_from_path
     ray._cache_ray_geometry wrapper: self._interface_indices[interface_idx]
                                                                       ray.py:883         (resolve, in every method)
     ray.RayGeometry.leg_points / orientations_of_legs_points:
        coords.take(self.rays.indices[interface_idx], axis=0)          ray.py:1000-1041   o_leg_points, o_orientations
     the other 15 methods                                              ray.py:1058-1353   m_* (Section Methods), o_*

   np.take(a, k, axis=0) with the default mode='raise': k and k - len(a) designate the same
   row, anything outside -len(a) .. len(a)-1 raises IndexError: this is RayGeom.resolve.

   Model/RayGeom.v answers for one ray given as a list of NATURAL point indices.  Here the
   column rays.indices[:, i, j] is a list of SIGNED integers read from a flat buffer with
   the strides of its memory order, the interfaces are objects built by the constructor,
   and the flags are Python values (None / bool / int: the code tests `is None` and then the
   truth value).  Proofs/RayGeomGlueProofs.v proves that every method of this file equals the
   method of Model/RayGeom.v on the normalised ray (`normalise`), so that every theorem of
   Props/C05.v applies to the objects.

   Outcomes of the queries: RayGeom.res (Val / NoLeg = None / IndexErr / ValueErr).
   Outcomes of the constructors: `built` (Built x / BAssert / BValue / BIndex).
   Not modelled: the result cache (C14), Interface.kind / transmission_reflection and their
   two ValueError of Interface.__init__ (C07, Model/PathReverse.v), the values of the times.
   Definitions only. *)
From Coq Require Import List ZArith Bool Arith.
From Arim Require Import Base.Num Model.Vec3 Model.RayGeom.
Import ListNotations.

(* ---- outcomes of constructors ----------------------------------------------------------- *)
Inductive built (A : Type) : Type :=
| Built (a : A)
| BAssert      (* AssertionError *)
| BValue       (* ValueError *)
| BIndex.      (* IndexError *)
Arguments Built {A}. Arguments BAssert {A}. Arguments BValue {A}. Arguments BIndex {A}.

(* ---- numpy dtypes ------------------------------------------------------------------------- *)
Inductive dtype :=
| DInt (bits : Z)      (* int8 .. int64: kind 'i' *)
| DUInt (bits : Z)     (* uint8 .. uint64: kind 'u' *)
| DFloat               (* kind 'f' *)
| DBool.               (* kind 'b' *)
Definition kind_i (d : dtype) : bool := match d with DInt _ => true | _ => false end.
Definition kind_f (d : dtype) : bool := match d with DFloat => true | _ => false end.

(* C cast of an integer into a two's-complement type of `bits` bits (array assignment
   `indices[0, ...] = np.repeat(np.arange(n), m)...` casts silently) *)
Definition wrap_int (bits z : Z) : Z := ((z + 2 ^ (bits - 1)) mod 2 ^ bits - 2 ^ (bits - 1))%Z.
Definition cast (d : dtype) (z : Z) : Z :=
  match d with
  | DInt b => wrap_int b z
  | DUInt b => (z mod 2 ^ b)%Z
  | _ => z
  end.

(* ---- a 3-d integer array as numpy stores it: shape, order, flat buffer -------------------- *)
Inductive order := OrdC | OrdF.

Record tbl : Type := mkTbl {
  t_order : order;
  t_dtype : dtype;
  t_d : nat; t_n : nat; t_m : nat;     (* shape (d, n, m) *)
  t_buf : list Z                       (* d * n * m entries *)
}.

(* offset of entry (k, i, j): strides (n m, m, 1) in C order, (1, D, D n) in Fortran order *)
Definition ravel (o : order) (D n m k i j : nat) : nat :=
  match o with
  | OrdC => (k * n + i) * m + j
  | OrdF => k + D * (i + n * j)
  end.
Definition unravel (o : order) (D n m off : nat) : nat * nat * nat :=
  match o with
  | OrdC => (off / (n * m), (off / m) mod n, off mod m)
  | OrdF => (off mod D, (off / D) mod n, off / (D * n))
  end.

(* the array whose entry (k, i, j) is f k i j, stored in order o *)
Definition tbl_of_fun (o : order) (dt : dtype) (D n m : nat) (f : nat -> nat -> nat -> Z) : tbl :=
  mkTbl o dt D n m
    (map (fun off => let '(k, i, j) := unravel o D n m off in f k i j) (seq 0 (D * n * m))).

(* t[k, i, j] for non-negative k, i, j *)
Definition tbl_get (t : tbl) (k i j : nat) : option Z :=
  if (k <? t_d t) && (i <? t_n t) && (j <? t_m t)
  then nth_error (t_buf t) (ravel (t_order t) (t_d t) (t_n t) (t_m t) k i j)
  else None.

(* t[:, i, j] *)
Definition tbl_column (t : tbl) (i j : nat) : option (list Z) :=
  all_some (map (fun k => tbl_get t k i j) (seq 0 (t_d t))).

(* t[1:-1, ...] as nested lists (Rays.interior_indices, read entry by entry) *)
Definition tbl_entry (t : tbl) (k i j : nat) : Z :=
  match tbl_get t k i j with Some z => z | None => 0%Z end.
Definition tbl_interior (t : tbl) : list (list (list Z)) :=
  map (fun k => map (fun i => map (fun j => tbl_entry t k i j) (seq 0 (t_m t))) (seq 0 (t_n t)))
      (seq 1 (t_d t - 2)).

(* ---- the arrays handed to Rays.__init__ --------------------------------------------------- *)
(* interior_indices: any shape / dtype / layout flags; `a_data` is its logical content
   a_data[k][i][j] (meaningful when the shape is (d, n, m)) *)
Record ndarray3 : Type := mkArr {
  a_shape : list nat;
  a_dtype : dtype;
  a_c_contiguous : bool;     (* interior_indices.flags.c_contiguous *)
  a_fortran : bool;          (* interior_indices.flags.fortran *)
  a_data : list (list (list Z))
}.
(* times: only shape and dtype matter here *)
Record times_arr : Type := mkTimes { tm_shape : list nat; tm_dtype : dtype }.

Definition get3 (data : list (list (list Z))) (k i j : nat) : Z :=
  match nth_error data k with
  | Some lay => match get2 lay i j with Some z => z | None => 0%Z end
  | None => 0%Z
  end.

(* Rays.make_indices(interior_indices, order), dm2, n, m = interior_indices.shape:
     indices = np.zeros((dm2 + 2, n, m), dtype, order)
     indices[0, ...] = i ; indices[-1, ...] = j ; indices[1:-1, ...] = interior_indices *)
Definition choose_order (interior : ndarray3) (ord : option order) : order :=
  match ord with
  | Some o => o
  | None => if a_c_contiguous interior then OrdC else if a_fortran interior then OrdF else OrdC
  end.
Definition make_indices_tbl (interior : ndarray3) (ord : option order) (dm2 n m : nat) : tbl :=
  let dt := a_dtype interior in
  let D := dm2 + 2 in
  tbl_of_fun (choose_order interior ord) dt D n m
    (fun k i j =>
       if k =? 0 then cast dt (Z.of_nat i)
       else if k =? D - 1 then cast dt (Z.of_nat j)
       else get3 (a_data interior) (k - 1) i j).

Fixpoint list_eqb {A} (eqb : A -> A -> bool) (l1 l2 : list A) : bool :=
  match l1, l2 with
  | [], [] => true
  | x :: l1', y :: l2' => eqb x y && list_eqb eqb l1' l2'
  | _, _ => false
  end.

(* numpy reports an array as both C and F contiguous when it is empty or has at most one
   axis of extent other than 1 *)
Definition both_contiguous (shape : list nat) : bool :=
  existsb (Nat.eqb 0) shape || (length (filter (fun e => negb (e =? 1)) shape) <=? 1).

(* swapaxes(x, 1, 2)[::-1] on nested lists, rows of length m *)
Definition swap_reverse {A} (m : nat) (data : list (list (list A))) : list (list (list A)) :=
  rev (map (transpose m) data).

(* ---- Python values of the two normal-side attributes ---------------------------------- *)
Inductive pyval := PyNone | PyBool (b : bool) | PyInt (z : Z).
Definition is_none (v : pyval) : bool := match v with PyNone => true | _ => false end.
Definition truthy (v : pyval) : bool :=
  match v with PyNone => false | PyBool b => b | PyInt z => negb (z =? 0)%Z end.
(* `x is None or isinstance(x, bool)` *)
Definition none_or_bool (v : pyval) : bool := match v with PyInt _ => false | _ => true end.
Definition py_of_flag (f : option bool) : pyval := match f with None => PyNone | Some b => PyBool b end.
Definition flag_of_py (v : pyval) : option bool := if is_none v then None else Some (truthy v).

(* ============================================================================================ *)
Section Objects.
  Context {T : Type} (N : Num T).

  (* ---- Points (1-d), identified by the object's identity -------------------------------- *)
  Record points : Type := mkPoints { p_id : nat; p_coords : list (vec3 T) }.
  Definition npoints (p : points) : nat := length (p_coords p).      (* len(points) *)

  (* the `orientations` argument: shape (3,) (ONE frame for all points) or (numpoints, 3) *)
  Inductive orient_arg := OneFrame (B : mat3 T) | PerPoint (l : list (mat3 T)).

  Record interface : Type := mkInterface {
    i_points : points;
    i_orient : list (mat3 T);      (* orientations.coords, shape (numpoints, 3, 3) *)
    i_inc : pyval;                 (* are_normals_on_inc_rays_side *)
    i_out : pyval                  (* are_normals_on_out_rays_side *)
  }.

  (* Interface.__init__(points, orientations, are_normals_on_inc_rays_side=..., ..._out_...) *)
  Definition interface_init (pts : points) (o : orient_arg) (inc out : pyval) : built interface :=
    if negb (none_or_bool inc) then BAssert
    else if negb (none_or_bool out) then BAssert
    else
      let frames := match o with
                    | OneFrame B => repeat B (npoints pts)       (* np.resize(coords, (n, 3, 3)) *)
                    | PerPoint l => l
                    end in
      if length frames =? npoints pts then Built (mkInterface pts frames inc out) else BValue.

  (* Interface.reverse (geometry part) *)
  Definition interface_reverse (f : interface) : interface :=
    mkInterface (i_points f) (i_orient f) (i_out f) (i_inc f).
  Definition interfaces_reverse (ifs : list interface) : list interface := rev (map interface_reverse ifs).

  (* the interface as Model/RayGeom.v sees it *)
  Definition to_iface (f : interface) : iface (T:=T) :=
    mkIface (p_coords (i_points f)) (i_orient f) (flag_of_py (i_inc f)) (flag_of_py (i_out f)).

  (* ---- Rays ------------------------------------------------------------------------------- *)
  Record rays : Type := mkRays {
    r_times : times_arr;
    r_indices : tbl;
    r_fpoints : list points        (* rays.fermat_path.points *)
  }.

  Definition rays_init (times : times_arr) (interior : ndarray3) (fpoints : list points)
             (ord : option order) : built rays :=
    if negb (length (tm_shape times) =? 2) then BAssert                       (* times.ndim == 2 *)
    else if negb (length (a_shape interior) =? 3) then BAssert                (* interior_indices.ndim == 3 *)
    else
      match a_shape interior, fpoints with
      | [d; n; m], p0 :: _ =>
          let pl := last fpoints p0 in
          if negb (list_eqb Nat.eqb (tm_shape times) [n; m] && (n =? npoints p0) && (m =? npoints pl))
          then BAssert
          else if negb (length fpoints =? d + 2) then BAssert               (* num_points_sets *)
          else if negb (kind_i (a_dtype interior)) then BAssert             (* dtype.kind == "i" *)
          else if negb (kind_f (tm_dtype times)) then BAssert               (* dtype.kind == "f" *)
          else Built (mkRays times (make_indices_tbl interior ord d n m) fpoints)
      | _, _ => BIndex          (* fermat_path.points[0] of an empty tuple (FermatPath forbids it) *)
      end.

  (* Rays.reverse(order): np.asarray(times.T, order), np.asarray(swapaxes(interior)[::-1], order) *)
  Definition asarray_flags (o : order) (shape : list nat) : bool * bool :=
    let both := both_contiguous shape in
    match o with OrdC => (true, both) | OrdF => (both, true) end.
  Definition rays_reverse (r : rays) (o : order) : built rays :=
    let t := r_indices r in
    let shape := [t_d t - 2; t_m t; t_n t] in
    let fl := asarray_flags o shape in
    rays_init (mkTimes (rev (tm_shape (r_times r))) (tm_dtype (r_times r)))
              (mkArr shape (t_dtype t) (fst fl) (snd fl) (swap_reverse (t_m t) (tbl_interior t)))
              (rev (r_fpoints r)) None.

  (* Rays.to_fortran_order: cls(asfortranarray(times), asfortranarray(interior), path, "F") *)
  Definition rays_to_fortran (r : rays) : built rays :=
    let t := r_indices r in
    let shape := [t_d t - 2; t_n t; t_m t] in
    let fl := asarray_flags OrdF shape in
    rays_init (r_times r) (mkArr shape (t_dtype t) (fst fl) (snd fl) (tbl_interior t)) (r_fpoints r) (Some OrdF).

  (* ---- RayGeometry ---------------------------------------------------------------------------- *)
  Record raygeom : Type := mkRayGeom { g_interfaces : list interface; g_rays : rays }.

  (* rays.fermat_path.points == tuple(i.points for i in interfaces): tuple equality of objects
     without __eq__ = same length and pairwise identical objects *)
  Definition raygeom_init (ifs : list interface) (r : rays) : built raygeom :=
    if list_eqb Nat.eqb (map p_id (r_fpoints r)) (map (fun f => p_id (i_points f)) ifs)
    then Built (mkRayGeom ifs r) else BAssert.

  Record path : Type := mkPath { pa_interfaces : list interface; pa_rays : option rays }.
  Definition raygeom_from_path (p : path) : built raygeom :=
    match pa_rays p with
    | None => BValue                                   (* "Rays must be computed first." *)
    | Some r => raygeom_init (pa_interfaces p) r
    end.

  (* rays.indices[:, i, j] of the geometry *)
  Definition rg_column (g : raygeom) (i j : nat) : option (list Z) := tbl_column (r_indices (g_rays g)) i j.

  (* ---- the 17 methods over the two gathers ---------------------------------------------------- *)
  (* `lp idx` / `lo idx` are the (decorated) methods leg_points / orientations_of_legs_points for
     one ray; `finc a` / `fout a` the flags of interface a; nif = len(interfaces) *)
  Section Methods.
    Variable nif : nat.
    Variable lp : Z -> res (vec3 T).
    Variable lo : Z -> res (mat3 T).
    Variable finc fout : nat -> pyval.

    Definition m_guarded {X} (none_at : nat) (idx : Z) (body : res X) : res X :=
      match resolve nif idx with
      | None => IndexErr
      | Some a => if Nat.eqb a none_at then NoLeg else body
      end.
    Definition m_leg_local (other here : Z) : res (vec3 T) :=
      rbind (lp other) (fun o =>
      rbind (lp here) (fun h =>
      rbind (lo here) (fun B => Val (from_gcs N o B h)))).

    Definition m_inc_leg_size (idx : Z) : res T :=
      m_guarded 0 idx
        (rbind (lp (idx - 1)) (fun s =>
         rbind (lp idx) (fun e => Val (norm2_acc N (vsub N s e))))).
    Definition m_inc_leg_cartesian (idx : Z) : res (vec3 T) :=
      m_guarded 0 idx (m_leg_local (idx - 1) idx).
    Definition m_inc_leg_radius (idx : Z) : res T := rmap (sph_r N) (m_inc_leg_cartesian idx).
    Definition m_inc_leg_polar (idx : Z) : res T :=
      rbind (m_inc_leg_cartesian idx) (fun c =>
      rbind (m_inc_leg_radius idx) (fun r => Val (sph_theta N (vz c) r))).
    Definition m_inc_leg_azimuth (idx : Z) : res T :=
      rmap (fun c => sph_phi N (vx c) (vy c)) (m_inc_leg_cartesian idx).
    Definition m_inc_angle (idx : Z) : res T := m_inc_leg_polar idx.
    Definition m_signed_inc_angle (idx : Z) : res T :=
      rbind (m_inc_leg_azimuth idx) (fun az =>
      rbind (m_inc_leg_polar idx) (fun po => Val (signed_leg_angle N po az))).
    (* if flag is None: raise ValueError / elif flag: polar / else: pi - polar *)
    Definition conventional_py (flag : pyval) (polar : res T) : res T :=
      if is_none flag then ValueErr
      else if truthy flag then polar
      else rmap (supplement N) polar.
    Definition m_conventional_inc_angle (idx : Z) : res T :=
      match resolve nif idx with
      | None => IndexErr
      | Some a => if Nat.eqb a 0 then NoLeg else conventional_py (finc a) (m_inc_leg_polar idx)
      end.

    Definition m_out_leg_cartesian (idx : Z) : res (vec3 T) :=
      m_guarded (nif - 1) idx (m_leg_local (idx + 1) idx).
    Definition m_out_leg_radius (idx : Z) : res T := rmap (sph_r N) (m_out_leg_cartesian idx).
    Definition m_out_leg_polar (idx : Z) : res T :=
      rbind (m_out_leg_cartesian idx) (fun c =>
      rbind (m_out_leg_radius idx) (fun r => Val (sph_theta N (vz c) r))).
    Definition m_out_leg_azimuth (idx : Z) : res T :=
      rmap (fun c => sph_phi N (vx c) (vy c)) (m_out_leg_cartesian idx).
    Definition m_out_angle (idx : Z) : res T := m_out_leg_polar idx.
    Definition m_signed_out_angle (idx : Z) : res T :=
      rbind (m_out_leg_azimuth idx) (fun az =>
      rbind (m_out_leg_polar idx) (fun po => Val (signed_leg_angle N po az))).
    Definition m_conventional_out_angle (idx : Z) : res T :=
      match resolve nif idx with
      | None => IndexErr
      | Some a => if Nat.eqb a (nif - 1) then NoLeg else conventional_py (fout a) (m_out_leg_polar idx)
      end.

    (* the answers of the 17 methods for one interface index, in the order of the source *)
    Definition m_all (idx : Z) :=
      (lp idx, lo idx, m_inc_leg_size idx, m_inc_leg_cartesian idx, m_inc_leg_radius idx, m_inc_leg_polar idx,
       m_inc_leg_azimuth idx, m_inc_angle idx, m_signed_inc_angle idx, m_conventional_inc_angle idx,
       m_out_leg_cartesian idx, m_out_leg_radius idx, m_out_leg_polar idx, m_out_leg_azimuth idx,
       m_out_angle idx, m_signed_out_angle idx, m_conventional_out_angle idx).
  End Methods.

  (* ---- the methods of one ray of a RayGeometry object ------------------------------------- *)
  Section OneRayZ.
    Variable ifs : list interface.     (* ray_geometry.interfaces *)
    Variable col : list Z.             (* ray_geometry.rays.indices[:, i, j] *)

    (* points.coords.take(self.rays.indices[interface_idx], axis=0)[i, j] *)
    Definition gatherZ {X} (field : interface -> list X) (idx : Z) : res X :=
      match resolve (length ifs) idx with
      | None => IndexErr
      | Some a =>
          rbind (of_opt (nth_error ifs a)) (fun f =>
          rbind (of_opt (resolve (length col) idx)) (fun b =>
          rbind (of_opt (nth_error col b)) (fun z =>
          rbind (of_opt (resolve (length (field f)) z)) (fun p =>
          of_opt (nth_error (field f) p)))))
      end.
    Definition o_leg_points (idx : Z) : res (vec3 T) := gatherZ (fun f => p_coords (i_points f)) idx.
    Definition o_orientations (idx : Z) : res (mat3 T) := gatherZ i_orient idx.

    Definition o_flag (get : interface -> pyval) (a : nat) : pyval :=
      match nth_error ifs a with Some f => get f | None => PyNone end.

    Definition o_inc_leg_size := m_inc_leg_size (length ifs) o_leg_points.
    Definition o_inc_leg_cartesian := m_inc_leg_cartesian (length ifs) o_leg_points o_orientations.
    Definition o_inc_leg_radius := m_inc_leg_radius (length ifs) o_leg_points o_orientations.
    Definition o_inc_leg_polar := m_inc_leg_polar (length ifs) o_leg_points o_orientations.
    Definition o_inc_leg_azimuth := m_inc_leg_azimuth (length ifs) o_leg_points o_orientations.
    Definition o_inc_angle := m_inc_angle (length ifs) o_leg_points o_orientations.
    Definition o_signed_inc_angle := m_signed_inc_angle (length ifs) o_leg_points o_orientations.
    Definition o_conventional_inc_angle :=
      m_conventional_inc_angle (length ifs) o_leg_points o_orientations (o_flag i_inc).
    Definition o_out_leg_cartesian := m_out_leg_cartesian (length ifs) o_leg_points o_orientations.
    Definition o_out_leg_radius := m_out_leg_radius (length ifs) o_leg_points o_orientations.
    Definition o_out_leg_polar := m_out_leg_polar (length ifs) o_leg_points o_orientations.
    Definition o_out_leg_azimuth := m_out_leg_azimuth (length ifs) o_leg_points o_orientations.
    Definition o_out_angle := m_out_angle (length ifs) o_leg_points o_orientations.
    Definition o_signed_out_angle := m_signed_out_angle (length ifs) o_leg_points o_orientations.
    Definition o_conventional_out_angle :=
      m_conventional_out_angle (length ifs) o_leg_points o_orientations (o_flag i_out).
    Definition o_all := m_all (length ifs) o_leg_points o_orientations (o_flag i_inc) (o_flag i_out).
  End OneRayZ.

  (* the same 17-tuple for Model/RayGeom.v *)
  Definition core_all (ifs : list (iface (T:=T))) (ray : list nat) (idx : Z) :=
    (leg_points ifs ray idx, orientations_of_legs_points ifs ray idx,
     inc_leg_size N ifs ray idx, inc_leg_cartesian N ifs ray idx, inc_leg_radius N ifs ray idx,
     inc_leg_polar N ifs ray idx, inc_leg_azimuth N ifs ray idx, inc_angle N ifs ray idx,
     signed_inc_angle N ifs ray idx, conventional_inc_angle N ifs ray idx,
     out_leg_cartesian N ifs ray idx, out_leg_radius N ifs ray idx, out_leg_polar N ifs ray idx,
     out_leg_azimuth N ifs ray idx, out_angle N ifs ray idx, signed_out_angle N ifs ray idx,
     conventional_out_angle N ifs ray idx).

  (* the ray of natural point indices that Model/RayGeom.v needs: every signed index resolved
     against the number of points of its interface (an unresolvable one becomes the first
     out-of-range natural number) *)
  Definition norm1 (f : interface) (z : Z) : nat :=
    match resolve (npoints (i_points f)) z with Some p => p | None => npoints (i_points f) end.
  Fixpoint normalise (ifs : list interface) (col : list Z) : list nat :=
    match col with
    | [] => []
    | z :: col' =>
        match ifs with
        | [] => 0 :: normalise [] col'
        | f :: ifs' => norm1 f z :: normalise ifs' col'
        end
    end.

  (* ---- a block of rays: sub-lists of the first and of the last points ----------------------- *)
  (* l[idxs] (fancy indexing with in-range non-negative indices; others are skipped) *)
  Definition pick {X} (l : list X) (idxs : list nat) : list X :=
    flat_map (fun k => match nth_error l k with Some x => [x] | None => [] end) idxs.
  Definition interface_pick (newid : nat) (idxs : list nat) (f : interface) : interface :=
    mkInterface (mkPoints newid (pick (p_coords (i_points f)) idxs)) (pick (i_orient f) idxs) (i_inc f) (i_out f).

  (* ---- rigid motion of a whole set-up: p -> Q.p + t, frames B -> B.Q^T ------------------------- *)
  Definition mv_point (Q : mat3 T) (t : vec3 T) (p : vec3 T) : vec3 T := vadd N (mvec N Q p) t.
  Definition mv_frame (Q : mat3 T) (B : mat3 T) : mat3 T := mmul N B (mtrans Q).
  Definition mv_interface (Q : mat3 T) (t : vec3 T) (f : interface) : interface :=
    mkInterface (mkPoints (p_id (i_points f)) (map (mv_point Q t) (p_coords (i_points f))))
                (map (mv_frame Q) (i_orient f)) (i_inc f) (i_out f).
  (* Points.translate(t) on every set of points, frames untouched *)
  Definition translate_interface (t : vec3 T) (f : interface) : interface :=
    mkInterface (mkPoints (p_id (i_points f)) (map (fun p => vadd N p t) (p_coords (i_points f))))
                (i_orient f) (i_inc f) (i_out f).
End Objects.

Arguments mkPoints {T}. Arguments p_id {T}. Arguments p_coords {T}. Arguments npoints {T}.
Arguments OneFrame {T}. Arguments PerPoint {T}.
Arguments mkInterface {T}. Arguments i_points {T}. Arguments i_orient {T}. Arguments i_inc {T}. Arguments i_out {T}.
Arguments interface_init {T}. Arguments interface_reverse {T}. Arguments interfaces_reverse {T}.
Arguments to_iface {T}.
Arguments mkRays {T}. Arguments r_times {T}. Arguments r_indices {T}. Arguments r_fpoints {T}.
Arguments rays_init {T}. Arguments rays_reverse {T}. Arguments rays_to_fortran {T}.
Arguments mkRayGeom {T}. Arguments g_interfaces {T}. Arguments g_rays {T}.
Arguments raygeom_init {T}. Arguments mkPath {T}. Arguments pa_interfaces {T}. Arguments pa_rays {T}.
Arguments raygeom_from_path {T}. Arguments rg_column {T}.
Arguments gatherZ {T} ifs col {X}. Arguments o_leg_points {T}. Arguments o_orientations {T}. Arguments o_flag {T}.
Arguments norm1 {T}. Arguments normalise {T}. Arguments pick {X}. Arguments interface_pick {T}.
