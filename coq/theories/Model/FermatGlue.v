(* Model/FermatGlue.v — the glue of arim.ray around the Fermat solver (C01).

   Model/Fermat.v has the core (min-plus recursion, caches) on the snoc structure `fpath`.
   This file models what surrounds it in src/arim/ray.py, as written:

   Part A  FermatPath AS A PYTHON TUPLE (list of items Points / velocity):
           __new__ (length odd and >= 3, finite velocities), reverse, split_head (self[:3],
           self[2:]), split_queue (self[:-2], self[-3:]), points (self[0::2]), velocities
           (self[1::2]), num_points_sets (len // 2 + 1), len_largest_interface, from_path
           (zip(interfaces, materials, modes) + interfaces[-1]); the reading `parse` of an
           alternating tuple as an fpath and its inverse `unparse`.
   Part B  FermatSolver._solve written ON THE TUPLE (len(path) == 3 / split_queue / two
           recursive calls / find_minimum_times / expand_rays), with fuel, no cache.
   Part C  the objects: Python dict keyed by FermatPath (insertion ordered, first key kept,
           value replaced), iterables (re-iterable container or one-shot iterator),
           FermatSolver.__init__ / solve_no_clean / solve / clear_cache with the persistent
           attribute `res`, ray_tracing_for_paths (tuple(paths_list), from_path, solve, the two
           zip loops, to_fortran_order), ray_tracing(views) (set of tx/rx Path objects).
   Part D  Rays.make_indices with the index dtype (two's complement wrap-around of the cast),
           the memory-order decision (order=None: flags of interior_indices), Rays.__init__
           assertions, interior_indices (indices[1:-1]), Rays.reverse on the object,
           to_fortran_order, gone_through_extreme_points, get_coordinates (fancy indexing).
   Part E  the solver with the index dtype: out_best_indices / expanded_indices hold
           dtype_indices integers (the stored k wraps), _expand_rays indexes with the stored
           value (numba negative-index wrap-around).

   Exceptions are explicit: `res A = err + A`.  Definitions only. *)
From Coq Require Import Arith List Bool ZArith Lia.
From Arim Require Import Base.ListX Model.MinPlus Model.Fermat.
Import ListNotations.

Inductive err := ValueError | AssertionError | IndexError | ZeroDivisionError | KeyError | OtherError.
Definition res (A : Type) : Type := (err + A)%type.

(* ======================= Part A: FermatPath as a tuple ======================= *)
Section Tuple.
  Variables V PS : Type.
  Variable v_finite : V -> bool.      (* np.isfinite(velocity) *)
  Variable size : PS -> nat.          (* len(points) *)

  Inductive item := IP (P : PS) | IV (v : V).

  (* seq[0::2] and seq[1::2] *)
  Fixpoint evens (s : list item) : list item :=
    match s with
    | [] => []
    | [x] => [x]
    | x :: _ :: s' => x :: evens s'
    end.
  Definition odds (s : list item) : list item := evens (tl s).

  Definition is_IP (x : item) : bool := match x with IP _ => true | IV _ => false end.
  Definition item_finite (x : item) : bool := match x with IV v => v_finite v | IP _ => false end.

  (* FermatPath.__new__(cls, sequence):
       if len(sequence) % 2 == 0 or len(sequence) < 3: raise ValueError
       assert all(np.isfinite(sequence[1::2]))
     (np.isfinite on a Points object raises inside numpy: OtherError) *)
  Definition fp_new (s : list item) : res (list item) :=
    if Nat.even (length s) || (length s <? 3) then inl ValueError
    else if existsb is_IP (odds s) then inl OtherError
    else if forallb item_finite (odds s) then inr s
    else inl AssertionError.

  (* FermatPath.reverse: self.__class__(tuple(reversed(self))) *)
  Definition fp_reverse (s : list item) : res (list item) := fp_new (rev s).

  Definition pair_res {A B} (a : res A) (b : res B) : res (A * B) :=
    match a with
    | inl e => inl e
    | inr x => match b with inl e => inl e | inr y => inr (x, y) end
    end.

  (* split_head: head = self[:3], tail = self[2:] *)
  Definition fp_split_head (s : list item) : res (list item * list item) :=
    if length s <? 5 then inl ValueError
    else pair_res (fp_new (firstn 3 s)) (fp_new (skipn 2 s)).

  (* split_queue: head = self[:-2], tail = self[-3:] *)
  Definition fp_split_queue (s : list item) : res (list item * list item) :=
    if length s <? 5 then inl ValueError
    else pair_res (fp_new (firstn (length s - 2) s)) (fp_new (skipn (length s - 3) s)).

  Definition fp_points (s : list item) : list item := evens s.        (* tuple(self[0::2]) *)
  Definition fp_velocities (s : list item) : list item := odds s.     (* tuple(self[1::2]) *)
  Definition fp_num_points_sets (s : list item) : nat := length s / 2 + 1.

  (* len(x); a float has no len(): None *)
  Definition item_len (x : item) : option nat := match x with IP P => Some (size P) | IV _ => None end.

  (* len_largest_interface: interfaces = all_points[1:-1]; 0 if empty else max(len(x)) *)
  Definition fp_len_largest_interface (s : list item) : option nat :=
    option_map (fold_right Nat.max 0) (all_some (map item_len (removelast (tl (fp_points s))))).

  (* FermatPath.from_path(path): for interface, material, mode in zip(...): append points,
     velocity; then append path.interfaces[-1].points; cls(path_pieces).
     ifs = [interface.points ...], vs = [material.velocity(mode) for zip(materials, modes)] *)
  Definition fp_from_path (ifs : list PS) (vs : list V) : res (list item) :=
    match ifs with
    | [] => inl IndexError                                   (* path.interfaces[-1] *)
    | P0 :: rest =>
        fp_new (flat_map (fun pv => [IP (fst pv); IV (snd pv)]) (combine ifs vs) ++ [IP (last rest P0)])
    end.

  (* an alternating tuple (Points, v, Points, ..., Points) read as the snoc structure *)
  Fixpoint parse_legs (h : fpath V PS) (s : list item) : option (fpath V PS) :=
    match s with
    | [] => Some h
    | IV v :: IP P :: s' => parse_legs (Leg h v P) s'
    | _ => None
    end.
  Definition parse (s : list item) : option (fpath V PS) :=
    match s with IP P :: s' => parse_legs (Start P) s' | _ => None end.

  Fixpoint unparse (p : fpath V PS) : list item :=
    match p with
    | Start P => [IP P]
    | Leg h v P => unparse h ++ [IV v; IP P]
    end.

  (* the point sets / velocities of an fpath in path order *)
  Fixpoint path_points (p : fpath V PS) : list PS :=
    match p with Start P => [P] | Leg h _ P => path_points h ++ [P] end.
  Fixpoint path_velocities (p : fpath V PS) : list V :=
    match p with Start _ => [] | Leg h v _ => path_velocities h ++ [v] end.

  (* the path without its first leg: (P1, v1, ..., Pn) *)
  Fixpoint drop_first (p : fpath V PS) : fpath V PS :=
    match p with
    | Start P => Start P
    | Leg h v P => match h with Start _ => Start P | Leg _ _ _ => Leg (drop_first h) v P end
    end.

  (* the last item of a tuple, when it is a Points object *)
  Definition seq_end (s : list item) : option PS :=
    match rev s with IP P :: _ => Some P | _ => None end.
End Tuple.

Arguments IP {V PS}. Arguments IV {V PS}.
Arguments evens {V PS}. Arguments odds {V PS}. Arguments is_IP {V PS}. Arguments item_finite {V PS}.
Arguments fp_new {V PS}. Arguments fp_reverse {V PS}. Arguments pair_res {A B}.
Arguments fp_split_head {V PS}. Arguments fp_split_queue {V PS}.
Arguments fp_points {V PS}. Arguments fp_velocities {V PS}. Arguments fp_num_points_sets {V PS}.
Arguments item_len {V PS}. Arguments fp_len_largest_interface {V PS}. Arguments fp_from_path {V PS}.
Arguments parse_legs {V PS}. Arguments parse {V PS}. Arguments unparse {V PS}.
Arguments path_points {V PS}. Arguments path_velocities {V PS}. Arguments drop_first {V PS}.
Arguments seq_end {V PS}.

(* ======================= Part B: _solve on the tuple ======================= *)
Section SeqSolver.
  Variables T D V PS : Type.
  Variable ltb : T -> T -> bool.
  Variable add : T -> T -> T.
  Variable v_finite : V -> bool.
  Variable size : PS -> nat.
  Variable dtab : PS -> PS -> list (list D).
  Variable divv : D -> V -> T.

  (* FermatSolver._solve(path) without the cache lookups (those are Model/Fermat.solve_st):
       if len(path) == 3: return self.consecutive_times(path)
       head, tail = path.split_queue()
       res_head = self._solve(head); res_tail = self._solve(tail)
       times, indices_at_interface = find_minimum_times(res_head.times, res_tail.times)
       indices = Rays.expand_rays(res_head.interior_indices, indices_at_interface)
     m = res_head.times.shape[1] = len of the last point set of head; res_tail.times is given to
     the kernel as its list of columns, p = len of the last point set of tail.
     None = some exception. *)
  Fixpoint solve_seq (fuel : nat) (s : list (item V PS)) : option (rays T) :=
    match fuel with
    | 0 => None
    | S f =>
        match s with
        | [IP P0; IV v; IP P] => Some (two_interfaces (leg_times divv (dtab P0 P) v))
        | _ =>
            match fp_split_queue v_finite s with
            | inl _ => None
            | inr (head, tail) =>
                match solve_seq f head, solve_seq f tail with
                | Some rh, Some rt =>
                    match seq_end head, seq_end tail with
                    | Some Pm, Some P =>
                        match find_minimum_times ltb add (size Pm) (r_times rh)
                                (transpose (size P) (r_times rt)) with
                        | None => None
                        | Some ti => Some (mkRays (fst ti) (expand_rays (r_int rh) (snd ti)))
                        end
                    | _, _ => None
                    end
                | _, _ => None
                end
            end
        end
    end.
End SeqSolver.

Arguments solve_seq {T D V PS}.

(* ======================= Part C: dict, iterables, solver object, ray_tracing ======================= *)
Section Iterables.
  (* what `for x in obj` / tuple(obj) does: a container can be iterated again, an iterator
     (generator, iter(...), zip, map) yields its remaining items once *)
  Inductive iterable (A : Type) := Reiterable (l : list A) | OneShot (l : list A).
  Definition iterate {A} (it : iterable A) : list A * iterable A :=
    match it with
    | Reiterable _ l => (l, Reiterable _ l)
    | OneShot _ l => (l, OneShot _ [])
    end.
End Iterables.
Arguments Reiterable {A}. Arguments OneShot {A}.

Section Assembly.
  Variables T D V PS : Type.
  Variable ltb : T -> T -> bool.
  Variable add : T -> T -> T.
  Variable ps_eqb : PS -> PS -> bool.          (* identity of Points objects *)
  Variable v_eqb : V -> V -> bool.             (* == on velocities *)
  Variable v_finite : V -> bool.
  Variable size : PS -> nat.
  Variable dtab : PS -> PS -> list (list D).
  Variable divv : D -> V -> T.

  Notation fpath := (fpath V PS).

  (* a Python dict keyed by FermatPath (tuple hash / ==): insertion ordered; assigning to an
     existing key keeps the first key object and its position and replaces the value *)
  Fixpoint dict_set {X} (k : fpath) (x : X) (d : list (fpath * X)) : list (fpath * X) :=
    match d with
    | [] => [(k, x)]
    | (k', x') :: d' => if fpath_eqb ps_eqb v_eqb k k' then (k', x) :: d' else (k', x') :: dict_set k x d'
    end.

  Fixpoint dict_get {X} (k : fpath) (d : list (fpath * X)) : option X :=
    match d with
    | [] => None                                             (* KeyError *)
    | (k', x) :: d' => if fpath_eqb ps_eqb v_eqb k k' then Some x else dict_get k d'
    end.

  (* {k: f(v) for k, v in d.items()} *)
  Definition dict_map_values {X Y} (f : X -> Y) (d : list (fpath * X)) : list (fpath * Y) :=
    map (fun kv => (fst kv, f (snd kv))) d.

  (* the FermatSolver object: self.paths, self.res, (self.cached_result, self.cached_distance),
     self.dtype_indices as a number of bits *)
  Record solver := mkSolver {
    so_paths : iterable fpath;
    so_res : list (fpath * rays T);
    so_state : state T D V PS;
    so_bits : Z }.

  (* dtype_indices=None -> settings.INT = np.int32 *)
  Definition default_bits (arg : option Z) : Z := match arg with Some b => b | None => 32%Z end.

  (* FermatSolver.__init__(fermat_paths_set, dtype, dtype_indices): `for path in
     fermat_paths_set: hash(path)` iterates the argument ONCE (FermatPath tuples of Points and
     floats are hashable), then self.clear_cache(), self.res = {}, self.paths = the argument *)
  Definition solver_init (it : iterable fpath) (dtype_indices : option Z) : solver :=
    mkSolver (snd (iterate it)) [] ([], []) (default_bits dtype_indices).

  (* solve_no_clean: for path in self.paths: self.res[path] = self._solve(path) *)
  Fixpoint solve_loop (ps : list fpath) (st : state T D V PS) (rs : list (fpath * rays T))
    : option (list (fpath * rays T) * state T D V PS) :=
    match ps with
    | [] => Some (rs, st)
    | p :: ps' =>
        match solve_st ltb add ps_eqb v_eqb size dtab divv p st with
        | None => None
        | Some (r, st') => solve_loop ps' st' (dict_set p r rs)
        end
    end.

  Definition solver_solve_no_clean (s : solver) : option (solver * list (fpath * rays T)) :=
    let li := iterate (so_paths s) in
    match solve_loop (fst li) (so_state s) (so_res s) with
    | None => None
    | Some (rs, st) => Some (mkSolver (snd li) rs st (so_bits s), rs)
    end.

  (* clear_cache *)
  Definition solver_clear_cache (s : solver) : solver :=
    mkSolver (so_paths s) (so_res s) ([], []) (so_bits s).

  (* solve: self.solve_no_clean(); self.clear_cache(); return self.res *)
  Definition solver_solve_obj (s : solver) : option (solver * list (fpath * rays T)) :=
    match solver_solve_no_clean s with
    | None => None
    | Some (s', rs) => Some (solver_clear_cache s', rs)
    end.

  (* k successive calls of solve() on the same object; the answer of the last one *)
  Fixpoint solver_solve_times (k : nat) (s : solver) : option (solver * list (fpath * rays T)) :=
    match k with
    | 0 => Some (s, so_res s)
    | S k' =>
        match solver_solve_obj s with
        | None => None
        | Some (s', _) => solver_solve_times k' s'
        end
    end.

  (* a Path object: its identity (Path has no __eq__/__hash__: identity), the Points of its
     interfaces and the velocities material.velocity(mode) of its legs *)
  Definition pathobj := (Z * (list PS * list V))%type.

  (* FermatPath.from_path(path) read as an fpath *)
  Definition to_fermat (o : pathobj) : option fpath :=
    match fp_from_path v_finite (fst (snd o)) (snd (snd o)) with
    | inl _ => None
    | inr s => parse s
    end.

  (* ray_tracing_for_paths(paths_list, convert_to_fortran_order): the list of attribute writes
     `path.rays = ...` in program order: (identity of the Path object, (rays, is Fortran order)).
     None = an exception (from_path, the solver, or a KeyError of rays_dict[fermat_path]). *)
  Definition ray_tracing_for_paths (it : iterable pathobj) (fortran : bool)
    : option (list (Z * (rays T * bool))) :=
    let paths_list := fst (iterate it) in                          (* tuple(paths_list) *)
    match all_some (map to_fermat paths_list) with                 (* tuple(from_path ...) *)
    | None => None
    | Some fps =>
        match solver_solve_obj (solver_init (Reiterable fps) None) with
        | None => None
        | Some (_, rays_dict) =>
            (* for path, fermat_path in zip(...): rays = rays_dict[fermat_path]; warning *)
            match all_some (map (fun fp => dict_get fp rays_dict) fps) with
            | None => None
            | Some _ =>
                (* rays of the solver are C ordered; v.to_fortran_order() for every value *)
                let rays_dict2 := dict_map_values (fun r => (r, fortran)) rays_dict in
                (* for path, fermat_path in zip(...): path.rays = rays_dict[fermat_path] *)
                match all_some (map (fun fp => dict_get fp rays_dict2) fps) with
                | None => None
                | Some rs => Some (combine (map fst paths_list) rs)
                end
            end
        end
    end.

  (* the value of obj.rays after the writes (None: never written) *)
  Fixpoint last_write {X} (id : Z) (ws : list (Z * X)) : option X :=
    match ws with
    | [] => None
    | (id', x) :: ws' =>
        match last_write id ws' with
        | Some y => Some y
        | None => if Z.eqb id id' then Some x else None
        end
    end.

  (* ray_tracing(views_list): paths_set = set(tx paths) | set(rx paths) (identity);
     list(paths_set) in the set's iteration order `enum` (hash order: a parameter) *)
  Definition ray_tracing (enum : list pathobj -> list pathobj) (views : list (pathobj * pathobj))
             (fortran : bool) : option (list (Z * (rays T * bool))) :=
    ray_tracing_for_paths (Reiterable (enum (map fst views ++ map snd views))) fortran.

  (* one possible iteration order: first occurrences *)
  Fixpoint dedup_ids (seen : list Z) (l : list pathobj) : list pathobj :=
    match l with
    | [] => []
    | o :: l' => if existsb (Z.eqb (fst o)) seen then dedup_ids seen l'
                 else o :: dedup_ids (fst o :: seen) l'
    end.

  (* FermatSolver.from_views: set of to_fermat_path() of all tx / rx paths (FermatPath ==) *)
  Fixpoint dedup_fpaths (seen : list fpath) (l : list fpath) : list fpath :=
    match l with
    | [] => []
    | p :: l' => if existsb (fpath_eqb ps_eqb v_eqb p) seen then dedup_fpaths seen l'
                 else p :: dedup_fpaths (p :: seen) l'
    end.
End Assembly.

Arguments dict_set {V PS} ps_eqb v_eqb {X}. Arguments dict_get {V PS} ps_eqb v_eqb {X}.
Arguments dict_map_values {V PS X Y}.
Arguments mkSolver {T D V PS}. Arguments so_paths {T D V PS}. Arguments so_res {T D V PS}.
Arguments so_state {T D V PS}. Arguments so_bits {T D V PS}.
Arguments solver_init {T D V PS}. Arguments solve_loop {T D V PS}.
Arguments solver_solve_no_clean {T D V PS}. Arguments solver_clear_cache {T D V PS}.
Arguments solver_solve_obj {T D V PS}. Arguments solver_solve_times {T D V PS}.
Arguments to_fermat {V PS}. Arguments ray_tracing_for_paths {T D V PS}.
Arguments last_write {X}. Arguments ray_tracing {T D V PS}. Arguments dedup_ids {V PS}.
Arguments dedup_fpaths {V PS}.

(* ======================= Part D: the Rays object ======================= *)
(* the cast of a Python / int64 integer to a signed integer dtype of b bits *)
Definition wrap (b z : Z) : Z := ((z + 2 ^ (b - 1)) mod 2 ^ b - 2 ^ (b - 1))%Z.
Definition store (b : Z) (k : nat) : Z := wrap b (Z.of_nat k).

Inductive order := OC | OF.
Definition order_eqb (a b : order) : bool :=
  match a, b with OC, OC => true | OF, OF => true | _, _ => false end.

(* numpy contiguity flags of an array that was allocated (or copied by np.asarray /
   np.asfortranarray / np.ascontiguousarray) in order `lay` with shape sh: an array with a
   zero-length axis or at most one axis of length <> 1 is both C and F contiguous *)
Definition degenerate (sh : list nat) : bool :=
  existsb (Nat.eqb 0) sh || (length (filter (fun k => negb (k =? 1)) sh) <=? 1).
Definition c_contiguous (lay : order) (sh : list nat) : bool := order_eqb lay OC || degenerate sh.
Definition f_contiguous (lay : order) (sh : list nat) : bool := order_eqb lay OF || degenerate sh.

(* Rays.make_indices, the order decision:
     if order is None: C if flags.c_contiguous, elif flags.fortran: F, else C *)
Definition make_indices_order (arg : option order) (lay : order) (sh : list nat) : order :=
  match arg with
  | Some o => o
  | None => if c_contiguous lay sh then OC else if f_contiguous lay sh then OF else OC
  end.

(* Rays.make_indices, the values: indices = np.zeros((dm2 + 2, n, m), dtype=interior.dtype);
   indices[0] = repeat(arange(n), m).reshape(n, m); indices[-1] = tile(arange(m), n).reshape(n, m);
   indices[1:-1] = interior_indices   (int64 values cast to the dtype of b bits) *)
Definition make_indices_z (b : Z) (n m : nat) (interior : list (list (list Z))) : list (list (list Z)) :=
  [tab n m (fun i _ => store b i)] ++ interior ++ [tab n m (fun _ j => store b j)].

(* the property interior_indices: self.indices[1:-1, ...] *)
Definition interior_of (indices : list (list (list Z))) : list (list (list Z)) :=
  removelast (tl indices).

(* the index table of a solver answer in a dtype of b bits *)
Definition interior_z {T} (b : Z) (r : rays T) : list (list (list Z)) :=
  map (map (map (store b))) (r_int r).

(* indices[:, i, j] *)
Definition zray_of (indices : list (list (list Z))) (i j : nat) : list Z :=
  map (fun lay => nth j (nth i lay []) (-1)%Z) indices.

Section RaysObject.
  Variables T V PS : Type.
  Variable v_finite : V -> bool.
  Variable size : PS -> nat.

  Record rays_obj := mkRaysObj {
    ro_shape : nat * nat;                       (* times.shape *)
    ro_times : list (list T);
    ro_tlay : order;                            (* memory order of times *)
    ro_indices : list (list (list Z));          (* (d + 2, n, m) *)
    ro_order : order;                           (* memory order of indices *)
    ro_bits : Z;                                (* dtype of indices *)
    ro_path : list (item V PS) }.

  Definition nat2_eqb (a b : nat * nat) : bool := (fst a =? fst b) && (snd a =? snd b).

  (* (len(fermat_path.points[0]), len(fermat_path.points[-1])) *)
  Definition ends_len (fp : list (item V PS)) : option (nat * nat) :=
    match hd_error (fp_points fp), hd_error (rev (fp_points fp)) with
    | Some a, Some b =>
        match item_len size a, item_len size b with
        | Some x, Some y => Some (x, y)
        | _, _ => None
        end
    | _, _ => None
    end.

  (* Rays.__init__(times, interior_indices, fermat_path, order):
       assert times.shape == interior_indices.shape[1:] == (len(points[0]), len(points[-1]))
       assert fermat_path.num_points_sets == interior_indices.shape[0] + 2
       indices = self.make_indices(interior_indices, order=order)
     tshape = times.shape, ishape = interior_indices.shape = (d, n, m), ilay its memory order,
     b its dtype (the dtype-kind assertions hold by typing) *)
  Definition rays_init (tshape : nat * nat) (times : list (list T)) (tlay : order)
             (ishape : nat * (nat * nat)) (interior : list (list (list Z))) (ilay : order) (b : Z)
             (fp : list (item V PS)) (order_arg : option order) : res rays_obj :=
    let d := fst ishape in let n := fst (snd ishape) in let m := snd (snd ishape) in
    (* the chained comparison short-circuits: when times.shape != interior_indices.shape[1:] the
       AssertionError is raised BEFORE len(points[0]) / len(points[-1]) are evaluated (so a number at an
       end of the path is a TypeError only if the first two shapes agree) *)
    if negb (nat2_eqb tshape (n, m)) then inl AssertionError
    else match ends_len fp with
    | None => inl OtherError
    | Some e =>
        if negb (nat2_eqb (n, m) e) then inl AssertionError
        else if negb (fp_num_points_sets fp =? d + 2) then inl AssertionError
        else inr (mkRaysObj tshape times tlay (make_indices_z b n m interior)
                            (make_indices_order order_arg ilay [d; n; m]) b fp)
    end.

  (* make_rays_two_interfaces(times, path, dtype_indices) *)
  Definition make_rays_two_interfaces (tshape : nat * nat) (times : list (list T)) (tlay : order)
             (b : Z) (fp : list (item V PS)) : res rays_obj :=
    if negb (fp_num_points_sets fp =? 2) then inl ValueError
    else match ends_len fp with
         | None => inl OtherError
         | Some e => rays_init tshape times tlay (0, e) [] OC b fp None   (* np.zeros((0, n, m)) *)
         end.

  Definition ro_interior (r : rays_obj) : list (list (list Z)) := interior_of (ro_indices r).
  Definition ro_d (r : rays_obj) : nat := length (ro_indices r) - 2.

  (* Rays.reverse(order='f'):
       reversed_times = np.asarray(self.times.T, order=order)
       reversed_indices = np.asarray(np.swapaxes(self.interior_indices, 1, 2)[::-1], order=order)
       Rays(reversed_times, reversed_indices, self.fermat_path.reverse())        (order=None) *)
  Definition rays_obj_reverse (ord : order) (r : rays_obj) : res rays_obj :=
    let n := fst (ro_shape r) in let m := snd (ro_shape r) in
    match fp_reverse v_finite (ro_path r) with
    | inl e => inl e
    | inr rp =>
        rays_init (m, n) (transpose m (ro_times r)) ord
                  (ro_d r, (m, n)) (rev (map (transpose m) (ro_interior r))) ord (ro_bits r) rp None
    end.

  (* Rays.to_fortran_order: Rays(asfortranarray(times), asfortranarray(interior_indices), path, "F") *)
  Definition rays_obj_to_fortran (r : rays_obj) : res rays_obj :=
    rays_init (ro_shape r) (ro_times r) OF
              (ro_d r, ro_shape r) (ro_interior r) OF (ro_bits r) (ro_path r) (Some OF).

  (* gone_through_extreme_points: for d, points in enumerate(points[1:-1]):
       out |= interior_indices[d] == 0;  out |= interior_indices[d] == len(points) - 1
     sizes = [len(points) for the middle sets] *)
  Definition extreme_layer (sz : nat) (lay : list (list Z)) : list (list bool) :=
    map (map (fun z => Z.eqb z 0 || Z.eqb z (Z.of_nat sz - 1))) lay.
  Definition or_tab (a b : list (list bool)) : list (list bool) :=
    map (fun rr => map (fun xy => fst xy || snd xy) (combine (fst rr) (snd rr))) (combine a b).
  Definition gone_through_extreme_points (n m : nat) (sizes : list nat) (interior : list (list (list Z)))
    : list (list bool) :=
    fold_left (fun out sl => or_tab out (extreme_layer (fst sl) (snd sl)))
              (combine sizes interior) (tab n m (fun _ _ => false)).
End RaysObject.

Arguments mkRaysObj {T V PS}. Arguments ro_shape {T V PS}. Arguments ro_times {T V PS}.
Arguments ro_tlay {T V PS}. Arguments ro_indices {T V PS}. Arguments ro_order {T V PS}.
Arguments ro_bits {T V PS}. Arguments ro_path {T V PS}.
Arguments ends_len {V PS}. Arguments rays_init {T V PS}. Arguments make_rays_two_interfaces {T V PS}.
Arguments ro_interior {T V PS}. Arguments ro_d {T V PS}.
Arguments rays_obj_reverse {T V PS}. Arguments rays_obj_to_fortran {T V PS}.

(* x[indices] with an integer index array: negative indices count from the end,
   out of bounds raises IndexError (None) *)
Definition py_index {A} (l : list A) (z : Z) : option A :=
  let len := Z.of_nat (length l) in
  if (z <? 0)%Z then (if (z + len <? 0)%Z then None else nth_error l (Z.to_nat (z + len)))
  else nth_error l (Z.to_nat z).

(* Rays.get_coordinates(n_interface): points.x[indices[n_interface]] *)
Definition get_coordinates {A} (coords : list A) (layer : list (list Z)) : option (list (list A)) :=
  all_some2 (map (map (py_index coords)) layer).

(* ======================= Part E: the solver in the index dtype ======================= *)
Section DtypeSolver.
  Variables T D V PS : Type.
  Variable ltb : T -> T -> bool.
  Variable add : T -> T -> T.
  Variable size : PS -> nat.
  Variable dtab : PS -> PS -> list (list D).
  Variable divv : D -> V -> T.

  (* interior_indices[k, i, idx] in the numba kernel _expand_rays: a negative idx wraps around
     once (idx + m); anything still out of range reads outside the row (junk: 0 here; it cannot
     happen for the stored values, see Proofs) *)
  Definition nb_index (l : list Z) (idx : Z) : Z :=
    if (idx <? 0)%Z then nth (Z.to_nat (idx + Z.of_nat (length l))) l 0%Z else nth (Z.to_nat idx) l 0%Z.

  Definition expand_layer_z (lay inew : list (list Z)) : list (list Z) :=
    map (fun rr => map (fun idx => nb_index (fst rr) idx) (snd rr)) (combine lay inew).

  Definition expand_rays_z (interior : list (list (list Z))) (inew : list (list Z)) : list (list (list Z)) :=
    map (fun lay => expand_layer_z lay inew) interior ++ [inew].

  (* _solve with out_best_indices of a signed dtype of b bits: the kernel's assignment
     out_best_indices[i, j] = k casts k *)
  Fixpoint solve_dt (b : Z) (p : fpath V PS) : option (list (list T) * list (list (list Z))) :=
    match p with
    | Start _ => None
    | Leg h v P =>
        match h with
        | Start P0 => Some (leg_times divv (dtab P0 P) v, [])
        | Leg _ _ Pm =>
            match solve_dt b h with
            | None => None
            | Some rh =>
                match find_minimum_times ltb add (size Pm) (fst rh)
                        (transpose (size P) (leg_times divv (dtab Pm P) v)) with
                | None => None
                | Some ti => Some (fst ti, expand_rays_z (snd rh) (map (map (store b)) (snd ti)))
                end
            end
        end
    end.

  (* every point set crossed by the rays as an interior interface has at most `bound` points *)
  Fixpoint interior_le (bound : nat) (p : fpath V PS) : Prop :=
    match p with
    | Start _ => True
    | Leg h _ _ => match h with Start _ => True | Leg _ _ Pm => size Pm <= bound /\ interior_le bound h end
    end.
End DtypeSolver.

Arguments solve_dt {T D V PS}. Arguments interior_le {V PS}.
