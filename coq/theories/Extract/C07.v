(* Extract/C07.v — extraction of the path-level products (ExtrOcamlBasic only). *)
From Coq Require Import Extraction ExtrOcamlBasic.
From Arim Require Import Base.Num Model.Interface Model.Weights Model.Beamspread.
Extraction Language OCaml.
Separate Extraction Base.Num Model.Interface.NumC Model.Interface.mkMaterial
  Model.Weights.transrefl_for_path Model.Weights.reverse_transrefl_for_path Model.Weights.path_reverse
  Model.Weights.reverse_angle Model.Weights.tx_weight Model.Weights.rx_weight Model.Weights.directivity
  Model.Weights.model_amplitude
  Model.Beamspread.beamspread Model.Beamspread.reverse_beamspread Model.Beamspread.attenuation.
