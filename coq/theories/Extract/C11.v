(* Extract/C11.v — extraction of the signal model (ExtrOcamlBasic only). *)
From Coq Require Import Extraction ExtrOcamlBasic.
From Arim Require Import Base.Num Model.Signal.
Extraction Language OCaml.
Separate Extraction Base.Num Model.Signal.pulse_len Model.Signal.toneburst_at Model.Signal.toneburst_wrapped_at
  Model.Signal.toneburst_args_ok Model.Signal.toneburst2_t0_idx Model.Signal.toneburst2_min_len
  Model.Signal.toneburst2_at Model.Signal.toneburst2_time_start Model.Signal.time_sample
  Model.Signal.hilbert_weight Model.Signal.scipy_hilbert_weight Model.Signal.delay_idx Model.Signal.delay_rem
  Model.Signal.place_ok.
