(* Extract/C16.v — extraction of the probe-motion model (ExtrOcamlBasic only). *)
From Coq Require Import Extraction ExtrOcamlBasic.
From Arim Require Import Base.Num Model.Vec3 Model.Probe.
Extraction Language OCaml.
Separate Extraction Base.Num Model.Probe.make_matrix_probe Model.Probe.trace_ops
  Model.Probe.locations_pcs Model.Probe.orientations_pcs Model.Probe.p_oriented
  Model.Probe.rotation_matrix_ypr Model.Probe.rotation_matrix_x Model.Probe.rotation_matrix_y
  Model.Probe.rotation_matrix_z.
