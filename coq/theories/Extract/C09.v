(* Extract/C09.v — extraction of the scattering-function model (ExtrOcamlBasic only). *)
From Coq Require Import Extraction ExtrOcamlBasic.
From Arim Require Import Base.Num Model.Scat.
Extraction Language OCaml.
Separate Extraction Base.Num
  Model.Scat.sdh_four Model.Scat.sdh_maxn
  Model.Scat.point_LL Model.Scat.point_LT Model.Scat.point_TL Model.Scat.point_TT
  Model.Scat.galerkin_matrix Model.Scat.crack_num_nodes Model.Scat.crack_h_nodes Model.Scat.crack_x_nodes
  Model.Scat.basis_function Model.Scat.crack_four
  Model.Scat.driver_general Model.Scat.driver_optimised Model.Scat.cmul Model.Scat.cadd Model.Scat.csub.
