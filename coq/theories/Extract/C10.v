(* Extract/C10.v — extraction of the scattering-matrix model (ExtrOcamlBasic only). *)
From Coq Require Import Extraction ExtrOcamlBasic.
From Arim Require Import Base.Num Model.ScatMatrix.
Extraction Language OCaml.
Separate Extraction Base.Num Model.ScatMatrix.interp Model.ScatMatrix.angle Model.ScatMatrix.shift_matrix
  Model.ScatMatrix.lerp Model.ScatMatrix.theta_idx Model.ScatMatrix.theta_frac Model.ScatMatrix.matrix_of.
