(* Extract/C06.v — extraction of the beamspread model (ExtrOcamlBasic only). *)
From Coq Require Import Extraction ExtrOcamlBasic.
From Arim Require Import Base.Num Model.Beamspread.
Extraction Language OCaml.
Separate Extraction Base.Num Model.Beamspread.beamspread Model.Beamspread.reverse_beamspread
  Model.Beamspread.gamma_list Model.Beamspread.virtual_distance Model.Beamspread.tube_amplitude.
