(* Extract/C04.v — extraction of the interface model (ExtrOcamlBasic only). *)
From Coq Require Import Extraction ExtrOcamlBasic.
From Arim Require Import Base.Num Model.Interface.
Extraction Language OCaml.
Separate Extraction Base.Num
  Model.Interface.NumC Model.Interface.cre Model.Interface.carcsin
  Model.Interface.snell_angles Model.Interface.fluid_solid_n_ang
  Model.Interface.fluid_solid_ang Model.Interface.solid_l_fluid_ang Model.Interface.solid_t_fluid_ang
  Model.Interface.fluid_solid_sc Model.Interface.solid_l_fluid_sc Model.Interface.solid_t_fluid_sc
  Model.Interface.fluid_solid_auto Model.Interface.solid_l_fluid_auto Model.Interface.solid_t_fluid_auto
  Model.Interface.transmission_at_interface Model.Interface.reflection_at_interface
  Model.Interface.ikind_reverse.
