(* Extract/C17.v — extraction of the geometry model (ExtrOcamlBasic only). *)
From Coq Require Import Extraction ExtrOcamlBasic.
From Arim Require Import Base.Num Model.Vec3 Model.Geometry.
Extraction Language OCaml.
Separate Extraction Base.Num Model.Vec3 Model.Geometry.
