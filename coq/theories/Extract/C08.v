(* Extract/C08.v — extraction of the amplitude-assembly model (ExtrOcamlBasic only). *)
From Coq Require Import Extraction ExtrOcamlBasic.
From Arim Require Import Base.Num Model.Interface Model.Weights Model.Beamspread Model.ScatMatrix
                         Model.Chunk Model.Amplitudes.
Extraction Language OCaml.
Separate Extraction Base.Num Model.Interface.NumC Model.Interface.mkMaterial
  Model.Weights.directivity
  Model.Amplitudes.att_eval Model.Amplitudes.tx_ray_weights Model.Amplitudes.rx_ray_weights
  Model.Amplitudes.factory Model.Amplitudes.getitem_fn Model.Amplitudes.getitem_mat
  Model.Amplitudes.spec_amp Model.Amplitudes.interp_c
  Model.Amplitudes.sensitivity_uniform_tfm Model.Amplitudes.sensitivity_model_assisted_tfm
  Model.Amplitudes.spec_sensitivity Model.Amplitudes.wsum_uniform Model.Amplitudes.wsum_assisted.
