(* Extract/C19.v — extraction of the registration model (ExtrOcamlBasic only). *)
From Coq Require Import Extraction ExtrOcamlBasic.
From Arim Require Import Base.Num Model.Registration.
Extraction Language OCaml.
Separate Extraction Base.Num Model.Registration.reg_error_code Model.Registration.fit_line
  Model.Registration.move_probe Model.Registration.find_probe_loc Model.Registration.detect_surface
  Model.Registration.time_samples Model.Registration.window Model.Registration.closest_index.
