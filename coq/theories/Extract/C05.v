(* Extract/C05.v — extraction of the ray-geometry model (ExtrOcamlBasic only). *)
From Coq Require Import Extraction ExtrOcamlBasic.
From Arim Require Import Base.Num Model.Vec3 Model.RayGeom.
Extraction Language OCaml.
Separate Extraction Base.Num Model.Vec3 Model.RayGeom.
