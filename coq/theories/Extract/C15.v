(* Extract/C15.v — extraction of the frame-bookkeeping model (ExtrOcamlBasic only).
   Only the chain checker is extracted: it decodes one flat case (see Model/Frame.v),
   runs Model.Frame.trace_z on it and compares with the observed states. *)
From Coq Require Import Extraction ExtrOcamlBasic.
From Arim Require Import Base.Num Model.Frame.
Extraction Language OCaml.
Separate Extraction Base.Num Model.Frame.chain_check_flat Model.Frame.trace_z.
