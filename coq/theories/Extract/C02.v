(* Extract/C02.v — extraction of the delay-and-sum model (ExtrOcamlBasic only). *)
From Coq Require Import Extraction ExtrOcamlBasic.
From Arim Require Import Base.Num Model.Das Model.Robust.
Extraction Language OCaml.
Separate Extraction Base.Num
  Model.Das.DataReal Model.Das.DataCplx Model.Das.das_amp Model.Das.das_noamp Model.Das.das_spec
  Model.Das.median_nearest_samples Model.Das.median_lanczos_samples
  Model.Robust.das_robust Model.Robust.geomed_grad Model.Robust.huber_psi_sum Model.Robust.geomed_f.
