(* Props/C04.v — Interface coefficients obey Snell, energy conservation and Stokes
   relations.  Statements only; proofs are in Proofs/InterfaceProofs.v,
   Proofs/InterfaceComplex.v and Proofs/InterfaceFastFluid.v.

   Model: Model/Interface.v.  `*_sc` = the formulas of fluid_solid / solid_l_fluid /
   solid_t_fluid on (sin, cos) of the three angles; `*_auto` = the functions as
   called with the other two angles computed by snell_angles; NumR = reals,
   NumC NumR = complex numbers as pairs of reals (complex angle dtype).
   Coefficient triples: fluid_solid -> (R, T_L, T_T); solid_l_fluid and
   solid_t_fluid -> (R_L, R_T, T); fst3/snd3/thd3 select.
   Impedances: z_f = rho_f v_f, z_l = rho_s v_l, z_t = rho_s v_t. *)
From Coq Require Import Reals ZArith Lra.
From Arim Require Import Base.Num Base.NumR Model.Interface Proofs.InterfaceProofs Proofs.InterfaceComplex
  Proofs.InterfaceFastFluid.
Local Open Scope R_scope.

(* ---- Snell ----------------------------------------------------------------- *)
(* real dtype, up to and including the critical angle *)
Theorem snell_law : forall alpha c1 c2,
  c1 <> 0 -> -1 <= c2 / c1 * sin alpha <= 1 ->
  sin (snell_angles NumR alpha c1 c2) * c1 = c2 * sin alpha.
Proof. exact snell_law_R. Qed.

(* complex dtype, every real incidence angle, below AND beyond the critical angle
   (numpy's branch of arcsin): sin(snell) c1 = c2 sin(alpha) as complex numbers *)
Theorem snell_law_complex : forall alpha c1 c2, c1 <> 0 ->
  nmul (NumC NumR) (nsin (NumC NumR) (snell_angles (NumC NumR) (alpha, 0) (cre NumR c1) (cre NumR c2)))
       (cre NumR c1)
  = nmul (NumC NumR) (cre NumR c2) (nsin (NumC NumR) (alpha, 0)).
Proof. exact snell_law_C. Qed.

(* the complex refracted angle: real below critical, pi/2 + i acosh(s) beyond *)
Theorem snell_complex_branches : forall alpha c1 c2, c1 <> 0 ->
  let s := c2 / c1 * sin alpha in
  (-1 <= s <= 1 ->
     snell_angles (NumC NumR) (alpha, 0) (cre NumR c1) (cre NumR c2) = (snell_angles NumR alpha c1 c2, 0)) /\
  (1 < s ->
     snell_angles (NumC NumR) (alpha, 0) (cre NumR c1) (cre NumR c2)
     = (PI / 2, ln (s + sqrt ((s - 1) * (s + 1))))).
Proof.
  intros alpha c1 c2 H; split; [exact (snell_angles_C_pre alpha c1 c2 H) | exact (snell_angles_C_post alpha c1 c2 H)].
Qed.

(* going back through the interface returns the incidence angle: the two
   directions of one interface use the same three angles, hence the same N *)
Theorem snell_roundtrip : forall alpha c1 c2,
  - (PI / 2) <= alpha <= PI / 2 -> c1 <> 0 -> c2 <> 0 -> -1 <= c2 / c1 * sin alpha <= 1 ->
  snell_angles NumR (snell_angles NumR alpha c1 c2) c2 c1 = alpha.
Proof. exact snell_roundtrip_R. Qed.

(* ---- energy conservation (sub-critical, all angles real) -------------------- *)
(* on (sin, cos) constrained by Snell and cos^2 + sin^2 = 1 *)
Theorem energy_fluid_solid : forall sf cf sl cl st ct rho_f rho_s v_f v_l v_t,
  0 < rho_f -> 0 < rho_s -> 0 < v_f -> 0 < v_l -> 0 < v_t ->
  0 < cf -> 0 <= sl -> 0 < cl -> 0 <= st -> 0 < ct ->
  sl * v_f = v_l * sf -> st * v_f = v_t * sf ->
  sf * sf + cf * cf = 1 -> sl * sl + cl * cl = 1 -> st * st + ct * ct = 1 ->
  let r := fluid_solid_sc NumR sf cf sl cl st ct rho_f rho_s v_f v_l v_t in
  fst3 r * fst3 r
  + snd3 r * snd3 r * ((rho_f * v_f * cl) / (rho_s * v_l * cf))
  + thd3 r * thd3 r * ((rho_f * v_f * ct) / (rho_s * v_t * cf)) = 1.
Proof. exact energy_fluid_solid_sc. Qed.

Theorem energy_solid_l : forall sf cf sl cl st ct rho_f rho_s v_f v_l v_t,
  0 < rho_f -> 0 < rho_s -> 0 < v_f -> 0 < v_l -> 0 < v_t ->
  0 < cf -> 0 <= sl -> 0 < cl -> 0 <= st -> 0 < ct ->
  sl * v_f = v_l * sf -> st * v_f = v_t * sf ->
  sf * sf + cf * cf = 1 -> sl * sl + cl * cl = 1 -> st * st + ct * ct = 1 ->
  let r := solid_l_fluid_sc NumR sf cf sl cl st ct rho_f rho_s v_f v_l v_t in
  fst3 r * fst3 r
  + snd3 r * snd3 r * ((rho_s * v_l * ct) / (rho_s * v_t * cl))
  + thd3 r * thd3 r * ((rho_s * v_l * cf) / (rho_f * v_f * cl)) = 1.
Proof. exact energy_solid_l_sc. Qed.

Theorem energy_solid_t : forall sf cf sl cl st ct rho_f rho_s v_f v_l v_t,
  0 < rho_f -> 0 < rho_s -> 0 < v_f -> 0 < v_l -> 0 < v_t ->
  0 < cf -> 0 <= sl -> 0 < cl -> 0 <= st -> 0 < ct ->
  sl * v_f = v_l * sf -> st * v_f = v_t * sf ->
  sf * sf + cf * cf = 1 -> sl * sl + cl * cl = 1 -> st * st + ct * ct = 1 ->
  let r := solid_t_fluid_sc NumR sf cf sl cl st ct rho_f rho_s v_f v_l v_t in
  fst3 r * fst3 r * ((rho_s * v_t * cl) / (rho_s * v_l * ct))
  + snd3 r * snd3 r
  + thd3 r * thd3 r * ((rho_s * v_t * cf) / (rho_f * v_f * ct)) = 1.
Proof. exact energy_solid_t_sc. Qed.

(* the same for the functions as they are called: incidence angle in [0, pi/2),
   below every critical angle, the other angles by snell_angles *)
Theorem energy_fluid_solid_angles : forall alpha rho_f rho_s v_f v_l v_t,
  0 < rho_f -> 0 < rho_s -> 0 < v_f -> 0 < v_l -> 0 < v_t ->
  0 <= alpha < PI / 2 -> v_l / v_f * sin alpha < 1 -> v_t / v_f * sin alpha < 1 ->
  let a_l := snell_angles NumR alpha v_f v_l in
  let a_t := snell_angles NumR alpha v_f v_t in
  let r := fluid_solid_auto NumR alpha rho_f rho_s v_f v_l v_t in
  fst3 r * fst3 r
  + snd3 r * snd3 r * ((rho_f * v_f * cos a_l) / (rho_s * v_l * cos alpha))
  + thd3 r * thd3 r * ((rho_f * v_f * cos a_t) / (rho_s * v_t * cos alpha)) = 1.
Proof. exact energy_fluid_solid_auto. Qed.

Theorem energy_solid_l_angles : forall alpha rho_f rho_s v_f v_l v_t,
  0 < rho_f -> 0 < rho_s -> 0 < v_f -> 0 < v_l -> 0 < v_t ->
  0 <= alpha < PI / 2 -> v_f / v_l * sin alpha < 1 -> v_t / v_l * sin alpha < 1 ->
  let a_f := snell_angles NumR alpha v_l v_f in
  let a_t := snell_angles NumR alpha v_l v_t in
  let r := solid_l_fluid_auto NumR alpha rho_f rho_s v_f v_l v_t in
  fst3 r * fst3 r
  + snd3 r * snd3 r * ((rho_s * v_l * cos a_t) / (rho_s * v_t * cos alpha))
  + thd3 r * thd3 r * ((rho_s * v_l * cos a_f) / (rho_f * v_f * cos alpha)) = 1.
Proof. exact energy_solid_l_auto. Qed.

Theorem energy_solid_t_angles : forall alpha rho_f rho_s v_f v_l v_t,
  0 < rho_f -> 0 < rho_s -> 0 < v_f -> 0 < v_l -> 0 < v_t ->
  0 <= alpha < PI / 2 -> v_f / v_t * sin alpha < 1 -> v_l / v_t * sin alpha < 1 ->
  let a_f := snell_angles NumR alpha v_t v_f in
  let a_l := snell_angles NumR alpha v_t v_l in
  let r := solid_t_fluid_auto NumR alpha rho_f rho_s v_f v_l v_t in
  fst3 r * fst3 r * ((rho_s * v_t * cos a_l) / (rho_s * v_l * cos alpha))
  + snd3 r * snd3 r
  + thd3 r * thd3 r * ((rho_s * v_t * cos a_f) / (rho_f * v_f * cos alpha)) = 1.
Proof. exact energy_solid_t_auto. Qed.

(* ---- Stokes relations, in ANY field (so: real and complex angles) ----------- *)
(* Hypotheses on the instance N: its operations form a field and nofZ 2 = 1 + 1.
   Both hold for NumR and for NumC NumR (stokes_instances below).
   These are the relations tests/test_model.py::test_stokes_relation calls
   "Stokes", including its magic_coefficient = -1 on the T legs. *)
Theorem stokes_fl : forall (K : Type) (N : Num K),
  field_theory (n0 N) (n1 N) (nadd N) (nmul N) (nsub N) (nopp N) (ndiv N) (fun x => ndiv N (n1 N) x) (@eq K) ->
  nofZ N 2%Z = nadd N (n1 N) (n1 N) ->
  forall sf cf sl cl st ct rho_f rho_s v_f v_l v_t,
  cf <> n0 N -> rho_s <> n0 N -> v_l <> n0 N ->
  fluid_solid_n_sc N sf cf sl cl st ct rho_f rho_s v_f v_l v_t <> n0 N ->
  (* T_{l->f} = T_{f->l} (z_f cos a_l) / (z_l cos a_f) *)
  thd3 (solid_l_fluid_sc N sf cf sl cl st ct rho_f rho_s v_f v_l v_t)
  = nmul N (snd3 (fluid_solid_sc N sf cf sl cl st ct rho_f rho_s v_f v_l v_t))
           (ndiv N (nmul N (nmul N rho_f v_f) cl) (nmul N (nmul N rho_s v_l) cf)).
Proof. exact @stokes_fl_F. Qed.

Theorem stokes_ft : forall (K : Type) (N : Num K),
  field_theory (n0 N) (n1 N) (nadd N) (nmul N) (nsub N) (nopp N) (ndiv N) (fun x => ndiv N (n1 N) x) (@eq K) ->
  nofZ N 2%Z = nadd N (n1 N) (n1 N) ->
  forall sf cf sl cl st ct rho_f rho_s v_f v_l v_t,
  cf <> n0 N -> rho_s <> n0 N -> v_l <> n0 N -> v_t <> n0 N ->
  nmul N sl v_t = nmul N st v_l ->                       (* Snell between L and T *)
  fluid_solid_n_sc N sf cf sl cl st ct rho_f rho_s v_f v_l v_t <> n0 N ->
  (* T_{t->f} = - T_{f->t} (z_f cos a_t) / (z_t cos a_f) *)
  thd3 (solid_t_fluid_sc N sf cf sl cl st ct rho_f rho_s v_f v_l v_t)
  = nmul N (nopp N (thd3 (fluid_solid_sc N sf cf sl cl st ct rho_f rho_s v_f v_l v_t)))
           (ndiv N (nmul N (nmul N rho_f v_f) ct) (nmul N (nmul N rho_s v_t) cf)).
Proof. exact @stokes_ft_F. Qed.

Theorem stokes_lt : forall (K : Type) (N : Num K),
  field_theory (n0 N) (n1 N) (nadd N) (nmul N) (nsub N) (nopp N) (ndiv N) (fun x => ndiv N (n1 N) x) (@eq K) ->
  nofZ N 2%Z = nadd N (n1 N) (n1 N) ->
  forall sf cf sl cl st ct rho_f rho_s v_f v_l v_t,
  cl <> n0 N -> rho_s <> n0 N -> v_l <> n0 N -> v_t <> n0 N ->
  nmul N sl v_t = nmul N st v_l ->
  fluid_solid_n_sc N sf cf sl cl st ct rho_f rho_s v_f v_l v_t <> n0 N ->
  (* R_{t->l} = - R_{l->t} (z_l cos a_t) / (z_t cos a_l) *)
  fst3 (solid_t_fluid_sc N sf cf sl cl st ct rho_f rho_s v_f v_l v_t)
  = nmul N (nopp N (snd3 (solid_l_fluid_sc N sf cf sl cl st ct rho_f rho_s v_f v_l v_t)))
           (ndiv N (nmul N (nmul N rho_s v_l) ct) (nmul N (nmul N rho_s v_t) cl)).
Proof. exact @stokes_lt_F. Qed.

(* the hypotheses of the three Stokes theorems hold for the real and for the
   complex instance *)
Theorem stokes_instances :
  (field_theory (n0 NumR) (n1 NumR) (nadd NumR) (nmul NumR) (nsub NumR) (nopp NumR) (ndiv NumR)
                (fun x => ndiv NumR (n1 NumR) x) (@eq R)
   /\ nofZ NumR 2%Z = nadd NumR (n1 NumR) (n1 NumR)) /\
  (field_theory (n0 (NumC NumR)) (n1 (NumC NumR)) (nadd (NumC NumR)) (nmul (NumC NumR))
                (nsub (NumC NumR)) (nopp (NumC NumR)) (ndiv (NumC NumR))
                (fun x => ndiv (NumC NumR) (n1 (NumC NumR)) x) (@eq (R * R))
   /\ nofZ (NumC NumR) 2%Z = nadd (NumC NumR) (n1 (NumC NumR)) (n1 (NumC NumR))).
Proof. exact (conj (conj NumR_field NumR_two) (conj NumC_R_field NumC_R_two)). Qed.

(* ---- normal incidence ------------------------------------------------------- *)
Theorem normal_incidence : forall rho_f rho_s v_f v_l v_t,
  0 < rho_f -> 0 < rho_s -> 0 < v_f -> 0 < v_l ->
  let zf := rho_f * v_f in let zl := rho_s * v_l in
  fluid_solid_auto NumR 0 rho_f rho_s v_f v_l v_t = ((zl - zf) / (zl + zf), 2 * zl / (zl + zf), 0) /\
  solid_l_fluid_auto NumR 0 rho_f rho_s v_f v_l v_t = ((zf - zl) / (zl + zf), 0, 2 * zf / (zl + zf)) /\
  solid_t_fluid_auto NumR 0 rho_f rho_s v_f v_l v_t = (0, -1, 0).
Proof.
  intros rho_f rho_s v_f v_l v_t H1 H2 H3 H4.
  exact (conj (normal_fluid_solid_auto rho_f rho_s v_f v_l v_t H1 H2 H3 H4)
        (conj (normal_solid_l_auto rho_f rho_s v_f v_l v_t H1 H2 H3 H4)
              (normal_solid_t_auto rho_f rho_s v_f v_l v_t H1 H2 H3 H4))).
Qed.

(* ---- the per-interface helpers ---------------------------------------------- *)
(* for every numeric instance (real, complex, float): the helper returns the
   selected coefficient, times z_inc/z_out (transmission) or c_inc/c_out
   (reflection) when unit = displacement; None = the code raises *)
Theorem at_interface_select_transmission :
  forall (K : Type) (N : Num K) (fluid solid : material K) (alpha : K) (u : cunit),
  let rf := m_rho fluid in let vf := m_vl fluid in
  let rs := m_rho solid in let vl := m_vl solid in let vt := m_vt solid in
  let fs := fluid_solid_auto N alpha rf rs vf vl vt in
  let lf := solid_l_fluid_auto N alpha rf rs vf vl vt in
  let tf := solid_t_fluid_auto N alpha rf rs vf vl vt in
  transmission_at_interface N FluidSolid fluid solid ModeL ModeL alpha u
    = Some (in_unit N u (snd3 fs) (ndiv N (nmul N rf vf) (nmul N rs vl))) /\
  transmission_at_interface N FluidSolid fluid solid ModeL ModeT alpha u
    = Some (in_unit N u (thd3 fs) (ndiv N (nmul N rf vf) (nmul N rs vt))) /\
  transmission_at_interface N SolidFluid solid fluid ModeL ModeL alpha u
    = Some (in_unit N u (thd3 lf) (ndiv N (nmul N rs vl) (nmul N rf vf))) /\
  transmission_at_interface N SolidFluid solid fluid ModeT ModeL alpha u
    = Some (in_unit N u (thd3 tf) (ndiv N (nmul N rs vt) (nmul N rf vf))) /\
  (forall m, transmission_at_interface N FluidSolid fluid solid ModeT m alpha u = None) /\
  (forall m, transmission_at_interface N SolidFluid solid fluid m ModeT alpha u = None).
Proof. exact transmission_select. Qed.

Theorem at_interface_select_reflection :
  forall (K : Type) (N : Num K) (fluid solid : material K) (alpha : K) (u : cunit),
  let rf := m_rho fluid in let vf := m_vl fluid in
  let rs := m_rho solid in let vl := m_vl solid in let vt := m_vt solid in
  let fs := fluid_solid_auto N alpha rf rs vf vl vt in
  let lf := solid_l_fluid_auto N alpha rf rs vf vl vt in
  let tf := solid_t_fluid_auto N alpha rf rs vf vl vt in
  reflection_at_interface N SolidFluid solid fluid ModeL ModeL alpha u
    = Some (in_unit N u (fst3 lf) (ndiv N vl vl)) /\
  reflection_at_interface N SolidFluid solid fluid ModeL ModeT alpha u
    = Some (in_unit N u (snd3 lf) (ndiv N vl vt)) /\
  reflection_at_interface N SolidFluid solid fluid ModeT ModeL alpha u
    = Some (in_unit N u (fst3 tf) (ndiv N vt vl)) /\
  reflection_at_interface N SolidFluid solid fluid ModeT ModeT alpha u
    = Some (in_unit N u (snd3 tf) (ndiv N vt vt)) /\
  reflection_at_interface N FluidSolid fluid solid ModeL ModeL alpha u
    = Some (in_unit N u (fst3 fs) (ndiv N vf vf)) /\
  reflection_at_interface N FluidSolid fluid solid ModeT ModeL alpha u = None /\
  reflection_at_interface N FluidSolid fluid solid ModeL ModeT alpha u = None /\
  reflection_at_interface N FluidSolid fluid solid ModeT ModeT alpha u = None.
Proof. exact reflection_select. Qed.

(* ---- beyond the critical angles (complex angle dtype) -------------------------
   Complex numbers are pairs of reals; |z|^2 = cnorm2 NumR z.  Beyond a critical
   angle the refracted sine stays real and the cosine is purely imaginary, (0, b):
   that wave carries no normal energy flux and drops out of the balance.
   First on (sin, cos), then for the functions as called on a real incidence angle
   converted to complex (force_complex=True), Snell angles on the fly. *)
Local Notation C := (NumC NumR).

(* fluid -> solid beyond both critical angles: total reflection, |R| = 1
   (purely structural: numerator and N are complex conjugates) *)
Theorem energy_total_reflection : forall sf cf sl bl st bt rho_f rho_s v_f v_l v_t,
  rho_s <> 0 -> v_l <> 0 -> cf <> 0 -> rho_f <> 0 -> v_f <> 0 -> bl <> 0 ->
  cnorm2 NumR (fst3 (fluid_solid_sc C (sf, 0) (cf, 0) (sl, 0) (0, bl) (st, 0) (0, bt)
                         (rho_f, 0) (rho_s, 0) (v_f, 0) (v_l, 0) (v_t, 0))) = 1.
Proof. exact total_reflection_sc. Qed.

Theorem energy_total_reflection_angles : forall alpha rho_f rho_s v_f v_l v_t,
  0 < rho_f -> 0 < rho_s -> 0 < v_f -> 0 < v_l -> 0 < v_t ->
  0 <= alpha < PI / 2 -> 1 < v_l / v_f * sin alpha -> 1 < v_t / v_f * sin alpha ->
  cnorm2 NumR (fst3 (fluid_solid_auto C (alpha, 0) (cre NumR rho_f) (cre NumR rho_s)
                       (cre NumR v_f) (cre NumR v_l) (cre NumR v_t))) = 1.
Proof. exact total_reflection_auto. Qed.

(* fluid -> solid between the L and the T critical angle:
   |R|^2 + |T_T|^2 (z_f cos a_t)/(z_t cos a_f) = 1 *)
Theorem energy_between_criticals : forall sf cf sl bl st ct rho_f rho_s v_f v_l v_t,
  0 < rho_f -> 0 < rho_s -> 0 < v_f -> 0 < v_l -> 0 < v_t ->
  0 < cf -> 0 <= sl -> 0 <= st -> 0 < ct -> bl <> 0 ->
  sl * v_t = st * v_l ->
  let r := fluid_solid_sc C (sf, 0) (cf, 0) (sl, 0) (0, bl) (st, 0) (ct, 0)
                         (rho_f, 0) (rho_s, 0) (v_f, 0) (v_l, 0) (v_t, 0) in
  cnorm2 NumR (fst3 r) + cnorm2 NumR (thd3 r) * ((rho_f * v_f * ct) / (rho_s * v_t * cf)) = 1.
Proof. exact between_sc. Qed.

Theorem energy_between_criticals_angles : forall alpha rho_f rho_s v_f v_l v_t,
  0 < rho_f -> 0 < rho_s -> 0 < v_f -> 0 < v_l -> 0 < v_t ->
  0 <= alpha < PI / 2 -> 1 < v_l / v_f * sin alpha -> v_t / v_f * sin alpha < 1 ->
  let a_t := snell_angles NumR alpha v_f v_t in
  let r := fluid_solid_auto C (alpha, 0) (cre NumR rho_f) (cre NumR rho_s)
                       (cre NumR v_f) (cre NumR v_l) (cre NumR v_t) in
  cnorm2 NumR (fst3 r) + cnorm2 NumR (thd3 r) * ((rho_f * v_f * cos a_t) / (rho_s * v_t * cos alpha)) = 1.
Proof. exact between_criticals_auto. Qed.

(* T incidence beyond the L critical angle (reflected L wave evanescent):
   |R_TT|^2 + |T|^2 (z_t cos a_f)/(z_f cos a_t) = 1 *)
Theorem energy_solid_t_beyond_l : forall sf cf sl bl st ct rho_f rho_s v_f v_l v_t,
  0 < rho_f -> 0 < rho_s -> 0 < v_f -> 0 < v_l -> 0 < v_t ->
  0 < cf -> 0 <= sl -> 0 <= st -> 0 < ct -> bl <> 0 ->
  sl * v_t = st * v_l ->
  let r := solid_t_fluid_sc C (sf, 0) (cf, 0) (sl, 0) (0, bl) (st, 0) (ct, 0)
                         (rho_f, 0) (rho_s, 0) (v_f, 0) (v_l, 0) (v_t, 0) in
  cnorm2 NumR (snd3 r) + cnorm2 NumR (thd3 r) * ((rho_s * v_t * cf) / (rho_f * v_f * ct)) = 1.
Proof. exact solid_t_beyond_l_sc. Qed.

Theorem energy_solid_t_beyond_l_angles : forall alpha rho_f rho_s v_f v_l v_t,
  0 < rho_f -> 0 < rho_s -> 0 < v_f -> 0 < v_l -> 0 < v_t ->
  0 <= alpha < PI / 2 -> 1 < v_l / v_t * sin alpha -> v_f / v_t * sin alpha < 1 ->
  let a_f := snell_angles NumR alpha v_t v_f in
  let r := solid_t_fluid_auto C (alpha, 0) (cre NumR rho_f) (cre NumR rho_s)
                       (cre NumR v_f) (cre NumR v_l) (cre NumR v_t) in
  cnorm2 NumR (snd3 r) + cnorm2 NumR (thd3 r) * ((rho_s * v_t * cos a_f) / (rho_f * v_f * cos alpha)) = 1.
Proof. exact solid_t_beyond_l_auto. Qed.
(* T incidence beyond the L and the fluid critical angle (a fluid faster than the T
   wave, e.g. a plastic in water): only the reflected T wave propagates, |R_TT| = 1 *)
Theorem energy_solid_t_total_reflection : forall sf bf sl bl st ct rho_f rho_s v_f v_l v_t,
  0 < rho_f -> 0 < rho_s -> 0 < v_f -> 0 < v_l -> 0 < v_t ->
  bf <> 0 -> 0 < sl -> 0 < st -> 0 < ct -> bl <> 0 ->
  cnorm2 NumR (snd3 (solid_t_fluid_sc C (sf, 0) (0, bf) (sl, 0) (0, bl) (st, 0) (ct, 0)
                         (rho_f, 0) (rho_s, 0) (v_f, 0) (v_l, 0) (v_t, 0))) = 1.
Proof. exact solid_t_total_sc. Qed.

Theorem energy_solid_t_total_reflection_angles : forall alpha rho_f rho_s v_f v_l v_t,
  0 < rho_f -> 0 < rho_s -> 0 < v_f -> 0 < v_l -> 0 < v_t ->
  0 <= alpha < PI / 2 -> 1 < v_l / v_t * sin alpha -> 1 < v_f / v_t * sin alpha ->
  cnorm2 NumR (snd3 (solid_t_fluid_auto C (alpha, 0) (cre NumR rho_f) (cre NumR rho_s)
                       (cre NumR v_f) (cre NumR v_l) (cre NumR v_t))) = 1.
Proof. exact solid_t_total_auto. Qed.
(* With the sub-critical theorems this covers every regime of the three functions
   for a fluid slower than the L wave (v_f < v_l; v_t < v_l always): fluid incidence
   {sub, between, beyond}, L incidence {sub}, T incidence {sub, beyond L, beyond L and
   fluid}.  None of the theorems above assumes an ordering of the velocities: they
   assume which refracted waves are real and which evanescent. *)

(* ---- a fluid FASTER than the L wave (v_l < v_f, e.g. water against a soft rubber) --
   Two more regimes appear, both with an evanescent transmitted wave in the fluid
   (cos a_f = (0, bf), flux weight Re(cos a_f) = 0) and real reflected L and T waves;
   and fluid incidence has no critical angle at all. *)

(* T incidence, fluid wave evanescent, L and T real: all the energy is reflected into
   the L and the T wave, |R_TL|^2 (z_t cos a_l)/(z_l cos a_t) + |R_TT|^2 = 1.
   Only Snell between the L and the T sine is needed. *)
Theorem energy_solid_t_evanescent_fluid : forall sf bf sl cl st ct rho_f rho_s v_f v_l v_t,
  0 < rho_f -> 0 < rho_s -> 0 < v_f -> 0 < v_l -> 0 < v_t ->
  bf <> 0 -> 0 < cl -> 0 < ct ->
  sl * v_t = st * v_l ->
  let r := solid_t_fluid_sc C (sf, 0) (0, bf) (sl, 0) (cl, 0) (st, 0) (ct, 0)
                         (rho_f, 0) (rho_s, 0) (v_f, 0) (v_l, 0) (v_t, 0) in
  cnorm2 NumR (fst3 r) * ((rho_s * v_t * cl) / (rho_s * v_l * ct)) + cnorm2 NumR (snd3 r) = 1.
Proof. exact solid_t_evanescent_fluid_sc. Qed.

(* as called (force_complex=True, Snell angles on the fly): T incidence angle beyond
   the fluid critical angle asin(v_t/v_f) and below the L critical angle asin(v_t/v_l) *)
Theorem energy_solid_t_evanescent_fluid_angles : forall alpha rho_f rho_s v_f v_l v_t,
  0 < rho_f -> 0 < rho_s -> 0 < v_f -> 0 < v_l -> 0 < v_t ->
  0 <= alpha < PI / 2 -> v_l / v_t * sin alpha < 1 -> 1 < v_f / v_t * sin alpha ->
  let a_l := snell_angles NumR alpha v_t v_l in
  let r := solid_t_fluid_auto C (alpha, 0) (cre NumR rho_f) (cre NumR rho_s)
                       (cre NumR v_f) (cre NumR v_l) (cre NumR v_t) in
  cnorm2 NumR (fst3 r) * ((rho_s * v_t * cos a_l) / (rho_s * v_l * cos alpha)) + cnorm2 NumR (snd3 r) = 1.
Proof. exact solid_t_evanescent_fluid_auto. Qed.

(* L incidence, fluid wave evanescent, L and T real:
   |R_LL|^2 + |R_LT|^2 (z_l cos a_t)/(z_t cos a_l) = 1 *)
Theorem energy_solid_l_evanescent_fluid : forall sf bf sl cl st ct rho_f rho_s v_f v_l v_t,
  0 < rho_f -> 0 < rho_s -> 0 < v_f -> 0 < v_l -> 0 < v_t ->
  bf <> 0 -> 0 < cl -> 0 < ct ->
  sl * v_t = st * v_l ->
  let r := solid_l_fluid_sc C (sf, 0) (0, bf) (sl, 0) (cl, 0) (st, 0) (ct, 0)
                         (rho_f, 0) (rho_s, 0) (v_f, 0) (v_l, 0) (v_t, 0) in
  cnorm2 NumR (fst3 r) + cnorm2 NumR (snd3 r) * ((rho_s * v_l * ct) / (rho_s * v_t * cl)) = 1.
Proof. exact solid_l_evanescent_fluid_sc. Qed.

(* as called: L incidence angle beyond the fluid critical angle asin(v_l/v_f)
   (the T wave is real: v_t/v_l sin alpha < 1 holds for every angle when v_t <= v_l) *)
Theorem energy_solid_l_evanescent_fluid_angles : forall alpha rho_f rho_s v_f v_l v_t,
  0 < rho_f -> 0 < rho_s -> 0 < v_f -> 0 < v_l -> 0 < v_t ->
  0 <= alpha < PI / 2 -> v_t / v_l * sin alpha < 1 -> 1 < v_f / v_l * sin alpha ->
  let a_t := snell_angles NumR alpha v_l v_t in
  let r := solid_l_fluid_auto C (alpha, 0) (cre NumR rho_f) (cre NumR rho_s)
                       (cre NumR v_f) (cre NumR v_l) (cre NumR v_t) in
  cnorm2 NumR (fst3 r) + cnorm2 NumR (snd3 r) * ((rho_s * v_l * cos a_t) / (rho_s * v_t * cos alpha)) = 1.
Proof. exact solid_l_evanescent_fluid_auto. Qed.

(* these two incidence ranges are non-empty only for a fluid faster than the L wave *)
Theorem evanescent_fluid_with_real_l_needs_fast_fluid : forall alpha v_f v_l v_t,
  0 < v_f -> 0 < v_l -> 0 < v_t -> 0 <= alpha < PI / 2 ->
  (v_l / v_t * sin alpha < 1 -> 1 < v_f / v_t * sin alpha -> v_l < v_f) /\
  (1 < v_f / v_l * sin alpha -> v_l < v_f).
Proof.
  intros alpha v_f v_l v_t H1 H2 H3 H4.
  exact (conj (evanescent_fluid_needs_fast_fluid_t alpha v_f v_l v_t H1 H2 H3 H4)
              (evanescent_fluid_needs_fast_fluid_l alpha v_f v_l H1 H2 H4)).
Qed.

(* fluid incidence, fluid at least as fast as both solid waves: no critical angle, the
   three-wave balance holds for EVERY incidence angle of [0, pi/2) (corollary of
   energy_fluid_solid_angles: its two sub-critical hypotheses follow from the ordering);
   real dtype, then complex dtype (force_complex=True) *)
Theorem energy_fluid_solid_fast_fluid_angles : forall alpha rho_f rho_s v_f v_l v_t,
  0 < rho_f -> 0 < rho_s -> 0 < v_f -> 0 < v_l -> 0 < v_t ->
  v_l <= v_f -> v_t <= v_f -> 0 <= alpha < PI / 2 ->
  let a_l := snell_angles NumR alpha v_f v_l in
  let a_t := snell_angles NumR alpha v_f v_t in
  let r := fluid_solid_auto NumR alpha rho_f rho_s v_f v_l v_t in
  fst3 r * fst3 r
  + snd3 r * snd3 r * ((rho_f * v_f * cos a_l) / (rho_s * v_l * cos alpha))
  + thd3 r * thd3 r * ((rho_f * v_f * cos a_t) / (rho_s * v_t * cos alpha)) = 1.
Proof. exact energy_fluid_solid_fast_auto. Qed.

Theorem energy_fluid_solid_fast_fluid_angles_complex : forall alpha rho_f rho_s v_f v_l v_t,
  0 < rho_f -> 0 < rho_s -> 0 < v_f -> 0 < v_l -> 0 < v_t ->
  v_l <= v_f -> v_t <= v_f -> 0 <= alpha < PI / 2 ->
  let a_l := snell_angles NumR alpha v_f v_l in
  let a_t := snell_angles NumR alpha v_f v_t in
  let r := fluid_solid_auto C (alpha, 0) (cre NumR rho_f) (cre NumR rho_s)
                       (cre NumR v_f) (cre NumR v_l) (cre NumR v_t) in
  cnorm2 NumR (fst3 r)
  + cnorm2 NumR (snd3 r) * ((rho_f * v_f * cos a_l) / (rho_s * v_l * cos alpha))
  + cnorm2 NumR (thd3 r) * ((rho_f * v_f * cos a_t) / (rho_s * v_t * cos alpha)) = 1.
Proof. exact energy_fluid_solid_fast_auto_C. Qed.

(* complex dtype with every Snell sine in [-1, 1] (all three angles real): the complex
   coefficients are the real ones with imaginary part 0, cre3 (a, b, c) =
   ((a, 0), (b, 0), (c, 0)).  This carries energy_fluid_solid_angles,
   energy_solid_l_angles and energy_solid_t_angles to the force_complex=True calls. *)
Theorem real_regime_complex_dtype : forall alpha rho_f rho_s v_f v_l v_t,
  (v_f <> 0 -> -1 <= v_l / v_f * sin alpha <= 1 -> -1 <= v_t / v_f * sin alpha <= 1 ->
   fluid_solid_auto C (alpha, 0) (cre NumR rho_f) (cre NumR rho_s) (cre NumR v_f) (cre NumR v_l) (cre NumR v_t)
   = cre3 (fluid_solid_auto NumR alpha rho_f rho_s v_f v_l v_t)) /\
  (v_l <> 0 -> -1 <= v_f / v_l * sin alpha <= 1 -> -1 <= v_t / v_l * sin alpha <= 1 ->
   solid_l_fluid_auto C (alpha, 0) (cre NumR rho_f) (cre NumR rho_s) (cre NumR v_f) (cre NumR v_l) (cre NumR v_t)
   = cre3 (solid_l_fluid_auto NumR alpha rho_f rho_s v_f v_l v_t)) /\
  (v_t <> 0 -> -1 <= v_f / v_t * sin alpha <= 1 -> -1 <= v_l / v_t * sin alpha <= 1 ->
   solid_t_fluid_auto C (alpha, 0) (cre NumR rho_f) (cre NumR rho_s) (cre NumR v_f) (cre NumR v_l) (cre NumR v_t)
   = cre3 (solid_t_fluid_auto NumR alpha rho_f rho_s v_f v_l v_t)).
Proof.
  intros alpha rho_f rho_s v_f v_l v_t.
  exact (conj (fluid_solid_auto_C_real alpha rho_f rho_s v_f v_l v_t)
        (conj (solid_l_fluid_auto_C_real alpha rho_f rho_s v_f v_l v_t)
              (solid_t_fluid_auto_C_real alpha rho_f rho_s v_f v_l v_t))).
Qed.
(* Regime table, now complete for every ordering of v_f against v_t < v_l (each Snell
   sine s_w = v_w / v_inc * sin alpha either < 1, wave w real, or > 1, evanescent;
   exactly s_w = 1 -- a cosine equal to 0, division by zero in the code -- is excluded):
     fluid incidence  all real | L evanescent | L, T evanescent
     L incidence      all real | fluid evanescent                       (T is never)
     T incidence      all real | L evan. | L, fluid evan. | fluid evan., L real
   (T evanescent with L real is impossible; for v_l <= v_f fluid incidence is always
   "all real"). *)

(* ---- the functions called with angles ARE the (sin, cos) formulas ---------------
   real angles: sin, cos; complex angles: the complex sin, cos of the model
   (double-angle identities, real and complex).  This is what makes every theorem
   above stated on (sin, cos) -- in particular the Stokes relations -- a statement
   about fluid_solid / solid_l_fluid / solid_t_fluid as they are called. *)
Theorem angle_layer_is_sc_layer : forall rho_f rho_s v_f v_l v_t,
  (forall a_f a_l a_t,
     fluid_solid_ang NumR a_f a_l a_t rho_f rho_s v_f v_l v_t
     = fluid_solid_sc NumR (sin a_f) (cos a_f) (sin a_l) (cos a_l) (sin a_t) (cos a_t) rho_f rho_s v_f v_l v_t /\
     solid_l_fluid_ang NumR a_f a_l a_t rho_f rho_s v_f v_l v_t
     = solid_l_fluid_sc NumR (sin a_f) (cos a_f) (sin a_l) (cos a_l) (sin a_t) (cos a_t) rho_f rho_s v_f v_l v_t /\
     solid_t_fluid_ang NumR a_f a_l a_t rho_f rho_s v_f v_l v_t
     = solid_t_fluid_sc NumR (sin a_f) (cos a_f) (sin a_l) (cos a_l) (sin a_t) (cos a_t) rho_f rho_s v_f v_l v_t).
Proof.
  intros. exact (conj (ang_sc_fluid_solid _ _ _ _ _ _ _ _) (conj (ang_sc_solid_l _ _ _ _ _ _ _ _) (ang_sc_solid_t _ _ _ _ _ _ _ _))).
Qed.

Theorem angle_layer_is_sc_layer_complex : forall rho_f rho_s v_f v_l v_t,
  (forall a_f a_l a_t,
     fluid_solid_ang C a_f a_l a_t rho_f rho_s v_f v_l v_t
     = fluid_solid_sc C (csin NumR a_f) (ccos NumR a_f) (csin NumR a_l) (ccos NumR a_l)
                        (csin NumR a_t) (ccos NumR a_t) rho_f rho_s v_f v_l v_t /\
     solid_l_fluid_ang C a_f a_l a_t rho_f rho_s v_f v_l v_t
     = solid_l_fluid_sc C (csin NumR a_f) (ccos NumR a_f) (csin NumR a_l) (ccos NumR a_l)
                        (csin NumR a_t) (ccos NumR a_t) rho_f rho_s v_f v_l v_t /\
     solid_t_fluid_ang C a_f a_l a_t rho_f rho_s v_f v_l v_t
     = solid_t_fluid_sc C (csin NumR a_f) (ccos NumR a_f) (csin NumR a_l) (ccos NumR a_l)
                        (csin NumR a_t) (ccos NumR a_t) rho_f rho_s v_f v_l v_t).
Proof.
  intros. exact (conj (ang_sc_fluid_solid_C _ _ _ _ _ _ _ _) (conj (ang_sc_solid_l_C _ _ _ _ _ _ _ _) (ang_sc_solid_t_C _ _ _ _ _ _ _ _))).
Qed.

(* e.g. the first Stokes relation for three arbitrary COMPLEX angles *)
Theorem stokes_fl_complex_angles : forall a_f a_l a_t rho_f rho_s v_f v_l v_t,
  ccos NumR a_f <> n0 C -> rho_s <> n0 C -> v_l <> n0 C ->
  fluid_solid_n_ang C a_f a_l a_t rho_f rho_s v_f v_l v_t <> n0 C ->
  thd3 (solid_l_fluid_ang C a_f a_l a_t rho_f rho_s v_f v_l v_t)
  = nmul C (snd3 (fluid_solid_ang C a_f a_l a_t rho_f rho_s v_f v_l v_t))
           (ndiv C (nmul C (nmul C rho_f v_f) (ccos NumR a_l)) (nmul C (nmul C rho_s v_l) (ccos NumR a_f))).
Proof. exact stokes_fl_C_angles. Qed.

Theorem stokes_ft_complex_angles : forall a_f a_l a_t rho_f rho_s v_f v_l v_t,
  ccos NumR a_f <> n0 C -> rho_s <> n0 C -> v_l <> n0 C -> v_t <> n0 C ->
  nmul C (csin NumR a_l) v_t = nmul C (csin NumR a_t) v_l ->
  fluid_solid_n_ang C a_f a_l a_t rho_f rho_s v_f v_l v_t <> n0 C ->
  thd3 (solid_t_fluid_ang C a_f a_l a_t rho_f rho_s v_f v_l v_t)
  = nmul C (nopp C (thd3 (fluid_solid_ang C a_f a_l a_t rho_f rho_s v_f v_l v_t)))
           (ndiv C (nmul C (nmul C rho_f v_f) (ccos NumR a_t)) (nmul C (nmul C rho_s v_t) (ccos NumR a_f))).
Proof. exact stokes_ft_C_angles. Qed.

Theorem stokes_lt_complex_angles : forall a_f a_l a_t rho_f rho_s v_f v_l v_t,
  ccos NumR a_l <> n0 C -> rho_s <> n0 C -> v_l <> n0 C -> v_t <> n0 C ->
  nmul C (csin NumR a_l) v_t = nmul C (csin NumR a_t) v_l ->
  fluid_solid_n_ang C a_f a_l a_t rho_f rho_s v_f v_l v_t <> n0 C ->
  fst3 (solid_t_fluid_ang C a_f a_l a_t rho_f rho_s v_f v_l v_t)
  = nmul C (nopp C (snd3 (solid_l_fluid_ang C a_f a_l a_t rho_f rho_s v_f v_l v_t)))
           (ndiv C (nmul C (nmul C rho_s v_l) (ccos NumR a_t)) (nmul C (nmul C rho_s v_t) (ccos NumR a_l))).
Proof. exact stokes_lt_C_angles. Qed.

(* normal incidence with the complex dtype (force_complex=True) *)
Theorem normal_incidence_complex : forall rho_f rho_s v_f v_l v_t,
  0 < rho_f -> 0 < rho_s -> 0 < v_f -> 0 < v_l -> 0 < v_t ->
  let zf := rho_f * v_f in let zl := rho_s * v_l in
  fluid_solid_auto C (0, 0) (cre NumR rho_f) (cre NumR rho_s) (cre NumR v_f) (cre NumR v_l) (cre NumR v_t)
    = (((zl - zf) / (zl + zf), 0), (2 * zl / (zl + zf), 0), (0, 0)) /\
  solid_l_fluid_auto C (0, 0) (cre NumR rho_f) (cre NumR rho_s) (cre NumR v_f) (cre NumR v_l) (cre NumR v_t)
    = (((zf - zl) / (zl + zf), 0), (0, 0), (2 * zf / (zl + zf), 0)) /\
  solid_t_fluid_auto C (0, 0) (cre NumR rho_f) (cre NumR rho_s) (cre NumR v_f) (cre NumR v_l) (cre NumR v_t)
    = ((0, 0), (-1, 0), (0, 0)).
Proof. exact normal_incidence_C. Qed.

(* ---- non-vacuity -------------------------------------------------------------- *)
(* water / aluminium at normal incidence: the hypotheses of normal_incidence are
   satisfiable and the reflection coefficient is the textbook value *)
Example water_aluminium_normal :
  fst3 (fluid_solid_auto NumR 0 1000 2700 1480 6320 3130) = (2700 * 6320 - 1000 * 1480) / (2700 * 6320 + 1000 * 1480).
Proof.
  destruct (normal_incidence 1000 2700 1480 6320 3130) as (A & _); try lra.
  rewrite A. reflexivity.
Qed.

(* a 3-4-5 Snell configuration satisfying every hypothesis of energy_fluid_solid:
   v_f = 1, v_l = 2, v_t = 1; sin a_f = 3/10, sin a_l = 3/5, sin a_t = 3/10 *)
Example energy_hypotheses_satisfiable :
  exists sf cf sl cl st ct : R,
    0 < cf /\ 0 <= sl /\ 0 < cl /\ 0 <= st /\ 0 < ct /\ sl * 1 = 2 * sf /\ st * 1 = 1 * sf /\
    sf * sf + cf * cf = 1 /\ sl * sl + cl * cl = 1 /\ st * st + ct * ct = 1.
Proof.
  exists (3 / 10), (sqrt (91 / 100)), (3 / 5), (4 / 5), (3 / 10), (sqrt (91 / 100)).
  assert (Q : sqrt (91 / 100) * sqrt (91 / 100) = 91 / 100) by (apply sqrt_sqrt; lra).
  assert (P : 0 < sqrt (91 / 100)) by (apply sqrt_lt_R0; lra).
  repeat split; try lra.
Qed.

(* water / aluminium at 30 degrees is beyond both critical angles; a fluid of speed 1
   against a solid (4, 3/2) at 30 degrees is between them: the hypotheses of the
   post-critical theorems are satisfiable *)
Example post_critical_hypotheses_satisfiable :
  (0 <= PI / 6 < PI / 2 /\ 1 < 6320 / 1480 * sin (PI / 6) /\ 1 < 3130 / 1480 * sin (PI / 6)) /\
  (1 < 4 / 1 * sin (PI / 6) /\ (3 / 2) / 1 * sin (PI / 6) < 1).
Proof. rewrite sin_PI6. pose proof PI_RGT_0. repeat split; lra. Qed.

(* a soft rubber in water (rho_f = 1000, v_f = 1480, rho_s = 1100, v_l = 700, v_t = 400:
   v_t < v_l < v_f) at 30 degrees satisfies the hypotheses of
   energy_solid_t_evanescent_fluid_angles (T incidence: L real, fluid evanescent), of
   energy_solid_l_evanescent_fluid_angles (L incidence: fluid evanescent) and of
   energy_fluid_solid_fast_fluid_angles *)
Example fast_fluid_hypotheses_satisfiable :
  0 <= PI / 6 < PI / 2 /\
  (700 / 400 * sin (PI / 6) < 1 /\ 1 < 1480 / 400 * sin (PI / 6)) /\
  (400 / 700 * sin (PI / 6) < 1 /\ 1 < 1480 / 700 * sin (PI / 6)) /\
  (700 <= 1480 /\ 400 <= 1480).
Proof. rewrite sin_PI6. pose proof PI_RGT_0. repeat split; lra. Qed.

(* ... and the conclusion of energy_solid_l_evanescent_fluid_angles on it *)
Example rubber_in_water_l_incidence :
  let a_t := snell_angles NumR (PI / 6) 700 400 in
  let r := solid_l_fluid_auto C (PI / 6, 0) (cre NumR 1000) (cre NumR 1100)
                       (cre NumR 1480) (cre NumR 700) (cre NumR 400) in
  cnorm2 NumR (fst3 r) + cnorm2 NumR (snd3 r) * ((1100 * 700 * cos a_t) / (1100 * 400 * cos (PI / 6))) = 1.
Proof.
  apply energy_solid_l_evanescent_fluid_angles; try lra; rewrite ?sin_PI6; pose proof PI_RGT_0; try lra.
Qed.

(* a (sin, cos) configuration satisfying every hypothesis of
   energy_solid_t_evanescent_fluid / energy_solid_l_evanescent_fluid:
   v_l = 2, v_t = 1, sin a_l = 3/5, cos a_l = 4/5, sin a_t = 3/10, cos a_f = (0, -1) *)
Example evanescent_fluid_sc_hypotheses_satisfiable :
  exists bf sl cl st ct : R,
    bf <> 0 /\ 0 < cl /\ 0 < ct /\ sl * 1 = st * 2 /\ sl * sl + cl * cl = 1 /\ st * st + ct * ct = 1.
Proof.
  exists (-1), (3 / 5), (4 / 5), (3 / 10), (sqrt (91 / 100)).
  assert (Q : sqrt (91 / 100) * sqrt (91 / 100) = 91 / 100) by (apply sqrt_sqrt; lra).
  assert (P : 0 < sqrt (91 / 100)) by (apply sqrt_lt_R0; lra).
  repeat split; lra.
Qed.
