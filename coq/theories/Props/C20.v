(* Props/C20.v — Configuration merging and file loading are deterministic and lossless.
   Only statements; every proof is `exact <lemma>` (lemmas in Proofs/ConfigProofs.v).
   All theorems are axiom-free ("Closed under the global context").

   Model: Model/Config.v.  A configuration is an association list with Python-dict
   behaviour, compared up to key order (`cfg_equiv`; `cfg_eqb` is the executable
   comparison used by the correspondence, proved sound below).  "Alphabetical" is
   `String.leb`: lexicographic byte order of the file names including ".yaml"
   (= Python's order of pathlib.Path objects with a common parent, for ASCII names).

   NOT covered by these theorems (oracles, sampled by harness/prop_C20.py): YAML
   parsing, which names the directory listing contains, pathlib joining/resolution,
   MAT-file reading, the constructors Grid/Material/Probe themselves; aliasing
   between sub-mappings of one YAML document (anchors) — the model is a tree. *)
From Coq Require Import List String Bool ZArith Permutation QArith.
From Arim Require Import Model.Config Proofs.ConfigProofs Proofs.ConfigTimeProofs.
Import ListNotations.
Local Close Scope Q_scope.
Local Open Scope list_scope.
Local Open Scope string_scope.

(* ---- recursive_dict_merge ------------------------------------------- *)

(* key by key: a key of `top` wins — entirely when either side is not a mapping
   (leaf over leaf, leaf over mapping, mapping over leaf), by recursive merge when both
   are mappings; keys absent from `top` keep the value of `base` (untouched keys
   survive).  `top` is a Python dict: no duplicate keys. *)
Theorem merge_lookup : forall (L : Type) (bm tm : items (cfg L)) k, NoDup (keys tm) ->
  lookup k (merge_map bm tm) =
  match lookup k tm, lookup k bm with
  | Some v, Some b => Some (merge_val b v)
  | Some v, None => Some v
  | None, ob => ob
  end.
Proof. exact merge_map_lookup. Qed.

(* what "merge_val" is on each combination *)
Theorem merge_val_cases : forall (L : Type),
  (forall (b : cfg L) x, merge_val b (Leaf x) = Leaf x) /\
  (forall x (v : cfg L), merge_val (Leaf x) v = v) /\
  (forall bm tm : items (cfg L), merge_val (Map bm) (Map tm) = Map (merge_map bm tm)).
Proof. intros L. exact (conj (merge_val_Leaf_r L) (conj (merge_val_Leaf_l L) (merge_val_Map L))). Qed.

(* merging keeps the dict invariant *)
Theorem merge_wf : forall (L : Type) (bm tm : items (cfg L)), wf_items bm -> wf_items tm ->
  wf_items (merge_map bm tm).
Proof. exact merge_map_wf. Qed.

(* idempotent — syntactically: not even the key order changes *)
Theorem merge_idempotent : forall (L : Type) (bm tm : items (cfg L)), wf_items bm -> wf_items tm ->
  merge_map (merge_map bm tm) tm = merge_map bm tm.
Proof. exact merge_map_idem. Qed.

Theorem merge_self : forall (L : Type) (v : cfg L), wf v -> merge_val v v = v.
Proof. exact merge_val_self. Qed.

(* merge_assoc — (a.b).c = a.(b.c) — is FALSE of the code as written: a leaf between two
   mappings erases the first mapping on the left but not on the right.  Witness
   a = {k: {x: 1}}, b = {k: 5}, c = {k: {y: 2}} : left {k: {y: 2}}, right {k: {x: 1, y: 2}}
   (replayed on arim.config.Config.merge by the harness).  This does not affect the
   property: load_conf is DEFINED as the left fold in alphabetical order (load_conf_is_fold
   below); associativity would only matter if fragments were pre-merged among themselves. *)
Theorem merge_assoc_refuted :
  exists a b c : items (cfg Z), wf_items a /\ wf_items b /\ wf_items c /\
    ~ cfg_equiv (Map (merge_map (merge_map a b) c)) (Map (merge_map a (merge_map b c))).
Proof. exact merge_not_assoc. Qed.

(* ... and it IS associative (as maps) whenever the third operand never puts a mapping where the
   second holds a leaf — the refuting pattern is the only one *)
Theorem merge_assoc_compatible : forall (L : Type) (am bm cm : items (cfg L)),
  wf_items bm -> wf_items cm -> no_map_over_leaf (Map bm) (Map cm) ->
  cfg_equiv (Map (merge_map (merge_map am bm) cm)) (Map (merge_map am (merge_map bm cm))).
Proof. exact merge_map_assoc. Qed.

(* deterministic as a MAP: the order in which keys are written in the files (dict order) never
   influences the merged configuration up to key order *)
Theorem merge_respects_key_order : forall (L : Type) (bm bm' tm tm' : items (cfg L)),
  wf_items tm -> wf_items tm' ->
  cfg_equiv (Map bm) (Map bm') -> cfg_equiv (Map tm) (Map tm') ->
  cfg_equiv (Map (merge_map bm tm)) (Map (merge_map bm' tm')).
Proof. exact merge_map_equiv. Qed.

(* ---- alphabetical order --------------------------------------------- *)
Theorem alphabetical_is_total_order :
  (forall a b, sle a b \/ sle b a) /\ (forall a b, sle a b -> sle b a -> a = b) /\
  (forall a b c, sle a b -> sle b c -> sle a c).
Proof. exact (conj sle_total (conj sle_antisym sle_trans)). Qed.

Theorem sort_names_is_sorted_permutation : forall l,
  Permutation (sort_names l) l /\ Sorting.Sorted.StronglySorted sle (sort_names l).
Proof. intros l. exact (conj (sort_names_perm l) (sort_names_sorted l)). Qed.

(* sorting any permutation of the listing gives the same list *)
Theorem sort_perm_canonical : forall l l', Permutation l l' -> sort_names l = sort_names l'.
Proof. exact sort_names_canonical. Qed.

(* ---- load_conf -------------------------------------------------------- *)

(* whatever order Path.glob lists the fragments in (any permutation of the names), the
   loaded configuration is the base merged with the fragments in alphabetical order *)
Theorem load_order_independent : forall (L : Type) (read : string -> option (items (cfg L)))
    base_file names listing, Permutation names listing ->
  load_fragments L read base_file listing =
  match base_conf L base_file with
  | Some b => merge_files L read b (sort_names names)
  | None => None
  end.
Proof. exact load_fragments_perm. Qed.

(* ... and so is the complete result of load_conf (extra keys, resolved file names) *)
Theorem load_conf_order_independent : forall (L : Type) (read : string -> option (items (cfg L)))
    ds root isn rd jp tg rf base_file listing listing', Permutation listing listing' ->
  load_conf L read ds root isn rd jp tg rf base_file listing =
  load_conf L read ds root isn rd jp tg rf base_file listing'.
Proof. exact load_conf_perm. Qed.

(* when every fragment is a mapping the result is the left fold of the merge *)
Theorem load_conf_is_fold : forall (L : Type) (read : string -> option (items (cfg L)))
    order base (frag : string -> items (cfg L)),
  (forall n, In n order -> read n = Some (frag n)) ->
  merge_files L read base order = Some (fold_left (fun c n => merge_map c (frag n)) order base).
Proof. exact merge_files_ok. Qed.

(* a fragment that is not a mapping makes the load fail, wherever it is listed *)
Theorem load_conf_bad_fragment : forall (L : Type) (read : string -> option (items (cfg L)))
    order base n, In n order -> read n = None -> merge_files L read base order = None.
Proof. exact merge_files_bad. Qed.

(* the extra keys replace nothing else, and _resolve_filenames loses nothing: same
   keys in the same order, each value resolved (joined path under a target key,
   recursive resolution otherwise; leaves elsewhere unchanged) *)
Theorem extra_keys_lossless : forall (L : Type) ds root isn rd (c c' : items (cfg L)) k,
  add_extra L ds root isn rd c = Some c' ->
  k <> "dataset_name" -> k <> "root_dir" -> k <> "result_dir" -> lookup k c' = lookup k c.
Proof. exact add_extra_lookup. Qed.

Theorem resolve_filenames_lossless : forall (L : Type) (jp : L -> option L) tg (m m' : items (cfg L)),
  resolve_items L jp tg (resolve L jp tg) m = Some m' ->
  keys m' = keys m /\
  forall k, lookup k m' = match lookup k m with
                          | Some v => resolve_entry L jp tg (resolve L jp tg) k v
                          | None => None
                          end.
Proof. exact resolve_items_spec. Qed.

Theorem resolve_filenames_identity_without_targets : forall (L : Type) (jp : L -> option L) tg,
  (forall k, tg k = false) -> forall c : cfg L, resolve L jp tg c = Some c.
Proof. exact resolve_no_target. Qed.

(* the executable comparison used by the correspondence decides equality up to key order *)
Theorem cfg_eqb_decides_equiv : forall (L : Type) (leqb : L -> L -> bool),
  (forall a b, leqb a b = true -> a = b) ->
  forall c1 c2 : cfg L, wfb c1 = true -> wfb c2 = true -> cfg_eqb leqb c1 c2 = true -> cfg_equiv c1 c2.
Proof.
  intros L leqb Hs c1 c2 H1 H2.
  exact (cfg_eqb_sound L leqb Hs c1 c2 (wfb_sound L c1 H1) (wfb_sound L c2 H2)).
Qed.

(* ---- builders --------------------------------------------------------- *)
(* grid_from_conf: every configured key reaches Grid(...) unchanged; ymin / ymax default to 0 *)
Theorem grid_defaults : forall (V : Type) (k : string) (d : V) m k',
  lookup k' (with_default k d m) =
  if String.eqb k' k then match lookup k m with Some v => Some v | None => Some d end
  else lookup k' m.
Proof. exact with_default_lookup. Qed.

(* ---- BRAIN loader ----------------------------------------------------- *)
(* tx, rx: stored 1-based index -> stored - 1, position by position *)
Theorem brain_indices : forall stored, Forall (fun s => (1 <= s <= 4294967296)%Z) stored ->
  load_indices stored = map (fun s => (s - 1)%Z) stored /\
  List.length (load_indices stored) = List.length stored.
Proof. intros stored H. exact (conj (load_indices_spec stored H) (load_indices_length stored)). Qed.

(* one row per timetrace for either storage orientation: if the S samples of timetrace i are
   consecutive in the buffer (mem[i*S + j]), the loaded array has shape (N, S) and
   row i is timetrace i — through scipy (shape (S, N), Fortran order) ... *)
Theorem brain_rows_scipy : forall (V : Type) (d : V) N S mem,
  let T := load_timetraces V (view_scipy V N S mem) in
  a_rows T = N /\ a_cols T = S /\ forall i j, aget V d T i j = nth (i * S + j) mem d.
Proof. exact load_scipy. Qed.
(* ... and through h5py (shape (N, S), C order) *)
Theorem brain_rows_hdf5 : forall (V : Type) (d : V) N S mem, 2 <= N -> 2 <= S ->
  let T := load_timetraces V (view_hdf5 V N S mem) in
  a_rows T = N /\ a_cols T = S /\ forall i j, aget V d T i j = nth (i * S + j) mem d.
Proof. exact load_hdf5. Qed.

(* time axis: a linearly spaced stored vector t0 + k*step (k < n, n >= 2) is loaded as
   Time(start = t0, step = step, num = n) — exact rational arithmetic *)
Theorem time_from_vect_linear : forall t0 step n, 2 <= n ->
  exists t0' avg, time_from_vect (linspaceQ t0 step 0 n) = Some (t0', avg, n) /\ (t0' == t0)%Q /\ (avg == step)%Q.
Proof. exact time_from_vect_linspace. Qed.

(* ---- non-vacuity ------------------------------------------------------ *)
Example merge_example :
  merge_map [("a", Leaf 1%Z); ("p", Map [("x", Leaf 1%Z); ("y", Leaf 2%Z)]); ("q", Map [("z", Leaf 0%Z)])]
            [("p", Map [("y", Leaf 20%Z); ("w", Leaf 30%Z)]); ("q", Leaf 7%Z); ("b", Leaf 2%Z)]
  = [("a", Leaf 1%Z); ("p", Map [("x", Leaf 1%Z); ("y", Leaf 20%Z); ("w", Leaf 30%Z)]); ("q", Leaf 7%Z); ("b", Leaf 2%Z)].
Proof. vm_compute. reflexivity. Qed.

Example compatible_example :
  no_map_over_leaf (Map [("k", Map [("x", Leaf 1%Z)]); ("j", Leaf 2%Z)])
                   (Map [("k", Map [("y", Leaf 2%Z)]); ("j", Leaf 3%Z); ("n", Map [])])
  /\ ~ no_map_over_leaf (Map [("k", Leaf 5%Z)]) (Map [("k", Map [("y", Leaf 2%Z)])]).
Proof. cbn. tauto. Qed.

(* prefix relations, case, digits: '-' < '.' < '0'..'9' < 'A'..'Z' < '_' < 'a'..'z' *)
Example sort_example :
  sort_names ["aa.yaml"; "a_b.yaml"; "a.yaml"; "B.yaml"; "9_x.yaml"; "10_x.yaml"; "a-b.yaml"; "_.yaml"]
  = ["10_x.yaml"; "9_x.yaml"; "B.yaml"; "_.yaml"; "a-b.yaml"; "a.yaml"; "a_b.yaml"; "aa.yaml"].
Proof. vm_compute. reflexivity. Qed.

(* finding F3 of DESIGN §6 (listing order 10_, 05_, 30_, 20_): the repaired code gives a = 30 *)
Example load_example :
  load_fragments Z
    (fun n => if String.eqb n "05_x.yaml" then Some [("a", Leaf 5%Z)]
              else if String.eqb n "10_x.yaml" then Some [("a", Leaf 10%Z)]
              else if String.eqb n "20_x.yaml" then Some [("a", Leaf 20%Z)]
              else if String.eqb n "30_x.yaml" then Some [("a", Leaf 30%Z)] else None)
    (Some (Some [("a", Leaf 0%Z); ("b", Leaf 1%Z)]))
    ["10_x.yaml"; "05_x.yaml"; "30_x.yaml"; "20_x.yaml"]
  = Some [("a", Leaf 30%Z); ("b", Leaf 1%Z)].
Proof. vm_compute. reflexivity. Qed.

(* 3 timetraces of 2 samples, buffer t0s0 t0s1 t1s0 t1s1 t2s0 t2s1, seen through scipy *)
Example brain_example :
  let T := load_timetraces Z (view_scipy Z 3 2 [10; 11; 20; 21; 30; 31]%Z) in
  map (fun i => map (fun j => aget Z 0%Z T i j) [0; 1]) [0; 1; 2] = [[10; 11]; [20; 21]; [30; 31]]%Z
  /\ load_indices [1; 1; 2; 3]%Z = [0; 0; 1; 2]%Z.
Proof. vm_compute. split; reflexivity. Qed.

Example time_example :
  match time_from_vect [5 # 1; 11 # 2; 6 # 1; 13 # 2]%Q with
  | Some (t0, dt, n) => Qeq_bool t0 (5 # 1) && Qeq_bool dt (1 # 2) && Nat.eqb n 4
  | None => false
  end = true
  /\ time_from_vect [5 # 1; 11 # 2; 7 # 1]%Q = None.
Proof. vm_compute. split; reflexivity. Qed.

(* ====================================================================== *)
(* Second part: the builders as functions of the configuration tree,       *)
(* frame_from_conf, and the rest of the BRAIN loader                       *)
(* ====================================================================== *)
(* Model: Model/ConfLoad.v (lemmas: Proofs/ConfLoadProofs.v, Proofs/ConfLoadBrainProofs.v).
   Each *_from_conf is a function from the configuration tree to the CALLS it makes
   (constructor, keyword arguments, order); a raise is `Err kind` (kind = the Python
   exception class).  What Python can ask of an opaque leaf (is None? a float? `k in leaf`?
   iterable?) are parameters of the theorems (never axioms); Model/ConfLoad.v also gives the
   concrete instance `py` (None/bool/int/float/str/list) used by the Examples below.
   Specification functions used in the statements (Proofs/ConfLoadProofs.v):
     att_spec o             what an optional attenuation entry becomes: absent/null -> None,
                            a float v -> factory("constant", v), a mapping with `kind` ->
                            factory( **mapping), anything else -> TypeError
     material_kwargs_of m la ta   the deep copy of m with the two attenuation entries set
     grid_defaults_of m     m with ymin / ymax defaulting to 0.0
     ops_spec pl            the probe motions for a probe_location mapping pl
     opt_wall_spec o n w    w is None when o is None, else the wall built from the mapping o
   and of Model/ConfLoad.v:
     registered k           the probe library asked for key k: Some true = registered, Some false =
                            not registered (KeyError), None = k is not hashable (TypeError); a
                            parameter, like the questions about leaves
     bget l i               entry i of a stored corner vector after numpy broadcasting: its single
                            value when it has exactly one, nth i l 0 otherwise
     time_outcome           TimeAxis (start, step, num) | StepNaN start (= Time(start, nan, 1)) | TimeRejected
   All theorems are axiom-free. *)
From Arim Require Import Model.ConfLoad Proofs.ConfLoadProofs Proofs.ConfLoadBrainProofs.

(* ---- material_from_conf ------------------------------------------------ *)
(* exactly when a material conf is accepted, and the keyword arguments that then reach
   core.Material: both attenuation entries well formed, no unknown key, longitudinal_vel given *)
Theorem conf_material_accepts_iff : forall (L : Type) (is_none is_float : L -> bool)
    (m : items (cfg L)) (kw : items (marg L)),
  material_from_conf L is_none is_float (Map m) = Ok kw <->
  (exists la ta : option (att_call L),
     att_spec L is_none is_float (lookup "longitudinal_att" m) = Ok la /\
     att_spec L is_none is_float (lookup "transverse_att" m) = Ok ta /\
     (forall k : string, has k m = true -> In k material_params) /\
     has "longitudinal_vel" m = true /\
     kw = material_kwargs_of L m la ta).
Proof. exact material_from_conf_iff. Qed.

(* every configured value reaches Material unchanged, and each attenuation is built from ITS
   OWN entry (longitudinal from longitudinal_att, transverse from transverse_att) *)
Theorem conf_material_values : forall (L : Type) (is_none is_float : L -> bool)
    (m : items (cfg L)) (kw : items (marg L)),
  material_from_conf L is_none is_float (Map m) = Ok kw ->
  (forall k : string, k <> "longitudinal_att" -> k <> "transverse_att" ->
     lookup k kw = option_map MCfg (lookup k m)) /\
  (exists la, att_spec L is_none is_float (lookup "longitudinal_att" m) = Ok la /\
              lookup "longitudinal_att" kw = Some (MAtt la)) /\
  (exists ta, att_spec L is_none is_float (lookup "transverse_att" m) = Ok ta /\
              lookup "transverse_att" kw = Some (MAtt ta)).
Proof. exact material_from_conf_values. Qed.

(* the order of the keys inside the material mapping is irrelevant *)
Theorem conf_material_key_order : forall (L : Type) (is_none is_float : L -> bool)
    (m m' : items (cfg L)) (kw : items (marg L)),
  (forall k : string, lookup k m = lookup k m') ->
  material_from_conf L is_none is_float (Map m) = Ok kw ->
  exists kw', material_from_conf L is_none is_float (Map m') = Ok kw' /\
              forall k : string, lookup k kw' = lookup k kw.
Proof. exact material_from_conf_key_order. Qed.

(* attributes of the Material object: absent or null optional entries are None, metadata
   defaults to {} *)
Theorem conf_material_defaults : forall (L : Type) (is_none : L -> bool) (m : items (cfg L))
    (la ta : option (att_call L)),
  let M := material_of_kwargs L is_none (material_kwargs_of L m la ta) in
  mat_longitudinal_att L M = la /\ mat_transverse_att L M = ta /\
  (lookup "transverse_vel" m = None -> mat_transverse_vel L M = None) /\
  (lookup "density" m = None -> mat_density L M = None) /\
  (lookup "state_of_matter" m = None -> mat_state_of_matter L M = None) /\
  (lookup "metadata" m = None -> mat_metadata L M = MCfg (Map [])) /\
  (forall c, lookup "transverse_vel" m = Some (Map c) -> mat_transverse_vel L M = Some (MCfg (Map c))) /\
  (forall v, lookup "transverse_vel" m = Some (Leaf v) ->
     mat_transverse_vel L M = if is_none v then None else Some (MCfg (Leaf v))) /\
  (forall v, lookup "density" m = Some (Leaf v) ->
     mat_density L M = if is_none v then None else Some (MCfg (Leaf v))) /\
  (forall v, lookup "longitudinal_vel" m = Some (Leaf v) -> is_none v = false ->
     mat_longitudinal_vel L M = Some (MCfg (Leaf v))).
Proof. exact material_defaults. Qed.

(* ---- walls and examination objects ------------------------------------- *)
(* a wall is built from ITS OWN mapping — all of it, nothing else — plus the fixed name *)
Theorem conf_wall_own_mapping : forall (L : Type) (c : cfg L) (name : string) (w : wall_call L),
  wall_from_conf L c name = Ok w <->
  (exists m, c = Map m /\ has "name" m = false /\
             sig_ok wall_required wall_params m = true /\ w = mkWall m name).
Proof. exact wall_from_conf_iff. Qed.

(* BlockInImmersion(block, couplant, frontwall, backwall): block from block_material, couplant
   from couplant_material, Frontwall from frontwall, Backwall from backwall (never swapped) *)
Theorem conf_immersion_fields : forall (L : Type) (is_none is_float : L -> bool)
    (conf : items (cfg L)) (o : exam_obj L),
  block_in_immersion_from_conf L is_none is_float conf = Ok o ->
  exists (bc cc : cfg L) (fm km : items (cfg L)) (b c : items (marg L)),
    lookup "block_material" conf = Some bc /\ material_from_conf L is_none is_float bc = Ok b /\
    lookup "couplant_material" conf = Some cc /\ material_from_conf L is_none is_float cc = Ok c /\
    lookup "frontwall" conf = Some (Map fm) /\ lookup "backwall" conf = Some (Map km) /\
    o = BlockInImmersion b c (mkWall fm "Frontwall") (mkWall km "Backwall").
Proof. exact immersion_fields. Qed.

(* BlockInContact: absent or null walls / under_material are None, present ones are built from
   their own entry *)
Theorem conf_contact_fields : forall (L : Type) (is_none is_float : L -> bool)
    (conf : items (cfg L)) (o : exam_obj L),
  block_in_contact_from_conf L is_none is_float conf = Ok o ->
  exists (bc : cfg L) (b : items (marg L)) (f k : option (wall_call L)) (u : option (items (marg L))),
    lookup "block_material" conf = Some bc /\ material_from_conf L is_none is_float bc = Ok b /\
    opt_wall_spec L (get_not_none L is_none "frontwall" conf) "Frontwall" f /\
    opt_wall_spec L (get_not_none L is_none "backwall" conf) "Backwall" k /\
    match get_not_none L is_none "under_material" conf with
    | Some c => exists kw, material_from_conf L is_none is_float c = Ok kw /\ u = Some kw
    | None => u = None
    end /\ o = BlockInContact b f k u.
Proof. exact contact_fields. Qed.

Theorem conf_absent_or_null : forall (L : Type) (is_none : L -> bool) (k : string) (m : items (cfg L)),
  get_not_none L is_none k m =
  match lookup k m with
  | Some (Leaf v) => if is_none v then None else Some (Leaf v)
  | Some (Map l) => Some (Map l)
  | None => None
  end.
Proof. exact get_not_none_spec. Qed.

(* the KIND of object built follows the dispatch on the set of present keys, and
   NotImplementedError is raised exactly by the dispatch (never from inside a builder) *)
Theorem conf_exam_kind : forall (L : Type) (is_none is_float : L -> bool) (conf : items (cfg L)),
  match examination_object_from_conf L is_none is_float conf with
  | Ok (BlockInImmersion _ _ _ _) => exam_dispatch conf = ExImmersion
  | Ok (BlockInContact _ _ _ _) => exam_dispatch conf = ExContact
  | Err ENotImplemented => exam_dispatch conf = ExNotImplemented
  | Err _ => exam_dispatch conf <> ExNotImplemented
  end.
Proof. exact exam_kind. Qed.

Theorem conf_exam_dispatch_keys : forall (V : Type) (conf : items V),
  exam_dispatch conf =
  if has "block_material" conf
  then if has "frontwall" conf && has "backwall" conf && has "couplant_material" conf
       then ExImmersion else ExContact
  else ExNotImplemented.
Proof. exact exam_dispatch_spec. Qed.

(* ---- probe_from_conf ---------------------------------------------------- *)
(* where the probe comes from: both keys -> rejected (by AttributeError: see Model/ConfLoad.v),
   probe_key -> the library entry under that key, else make_matrix_probe( **conf["probe"]) with
   the whole mapping, whose keys must bind to the signature.
   [repaired statement: the probe library is now the parameter `registered` (Some true = the key
   is registered, Some false = it is not: KeyError, None = the key is not hashable: TypeError);
   before, the model answered Ok (SrcLibrary k) for EVERY key k, which the library does only for
   a registered one] *)
Theorem conf_probe_source : forall (L : Type) (registered : cfg L -> option bool) (conf : items (cfg L)),
  probe_source L registered conf =
  match probe_dispatch conf with
  | PsError => Err EAttr
  | PsLibrary => match lookup "probe_key" conf with
                 | Some k => match registered k with
                             | Some true => Ok (SrcLibrary k)
                             | Some false => Err EKey
                             | None => Err EType
                             end
                 | None => Err EKey end
  | PsMatrix => match lookup "probe" conf with
                | Some (Leaf _) => Err EType
                | Some (Map kw) => if sig_ok matrix_required matrix_params kw
                                   then Ok (SrcMatrix kw) else Err EType
                | None => Err EKey
                end
  end.
Proof. exact probe_source_spec. Qed.

(* a probe comes from the library exactly when its key is the value under "probe_key", that key is
   registered and there is no "probe" entry (new with the repair) *)
Theorem conf_probe_library_registered : forall (L : Type) (registered : cfg L -> option bool)
    (conf : items (cfg L)) (k : cfg L),
  probe_source L registered conf = Ok (SrcLibrary k) <->
  lookup "probe_key" conf = Some k /\ has "probe" conf = false /\ registered k = Some true.
Proof. exact probe_source_library. Qed.

(* an unregistered key: KeyError; an unhashable key (a sequence, a mapping): TypeError (new with
   the repair) *)
Theorem conf_probe_key_unregistered : forall (L : Type) (registered : cfg L -> option bool)
    (conf : items (cfg L)) (k : cfg L),
  lookup "probe_key" conf = Some k -> has "probe" conf = false ->
  probe_source L registered conf = match registered k with
                                   | Some true => Ok (SrcLibrary k)
                                   | Some false => Err EKey
                                   | None => Err EType
                                   end.
Proof. exact probe_source_unregistered. Qed.

(* the motions applied for a probe_location mapping: the PRESENCE of a key decides (a value 0
   or null still counts), the value passed is the one under that key, the order is fixed:
   set_reference_element + translate_to_point_O, rotate, translate *)
Theorem conf_probe_location_calls : forall (L : Type) (leaf_has : L -> string -> option bool)
    (conf : items (cfg L)) (pl : items (cfg L)),
  lookup "probe_location" conf = Some (Map pl) ->
  probe_location_ops L leaf_has conf = Ok (ops_spec L pl).
Proof. exact probe_location_ops_map. Qed.

(* a probe_location that is not a mapping *)
Theorem conf_probe_location_not_a_mapping : forall (L : Type) (leaf_has : L -> string -> option bool)
    (conf : items (cfg L)) (v : L),
  lookup "probe_location" conf = Some (Leaf v) ->
  probe_location_ops L leaf_has conf =
  match leaf_has v "ref_element", leaf_has v "angle_deg", leaf_has v "standoff" with
  | Some false, Some false, Some false => Ok []
  | _, _, _ => Err EType
  end.
Proof. exact probe_location_ops_leaf. Qed.

(* the whole function; with apply_probe_location=False conf["probe_location"] is not read *)
Theorem conf_probe_from_conf : forall (L : Type) (leaf_has : L -> string -> option bool)
    (registered : cfg L -> option bool) (conf : items (cfg L)) (apply : bool),
  probe_from_conf L leaf_has registered conf apply =
  match probe_source L registered conf with
  | Ok src => if apply
              then match probe_location_ops L leaf_has conf with
                   | Ok ops => Ok (mkPlan src ops) | Err e => Err e end
              else Ok (mkPlan src [])
  | Err e => Err e
  end.
Proof. exact probe_from_conf_spec. Qed.

(* ---- grid_from_conf ------------------------------------------------------ *)
(* exactly when a grid conf is accepted (no unknown key; xmin xmax zmin zmax pixel_size given;
   ymin, ymax optional), and the keyword arguments that reach Grid *)
Theorem conf_grid_accepts_iff : forall (L : Type) (zero : L) (conf kw : items (cfg L)),
  grid_from_conf L zero conf = Ok kw <->
  (exists m, lookup "grid" conf = Some (Map m) /\
             (forall k : string, has k m = true -> In k grid_params) /\
             (forall k : string, In k grid_given -> has k m = true) /\
             kw = grid_defaults_of L zero m).
Proof. exact grid_from_conf_iff. Qed.

(* every configured number reaches Grid unchanged; ymin and ymax default to 0.0 INDEPENDENTLY *)
Theorem conf_grid_values : forall (L : Type) (zero : L) (m : items (cfg L)) (k : string),
  lookup k (grid_defaults_of L zero m) =
  if String.eqb k "ymax" then Some (match lookup "ymax" m with Some v => v | None => Leaf zero end)
  else if String.eqb k "ymin" then Some (match lookup "ymin" m with Some v => v | None => Leaf zero end)
  else lookup k m.
Proof. exact grid_defaults_lookup. Qed.

(* the new model refines the earlier view Model/Config.grid_kwargs (used by the correspondence) *)
Theorem conf_grid_refines_grid_kwargs : forall (L : Type) (zero : L) (conf kw : items (cfg L)),
  grid_from_conf L zero conf = Ok kw -> grid_kwargs zero conf = Some kw.
Proof. exact grid_from_conf_refines. Qed.

(* Grid.__init__: each axis gets its own limits and its own spacing *)
Theorem conf_grid_axes : forall (L : Type) (leaf_seq : L -> option (list L)) (kw : items (cfg L))
    (ps xmin xmax ymin ymax zmin zmax : cfg L),
  lookup "pixel_size" kw = Some ps ->
  lookup "xmin" kw = Some xmin -> lookup "xmax" kw = Some xmax ->
  lookup "ymin" kw = Some ymin -> lookup "ymax" kw = Some ymax ->
  lookup "zmin" kw = Some zmin -> lookup "zmax" kw = Some zmax ->
  grid_axes L leaf_seq kw =
  match unpack_pixel_size L leaf_seq ps with
  | Ok (dx, dy, dz) => Ok ((xmin, xmax, dx), (ymin, ymax, dy), (zmin, zmax, dz))
  | Err e => Err e
  end.
Proof. exact grid_axes_spec. Qed.

(* pixel_size: three values go to x, y, z in this order; a non-iterable value goes to all
   three; an iterable of another length is rejected (ValueError) *)
Theorem conf_pixel_size_unpacking : forall (L : Type) (leaf_seq : L -> option (list L)) (v : L),
  (forall a b d, leaf_seq v = Some [a; b; d] ->
     unpack_pixel_size L leaf_seq (Leaf v) = Ok (PxLeaf a, PxLeaf b, PxLeaf d)) /\
  (leaf_seq v = None -> unpack_pixel_size L leaf_seq (Leaf v) = Ok (PxLeaf v, PxLeaf v, PxLeaf v)) /\
  (forall l, leaf_seq v = Some l -> List.length l <> 3 ->
     unpack_pixel_size L leaf_seq (Leaf v) = Err EValue).
Proof.
  intros L leaf_seq v.
  exact (conj (unpack_three L leaf_seq v) (conj (unpack_scalar L leaf_seq v) (unpack_bad_length L leaf_seq v))).
Qed.

(* ---- frame_from_conf ----------------------------------------------------- *)
(* which file is loaded: frame.datafile wins over frame.dataset_name / dataset_item *)
Theorem conf_frame_source : forall (L : Type) (known_dataset : cfg L -> bool) (conf : items (cfg L)),
  frame_source L known_dataset conf =
  match lookup "frame" conf with
  | Some (Leaf _) => Err EType
  | Some (Map f) =>
      match lookup "datafile" f with
      | Some v => Ok (FromFile v, f)
      | None =>
          match lookup "dataset_name" f with
          | Some n => if known_dataset n
                      then match lookup "dataset_item" f with
                           | Some i => Ok (FromDataset n i, f) | None => Err EKey end
                      else Err EValue
          | None => Err EKey
          end
      end
  | None => Err EKey
  end.
Proof. exact frame_source_spec. Qed.

(* the two switches: the probe / examination object of the frame is the one built from the
   conf exactly when the switch is on, the file's one otherwise; the delay is frame.instrument_delay
   (absent or null: none) *)
Theorem conf_frame_switches : forall (L : Type) (is_none is_float : L -> bool)
    (leaf_has : L -> string -> option bool) (registered : cfg L -> option bool) (known_dataset : cfg L -> bool)
    (load_expdata : frame_src L -> res unit) (conf : items (cfg L)) (up ue : bool) (fp : frame_plan L),
  frame_from_conf L is_none is_float leaf_has registered known_dataset load_expdata conf up ue = Ok fp ->
  exists f : items (cfg L),
    frame_source L known_dataset conf = Ok (fp_src fp, f) /\
    load_expdata (fp_src fp) = Ok tt /\
    fp_delay fp = get_not_none L is_none "instrument_delay" f /\
    (if up then exists p, probe_from_conf L leaf_has registered conf true = Ok p /\ fp_probe fp = Some p
     else fp_probe fp = None) /\
    (if ue then exists e, examination_object_from_conf L is_none is_float conf = Ok e /\ fp_exam fp = Some e
     else fp_exam fp = None).
Proof. exact frame_from_conf_Ok. Qed.

(* with both switches off nothing but conf["frame"] is read *)
Theorem conf_frame_switches_off : forall (L : Type) (is_none is_float : L -> bool)
    (leaf_has : L -> string -> option bool) (registered : cfg L -> option bool) (known_dataset : cfg L -> bool)
    (load_expdata : frame_src L -> res unit) (conf conf' : items (cfg L)),
  lookup "frame" conf = lookup "frame" conf' ->
  frame_from_conf L is_none is_float leaf_has registered known_dataset load_expdata conf false false =
  frame_from_conf L is_none is_float leaf_has registered known_dataset load_expdata conf' false false.
Proof. exact frame_from_conf_switches_off. Qed.

(* ---- the order of the keys of the root mapping is irrelevant -------------- *)
Theorem conf_builders_depend_on_lookups : forall (L : Type) (is_none is_float : L -> bool)
    (leaf_has : L -> string -> option bool) (zero : L) (registered : cfg L -> option bool) (known_dataset : cfg L -> bool)
    (load_expdata : frame_src L -> res unit) (conf conf' : items (cfg L)),
  (forall k : string, lookup k conf = lookup k conf') ->
  examination_object_from_conf L is_none is_float conf = examination_object_from_conf L is_none is_float conf' /\
  (forall apply, probe_from_conf L leaf_has registered conf apply = probe_from_conf L leaf_has registered conf' apply) /\
  grid_from_conf L zero conf = grid_from_conf L zero conf' /\
  (forall up ue, frame_from_conf L is_none is_float leaf_has registered known_dataset load_expdata conf up ue =
                 frame_from_conf L is_none is_float leaf_has registered known_dataset load_expdata conf' up ue).
Proof. exact root_lookup_ext. Qed.

Theorem conf_builders_root_key_order : forall (L : Type) (is_none is_float : L -> bool)
    (leaf_has : L -> string -> option bool) (zero : L) (registered : cfg L -> option bool) (known_dataset : cfg L -> bool)
    (load_expdata : frame_src L -> res unit) (conf conf' : items (cfg L)),
  NoDup (keys conf) -> Permutation conf conf' ->
  examination_object_from_conf L is_none is_float conf = examination_object_from_conf L is_none is_float conf' /\
  (forall apply, probe_from_conf L leaf_has registered conf apply = probe_from_conf L leaf_has registered conf' apply) /\
  grid_from_conf L zero conf = grid_from_conf L zero conf' /\
  (forall up ue, frame_from_conf L is_none is_float leaf_has registered known_dataset load_expdata conf up ue =
                 frame_from_conf L is_none is_float leaf_has registered known_dataset load_expdata conf' up ue).
Proof. exact root_key_order. Qed.

(* ---- time axis, including Time.__init__ ----------------------------------- *)
(* `time_from_vect_linear` above stops before the constructor call at the end of Time.from_vect;
   Time.__init__ raises ValueError for step < 0, so that theorem describes the code only for
   step >= 0.  time_of_vect includes the check.
   [repaired statements: time_of_vect answers a `time_outcome` - TimeAxis tm where it answered
   Some tm, TimeRejected where it answered None - with the third outcome StepNaN t0 for the vector
   [t0] of ONE stored sample, for which the library builds Time(t0, nan, 1) (the mean of no step is
   nan, and nan < 0 is false) while the model used to answer None.  The three theorems below hold
   as before, read with TimeAxis / TimeRejected; time_of_vect_one_sample and time_of_vect_by_length
   are new] *)
Theorem time_of_vect_linear : forall t0 step n, 2 <= n -> (0 <= step)%Q ->
  exists t0' avg, time_of_vect (linspaceQ t0 step 0 n) = TimeAxis (t0', avg, n) /\
                  (t0' == t0)%Q /\ (avg == step)%Q.
Proof. exact time_of_vect_linspace. Qed.

Theorem time_of_vect_decreasing_rejected : forall t0 step n, 2 <= n -> (step < 0)%Q ->
  time_of_vect (linspaceQ t0 step 0 n) = TimeRejected.
Proof. exact time_of_vect_decreasing. Qed.

(* whatever vector is accepted with a step that is a number (also within the 1 % tolerance):
   start = first stored sample exactly, num = number of stored samples, step >= 0 *)
Theorem time_of_vect_start_and_length : forall t t0 dt n, time_of_vect t = TimeAxis (t0, dt, n) ->
  n = List.length t /\ (0 <= dt)%Q /\ 2 <= n /\ exists rest, t = t0 :: rest.
Proof. exact time_of_vect_sound. Qed.

(* ONE stored sample gives Time(t0, nan, 1), and nothing else gives a step that is not a number *)
Theorem time_of_vect_one_sample : forall t s, time_of_vect t = StepNaN s <-> t = [s].
Proof. exact time_of_vect_nan_iff. Qed.

(* the outcome by the number of stored samples: none -> rejected (IndexError), one -> step nan,
   two or more -> a time axis with that many samples or a rejection *)
Theorem time_of_vect_by_length : forall t,
  match time_of_vect t with
  | TimeAxis (_, _, n) => 2 <= List.length t /\ n = List.length t
  | StepNaN _ => List.length t = 1
  | TimeRejected => List.length t <> 1
  end.
Proof. exact time_of_vect_by_length. Qed.

(* frame.instrument_delay: every sample time is shifted by the delay; step and number of
   samples unchanged; never rejected *)
Theorem frame_instrument_delay_shift : forall t0 step n delay, (0 <= step)%Q ->
  shift_time (t0, step, n) delay = Some ((t0 - delay)%Q, step, n) /\
  Forall2 Qeq (time_samples ((t0 - delay)%Q, step, n))
              (map (fun t => (t - delay)%Q) (time_samples (t0, step, n))) /\
  List.length (time_samples ((t0 - delay)%Q, step, n)) = n.
Proof. exact shift_time_spec. Qed.

(* ---- BRAIN loader: probe --------------------------------------------------- *)
(* element i sits at (el_xc[i], el_yc[i], el_zc[i]) — unchanged, same order —, its dimensions come
   from the corners of the SAME element on the same axis, frequency unchanged.
   [repaired statement: numpy broadcasts a corner vector of ONE value against the n centres, and
   the library accepts it (it also accepts n = 0, a probe without elements), while the model
   demanded n >= 2 values in all nine vectors.  Hence `2 <= n` became `n <> 1`, and entry i of a
   corner vector x1 is `bget x1 i` = nth i x1 0 unless x1 has exactly one value, which then serves
   every element.  The statement as it was is brain_element_positions_full_vectors below] *)
Theorem brain_element_positions : forall xc yc zc x1 y1 z1 x2 y2 z2 freq p,
  load_probe xc yc zc x1 y1 z1 x2 y2 z2 freq = Some p ->
  let n := List.length xc in
  n <> 1 /\ bp_frequency p = freq /\ bp_locations p = zip3 xc yc zc /\
  List.length (bp_locations p) = n /\ List.length (bp_dimensions p) = n /\
  forall i, i < n ->
    nth i (bp_locations p) (0, 0, 0)%Q = (nth i xc 0%Q, nth i yc 0%Q, nth i zc 0%Q) /\
    nth i (bp_dimensions p) (0, 0, 0)%Q =
      (el_dim (nth i xc 0%Q) (bget x1 i) (bget x2 i),
       el_dim (nth i yc 0%Q) (bget y1 i) (bget y2 i),
       el_dim (nth i zc 0%Q) (bget z1 i) (bget z2 i)).
Proof. exact load_probe_spec. Qed.

(* the old statement: when the six corner vectors have as many values as there are elements,
   the dimensions of element i come from entry i of each of them *)
Theorem brain_element_positions_full_vectors : forall xc yc zc x1 y1 z1 x2 y2 z2 freq p,
  load_probe xc yc zc x1 y1 z1 x2 y2 z2 freq = Some p ->
  Forall (fun l => List.length l = List.length xc) [x1; y1; z1; x2; y2; z2] ->
  forall i, i < List.length xc ->
    nth i (bp_dimensions p) (0, 0, 0)%Q =
      (el_dim (nth i xc 0%Q) (nth i x1 0%Q) (nth i x2 0%Q),
       el_dim (nth i yc 0%Q) (nth i y1 0%Q) (nth i y2 0%Q),
       el_dim (nth i zc 0%Q) (nth i z1 0%Q) (nth i z2 0%Q)).
Proof. exact load_probe_spec_full. Qed.

(* [repaired statement: hypotheses relaxed from `2 <= n` and nine vectors of n values to what the
   library accepts: n <> 1 centres, each corner vector of n values or of one] *)
Theorem brain_probe_accepts : forall xc yc zc x1 y1 z1 x2 y2 z2 freq,
  List.length xc <> 1 ->
  Forall (fun l => List.length l = List.length xc) [yc; zc] ->
  Forall (fun l => List.length l = List.length xc \/ List.length l = 1) [x1; y1; z1; x2; y2; z2] ->
  exists p, load_probe xc yc zc x1 y1 z1 x2 y2 z2 freq = Some p.
Proof. exact load_probe_accepts. Qed.

(* ... and nothing else is accepted (new) *)
Theorem brain_probe_accepts_iff : forall xc yc zc x1 y1 z1 x2 y2 z2 freq,
  (exists p, load_probe xc yc zc x1 y1 z1 x2 y2 z2 freq = Some p) <->
  List.length xc <> 1 /\
  Forall (fun l => List.length l = List.length xc) [yc; zc] /\
  Forall (fun l => List.length l = List.length xc \/ List.length l = 1) [x1; y1; z1; x2; y2; z2].
Proof. exact load_probe_accepts_iff. Qed.

(* a one-element array is rejected; the CENTRE vectors do not broadcast (new) *)
Theorem brain_probe_centres_do_not_broadcast : forall xc yc zc x1 y1 z1 x2 y2 z2 freq,
  List.length xc = 1 \/ List.length yc <> List.length xc \/ List.length zc <> List.length xc ->
  load_probe xc yc zc x1 y1 z1 x2 y2 z2 freq = None.
Proof. exact load_probe_one_centre_rejected. Qed.

(* the stored corners of an element of width w centred on c give back w *)
Theorem brain_dimension_centred : forall c w, (0 <= w)%Q ->
  (el_dim c (c - w * (1 # 2)) (c + w * (1 # 2)) == w)%Q.
Proof. exact el_dim_centred. Qed.

(* in general: twice the largest distance from the centre to a stored corner; the order of the
   two corners is irrelevant *)
Theorem brain_dimension_is_twice_max : forall c a b,
  ((2 * (a - c) <= el_dim c a b /\ 2 * (c - a) <= el_dim c a b /\
    2 * (b - c) <= el_dim c a b /\ 2 * (c - b) <= el_dim c a b)%Q /\
   ((el_dim c a b == 2 * (a - c)) \/ (el_dim c a b == 2 * (c - a)) \/
    (el_dim c a b == 2 * (b - c)) \/ (el_dim c a b == 2 * (c - b)))%Q) /\
  (el_dim c a b == el_dim c b a)%Q.
Proof. intros c a b. exact (conj (el_dim_bounds c a b) (el_dim_swap c a b)). Qed.

(* ---- BRAIN loader: the whole frame ------------------------------------------ *)
(* whatever is accepted is a well-formed frame holding the stored data
   [`Some (bf_time fr)` reads `TimeAxis (bf_time fr)` since the repair of time_of_vect; a time
   vector of one sample (StepNaN) never makes a frame: Frame.__init__ rejects the squeezed data] *)
Theorem brain_frame_sound : forall (V : Type) (A : arr2 V) (time : list Q) (tx rx : list Z)
    (fr : brain_frame V),
  load_frame V A time tx rx = Some fr ->
  bf_timetraces fr = load_timetraces V A /\
  bf_tx fr = load_indices tx /\ bf_rx fr = load_indices rx /\
  time_of_vect time = TimeAxis (bf_time fr) /\
  a_cols (bf_timetraces fr) = List.length time /\
  List.length (bf_tx fr) = a_rows (bf_timetraces fr) /\
  List.length (bf_rx fr) = a_rows (bf_timetraces fr) /\
  NoDup (combine (bf_tx fr) (bf_rx fr)).
Proof. exact load_frame_sound. Qed.

(* end to end, file read by scipy (shape (S, N), Fortran order): N timetraces of S samples,
   any capture order without repeated pair, stored 1-based indices, linear time vector:
   accepted, one row per timetrace, samples unchanged, indices - 1, Time(t0, step, S) *)
Theorem brain_frame_scipy_end_to_end : forall (V : Type) (d : V) N S mem t0 step tx rx,
  2 <= N -> 2 <= S -> (0 <= step)%Q -> List.length tx = N -> List.length rx = N ->
  Forall (fun s => (1 <= s <= 4294967296)%Z) tx -> Forall (fun s => (1 <= s <= 4294967296)%Z) rx ->
  NoDup (combine tx rx) ->
  exists fr t0' dt,
    load_frame V (view_scipy V N S mem) (linspaceQ t0 step 0 S) tx rx = Some fr /\
    a_rows (bf_timetraces fr) = N /\ a_cols (bf_timetraces fr) = S /\
    (forall i j, aget V d (bf_timetraces fr) i j = nth (i * S + j) mem d) /\
    bf_tx fr = map (fun s => (s - 1)%Z) tx /\ bf_rx fr = map (fun s => (s - 1)%Z) rx /\
    bf_time fr = (t0', dt, S) /\ (t0' == t0)%Q /\ (dt == step)%Q.
Proof. exact load_frame_scipy. Qed.

(* ... and read by h5py (shape (N, S), C order) *)
Theorem brain_frame_hdf5_end_to_end : forall (V : Type) (d : V) N S mem t0 step tx rx,
  2 <= N -> 2 <= S -> (0 <= step)%Q -> List.length tx = N -> List.length rx = N ->
  Forall (fun s => (1 <= s <= 4294967296)%Z) tx -> Forall (fun s => (1 <= s <= 4294967296)%Z) rx ->
  NoDup (combine tx rx) ->
  exists fr t0' dt,
    load_frame V (view_hdf5 V N S mem) (linspaceQ t0 step 0 S) tx rx = Some fr /\
    a_rows (bf_timetraces fr) = N /\ a_cols (bf_timetraces fr) = S /\
    (forall i j, aget V d (bf_timetraces fr) i j = nth (i * S + j) mem d) /\
    bf_tx fr = map (fun s => (s - 1)%Z) tx /\ bf_rx fr = map (fun s => (s - 1)%Z) rx /\
    bf_time fr = (t0', dt, S) /\ (t0' == t0)%Q /\ (dt == step)%Q.
Proof. exact load_frame_hdf5. Qed.

(* a capture listing a (tx, rx) pair twice is rejected *)
Theorem brain_frame_duplicate_rejected : forall (V : Type) (A : arr2 V) (time : list Q) (tx rx : list Z),
  ~ NoDup (combine (load_indices tx) (load_indices rx)) -> load_frame V A time tx rx = None.
Proof. exact load_frame_duplicate. Qed.

(* ---- non-vacuity (second part) ---------------------------------------------- *)
(* leaves: pyF n = the float n/8, pyI = int, pyS = str, pyN = null (Model/ConfLoad.v `py`).
   Every value below was replayed on the real library (see notes/prover_C20_TIE.md). *)
Local Open Scope Z_scope.

(* {longitudinal_vel: 6300.0, transverse_att: 3.0, longitudinal_att: null, metadata: null}:
   the transverse attenuation is the constant 3.0, the longitudinal one None (NOT swapped) *)
Example conf_material_example :
  py_material_from_conf (Map [("longitudinal_vel", pyF 50400); ("transverse_att", pyF 24);
                              ("longitudinal_att", pyN); ("metadata", pyN)])
  = Ok [("longitudinal_vel", MCfg (pyF 50400)); ("transverse_att", MAtt (Some (AttConstant (PyFloat 24))));
        ("longitudinal_att", MAtt None); ("metadata", MCfg pyN)]
  /\ py_material_from_conf (Map [("longitudinal_vel", pyF 8); ("zzz", pyI 1)]) = Err EType
  /\ py_material_from_conf (Map [("transverse_vel", pyF 8)]) = Err EType
  /\ py_material_from_conf (Map [("longitudinal_vel", pyF 8); ("transverse_att", pyI 3)]) = Err EType
  /\ py_material_from_conf (Map [("longitudinal_vel", pyF 8); ("transverse_att", Map [("value", pyF 24)])]) = Err EType
  /\ py_material_from_conf (pyI 5) = Err EAttr.
Proof. vm_compute. repeat split; reflexivity. Qed.

(* a block in immersion: two different walls (the second with its keys in another order and its
   own y), two different materials *)
Example conf_exam_example :
  py_examination_object_from_conf
    [("frontwall", Map [("xmin", pyF 0); ("xmax", pyF 8); ("z", pyF 16); ("numpoints", pyI 3)]);
     ("backwall", Map [("numpoints", pyI 5); ("z", pyF 40); ("y", pyF 4); ("xmax", pyF 24); ("xmin", pyF (-8))]);
     ("couplant_material", Map [("longitudinal_vel", pyF 8)]);
     ("block_material", Map [("longitudinal_vel", pyF 16); ("transverse_vel", pyF 8)])]
  = Ok (BlockInImmersion
          [("longitudinal_vel", MCfg (pyF 16)); ("transverse_vel", MCfg (pyF 8));
           ("longitudinal_att", MAtt None); ("transverse_att", MAtt None)]
          [("longitudinal_vel", MCfg (pyF 8)); ("longitudinal_att", MAtt None); ("transverse_att", MAtt None)]
          (mkWall [("xmin", pyF 0); ("xmax", pyF 8); ("z", pyF 16); ("numpoints", pyI 3)] "Frontwall")
          (mkWall [("numpoints", pyI 5); ("z", pyF 40); ("y", pyF 4); ("xmax", pyF 24); ("xmin", pyF (-8))] "Backwall")).
Proof. vm_compute. reflexivity. Qed.

(* a block in contact with a null frontwall and under_material; the error cases: no
   block_material, a null wall with all four keys present (immersion: TypeError), a wall that is
   not a mapping, a wall that sets `name`, a wall without its required entries *)
Example conf_exam_contact_and_errors :
  py_examination_object_from_conf
    [("block_material", Map [("longitudinal_vel", pyF 8)]); ("frontwall", pyN); ("under_material", pyN);
     ("backwall", Map [("xmin", pyF 0); ("xmax", pyF 8); ("z", pyF 16); ("numpoints", pyI 3)])]
  = Ok (BlockInContact [("longitudinal_vel", MCfg (pyF 8)); ("longitudinal_att", MAtt None); ("transverse_att", MAtt None)]
          None (Some (mkWall [("xmin", pyF 0); ("xmax", pyF 8); ("z", pyF 16); ("numpoints", pyI 3)] "Backwall")) None)
  /\ py_examination_object_from_conf [("frontwall", Map [("xmin", pyF 0); ("xmax", pyF 8); ("z", pyF 16); ("numpoints", pyI 3)])]
     = Err ENotImplemented
  /\ py_examination_object_from_conf
       [("block_material", Map [("longitudinal_vel", pyF 8)]); ("frontwall", pyN);
        ("backwall", Map [("xmin", pyF 0); ("xmax", pyF 8); ("z", pyF 16); ("numpoints", pyI 3)]);
        ("couplant_material", Map [("longitudinal_vel", pyF 8)])] = Err EType
  /\ py_examination_object_from_conf [("block_material", Map [("longitudinal_vel", pyF 8)]); ("frontwall", pyI 5)] = Err EType
  /\ py_examination_object_from_conf
       [("block_material", Map [("longitudinal_vel", pyF 8)]);
        ("frontwall", Map [("xmin", pyF 0); ("xmax", pyF 8); ("z", pyF 16); ("numpoints", pyI 3); ("name", pyS "x")])] = Err EType
  /\ py_examination_object_from_conf
       [("block_material", Map [("longitudinal_vel", pyF 8)]); ("frontwall", Map [("xmin", pyF 0)])] = Err EType
  /\ py_examination_object_from_conf [("block_material", pyI 5)] = Err EAttr.
Proof. vm_compute. repeat split; reflexivity. Qed.

(* probe_location {standoff: -2.0, angle_deg: 0.0, ref_element: 0}: the integer 0 and the angle
   0.0 still trigger their calls; order set_reference_element, translate_to_point_O, rotate, translate *)
Example conf_probe_example :
  let pr := Map [("frequency", pyF 8000000); ("numx", pyI 3); ("pitch_x", pyF 8); ("numy", pyI 1); ("pitch_y", pyF 8)] in
  let kw := [("frequency", pyF 8000000); ("numx", pyI 3); ("pitch_x", pyF 8); ("numy", pyI 1); ("pitch_y", pyF 8)] in
  py_probe_from_conf [("probe", pr); ("probe_location", Map [("standoff", pyF (-16)); ("angle_deg", pyF 0); ("ref_element", pyI 0)])] true
  = Ok (mkPlan (SrcMatrix kw) [OpSetRef (pyI 0); OpToO; OpRotY (pyF 0); OpTranslateZ (pyF (-16))])
  /\ py_probe_from_conf [("probe", pr)] true = Err EKey
  /\ py_probe_from_conf [("probe", pr)] false = Ok (mkPlan (SrcMatrix kw) [])
  /\ py_probe_from_conf [("probe", pr); ("probe_location", pyS "abc")] true = Ok (mkPlan (SrcMatrix kw) [])
  /\ py_probe_from_conf [("probe", pr); ("probe_location", pyS "xx standoff")] true = Err EType
  /\ py_probe_from_conf [("probe", pr); ("probe_location", pyI 5)] true = Err EType
  /\ py_probe_from_conf [("probe", pr); ("probe_key", pyS "ima_50_MHz_128_1d")] false = Err EAttr
  /\ py_probe_from_conf [("probe_key", pyS "ima_50_MHz_128_1d"); ("probe_location", Map [("ref_element", pyS "mean")])] true
     = Ok (mkPlan (SrcLibrary (pyS "ima_50_MHz_128_1d")) [OpSetRef (pyS "mean"); OpToO])
  /\ py_probe_from_conf [("probe", Map [("numx", pyI 1)]); ("probe_location", Map [])] true = Err EType
  /\ py_probe_from_conf [("probe_location", Map [])] true = Err EKey
  (* keys that are not in the probe library: KeyError; not hashable: TypeError (replayed) *)
  /\ py_probe_from_conf [("probe_key", pyS "zzz")] false = Err EKey
  /\ py_probe_from_conf [("probe_key", pyI 5)] false = Err EKey
  /\ py_probe_from_conf [("probe_key", pyN); ("probe_location", Map [])] true = Err EKey
  /\ py_probe_from_conf [("probe_key", Leaf (PyList [PyStr "ima_50_MHz_128_1d"]))] false = Err EType
  /\ py_probe_from_conf [("probe_key", Map [("a", pyI 1)])] false = Err EType
  /\ py_probe_from_conf [("probe_key", pyS "zzz"); ("probe", pr)] false = Err EAttr
  /\ py_probe_from_conf [("probe_key", pyS "sonaxis_150_MHz_110_1d")] false
     = Ok (mkPlan (SrcLibrary (pyS "sonaxis_150_MHz_110_1d")) []).
Proof. vm_compute. repeat split; reflexivity. Qed.

(* pixel_size [1.0, 3.0, 2.0] with ymax only: x gets 1.0, y gets 3.0 and (0.0, 6.0), z gets 2.0 *)
Example conf_grid_example :
  py_grid_axes_from_conf
    [("grid", Map [("xmin", pyF 0); ("xmax", pyF 16); ("zmin", pyF 0); ("zmax", pyF 32); ("ymax", pyF 48);
                   ("pixel_size", Leaf (PyList [PyFloat 8; PyFloat 24; PyFloat 16]))])]
  = Ok ((pyF 0, pyF 16, PxLeaf (PyFloat 8)), (pyF 0, pyF 48, PxLeaf (PyFloat 24)), (pyF 0, pyF 32, PxLeaf (PyFloat 16)))
  /\ py_grid_from_conf [("grid", Map [("xmin", pyF 0); ("xmax", pyF 16); ("zmin", pyF 0); ("zmax", pyF 32); ("pixel_size", pyF 8)])]
     = Ok [("xmin", pyF 0); ("xmax", pyF 16); ("zmin", pyF 0); ("zmax", pyF 32); ("pixel_size", pyF 8);
           ("ymin", pyF 0); ("ymax", pyF 0)]
  /\ py_grid_axes_from_conf
       [("grid", Map [("xmin", pyF 0); ("xmax", pyF 16); ("zmin", pyF 0); ("zmax", pyF 32);
                      ("pixel_size", Leaf (PyList [PyFloat 8; PyFloat 24]))])] = Err EValue
  /\ py_grid_from_conf [("grid", pyI 5)] = Err EType
  /\ py_grid_from_conf [("grid", Map [("xmin", pyF 0)])] = Err EType
  /\ py_grid_from_conf [("grid", Map [("foo", pyI 1); ("xmin", pyF 0); ("xmax", pyF 16); ("zmin", pyF 0); ("zmax", pyF 32); ("pixel_size", pyF 8)])] = Err EType
  /\ py_grid_from_conf [] = Err EKey.
Proof. vm_compute. repeat split; reflexivity. Qed.

(* frame_from_conf: datafile wins over dataset_name, the delay is kept, both switches on / off;
   the same configuration with its root keys in another order gives the same plan *)
Example conf_frame_example :
  let ld := fun s : frame_src py => match s with FromFile (Leaf (PyStr "a.mat")) => Ok tt | _ => Err ELoad end in
  let pr := Map [("frequency", pyF 8000000); ("numx", pyI 3); ("pitch_x", pyF 8); ("numy", pyI 1); ("pitch_y", pyF 8)] in
  let fr := Map [("datafile", pyS "a.mat"); ("instrument_delay", pyF 16); ("dataset_name", pyS "zz")] in
  let bm := Map [("longitudinal_vel", pyF 8)] in
  let plan := mkFramePlan (FromFile (pyS "a.mat")) (Some (pyF 16))
                (Some (mkPlan (SrcMatrix [("frequency", pyF 8000000); ("numx", pyI 3); ("pitch_x", pyF 8); ("numy", pyI 1); ("pitch_y", pyF 8)]) []))
                (Some (BlockInContact [("longitudinal_vel", MCfg (pyF 8)); ("longitudinal_att", MAtt None); ("transverse_att", MAtt None)] None None None)) in
  py_frame_from_conf ld [("frame", fr); ("probe", pr); ("probe_location", Map []); ("block_material", bm)] true true = Ok plan
  /\ py_frame_from_conf ld [("block_material", bm); ("probe_location", Map []); ("probe", pr); ("frame", fr)] true true = Ok plan
  /\ py_frame_from_conf ld [("frame", Map [("datafile", pyS "a.mat"); ("instrument_delay", pyN)])] false false
     = Ok (mkFramePlan (FromFile (pyS "a.mat")) None None None)
  /\ py_frame_from_conf ld [("frame", Map [("datafile", pyS "a.mat")])] true false = Err EKey
  /\ py_frame_from_conf ld [("frame", Map [("datafile", pyS "a.mat")])] false true = Err ENotImplemented
  /\ py_frame_from_conf ld [("frame", Map [("datafile", pyS "nonexistent.mat")])] false false = Err ELoad
  /\ py_frame_from_conf ld [("frame", Map [("dataset_name", pyS "zz"); ("dataset_item", pyS "a")])] false false = Err EValue
  /\ py_frame_from_conf ld [("frame", Map [("dataset_item", pyS "a")])] false false = Err EKey
  /\ py_frame_from_conf ld [("frame", pyS "a datafile b")] false false = Err EType
  /\ py_frame_from_conf ld [] false false = Err EKey.
Proof. vm_compute. repeat split; reflexivity. Qed.

(* two elements at x = 0, 1 with corners x-1/4, x+1/2 (dimension 2*1/2 = 1), y in [-4, 2]
   (dimension 2*4 = 8), z flat; a one-element array is rejected.  Three elements at x = 0, 1, 2 with
   el_x1 = [1/2] (ONE value, broadcast): x dimensions 1, 1, 3; empty vectors: a probe without
   elements; a CENTRE vector of one value among three: rejected; a corner vector of two values
   among three: rejected (all replayed on the library) *)
Example brain_probe_example :
  let show := option_map (fun p => (bp_locations p, map (fun t => let '(a, b, c) := t in (Qred a, Qred b, Qred c)) (bp_dimensions p), bp_frequency p)) in
  show (load_probe [0; 1] [0; 0] [0; 0] [-1 # 4; 3 # 4] [-4; -4] [0; 0] [1 # 2; 3 # 2] [2; 2] [0; 0] 5000000)%Q
  = Some ([(0, 0, 0); (1, 0, 0)], [(1, 8, 0); (1, 8, 0)], 5000000)%Q
  /\ (load_probe [0] [0] [0] [0] [0] [0] [0] [0] [0] 1)%Q = None
  /\ show (load_probe [0; 1; 2] [0; 0; 0] [0; 0; 0] [1 # 2] [-4; -4; -4] [0; 0; 0] [1 # 2; 3 # 2; 5 # 2] [2; 2; 2] [0; 0; 0] 5000000)%Q
     = Some ([(0, 0, 0); (1, 0, 0); (2, 0, 0)], [(1, 8, 0); (1, 8, 0); (3, 8, 0)], 5000000)%Q
  /\ show (load_probe [0; 1; 2] [0; 0; 0] [0; 0; 0] [1 # 2] [-4] [0] [1] [2] [0] 5000000)%Q
     = Some ([(0, 0, 0); (1, 0, 0); (2, 0, 0)], [(2, 8, 0); (1, 8, 0); (3, 8, 0)], 5000000)%Q
  /\ show (load_probe [] [] [] [] [1] [] [] [] [2] 5000000)%Q = Some ([], [], 5000000%Q)
  /\ (load_probe [0; 1; 2] [0] [0; 0; 0] [0; 1; 2] [0; 0; 0] [0; 0; 0] [0; 1; 2] [0; 0; 0] [0; 0; 0] 1)%Q = None
  /\ (load_probe [0; 1; 2] [0; 0; 0] [0; 0; 0] [0; 1] [0; 0; 0] [0; 0; 0] [0; 1; 2] [0; 0; 0] [0; 0; 0] 1)%Q = None.
Proof. vm_compute. repeat split; reflexivity. Qed.

(* 4 timetraces of 3 samples (2-element FMC) through scipy; and the rejections: a repeated
   (tx, rx) pair, a short tx, a decreasing time vector, a time vector of another length,
   a single timetrace *)
Example brain_frame_example :
  let mem := [0; 1; 2; 3; 4; 5; 6; 7; 8; 9; 10; 11] in
  let show := fun o : option (brain_frame Z) =>
    option_map (fun fr => (map (fun i => map (fun j => aget Z 0 (bf_timetraces fr) i j) [0; 1; 2]%nat) [0; 1; 2; 3]%nat,
                           (let '(a, b, n) := bf_time fr in (Qred a, Qred b, n)), bf_tx fr, bf_rx fr)) o in
  show (load_frame Z (view_scipy Z 4 3 mem) [5; 11 # 2; 6]%Q [1; 1; 2; 2] [1; 2; 1; 2])
  = Some ([[0; 1; 2]; [3; 4; 5]; [6; 7; 8]; [9; 10; 11]], (5, 1 # 2, 3%nat)%Q, [0; 0; 1; 1], [0; 1; 0; 1])
  /\ show (load_frame Z (view_hdf5 Z 4 3 mem) [5; 11 # 2; 6]%Q [1; 1; 2; 2] [1; 2; 1; 2])
     = Some ([[0; 1; 2]; [3; 4; 5]; [6; 7; 8]; [9; 10; 11]], (5, 1 # 2, 3%nat)%Q, [0; 0; 1; 1], [0; 1; 0; 1])
  /\ load_frame Z (view_scipy Z 4 3 mem) [5; 11 # 2; 6]%Q [1; 1; 2; 1] [1; 2; 1; 2] = None
  /\ load_frame Z (view_scipy Z 4 3 mem) [5; 11 # 2; 6]%Q [1; 1; 2] [1; 2; 1] = None
  /\ load_frame Z (view_scipy Z 4 3 mem) [3; 2; 1]%Q [1; 1; 2; 2] [1; 2; 1; 2] = None
  /\ load_frame Z (view_scipy Z 4 3 mem) [3; 2; 1; 0]%Q [1; 1; 2; 2] [1; 2; 1; 2] = None
  /\ load_frame Z (view_scipy Z 1 3 [0; 1; 2]) [5; 11 # 2; 6]%Q [1] [1] = None
  (* one stored sample: Time(5, nan, 1) is built, the frame is rejected all the same *)
  /\ load_frame Z (view_scipy Z 4 1 [0; 1; 2; 3]) [5]%Q [1; 1; 2; 2] [1; 2; 1; 2] = None
  /\ load_frame Z (view_scipy Z 4 3 mem) [5]%Q [1; 1; 2; 2] [1; 2; 1; 2] = None.
Proof. vm_compute. repeat split; reflexivity. Qed.

(* decreasing vector rejected, constant vector accepted with step 0, delay 2 on (5, 1/2, 3);
   one stored sample: Time(3, nan, 1); no sample: rejected (replayed on the library) *)
Example time_of_vect_example :
  let show := fun o => match o with
                       | TimeAxis (a, b, n) => TimeAxis (Qred a, Qred b, n)
                       | o' => o' end in
  time_of_vect [3; 2; 1]%Q = TimeRejected
  /\ show (time_of_vect [3; 3; 3]%Q) = TimeAxis (3, 0, 3%nat)%Q
  /\ match time_of_vect [5; 11 # 2; 6]%Q with
     | TimeAxis t => option_map (fun t => let '(a, b, n) := t in (Qred a, Qred b, n)) (shift_time t 2%Q)
     | _ => None end = Some (3, 1 # 2, 3%nat)%Q
  /\ time_of_vect [3]%Q = StepNaN 3%Q
  /\ time_of_vect [] = TimeRejected.
Proof. vm_compute. repeat split; reflexivity. Qed.
