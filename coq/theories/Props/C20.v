(* Props/C20.v — Configuration merging and file loading are deterministic and lossless.
   Only statements; every proof is `exact <lemma>` (lemmas in Proofs/ConfigProofs.v).
   All theorems are axiom-free ("Closed under the global context").

   Model: Model/Config.v.  A configuration is an association list with Python-dict
   behaviour, compared up to key order (`cfg_equiv`; `cfg_eqb` is the executable
   comparison used by the correspondence, proved sound below).  "Alphabetical" is
   `String.leb`: lexicographic byte order of the file names including ".yaml"
   (= Python's order of pathlib.Path objects with a common parent, for ASCII names).

   NOT covered by these theorems (oracles, sampled by harness/prop_C20.py): YAML
   parsing, which names the directory listing contains, pathlib joining/resolution,
   MAT-file reading, the constructors Grid/Material/Probe themselves; aliasing
   between sub-mappings of one YAML document (anchors) — the model is a tree. *)
From Coq Require Import List String Bool ZArith Permutation QArith.
From Arim Require Import Model.Config Proofs.ConfigProofs Proofs.ConfigTimeProofs.
Import ListNotations.
Local Close Scope Q_scope.
Local Open Scope list_scope.
Local Open Scope string_scope.

(* ---- recursive_dict_merge ------------------------------------------- *)

(* key by key: a key of `top` wins — entirely when either side is not a mapping
   (leaf over leaf, leaf over mapping, mapping over leaf), by recursive merge when both
   are mappings; keys absent from `top` keep the value of `base` (untouched keys
   survive).  `top` is a Python dict: no duplicate keys. *)
Theorem merge_lookup : forall (L : Type) (bm tm : items (cfg L)) k, NoDup (keys tm) ->
  lookup k (merge_map bm tm) =
  match lookup k tm, lookup k bm with
  | Some v, Some b => Some (merge_val b v)
  | Some v, None => Some v
  | None, ob => ob
  end.
Proof. exact merge_map_lookup. Qed.

(* what "merge_val" is on each combination *)
Theorem merge_val_cases : forall (L : Type),
  (forall (b : cfg L) x, merge_val b (Leaf x) = Leaf x) /\
  (forall x (v : cfg L), merge_val (Leaf x) v = v) /\
  (forall bm tm : items (cfg L), merge_val (Map bm) (Map tm) = Map (merge_map bm tm)).
Proof. intros L. exact (conj (merge_val_Leaf_r L) (conj (merge_val_Leaf_l L) (merge_val_Map L))). Qed.

(* merging keeps the dict invariant *)
Theorem merge_wf : forall (L : Type) (bm tm : items (cfg L)), wf_items bm -> wf_items tm ->
  wf_items (merge_map bm tm).
Proof. exact merge_map_wf. Qed.

(* idempotent — syntactically: not even the key order changes *)
Theorem merge_idempotent : forall (L : Type) (bm tm : items (cfg L)), wf_items bm -> wf_items tm ->
  merge_map (merge_map bm tm) tm = merge_map bm tm.
Proof. exact merge_map_idem. Qed.

Theorem merge_self : forall (L : Type) (v : cfg L), wf v -> merge_val v v = v.
Proof. exact merge_val_self. Qed.

(* merge_assoc — (a.b).c = a.(b.c) — is FALSE of the code as written: a leaf between two
   mappings erases the first mapping on the left but not on the right.  Witness
   a = {k: {x: 1}}, b = {k: 5}, c = {k: {y: 2}} : left {k: {y: 2}}, right {k: {x: 1, y: 2}}
   (replayed on arim.config.Config.merge by the harness).  This does not affect the
   property: load_conf is DEFINED as the left fold in alphabetical order (load_conf_is_fold
   below); associativity would only matter if fragments were pre-merged among themselves. *)
Theorem merge_assoc_refuted :
  exists a b c : items (cfg Z), wf_items a /\ wf_items b /\ wf_items c /\
    ~ cfg_equiv (Map (merge_map (merge_map a b) c)) (Map (merge_map a (merge_map b c))).
Proof. exact merge_not_assoc. Qed.

(* ... and it IS associative (as maps) whenever the third operand never puts a mapping where the
   second holds a leaf — the refuting pattern is the only one *)
Theorem merge_assoc_compatible : forall (L : Type) (am bm cm : items (cfg L)),
  wf_items bm -> wf_items cm -> no_map_over_leaf (Map bm) (Map cm) ->
  cfg_equiv (Map (merge_map (merge_map am bm) cm)) (Map (merge_map am (merge_map bm cm))).
Proof. exact merge_map_assoc. Qed.

(* deterministic as a MAP: the order in which keys are written in the files (dict order) never
   influences the merged configuration up to key order *)
Theorem merge_respects_key_order : forall (L : Type) (bm bm' tm tm' : items (cfg L)),
  wf_items tm -> wf_items tm' ->
  cfg_equiv (Map bm) (Map bm') -> cfg_equiv (Map tm) (Map tm') ->
  cfg_equiv (Map (merge_map bm tm)) (Map (merge_map bm' tm')).
Proof. exact merge_map_equiv. Qed.

(* ---- alphabetical order --------------------------------------------- *)
Theorem alphabetical_is_total_order :
  (forall a b, sle a b \/ sle b a) /\ (forall a b, sle a b -> sle b a -> a = b) /\
  (forall a b c, sle a b -> sle b c -> sle a c).
Proof. exact (conj sle_total (conj sle_antisym sle_trans)). Qed.

Theorem sort_names_is_sorted_permutation : forall l,
  Permutation (sort_names l) l /\ Sorting.Sorted.StronglySorted sle (sort_names l).
Proof. intros l. exact (conj (sort_names_perm l) (sort_names_sorted l)). Qed.

(* sorting any permutation of the listing gives the same list *)
Theorem sort_perm_canonical : forall l l', Permutation l l' -> sort_names l = sort_names l'.
Proof. exact sort_names_canonical. Qed.

(* ---- load_conf -------------------------------------------------------- *)

(* whatever order Path.glob lists the fragments in (any permutation of the names), the
   loaded configuration is the base merged with the fragments in alphabetical order *)
Theorem load_order_independent : forall (L : Type) (read : string -> option (items (cfg L)))
    base_file names listing, Permutation names listing ->
  load_fragments L read base_file listing =
  match base_conf L base_file with
  | Some b => merge_files L read b (sort_names names)
  | None => None
  end.
Proof. exact load_fragments_perm. Qed.

(* ... and so is the complete result of load_conf (extra keys, resolved file names) *)
Theorem load_conf_order_independent : forall (L : Type) (read : string -> option (items (cfg L)))
    ds root isn rd jp tg rf base_file listing listing', Permutation listing listing' ->
  load_conf L read ds root isn rd jp tg rf base_file listing =
  load_conf L read ds root isn rd jp tg rf base_file listing'.
Proof. exact load_conf_perm. Qed.

(* when every fragment is a mapping the result is the left fold of the merge *)
Theorem load_conf_is_fold : forall (L : Type) (read : string -> option (items (cfg L)))
    order base (frag : string -> items (cfg L)),
  (forall n, In n order -> read n = Some (frag n)) ->
  merge_files L read base order = Some (fold_left (fun c n => merge_map c (frag n)) order base).
Proof. exact merge_files_ok. Qed.

(* a fragment that is not a mapping makes the load fail, wherever it is listed *)
Theorem load_conf_bad_fragment : forall (L : Type) (read : string -> option (items (cfg L)))
    order base n, In n order -> read n = None -> merge_files L read base order = None.
Proof. exact merge_files_bad. Qed.

(* the extra keys replace nothing else, and _resolve_filenames loses nothing: same
   keys in the same order, each value resolved (joined path under a target key,
   recursive resolution otherwise; leaves elsewhere unchanged) *)
Theorem extra_keys_lossless : forall (L : Type) ds root isn rd (c c' : items (cfg L)) k,
  add_extra L ds root isn rd c = Some c' ->
  k <> "dataset_name" -> k <> "root_dir" -> k <> "result_dir" -> lookup k c' = lookup k c.
Proof. exact add_extra_lookup. Qed.

Theorem resolve_filenames_lossless : forall (L : Type) (jp : L -> option L) tg (m m' : items (cfg L)),
  resolve_items L jp tg (resolve L jp tg) m = Some m' ->
  keys m' = keys m /\
  forall k, lookup k m' = match lookup k m with
                          | Some v => resolve_entry L jp tg (resolve L jp tg) k v
                          | None => None
                          end.
Proof. exact resolve_items_spec. Qed.

Theorem resolve_filenames_identity_without_targets : forall (L : Type) (jp : L -> option L) tg,
  (forall k, tg k = false) -> forall c : cfg L, resolve L jp tg c = Some c.
Proof. exact resolve_no_target. Qed.

(* the executable comparison used by the correspondence decides equality up to key order *)
Theorem cfg_eqb_decides_equiv : forall (L : Type) (leqb : L -> L -> bool),
  (forall a b, leqb a b = true -> a = b) ->
  forall c1 c2 : cfg L, wfb c1 = true -> wfb c2 = true -> cfg_eqb leqb c1 c2 = true -> cfg_equiv c1 c2.
Proof.
  intros L leqb Hs c1 c2 H1 H2.
  exact (cfg_eqb_sound L leqb Hs c1 c2 (wfb_sound L c1 H1) (wfb_sound L c2 H2)).
Qed.

(* ---- builders --------------------------------------------------------- *)
(* grid_from_conf: every configured key reaches Grid(...) unchanged; ymin / ymax default to 0 *)
Theorem grid_defaults : forall (V : Type) (k : string) (d : V) m k',
  lookup k' (with_default k d m) =
  if String.eqb k' k then match lookup k m with Some v => Some v | None => Some d end
  else lookup k' m.
Proof. exact with_default_lookup. Qed.

(* ---- BRAIN loader ----------------------------------------------------- *)
(* tx, rx: stored 1-based index -> stored - 1, position by position *)
Theorem brain_indices : forall stored, Forall (fun s => (1 <= s <= 4294967296)%Z) stored ->
  load_indices stored = map (fun s => (s - 1)%Z) stored /\
  List.length (load_indices stored) = List.length stored.
Proof. intros stored H. exact (conj (load_indices_spec stored H) (load_indices_length stored)). Qed.

(* one row per timetrace for either storage orientation: if the S samples of timetrace i are
   consecutive in the buffer (mem[i*S + j]), the loaded array has shape (N, S) and
   row i is timetrace i — through scipy (shape (S, N), Fortran order) ... *)
Theorem brain_rows_scipy : forall (V : Type) (d : V) N S mem,
  let T := load_timetraces V (view_scipy V N S mem) in
  a_rows T = N /\ a_cols T = S /\ forall i j, aget V d T i j = nth (i * S + j) mem d.
Proof. exact load_scipy. Qed.
(* ... and through h5py (shape (N, S), C order) *)
Theorem brain_rows_hdf5 : forall (V : Type) (d : V) N S mem, 2 <= N -> 2 <= S ->
  let T := load_timetraces V (view_hdf5 V N S mem) in
  a_rows T = N /\ a_cols T = S /\ forall i j, aget V d T i j = nth (i * S + j) mem d.
Proof. exact load_hdf5. Qed.

(* time axis: a linearly spaced stored vector t0 + k*step (k < n, n >= 2) is loaded as
   Time(start = t0, step = step, num = n) — exact rational arithmetic *)
Theorem time_from_vect_linear : forall t0 step n, 2 <= n ->
  exists t0' avg, time_from_vect (linspaceQ t0 step 0 n) = Some (t0', avg, n) /\ (t0' == t0)%Q /\ (avg == step)%Q.
Proof. exact time_from_vect_linspace. Qed.

(* ---- non-vacuity ------------------------------------------------------ *)
Example merge_example :
  merge_map [("a", Leaf 1%Z); ("p", Map [("x", Leaf 1%Z); ("y", Leaf 2%Z)]); ("q", Map [("z", Leaf 0%Z)])]
            [("p", Map [("y", Leaf 20%Z); ("w", Leaf 30%Z)]); ("q", Leaf 7%Z); ("b", Leaf 2%Z)]
  = [("a", Leaf 1%Z); ("p", Map [("x", Leaf 1%Z); ("y", Leaf 20%Z); ("w", Leaf 30%Z)]); ("q", Leaf 7%Z); ("b", Leaf 2%Z)].
Proof. vm_compute. reflexivity. Qed.

Example compatible_example :
  no_map_over_leaf (Map [("k", Map [("x", Leaf 1%Z)]); ("j", Leaf 2%Z)])
                   (Map [("k", Map [("y", Leaf 2%Z)]); ("j", Leaf 3%Z); ("n", Map [])])
  /\ ~ no_map_over_leaf (Map [("k", Leaf 5%Z)]) (Map [("k", Map [("y", Leaf 2%Z)])]).
Proof. cbn. tauto. Qed.

(* prefix relations, case, digits: '-' < '.' < '0'..'9' < 'A'..'Z' < '_' < 'a'..'z' *)
Example sort_example :
  sort_names ["aa.yaml"; "a_b.yaml"; "a.yaml"; "B.yaml"; "9_x.yaml"; "10_x.yaml"; "a-b.yaml"; "_.yaml"]
  = ["10_x.yaml"; "9_x.yaml"; "B.yaml"; "_.yaml"; "a-b.yaml"; "a.yaml"; "a_b.yaml"; "aa.yaml"].
Proof. vm_compute. reflexivity. Qed.

(* finding F3 of DESIGN §6 (listing order 10_, 05_, 30_, 20_): the repaired code gives a = 30 *)
Example load_example :
  load_fragments Z
    (fun n => if String.eqb n "05_x.yaml" then Some [("a", Leaf 5%Z)]
              else if String.eqb n "10_x.yaml" then Some [("a", Leaf 10%Z)]
              else if String.eqb n "20_x.yaml" then Some [("a", Leaf 20%Z)]
              else if String.eqb n "30_x.yaml" then Some [("a", Leaf 30%Z)] else None)
    (Some (Some [("a", Leaf 0%Z); ("b", Leaf 1%Z)]))
    ["10_x.yaml"; "05_x.yaml"; "30_x.yaml"; "20_x.yaml"]
  = Some [("a", Leaf 30%Z); ("b", Leaf 1%Z)].
Proof. vm_compute. reflexivity. Qed.

(* 3 timetraces of 2 samples, buffer t0s0 t0s1 t1s0 t1s1 t2s0 t2s1, seen through scipy *)
Example brain_example :
  let T := load_timetraces Z (view_scipy Z 3 2 [10; 11; 20; 21; 30; 31]%Z) in
  map (fun i => map (fun j => aget Z 0%Z T i j) [0; 1]) [0; 1; 2] = [[10; 11]; [20; 21]; [30; 31]]%Z
  /\ load_indices [1; 1; 2; 3]%Z = [0; 0; 1; 2]%Z.
Proof. vm_compute. split; reflexivity. Qed.

Example time_example :
  match time_from_vect [5 # 1; 11 # 2; 6 # 1; 13 # 2]%Q with
  | Some (t0, dt, n) => Qeq_bool t0 (5 # 1) && Qeq_bool dt (1 # 2) && Nat.eqb n 4
  | None => false
  end = true
  /\ time_from_vect [5 # 1; 11 # 2; 7 # 1]%Q = None.
Proof. vm_compute. split; reflexivity. Qed.
