(* Props/C08.v — Model coefficients are assembled as Q_i * Q'_j * S(theta_i - a, theta_j - a).
   Statements only (proofs: Proofs/AmplitudesWeightsProofs.v for the ray weights and the laws of
   their factors, Proofs/AmplitudesProofs.v for the index plumbing of the two ModelAmplitudes
   classes and the sensitivities).  Model: Model/Amplitudes.v on top of Model/Weights.v,
   Model/Beamspread.v, Model/ScatMatrix.v, Model/Chunk.v.

   Reading guide
     tx_ray_weights N use_dir use_tr use_bs use_att width frequency couplant ray
         = Some (weights, (directivity, transrefl, beamspread, attenuation))   | None (raises)
     product4 N d t b a = cre d * t * cre b * cre a   (complex product in the code's order)
     getitem_fn / getitem_mat : ModelAmplitudes.__getitem__ of the two classes, on the list of
         selected grid indices; spec_amp : the index-level definition
         P[p][k] = S(Ttx[tx_k][G_p] - a, Trx[rx_k][G_p] - a) * Qtx[tx_k][G_p] * Qrx[rx_k][G_p]
         in the (element, grid) layout of RayWeights, None when an index is out of range.
   Section 5 (proofs: Proofs/PipelineProofs.v, model: Model/Pipeline.v): the public multi-frequency
   entry points ray_weights_for_views, scat_unshifted_transfer_functions, timeshift_spectra,
   singlefreq_/multifreq_scat_transfer_functions.  Paths are keys into a table `paths`; a view is
   (key of tx path, key of rx path, scat key); H[s][t][b] is get3 H s t b (scatterer, timetrace, bin).
   Not covered by theorems (only by the correspondence): numpy's expansion of slices / Ellipsis /
   masks into index lists, dtype promotion, the physical content of the transmission-reflection
   and beamspread factors (C04, C06, C07), floating-point rounding. *)
From Coq Require Import List ZArith Bool Arith Reals QArith.
From Coquelicot Require Import Complex.
From Arim Require Import Base.Num Base.NumR Base.NumQ Model.Interface Model.Weights Model.Beamspread
                         Model.ScatMatrix Model.Chunk Model.Amplitudes Model.Pipeline Model.Dft
                         Proofs.BeamspreadProofs Proofs.AmplitudesProofs Proofs.AmplitudesWeightsProofs
                         Proofs.PipelineProofs.
Import ListNotations.
Local Close Scope Q_scope.   (* QArith opens it *)

(* ===== 1. ray weights ====================================================================== *)

(* weights = directivity * transrefl * beamspread * attenuation, whatever the switches (a
   disabled factor is returned as one): over the reals this is the complex transmission-
   reflection coefficient scaled by the three real factors *)
Theorem weights_factorise_tx : forall ud ut ub ua width f couplant r w d t b a,
  tx_ray_weights NumR ud ut ub ua width f couplant r = Some (w, (d, t, b, a)) ->
  w = product4 NumR d t b a /\ w = ((d * b * a) * fst t, (d * b * a) * snd t)%R.
Proof. exact weights_factorise_tx_R. Qed.

(* receive: the same with the reverse terms, times sqrt(wavelength of the LAST leg's mode in the block) *)
Theorem weights_factorise_rx : forall ud ut ub ua width f couplant block r w d t b a,
  rx_ray_weights NumR ud ut ub ua width f couplant block r = Some (w, (d, t, b, a)) ->
  let lam := (fst (velocity block (r_lastmode r)) / f)%R in
  w = nmul (NumC NumR) (product4 NumR d t b a) (cre NumR (sqrt lam)) /\
  w = ((d * b * a * sqrt lam) * fst t, (d * b * a * sqrt lam) * snd t)%R.
Proof. exact weights_factorise_rx_R. Qed.

(* what each returned factor is: the function the code calls when the switch is on *)
Theorem weights_factors_tx : forall (T : Type) (N : Num T) ud ut ub ua width f couplant r w d t b a,
  tx_ray_weights N ud ut ub ua width f couplant r = Some (w, (d, t, b, a)) ->
  w = tx_weight N ud ut ub ua d t b a /\
  dir_factor N ud width f couplant r d /\
  tr_factor N ut (transrefl_for_path (NumC N) Displacement (r_ifaces r)) t /\
  bs_factor N ub (beamspread N (r_vels r) (r_legs r) (r_thetas r)) b /\
  att_factor N ua f r a.
Proof. intros T N ud ut ub ua width f couplant r w d t b a H. exact (tx_ray_weights_inv N ud ut ub ua width f couplant r w d t b a H). Qed.

Theorem weights_factors_rx : forall (T : Type) (N : Num T) ud ut ub ua width f couplant block r w d t b a,
  rx_ray_weights N ud ut ub ua width f couplant block r = Some (w, (d, t, b, a)) ->
  w = rx_weight N ud ut ub ua d t b a (wavelength_in_block N block (r_lastmode r) f) /\
  dir_factor N ud width f couplant r d /\
  tr_factor N ut (reverse_transrefl_for_path (NumC N) Displacement (r_ifaces r)) t /\
  bs_factor N ub (reverse_beamspread N (r_vels r) (r_legs r) (r_thetas r)) b /\
  att_factor N ua f r a.
Proof. intros T N ud ut ub ua width f couplant block r w d t b a H. exact (rx_ray_weights_inv N ud ut ub ua width f couplant block r w d t b a H). Qed.

(* switching off: for EACH of the 16 switch sets the enabled factors are those of the
   all-enabled call, the disabled ones are exactly one, and the weights are their product *)
Theorem switch_off_is_one_tx : forall (T : Type) (N : Num T) width f couplant r w1 d t b a,
  tx_ray_weights N true true true true width f couplant r = Some (w1, (d, t, b, a)) ->
  forall ud ut ub ua,
  tx_ray_weights N ud ut ub ua width f couplant r
  = Some (product4 N (switch ud d (n1 N)) (switch ut t (cre N (n1 N))) (switch ub b (n1 N)) (switch ua a (n1 N)),
          (switch ud d (n1 N), switch ut t (cre N (n1 N)), switch ub b (n1 N), switch ua a (n1 N))).
Proof. intros T N width f couplant r w1 d t b a H. exact (switch_sets_tx N width f couplant r w1 d t b a H). Qed.

Theorem switch_off_is_one_rx : forall (T : Type) (N : Num T) width f couplant block r w1 d t b a,
  rx_ray_weights N true true true true width f couplant block r = Some (w1, (d, t, b, a)) ->
  forall ud ut ub ua,
  rx_ray_weights N ud ut ub ua width f couplant block r
  = Some (nmul (NumC N)
            (product4 N (switch ud d (n1 N)) (switch ut t (cre N (n1 N))) (switch ub b (n1 N)) (switch ua a (n1 N)))
            (cre N (nsqrt N (wavelength_in_block N block (r_lastmode r) f))),
          (switch ud d (n1 N), switch ut t (cre N (n1 N)), switch ub b (n1 N), switch ua a (n1 N))).
Proof. intros T N width f couplant block r w1 d t b a H. exact (switch_sets_rx N width f couplant block r w1 d t b a H). Qed.

(* ... and in ANY successful call (also when the all-enabled call would raise, e.g. no element
   width given) a disabled factor is exactly one *)
Theorem disabled_factor_is_one_tx : forall (T : Type) (N : Num T) ud ut ub ua width f couplant r w d t b a,
  tx_ray_weights N ud ut ub ua width f couplant r = Some (w, (d, t, b, a)) ->
  (ud = false -> d = n1 N) /\ (ut = false -> t = cre N (n1 N)) /\ (ub = false -> b = n1 N) /\ (ua = false -> a = n1 N).
Proof. intros T N ud ut ub ua width f couplant r w d t b a H. exact (off_is_one_tx N ud ut ub ua width f couplant r w d t b a H). Qed.

Theorem disabled_factor_is_one_rx : forall (T : Type) (N : Num T) ud ut ub ua width f couplant block r w d t b a,
  rx_ray_weights N ud ut ub ua width f couplant block r = Some (w, (d, t, b, a)) ->
  (ud = false -> d = n1 N) /\ (ut = false -> t = cre N (n1 N)) /\ (ub = false -> b = n1 N) /\ (ua = false -> a = n1 N).
Proof. intros T N ud ut ub ua width f couplant block r w d t b a H. exact (off_is_one_rx N ud ut ub ua width f couplant block r w d t b a H). Qed.

(* ===== 2. laws of the factors ================================================================ *)
Local Open Scope R_scope.

(* sinc(a sin(theta)/lambda), numpy's normalised sinc: sin(pi x)/(pi x), 1 at x = 0 *)
Theorem directivity_law : forall theta width lam,
  directivity NumR theta width lam = sinc_pi (width / lam * sin theta).
Proof. exact directivity_R. Qed.

Theorem directivity_at_zero : forall width lam, directivity NumR 0 width lam = 1.
Proof. exact directivity_zero_angle. Qed.

Theorem directivity_symmetric : forall theta width lam,
  directivity NumR (- theta) width lam = directivity NumR theta width lam.
Proof. exact directivity_even. Qed.

Theorem directivity_bounded : forall theta width lam, Rabs (directivity NumR theta width lam) <= 1.
Proof. exact directivity_bound. Qed.

Theorem directivity_null : forall theta width lam, lam <> 0 -> width * sin theta = lam ->
  directivity NumR theta width lam = 0.
Proof. exact directivity_first_null. Qed.

(* exp(-sum alpha_k d_k): a leg whose material has no attenuation for its mode contributes nothing *)
Theorem attenuation_law : forall atts legs, attenuation NumR atts legs = exp (- att_sum atts legs).
Proof. exact attenuation_R. Qed.

Theorem attenuation_sum_unattenuated_leg : forall atts d legs, att_sum (None :: atts) (d :: legs) = att_sum atts legs.
Proof. exact att_sum_none. Qed.

Theorem attenuation_sum_attenuated_leg : forall al atts d legs,
  att_sum (Some al :: atts) (d :: legs) = al * d + att_sum atts legs.
Proof. exact att_sum_some. Qed.

Theorem attenuation_without_laws_is_one : forall legs, attenuation NumR (map (fun _ => None) legs) legs = 1.
Proof. exact attenuation_no_law. Qed.

Theorem attenuation_in_unit_interval : forall atts legs,
  Forall (fun a => match a with None => True | Some al => 0 <= al end) atts -> Forall (fun d => 0 <= d) legs ->
  0 < attenuation NumR atts legs <= 1.
Proof. exact attenuation_range. Qed.

(* material_attenuation_factory: "constant" ignores the frequency; "polynomial" is
   sum_k c_k (f / 1e6)^k; an empty coefficient list is rejected *)
Theorem attenuation_constant_law : forall v f, att_eval NumR (AttConstant v) f = Some v.
Proof. exact att_eval_constant. Qed.

Theorem attenuation_polynomial_law : forall cs f, cs <> [] ->
  att_eval NumR (AttPolynomial cs) f = Some (power_sum cs (f / 1000000) 0).
Proof. exact att_eval_polynomial. Qed.

Theorem attenuation_polynomial_empty_rejected : forall f, att_eval NumR (AttPolynomial []) f = None.
Proof. exact att_eval_polynomial_empty. Qed.

Local Close Scope R_scope.

(* ===== 3. the two ModelAmplitudes classes ==================================================== *)

(* for ALL tx / rx lists of equal length (repeated, partial, any order, negative), every list G of
   grid indices, every rotation a and every numeric instance: both classes ARE the index-level
   definition, including when they raise *)
Theorem amplitude_indexing_fn : forall (T : Type) (N : Num T) (S : T -> T -> T * T)
    tx rx ne ng Qtx Qrx Ttx Trx a o G,
  length tx = length rx ->
  factory tx rx ne ng Qtx Qrx Ttx Trx a = Some o ->
  getitem_fn N S o G = spec_amp N S a ne ng Qtx Qrx Ttx Trx tx rx G.
Proof. intros T N S tx rx ne ng Qtx Qrx Ttx Trx a o G H1 H2. exact (getitem_fn_is_spec N S tx rx ne ng Qtx Qrx Ttx Trx a o G H1 H2). Qed.

Theorem amplitude_indexing_mat : forall (T : Type) (N : Num T) (P : T) (M : list (list (T * T)))
    tx rx ne ng Qtx Qrx Ttx Trx a o G,
  mat_ok M = true -> length tx = length rx ->
  factory tx rx ne ng Qtx Qrx Ttx Trx a = Some o ->
  getitem_mat N P M o G = spec_amp N (interp_c N P M) a ne ng Qtx Qrx Ttx Trx tx rx G.
Proof. intros T N P M tx rx ne ng Qtx Qrx Ttx Trx a o G H0 H1 H2. exact (getitem_mat_is_spec N P M tx rx ne ng Qtx Qrx Ttx Trx a o G H0 H1 H2). Qed.

(* the factory succeeds exactly on four arrays of one shape (numelements, numgridpoints) *)
Theorem factory_defined : forall (T : Type) tx rx ne ng (Qtx Qrx : list (list (T * T))) (Ttx Trx : list (list T)) a,
  has_shape ne ng Qtx = true -> has_shape ne ng Qrx = true -> has_shape ne ng Ttx = true -> has_shape ne ng Trx = true ->
  exists o, factory tx rx ne ng Qtx Qrx Ttx Trx a = Some o.
Proof. intros T tx rx ne ng Qtx Qrx Ttx Trx a H1 H2 H3 H4. exact (factory_some tx rx ne ng Qtx Qrx Ttx Trx a H1 H2 H3 H4). Qed.

(* entry-wise reading of the definition (nth-characterisation):
   P[p][k] = S(Ttx[i][g] - a, Trx[j][g] - a) * Qtx[i][g] * Qrx[j][g],
   g = G[p], i = tx[k], j = rx[k] after normalisation of negative indices *)
Theorem amplitude_entries : forall (T : Type) (N : Num T) (S : T -> T -> T * T) a ne ng Qtx Qrx Ttx Trx tx rx G P,
  spec_amp N S a ne ng Qtx Qrx Ttx Trx tx rx G = Some P ->
  length P = length G /\
  forall p zg, nth_error G p = Some zg ->
    exists g row, norm_index ng zg = Some g /\ nth_error P p = Some row /\
      length row = length (combine tx rx) /\
      forall k zi zj, nth_error tx k = Some zi -> nth_error rx k = Some zj ->
        exists i j q q' th th',
          norm_index ne zi = Some i /\ norm_index ne zj = Some j /\
          get2 Qtx i g = Some q /\ get2 Qrx j g = Some q' /\ get2 Ttx i g = Some th /\ get2 Trx j g = Some th' /\
          nth_error row k = Some (model_amplitude N S a q q' th th').
Proof. intros T N S a ne ng Qtx Qrx Ttx Trx tx rx G P H. exact (spec_amp_sound N S a ne ng Qtx Qrx Ttx Trx tx rx G P H). Qed.

(* defined for all in-range indices ... *)
Theorem amplitude_defined : forall (T : Type) (N : Num T) (S : T -> T -> T * T) a ne ng Qtx Qrx Ttx Trx tx rx G,
  has_shape ne ng Qtx = true -> has_shape ne ng Qrx = true -> has_shape ne ng Ttx = true -> has_shape ne ng Trx = true ->
  Forall (valid_index ng) G -> Forall (valid_index ne) tx -> Forall (valid_index ne) rx ->
  exists P, spec_amp N S a ne ng Qtx Qrx Ttx Trx tx rx G = Some P.
Proof.
  intros T N S a ne ng Qtx Qrx Ttx Trx tx rx G H1 H2 H3 H4 H5 H6 H7.
  exact (spec_amp_total N S a ne ng Qtx Qrx Ttx Trx tx rx G H1 H2 H3 H4 H5 H6 H7).
Qed.

(* ... and an IndexError otherwise *)
Theorem amplitude_grid_index_error : forall (T : Type) (N : Num T) (S : T -> T -> T * T) a ne ng Qtx Qrx Ttx Trx tx rx G zg,
  In zg G -> ~ valid_index ng zg -> spec_amp N S a ne ng Qtx Qrx Ttx Trx tx rx G = None.
Proof. intros T N S a ne ng Qtx Qrx Ttx Trx tx rx G zg H1 H2. exact (spec_amp_bad_grid N S a ne ng Qtx Qrx Ttx Trx tx rx G zg H1 H2). Qed.

Theorem amplitude_element_index_error : forall (T : Type) (N : Num T) (S : T -> T -> T * T) a ne ng Qtx Qrx Ttx Trx tx rx G zg k zi zj,
  In zg G -> nth_error tx k = Some zi -> nth_error rx k = Some zj ->
  ~ valid_index ne zi \/ ~ valid_index ne zj ->
  spec_amp N S a ne ng Qtx Qrx Ttx Trx tx rx G = None.
Proof.
  intros T N S a ne ng Qtx Qrx Ttx Trx tx rx G zg k zi zj H1 H2 H3 H4.
  exact (spec_amp_bad_element N S a ne ng Qtx Qrx Ttx Trx tx rx G zg k zi zj H1 H2 H3 H4).
Qed.

(* the matrix class equals the function class applied to the bilinear interpolant of the matrix
   (ScatMatrix.interp of C10 on real and imaginary parts) *)
Theorem matrix_eq_function : forall (T : Type) (N : Num T) (P : T) (M : list (list (T * T)))
    tx rx ne ng Qtx Qrx Ttx Trx a o G,
  mat_ok M = true -> length tx = length rx ->
  factory tx rx ne ng Qtx Qrx Ttx Trx a = Some o ->
  getitem_mat N P M o G = getitem_fn N (interp_c N P M) o G.
Proof. intros T N P M tx rx ne ng Qtx Qrx Ttx Trx a o G H0 H1 H2. exact (getitem_mat_eq_fn N P M tx rx ne ng Qtx Qrx Ttx Trx a o G H0 H1 H2). Qed.

(* ===== 4. sensitivities ========================================================================= *)

(* the chunked loop of both sensitivity functions, for ANY object whose indexing is pointwise in
   the grid index: every block size >= 1 (also larger than the grid) gives the unchunked result *)
Theorem sensitivity_loop_chunk_independent : forall (T V : Type)
    (getitem : list Z -> option (list (list (T * T)))) (rowP : Z -> option (list (T * T))),
  (forall G, getitem G = mapM rowP G) ->
  forall (f : list (T * T) -> V) (zero : V) (n b : nat), 1 <= b -> 1 <= n ->
  sens_loop getitem f zero n b = spec_sensitivity getitem f n.
Proof. intros T V getitem rowP H f zero n b Hb Hn. exact (sens_loop_unchunked getitem rowP H f zero n b Hb Hn). Qed.

(* both functions, both classes: equal to (weighted sum over the timetraces of P[all points]) /
   numtimetraces, whatever the block size *)
Theorem sensitivity_chunk_independent_uniform_fn : forall (T : Type) (N : Num T) tx rx ne ng Qtx Qrx Ttx Trx a o,
  length tx = length rx -> factory tx rx ne ng Qtx Qrx Ttx Trx a = Some o ->
  forall (S : T -> T -> T * T) w b, 1 <= b -> 1 <= ng ->
  sensitivity_uniform_tfm N (getitem_fn N S o) ng (length tx) w b
  = if length w =? length tx then
      omap (map (fun row => ndiv (NumC N) (wsum_uniform N w row) (cre N (nofnat N (length tx)))))
           (getitem_fn N S o (map Z.of_nat (seq 0 ng)))
    else None.
Proof. intros T N tx rx ne ng Qtx Qrx Ttx Trx a o H1 H2. exact (sensitivity_uniform_fn_unchunked N tx rx ne ng Qtx Qrx Ttx Trx a o H1 H2). Qed.

Theorem sensitivity_chunk_independent_assisted_fn : forall (T : Type) (N : Num T) tx rx ne ng Qtx Qrx Ttx Trx a o,
  length tx = length rx -> factory tx rx ne ng Qtx Qrx Ttx Trx a = Some o ->
  forall (S : T -> T -> T * T) w b, 1 <= b -> 1 <= ng ->
  sensitivity_model_assisted_tfm N (getitem_fn N S o) ng (length tx) w b
  = if length w =? length tx then
      omap (map (fun row => ndiv N (wsum_assisted N w row) (nofnat N (length tx))))
           (getitem_fn N S o (map Z.of_nat (seq 0 ng)))
    else None.
Proof. intros T N tx rx ne ng Qtx Qrx Ttx Trx a o H1 H2. exact (sensitivity_assisted_fn_unchunked N tx rx ne ng Qtx Qrx Ttx Trx a o H1 H2). Qed.

Theorem sensitivity_chunk_independent_uniform_mat : forall (T : Type) (N : Num T) tx rx ne ng Qtx Qrx Ttx Trx a o,
  length tx = length rx -> factory tx rx ne ng Qtx Qrx Ttx Trx a = Some o ->
  forall (P : T) (M : list (list (T * T))) w b, mat_ok M = true -> 1 <= b -> 1 <= ng ->
  sensitivity_uniform_tfm N (getitem_mat N P M o) ng (length tx) w b
  = if length w =? length tx then
      omap (map (fun row => ndiv (NumC N) (wsum_uniform N w row) (cre N (nofnat N (length tx)))))
           (getitem_mat N P M o (map Z.of_nat (seq 0 ng)))
    else None.
Proof. intros T N tx rx ne ng Qtx Qrx Ttx Trx a o H1 H2. exact (sensitivity_uniform_mat_unchunked N tx rx ne ng Qtx Qrx Ttx Trx a o H1 H2). Qed.

Theorem sensitivity_chunk_independent_assisted_mat : forall (T : Type) (N : Num T) tx rx ne ng Qtx Qrx Ttx Trx a o,
  length tx = length rx -> factory tx rx ne ng Qtx Qrx Ttx Trx a = Some o ->
  forall (P : T) (M : list (list (T * T))) w b, mat_ok M = true -> 1 <= b -> 1 <= ng ->
  sensitivity_model_assisted_tfm N (getitem_mat N P M o) ng (length tx) w b
  = if length w =? length tx then
      omap (map (fun row => ndiv N (wsum_assisted N w row) (nofnat N (length tx))))
           (getitem_mat N P M o (map Z.of_nat (seq 0 ng)))
    else None.
Proof. intros T N tx rx ne ng Qtx Qrx Ttx Trx a o H1 H2. exact (sensitivity_assisted_mat_unchunked N tx rx ne ng Qtx Qrx Ttx Trx a o H1 H2). Qed.

(* ===== 5. the public multi-frequency entry points ================================================= *)

(* ----- 5.1 ray_weights_for_views ----- *)

(* one entry per distinct path of the views *)
Theorem ray_weights_one_entry_per_path : forall (T : Type) (N : Num T) paths views frequency width
    use_directivity use_beamspread use_transrefl use_attenuation rw,
  ray_weights_for_views N paths views frequency width use_directivity use_beamspread use_transrefl use_attenuation = Some rw ->
  map e_path rw = nodup Nat.eq_dec (map v_tx views ++ map v_rx views) /\ NoDup (map e_path rw).
Proof. intros T N paths views frequency width ud ub ut ua rw H. exact (rwfv_paths N paths views frequency width ud ub ut ua rw H). Qed.

(* which path of a view gets which weights: its tx path the TRANSMIT weights, its rx path the RECEIVE
   weights, every ray with the caller's frequency, width and switches, each switch reaching its own factor
   (tx_ray_weights / rx_ray_weights take them in the order directivity, transrefl, beamspread, attenuation);
   the scattering angles of both paths *)
Theorem ray_weights_of_a_view : forall (T : Type) (N : Num T) paths views frequency width
    use_directivity use_beamspread use_transrefl use_attenuation rw v,
  ray_weights_for_views N paths views frequency width use_directivity use_beamspread use_transrefl use_attenuation = Some rw ->
  In v views ->
  exists ptx prx Qtx Qrx,
    nth_error paths (v_tx v) = Some ptx /\ nth_error paths (v_rx v) = Some prx /\
    path_tx_weights N use_directivity use_transrefl use_beamspread use_attenuation width frequency ptx = Some Qtx /\
    path_rx_weights N use_directivity use_transrefl use_beamspread use_attenuation width frequency prx = Some Qrx /\
    rw_tx rw (v_tx v) = Some Qtx /\ rw_rx rw (v_rx v) = Some Qrx /\
    rw_angles rw (v_tx v) = Some (p_angles ptx) /\ rw_angles rw (v_rx v) = Some (p_angles prx).
Proof. intros T N paths views frequency width ud ub ut ua rw v H Hv. exact (rwfv_view N paths views frequency width ud ub ut ua rw v H Hv). Qed.

Theorem path_weights_are_ray_weights_tx : forall (T : Type) (N : Num T) ud ut ub ua width f (p : path) Q e s w,
  path_tx_weights N ud ut ub ua width f p = Some Q -> get2 Q e s = Some w ->
  exists r dict, get2 (p_rays p) e s = Some r /\ tx_ray_weights N ud ut ub ua width f (p_couplant p) r = Some (w, dict).
Proof. intros T N ud ut ub ua width f p Q e s w H1 H2. exact (path_tx_weights_entry N ud ut ub ua width f p Q e s w H1 H2). Qed.

Theorem path_weights_are_ray_weights_rx : forall (T : Type) (N : Num T) ud ut ub ua width f (p : path) Q e s w,
  path_rx_weights N ud ut ub ua width f p = Some Q -> get2 Q e s = Some w ->
  exists r dict, get2 (p_rays p) e s = Some r /\
    rx_ray_weights N ud ut ub ua width f (p_couplant p) (p_block p) r = Some (w, dict).
Proof. intros T N ud ut ub ua width f p Q e s w H1 H2. exact (path_rx_weights_entry N ud ut ub ua width f p Q e s w H1 H2). Qed.

(* a path through which no view transmits (receives) has no transmit (receive) weights: KeyError *)
Theorem ray_weights_no_tx_entry : forall (T : Type) (N : Num T) paths views f width ud ub ut ua rw k,
  ray_weights_for_views N paths views f width ud ub ut ua = Some rw -> ~ In k (map v_tx views) -> rw_tx rw k = None.
Proof. intros T N paths views f width ud ub ut ua rw k H Hk. exact (rwfv_no_tx N paths views f width ud ub ut ua rw k H Hk). Qed.

Theorem ray_weights_no_rx_entry : forall (T : Type) (N : Num T) paths views f width ud ub ut ua rw k,
  ray_weights_for_views N paths views f width ud ub ut ua = Some rw -> ~ In k (map v_rx views) -> rw_rx rw k = None.
Proof. intros T N paths views f width ud ub ut ua rw k H Hk. exact (rwfv_no_rx N paths views f width ud ub ut ua rw k H Hk). Qed.

(* ----- 5.2 first_nonzero_freq_idx ----- *)

(* None with one frequency: bin 0 *)
Theorem first_nonzero_default_one_frequency : default_first 1 None = 0%Z /\ first_bin 1 (default_first 1 None) = Some 0.
Proof. exact (conj default_first_none_one first_bin_default_one). Qed.

(* None with several frequencies: bin 1, the first bin is assumed to be the zero frequency *)
Theorem first_nonzero_default_several_frequencies : forall n, 2 <= n ->
  default_first n None = 1%Z /\ first_bin n (default_first n None) = Some 1.
Proof. exact first_nonzero_several. Qed.

(* an explicit 0 is honoured, whatever the number of frequencies *)
Theorem first_nonzero_explicit_zero : forall n, default_first n (Some 0%Z) = 0%Z /\ first_bin n (default_first n (Some 0%Z)) = Some 0.
Proof. intros n. exact (conj (default_first_some n 0%Z) (first_bin_explicit_zero n)). Qed.

(* any explicit index: non-negative clipped at the number of frequencies (slice), negative counted from the
   end, below -numfreq an IndexError on the first write *)
Theorem first_nonzero_explicit : forall n z,
  ((0 <= z)%Z -> first_bin n (default_first n (Some z)) = Some (Nat.min n (Z.to_nat z))) /\
  ((- Z.of_nat n <= z < 0)%Z -> first_bin n (default_first n (Some z)) = Some (Z.to_nat (Z.of_nat n + z))) /\
  (n <> 0 -> (z < - Z.of_nat n)%Z -> first_bin n (default_first n (Some z)) = None).
Proof. exact first_nonzero_explicit_cases. Qed.

(* ----- 5.3 scat_unshifted_transfer_functions ----- *)

(* one result per view, in the order of the views; shapes (numscatterers, numtimetraces, numfreq) and
   (numscatterers, numtimetraces) *)
Theorem unshifted_tf_defined : forall (T : Type) (N : Num T) (P : T) paths views tx rx freqs so width
    use_directivity use_beamspread use_transrefl use_attenuation a numangles first out,
  scat_unshifted_transfer_functions N P paths views tx rx freqs so width
    use_directivity use_beamspread use_transrefl use_attenuation a numangles first = Some out ->
  forall vi v, nth_error views vi = Some v ->
  length out = length views /\
  exists off ptx prx H delays,
    first_bin (length freqs) (default_first (length freqs) first) = Some off /\ off <= length freqs /\
    nth_error out vi = Some (H, delays) /\
    nth_error paths (v_tx v) = Some ptx /\ nth_error paths (v_rx v) = Some prx /\
    view_delays N ptx prx tx rx = Some delays /\
    length H = snd (shape2 (p_times ptx)) /\
    (forall s rows, nth_error H s = Some rows -> length rows = length tx) /\
    (forall s t row, get2 H s t = Some row -> length row = length freqs).
Proof.
  intros T N P paths views tx rx freqs so width ud ub ut ua a numangles first out H vi v Hv.
  exact (unshifted_defined N P paths views tx rx freqs so width ud ub ut ua a numangles first out H vi v Hv).
Qed.

(* delays[s][t] = times of the tx path [tx[t]][s] + times of the rx path [rx[t]][s] (transposed) *)
Theorem unshifted_tf_delays : forall (T : Type) (N : Num T) (ptx prx : path) tx rx D,
  view_delays N ptx prx tx rx = Some D ->
  length D = snd (shape2 (p_times ptx)) /\
  (forall s row, nth_error D s = Some row -> length row = length tx) /\
  forall s t zi zj, s < snd (shape2 (p_times ptx)) -> nth_error tx t = Some zi -> nth_error rx t = Some zj ->
    exists i j d d', norm_index (length (p_times ptx)) zi = Some i /\ norm_index (length (p_times prx)) zj = Some j /\
      get2 (p_times ptx) i s = Some d /\ get2 (p_times prx) j s = Some d' /\
      get2 D s t = Some (nadd N d d').
Proof. intros T N ptx prx tx rx D H. exact (view_delays_entry N ptx prx tx rx D H). Qed.

(* the bins before first_nonzero_freq_idx are zero *)
Theorem unshifted_tf_zero_bins : forall (T : Type) (N : Num T) (P : T) paths views tx rx freqs so width
    use_directivity use_beamspread use_transrefl use_attenuation a numangles first out,
  scat_unshifted_transfer_functions N P paths views tx rx freqs so width
    use_directivity use_beamspread use_transrefl use_attenuation a numangles first = Some out ->
  forall vi v H delays off, nth_error views vi = Some v -> nth_error out vi = Some (H, delays) ->
  first_bin (length freqs) (default_first (length freqs) first) = Some off ->
  forall s t b, s < length H -> t < length tx -> b < off -> get3 H s t b = Some (n0 (NumC N)).
Proof.
  intros T N P paths views tx rx freqs so width ud ub ut ua a numangles first out Hout vi v H delays off Hv Hvi Hoff.
  exact (unshifted_zero_bins N P paths views tx rx freqs so width ud ub ut ua a numangles first out Hout vi v H delays off Hv Hvi Hoff).
Qed.

(* bin first + k = conj of model_amplitudes_factory(tx, rx, view, ray_weights_k, scattering_k, a)[...] with
   ray_weights_k = ray_weights_for_views at THAT frequency with THE CALLER'S width and switches, each in its own
   position, and scattering_k the precomputed matrices [k] or the functions at that frequency *)
Theorem unshifted_tf_bin : forall (T : Type) (N : Num T) (P : T) paths views tx rx freqs so width
    use_directivity use_beamspread use_transrefl use_attenuation a numangles first out,
  scat_unshifted_transfer_functions N P paths views tx rx freqs so width
    use_directivity use_beamspread use_transrefl use_attenuation a numangles first = Some out ->
  forall vi v H delays off, nth_error views vi = Some v -> nth_error out vi = Some (H, delays) ->
  first_bin (length freqs) (default_first (length freqs) first) = Some off ->
  forall k f, nth_error freqs (off + k) = Some f ->
  exists rw Pk,
    ray_weights_for_views N paths views f width use_directivity use_beamspread use_transrefl use_attenuation = Some rw /\
    model_coefficients N P tx rx v rw (scattering_at so (precompute so (skipn off freqs) numangles) k f) a = Some Pk /\
    has_shape (length H) (length tx) Pk = true /\
    forall s t, s < length H -> t < length tx ->
      exists p, get2 Pk s t = Some p /\ get3 H s t (off + k) = Some (cconj N p).
Proof.
  intros T N P paths views tx rx freqs so width ud ub ut ua a numangles first out Hout vi v H delays off Hv Hvi Hoff.
  exact (unshifted_bin N P paths views tx rx freqs so width ud ub ut ua a numangles first out Hout vi v H delays off Hv Hvi Hoff).
Qed.

(* ... entry by entry: H[s][t][first + k] = conj( S_f(theta_i - a, theta_j - a) * Q_i(f) * Q'_j(f) ), i = tx[t], j = rx[t],
   Q_i the transmit weight of ray (i, s) of the view's tx path, Q'_j the receive weight of ray (j, s) of its rx path,
   computed by the one-ray functions with (use_directivity, use_transrefl, use_beamspread, use_attenuation) exactly as
   passed (a permutation of the switches would contradict this statement), theta the scattering angles of the two paths *)
Theorem unshifted_tf_bin_formula : forall (T : Type) (N : Num T) (P : T) paths views tx rx freqs so width
    use_directivity use_beamspread use_transrefl use_attenuation a numangles first out,
  scat_unshifted_transfer_functions N P paths views tx rx freqs so width
    use_directivity use_beamspread use_transrefl use_attenuation a numangles first = Some out ->
  forall vi v H delays off, nth_error views vi = Some v -> nth_error out vi = Some (H, delays) ->
  first_bin (length freqs) (default_first (length freqs) first) = Some off ->
  forall k f s t zi zj, nth_error freqs (off + k) = Some f -> s < length H ->
  nth_error tx t = Some zi -> nth_error rx t = Some zj ->
  exists (ptx prx : path) i j r r' q dq q' dq' th th',
    nth_error paths (v_tx v) = Some ptx /\ nth_error paths (v_rx v) = Some prx /\
    norm_index (length (p_rays ptx)) zi = Some i /\ norm_index (length (p_rays ptx)) zj = Some j /\
    get2 (p_rays ptx) i s = Some r /\ get2 (p_rays prx) j s = Some r' /\
    tx_ray_weights N use_directivity use_transrefl use_beamspread use_attenuation width f (p_couplant ptx) r = Some (q, dq) /\
    rx_ray_weights N use_directivity use_transrefl use_beamspread use_attenuation width f (p_couplant prx) (p_block prx) r'
      = Some (q', dq') /\
    get2 (p_angles ptx) i s = Some th /\ get2 (p_angles prx) j s = Some th' /\
    get3 H s t (off + k)
    = Some (cconj N (model_amplitude N
                       (scat_fun N P (scattering_at so (precompute so (skipn off freqs) numangles) k f (v_scat v)))
                       a q q' th th')).
Proof.
  intros T N P paths views tx rx freqs so width ud ub ut ua a numangles first out Hout vi v H delays off Hv Hvi Hoff.
  exact (unshifted_bin_formula N P paths views tx rx freqs so width ud ub ut ua a numangles first out Hout vi v H delays off Hv Hvi Hoff).
Qed.

(* switching a factor off in the pipeline replaces exactly that factor by one, in every bin: from the factors
   (d, tr, b, at) / (d', tr', b', at') of the all-enabled weights of the two rays, the bin computed with ANY switch
   set is conj( S * prod(switched tx factors) * prod(switched rx factors) * sqrt(lambda) ) *)
Theorem unshifted_tf_switch_off_is_one : forall (T : Type) (N : Num T) (P : T) paths views tx rx freqs so width
    use_directivity use_beamspread use_transrefl use_attenuation a numangles first out,
  scat_unshifted_transfer_functions N P paths views tx rx freqs so width
    use_directivity use_beamspread use_transrefl use_attenuation a numangles first = Some out ->
  forall vi v H delays off, nth_error views vi = Some v -> nth_error out vi = Some (H, delays) ->
  first_bin (length freqs) (default_first (length freqs) first) = Some off ->
  forall k f s t zi zj (ptx prx : path) i j r r' th th' w1 d tr b at' w1' d' tr' b' at'',
  nth_error freqs (off + k) = Some f -> s < length H ->
  nth_error tx t = Some zi -> nth_error rx t = Some zj ->
  nth_error paths (v_tx v) = Some ptx -> nth_error paths (v_rx v) = Some prx ->
  norm_index (length (p_rays ptx)) zi = Some i -> norm_index (length (p_rays ptx)) zj = Some j ->
  get2 (p_rays ptx) i s = Some r -> get2 (p_rays prx) j s = Some r' ->
  get2 (p_angles ptx) i s = Some th -> get2 (p_angles prx) j s = Some th' ->
  tx_ray_weights N true true true true width f (p_couplant ptx) r = Some (w1, (d, tr, b, at')) ->
  rx_ray_weights N true true true true width f (p_couplant prx) (p_block prx) r' = Some (w1', (d', tr', b', at'')) ->
  get3 H s t (off + k)
  = Some (cconj N (model_amplitude N
            (scat_fun N P (scattering_at so (precompute so (skipn off freqs) numangles) k f (v_scat v))) a
            (product4 N (switch use_directivity d (n1 N)) (switch use_transrefl tr (cre N (n1 N)))
                        (switch use_beamspread b (n1 N)) (switch use_attenuation at' (n1 N)))
            (nmul (NumC N)
               (product4 N (switch use_directivity d' (n1 N)) (switch use_transrefl tr' (cre N (n1 N)))
                           (switch use_beamspread b' (n1 N)) (switch use_attenuation at'' (n1 N)))
               (cre N (nsqrt N (wavelength_in_block N (p_block prx) (r_lastmode r') f))))
            th th')).
Proof.
  intros T N P paths views tx rx freqs so width ud ub ut ua a numangles first out Hout vi v H delays off Hv Hvi Hoff.
  exact (unshifted_bin_switch N P paths views tx rx freqs so width ud ub ut ua a numangles first out Hout vi v H delays off Hv Hvi Hoff).
Qed.

(* reciprocity lifts: if at every non-zero frequency the coefficients of view v at (s, t) equal those of view v' at
   (s, t') (C03's conclusion for a view, its reciprocal view and timetraces (i, j), (j, i)), the two rows of the
   unshifted transfer functions are equal, bin by bin *)
Theorem unshifted_tf_reciprocity : forall (T : Type) (N : Num T) (P : T) paths views tx rx freqs so width
    use_directivity use_beamspread use_transrefl use_attenuation a numangles first out,
  scat_unshifted_transfer_functions N P paths views tx rx freqs so width
    use_directivity use_beamspread use_transrefl use_attenuation a numangles first = Some out ->
  forall vi vi' v v' H H' D D' off,
  nth_error views vi = Some v -> nth_error views vi' = Some v' ->
  nth_error out vi = Some (H, D) -> nth_error out vi' = Some (H', D') ->
  first_bin (length freqs) (default_first (length freqs) first) = Some off ->
  forall s t t', s < length H -> s < length H' -> t < length tx -> t' < length tx ->
  (forall k f rw Pk Pk',
      nth_error freqs (off + k) = Some f ->
      ray_weights_for_views N paths views f width use_directivity use_beamspread use_transrefl use_attenuation = Some rw ->
      model_coefficients N P tx rx v rw (scattering_at so (precompute so (skipn off freqs) numangles) k f) a = Some Pk ->
      model_coefficients N P tx rx v' rw (scattering_at so (precompute so (skipn off freqs) numangles) k f) a = Some Pk' ->
      get2 Pk s t = get2 Pk' s t') ->
  get2 H s t = get2 H' s t' /\ forall b, get3 H s t b = get3 H' s t' b.
Proof.
  intros T N P paths views tx rx freqs so width ud ub ut ua a numangles first out Hout vi vi' v v' H H' D D' off Hv Hv' Hvi Hvi' Hoff.
  exact (unshifted_reciprocity N P paths views tx rx freqs so width ud ub ut ua a numangles first out Hout
           vi vi' v v' H H' D D' off Hv Hv' Hvi Hvi' Hoff).
Qed.

(* ----- 5.4 timeshift_spectra, the sum over the scatterers, the two wrappers ----- *)

(* out[s][t][b] = exp(-2j pi f_b delays[s][t]) * x[s][t][b]   (x[s][t][0] when x has ONE bin), shapes kept *)
Theorem timeshift_spectra_entries : forall (T : Type) (N : Num T) X D freqs Y,
  timeshift_spectra N X D freqs = Some Y ->
  length Y = length X /\
  (forall s Ys, nth_error Y s = Some Ys -> exists Xs, nth_error X s = Some Xs /\ length Ys = length Xs) /\
  (forall s t y, get2 Y s t = Some y -> length y = length freqs) /\
  forall s t x b f, get2 X s t = Some x -> nth_error freqs b = Some f ->
    exists d xb, get2 D s t = Some d /\ spectrum_value x b = Some xb /\
      get3 Y s t b = Some (nmul (NumC N) (phase N f d) xb).
Proof. intros T N X D freqs Y H. exact (timeshift_spectra_entry N X D freqs Y H). Qed.

(* the sum over the first axis, entry by entry, for any number of scatterers (numpy's order of accumulation) *)
Theorem sum_over_scatterers_entries : forall (T : Type) (N : Num T) nt nf tf t b terms,
  t < nt -> b < nf -> mapM (fun Y => get2 Y t b) tf = Some terms ->
  get2 (sum_scatterers N nt nf tf) t b = Some (csum1 N terms).
Proof. intros T N nt nf tf t b terms Ht Hb H. exact (sum_scatterers_entry N nt nf tf t b terms Ht Hb H). Qed.

(* with one scatterer the sum is that scatterer's term (the code's `tf[0]` shortcut changes nothing) *)
Theorem sum_one_scatterer_is_its_term : forall (T : Type) (N : Num T) nt nf Y p,
  sum_scatterers N nt nf [Y] = Y /\ csum1 N [p] = p.
Proof. intros T N nt nf Y p. exact (conj (sum_one_scatterer N nt nf Y) (csum1_one N p)). Qed.

(* multifreq_scat_transfer_functions: per view (same order, same names),
     tf[t][b] = sum_s exp(-2j pi f_b delays[s][t]) * H[s][t][b]
   with (H, delays) what scat_unshifted_transfer_functions yields on the SAME arguments (default first index) *)
Theorem multifreq_tf_is_sum_of_shifted : forall (T : Type) (N : Num T) (Name : Type) (P : T) paths
    (views : list (Name * view)) tx rx so width use_directivity use_beamspread use_transrefl use_attenuation a numangles
    freqs res vi name v,
  multifreq_scat_transfer_functions N P paths views tx rx freqs so width
    use_directivity use_beamspread use_transrefl use_attenuation a numangles = Some res ->
  nth_error views vi = Some (name, v) ->
  length res = length views /\
  exists us H D tf,
    scat_unshifted_transfer_functions N P paths (map snd views) tx rx freqs so width
      use_directivity use_beamspread use_transrefl use_attenuation a numangles None = Some us /\
    nth_error us vi = Some (H, D) /\ nth_error res vi = Some (name, tf) /\
    shifted_sum N freqs (length tx) (H, D) = Some tf /\
    forall t b f, t < length tx -> nth_error freqs b = Some f ->
      exists terms, length terms = length H /\
        (forall s, s < length H ->
           exists d x xb, get2 D s t = Some d /\ get2 H s t = Some x /\ nth_error x b = Some xb /\
             nth_error terms s = Some (nmul (NumC N) (phase N f d) xb)) /\
        get2 tf t b = Some (csum1 N terms).
Proof.
  intros T N Name P paths views tx rx so width ud ub ut ua a numangles freqs res vi name v H Hv.
  exact (multifreq_entry N P paths views tx rx so width ud ub ut ua a numangles freqs res vi name v H Hv).
Qed.

(* singlefreq_scat_transfer_functions: the unshifted function at the ONE frequency `frequency` (one bin),
     tf[t][b] = sum_s exp(-2j pi f_b delays[s][t]) * H[s][t][0]      for every f_b of freq_array *)
Theorem singlefreq_tf_is_sum_of_shifted : forall (T : Type) (N : Num T) (Name : Type) (P : T) paths
    (views : list (Name * view)) tx rx so width use_directivity use_beamspread use_transrefl use_attenuation a numangles
    frequency freqs res vi name v,
  singlefreq_scat_transfer_functions N P paths views tx rx frequency freqs so width
    use_directivity use_beamspread use_transrefl use_attenuation a numangles = Some res ->
  nth_error views vi = Some (name, v) ->
  length res = length views /\
  exists us H D tf,
    scat_unshifted_transfer_functions N P paths (map snd views) tx rx [frequency] so width
      use_directivity use_beamspread use_transrefl use_attenuation a numangles None = Some us /\
    nth_error us vi = Some (H, D) /\ nth_error res vi = Some (name, tf) /\
    shifted_sum N freqs (length tx) (H, D) = Some tf /\
    forall t b f, t < length tx -> nth_error freqs b = Some f ->
      exists terms, length terms = length H /\
        (forall s, s < length H ->
           exists d x xb, get2 D s t = Some d /\ get2 H s t = Some x /\ x = [xb] /\
             nth_error terms s = Some (nmul (NumC N) (phase N f d) xb)) /\
        get2 tf t b = Some (csum1 N terms).
Proof.
  intros T N Name P paths views tx rx so width ud ub ut ua a numangles frequency freqs res vi name v H Hv.
  exact (singlefreq_entry N P paths views tx rx so width ud ub ut ua a numangles frequency freqs res vi name v H Hv).
Qed.

(* over the reals: the phase factor and the product are those of Model/Dft.v (C11) — on the frequencies
   k / (n dt) of an n-point transform the shift of one bin IS shift_spectrum —, np.conj is the complex
   conjugate and the ordered accumulation is the sum *)
Theorem timeshift_is_dft_shift_spectrum : forall (X : nat -> C) n dt delay k,
  nmul (NumC NumR) (phase NumR (INR k / (INR n * dt))%R delay) (X k) = shift_spectrum X n dt delay k.
Proof. exact timeshift_bin_is_shift_spectrum. Qed.

Theorem pipeline_conj_is_complex_conjugate : forall z : R * R, cconj NumR z = Cconj z.
Proof. exact cconj_R. Qed.

Theorem ordered_sum_is_sum : forall l : list (R * R), csum1 NumR l = fold_right Cplus (RtoC 0) l.
Proof. exact csum1_R. Qed.

(* ===== non-vacuity ================================================================================ *)
Section Examples.
  Local Open Scope Q_scope.
  Let cq (x y : Q) : Q * Q := (x, y).
  (* 2 elements, 3 grid points, all entries distinct *)
  Let Qtx := [[cq 1 2; cq 3 (-1); cq (1#2) 0]; [cq (-2) 1; cq 0 3; cq 5 (1#4)]].
  Let Qrx := [[cq 2 0; cq 1 1; cq (-1) 2]; [cq (3#2) (-1); cq 4 0; cq 0 (-2)]].
  Let Ttx := [[1#4; 1#2; 3#4]; [-(1#4); -(1#2); -(3#4)]].
  Let Trx := [[1#8; 3#8; 5#8]; [-(1#8); -(3#8); -(5#8)]].
  Let S (x y : Q) : Q * Q := (1 + 2 * x + 3 * y, x * y).
  Let tx := [0; 1; 1; -1]%Z.
  Let rx := [1; 0; -1; 0]%Z.

  (* grid indices [2; -3] (= [2; 0]), rotation 1/8: the entry for the first selected point and
     timetrace 2 (tx = 1, rx = -1 = 1) is S(-3/4 - 1/8, -5/8 - 1/8) * (5 + i/4) * (-2i) *)
  Example amplitudes_example :
    exists o P, factory tx rx 2 3 Qtx Qrx Ttx Trx (1#8) = Some o /\
      getitem_fn NumQ S o [2; -3]%Z = Some P /\
      get2 P 0 2 = Some (81 # 16, 1941 # 64) /\ get2 P 1 1 = Some (-1, 1 # 2) /\
      length P = 2%nat /\ map (@length _) P = [4; 4]%nat.
  Proof.
    destruct (factory tx rx 2 3 Qtx Qrx Ttx Trx (1#8)) as [o|] eqn:E; [|vm_compute in E; discriminate].
    exists o. destruct (getitem_fn NumQ S o [2; -3]%Z) as [P|] eqn:EP.
    - exists P. split; [reflexivity|]. split; [reflexivity|].
      vm_compute in E. inversion E; subst o. vm_compute in EP. inversion EP; subst P.
      vm_compute. repeat split; reflexivity.
    - vm_compute in E. inversion E; subst o. vm_compute in EP. discriminate.
  Qed.

  (* grid index 3 is out of range for 3 points *)
  Example amplitudes_index_error :
    forall o, factory tx rx 2 3 Qtx Qrx Ttx Trx (1#8) = Some o -> getitem_fn NumQ S o [3]%Z = None.
  Proof. intros o E. vm_compute in E. inversion E; subst o. vm_compute. reflexivity. Qed.

  (* block sizes 1, 2 and 7 on 3 points give the same uniform sensitivity *)
  Example sensitivity_example :
    forall o, factory tx rx 2 3 Qtx Qrx Ttx Trx (1#8) = Some o ->
      sensitivity_uniform_tfm NumQ (getitem_fn NumQ S o) 3 4 [1; 1; 2; 1#2] 2
        = Some [(53 # 128, -(143 # 256)); (-(435 # 256), -(2707 # 256)); (1263 # 512, 4815 # 256)] /\
      sensitivity_uniform_tfm NumQ (getitem_fn NumQ S o) 3 4 [1; 1; 2; 1#2] 1
        = sensitivity_uniform_tfm NumQ (getitem_fn NumQ S o) 3 4 [1; 1; 2; 1#2] 2 /\
      sensitivity_uniform_tfm NumQ (getitem_fn NumQ S o) 3 4 [1; 1; 2; 1#2] 7
        = sensitivity_uniform_tfm NumQ (getitem_fn NumQ S o) 3 4 [1; 1; 2; 1#2] 2.
  Proof. intros o E. vm_compute in E. inversion E; subst o. vm_compute. repeat split; reflexivity. Qed.

  (* one ray at normal incidence, water -> steel, legs 1 and 3/4 (virtual distance 4), exact over Q:
     hypotheses of the weight theorems are satisfiable, and the switches act as stated *)
  Let water : material (Q * Q) := mkMaterial (cq 1000 0) (cq 1500 0) (cq Qbad 0).
  Let steel : material (Q * Q) := mkMaterial (cq 8000 0) (cq 6000 0) (cq 3000 0).
  Let ray0 := mkRay 0 [mkIface FluidSolid true water steel water ModeL ModeL (cq 0 0)]
                    [1500; 6000] [1; 3#4] [None; Some (AttConstant 0)] ModeL.
  Example weights_example :
    tx_ray_weights NumQ true true true true (Some (1#1000)) 24000 water ray0
      = Some (cq (1#33) 0, (1, cq (2#33) 0, 1#2, 1)) /\
    rx_ray_weights NumQ true true true true (Some (1#1000)) 24000 water steel ray0
      = Some (cq (32#33) 0, (1, cq (64#33) 0, 1, 1)) /\
    tx_ray_weights NumQ false true false true None 24000 water ray0
      = Some (cq (2#33) 0, (1, cq (2#33) 0, 1, 1)) /\
    tx_ray_weights NumQ true true false true None 24000 water ray0 = None.
  Proof. vm_compute. repeat split; reflexivity. Qed.

  (* the pipeline on one path (2 elements, 2 scatterers, every ray = ray0) used for transmission and reception,
     one view, timetraces (0,0) (1,0) (1,-1), frequencies [0; 6000; 24000], scattering
     S_f(x, y) = 1 + 2x + 3y + i (f/6000) x, rotation 1/8: bin 0 stays zero, bins 1 and 2 are the conjugated
     coefficients (e.g. scatterer 1, timetrace 2, bin 2: conj(S_24000(-5/8, -5/8) * 1/33 * 32/33)), delays are
     sums of times; with an explicit first index 0 on [6000; 24000] both bins are computed, with None the first
     is left at zero; directivity without element width raises *)
  Let p0 := mkPath water steel [[ray0; ray0]; [ray0; ray0]] [[1#4; 1#2]; [-(1#4); -(1#2)]] [[1; 2]; [3; 4]].
  Let sobj : scat_obj := mkScat None (fun f _ x y => (1 + 2 * x + 3 * y, (f / 6000) * x)) (fun _ _ _ => []).
  Let vw := mkView 0 0 (ModeL, ModeL).
  Let txl := [0; 1; 1]%Z.
  Let rxl := [0; 0; -1]%Z.
  Example pipeline_example :
    scat_unshifted_transfer_functions NumQ 0 [p0] [vw] txl rxl [0; 6000; 24000] sobj (Some (1#1000)) true true true true (1#8) 0%Z None
      = Some [([[[(0, 0); (104 # 1089, -8 # 1089); (52 # 1089, -16 # 1089)];
                 [(0, 0); (40 # 1089, 8 # 363); (20 # 1089, 16 # 363)];
                 [(0, 0); (-56 # 1089, 8 # 363); (-28 # 1089, 16 # 363)]];
                [[(0, 0); (184 # 1089, -8 # 363); (92 # 1089, -16 # 363)];
                 [(0, 0); (56 # 1089, 40 # 1089); (28 # 1089, 80 # 1089)];
                 [(0, 0); (-136 # 1089, 40 # 1089); (-68 # 1089, 80 # 1089)]]],
               [[2; 4; 6]; [4; 6; 8]])] /\
    omap (map (fun u => get3 (fst u) 1 2 0)) (scat_unshifted_transfer_functions NumQ 0 [p0] [vw] txl rxl [6000; 24000] sobj
             (Some (1#1000)) true true true true (1#8) 0%Z (Some 0%Z)) = Some [Some (-136 # 1089, 40 # 1089)] /\
    omap (map (fun u => get3 (fst u) 1 2 0)) (scat_unshifted_transfer_functions NumQ 0 [p0] [vw] txl rxl [6000; 24000] sobj
             (Some (1#1000)) true true true true (1#8) 0%Z None) = Some [Some (0, 0)] /\
    scat_unshifted_transfer_functions NumQ 0 [p0] [vw] txl rxl [0; 6000; 24000] sobj None true true true true (1#8) 0%Z None = None /\
    (* the wrappers on the same path with zero travel times (over Q only a zero phase is computable): sums over
       the two scatterers; the single-frequency one repeats the value at 24000 in every bin *)
    (let p0z := mkPath water steel [[ray0; ray0]; [ray0; ray0]] [[1#4; 1#2]; [-(1#4); -(1#2)]] [[0; 0]; [0; 0]] in
     multifreq_scat_transfer_functions NumQ 0 [p0z] [(7%nat, vw)] txl rxl [0; 6000; 24000] sobj (Some (1#1000)) true true true true (1#8) 0%Z
       = Some [(7%nat, [[(0, 0); (32 # 121, -32 # 1089); (16 # 121, -64 # 1089)];
                        [(0, 0); (32 # 363, 64 # 1089); (16 # 363, 128 # 1089)];
                        [(0, 0); (-64 # 363, 64 # 1089); (-32 # 363, 128 # 1089)]])] /\
     singlefreq_scat_transfer_functions NumQ 0 [p0z] [(7%nat, vw)] txl rxl 24000 [0; 6000; 24000] sobj (Some (1#1000)) true true true true (1#8) 0%Z
       = Some [(7%nat, [[(16 # 121, -64 # 1089); (16 # 121, -64 # 1089); (16 # 121, -64 # 1089)];
                        [(16 # 363, 128 # 1089); (16 # 363, 128 # 1089); (16 # 363, 128 # 1089)];
                        [(-32 # 363, 128 # 1089); (-32 # 363, 128 # 1089); (-32 # 363, 128 # 1089)]])]) /\
    (* two views sharing the tx path 0, one receiving through path 1: one entry per path, path 1 has no transmit weights *)
    omap (map (fun e => (e_path e, match e_tx e with Some _ => true | None => false end,
                                   match e_rx e with Some _ => true | None => false end)))
         (ray_weights_for_views NumQ [p0; p0] [mkView 0 1 (ModeL, ModeL); mkView 0 0 (ModeL, ModeL)] 24000 (Some (1#1000))
                                true true true true)
      = Some [(1%nat, false, true); (0%nat, true, true)].
  Proof. vm_compute. repeat split; reflexivity. Qed.
End Examples.
