(* Props/C08.v — Model coefficients are assembled as Q_i * Q'_j * S(theta_i - a, theta_j - a).
   Statements only (proofs: Proofs/AmplitudesWeightsProofs.v for the ray weights and the laws of
   their factors, Proofs/AmplitudesProofs.v for the index plumbing of the two ModelAmplitudes
   classes and the sensitivities).  Model: Model/Amplitudes.v on top of Model/Weights.v,
   Model/Beamspread.v, Model/ScatMatrix.v, Model/Chunk.v.

   Reading guide
     tx_ray_weights N use_dir use_tr use_bs use_att width frequency couplant ray
         = Some (weights, (directivity, transrefl, beamspread, attenuation))   | None (raises)
     product4 N d t b a = cre d * t * cre b * cre a   (complex product in the code's order)
     getitem_fn / getitem_mat : ModelAmplitudes.__getitem__ of the two classes, on the list of
         selected grid indices; spec_amp : the index-level definition
         P[p][k] = S(Ttx[tx_k][G_p] - a, Trx[rx_k][G_p] - a) * Qtx[tx_k][G_p] * Qrx[rx_k][G_p]
         in the (element, grid) layout of RayWeights, None when an index is out of range.
   Section 5 (proofs: Proofs/PipelineProofs.v, model: Model/Pipeline.v): the public multi-frequency
   entry points ray_weights_for_views, scat_unshifted_transfer_functions, timeshift_spectra,
   singlefreq_/multifreq_scat_transfer_functions.  Paths are keys into a table `paths`; a view is
   (key of tx path, key of rx path, scat key); H[s][t][b] is get3 H s t b (scatterer, timetrace, bin).
   Not covered by theorems (only by the correspondence): numpy's expansion of slices / Ellipsis /
   masks into index lists, dtype promotion, the physical content of the transmission-reflection
   and beamspread factors (C04, C06, C07), floating-point rounding. *)
From Coq Require Import List ZArith Bool Arith Reals QArith.
From Coquelicot Require Import Complex.
From Arim Require Import Base.Num Base.NumR Base.NumQ Model.Interface Model.Weights Model.Beamspread
                         Model.ScatMatrix Model.Chunk Model.Amplitudes Model.Pipeline Model.Dft
                         Proofs.BeamspreadProofs Proofs.AmplitudesProofs Proofs.AmplitudesWeightsProofs
                         Proofs.PipelineProofs.
Import ListNotations.
Local Close Scope Q_scope.   (* QArith opens it *)

(* ===== 1. ray weights ====================================================================== *)

(* weights = directivity * transrefl * beamspread * attenuation, whatever the switches (a
   disabled factor is returned as one): over the reals this is the complex transmission-
   reflection coefficient scaled by the three real factors *)
Theorem weights_factorise_tx : forall ud ut ub ua width f couplant r w d t b a,
  tx_ray_weights NumR ud ut ub ua width f couplant r = Some (w, (d, t, b, a)) ->
  w = product4 NumR d t b a /\ w = ((d * b * a) * fst t, (d * b * a) * snd t)%R.
Proof. exact weights_factorise_tx_R. Qed.

(* receive: the same with the reverse terms, times sqrt(wavelength of the LAST leg's mode in the block) *)
Theorem weights_factorise_rx : forall ud ut ub ua width f couplant block r w d t b a,
  rx_ray_weights NumR ud ut ub ua width f couplant block r = Some (w, (d, t, b, a)) ->
  let lam := (fst (velocity block (r_lastmode r)) / f)%R in
  w = nmul (NumC NumR) (product4 NumR d t b a) (cre NumR (sqrt lam)) /\
  w = ((d * b * a * sqrt lam) * fst t, (d * b * a * sqrt lam) * snd t)%R.
Proof. exact weights_factorise_rx_R. Qed.

(* what each returned factor is: the function the code calls when the switch is on *)
Theorem weights_factors_tx : forall (T : Type) (N : Num T) ud ut ub ua width f couplant r w d t b a,
  tx_ray_weights N ud ut ub ua width f couplant r = Some (w, (d, t, b, a)) ->
  w = tx_weight N ud ut ub ua d t b a /\
  dir_factor N ud width f couplant r d /\
  tr_factor N ut (transrefl_for_path (NumC N) Displacement (r_ifaces r)) t /\
  bs_factor N ub (beamspread N (r_vels r) (r_legs r) (r_thetas r)) b /\
  att_factor N ua f r a.
Proof. intros T N ud ut ub ua width f couplant r w d t b a H. exact (tx_ray_weights_inv N ud ut ub ua width f couplant r w d t b a H). Qed.

Theorem weights_factors_rx : forall (T : Type) (N : Num T) ud ut ub ua width f couplant block r w d t b a,
  rx_ray_weights N ud ut ub ua width f couplant block r = Some (w, (d, t, b, a)) ->
  w = rx_weight N ud ut ub ua d t b a (wavelength_in_block N block (r_lastmode r) f) /\
  dir_factor N ud width f couplant r d /\
  tr_factor N ut (reverse_transrefl_for_path (NumC N) Displacement (r_ifaces r)) t /\
  bs_factor N ub (reverse_beamspread N (r_vels r) (r_legs r) (r_thetas r)) b /\
  att_factor N ua f r a.
Proof. intros T N ud ut ub ua width f couplant block r w d t b a H. exact (rx_ray_weights_inv N ud ut ub ua width f couplant block r w d t b a H). Qed.

(* switching off: for EACH of the 16 switch sets the enabled factors are those of the
   all-enabled call, the disabled ones are exactly one, and the weights are their product *)
Theorem switch_off_is_one_tx : forall (T : Type) (N : Num T) width f couplant r w1 d t b a,
  tx_ray_weights N true true true true width f couplant r = Some (w1, (d, t, b, a)) ->
  forall ud ut ub ua,
  tx_ray_weights N ud ut ub ua width f couplant r
  = Some (product4 N (switch ud d (n1 N)) (switch ut t (cre N (n1 N))) (switch ub b (n1 N)) (switch ua a (n1 N)),
          (switch ud d (n1 N), switch ut t (cre N (n1 N)), switch ub b (n1 N), switch ua a (n1 N))).
Proof. intros T N width f couplant r w1 d t b a H. exact (switch_sets_tx N width f couplant r w1 d t b a H). Qed.

Theorem switch_off_is_one_rx : forall (T : Type) (N : Num T) width f couplant block r w1 d t b a,
  rx_ray_weights N true true true true width f couplant block r = Some (w1, (d, t, b, a)) ->
  forall ud ut ub ua,
  rx_ray_weights N ud ut ub ua width f couplant block r
  = Some (nmul (NumC N)
            (product4 N (switch ud d (n1 N)) (switch ut t (cre N (n1 N))) (switch ub b (n1 N)) (switch ua a (n1 N)))
            (cre N (nsqrt N (wavelength_in_block N block (r_lastmode r) f))),
          (switch ud d (n1 N), switch ut t (cre N (n1 N)), switch ub b (n1 N), switch ua a (n1 N))).
Proof. intros T N width f couplant block r w1 d t b a H. exact (switch_sets_rx N width f couplant block r w1 d t b a H). Qed.

(* ... and in ANY successful call (also when the all-enabled call would raise, e.g. no element
   width given) a disabled factor is exactly one *)
Theorem disabled_factor_is_one_tx : forall (T : Type) (N : Num T) ud ut ub ua width f couplant r w d t b a,
  tx_ray_weights N ud ut ub ua width f couplant r = Some (w, (d, t, b, a)) ->
  (ud = false -> d = n1 N) /\ (ut = false -> t = cre N (n1 N)) /\ (ub = false -> b = n1 N) /\ (ua = false -> a = n1 N).
Proof. intros T N ud ut ub ua width f couplant r w d t b a H. exact (off_is_one_tx N ud ut ub ua width f couplant r w d t b a H). Qed.

Theorem disabled_factor_is_one_rx : forall (T : Type) (N : Num T) ud ut ub ua width f couplant block r w d t b a,
  rx_ray_weights N ud ut ub ua width f couplant block r = Some (w, (d, t, b, a)) ->
  (ud = false -> d = n1 N) /\ (ut = false -> t = cre N (n1 N)) /\ (ub = false -> b = n1 N) /\ (ua = false -> a = n1 N).
Proof. intros T N ud ut ub ua width f couplant block r w d t b a H. exact (off_is_one_rx N ud ut ub ua width f couplant block r w d t b a H). Qed.

(* ===== 2. laws of the factors ================================================================ *)
Local Open Scope R_scope.

(* sinc(a sin(theta)/lambda), numpy's normalised sinc: sin(pi x)/(pi x), 1 at x = 0 *)
Theorem directivity_law : forall theta width lam,
  directivity NumR theta width lam = sinc_pi (width / lam * sin theta).
Proof. exact directivity_R. Qed.

Theorem directivity_at_zero : forall width lam, directivity NumR 0 width lam = 1.
Proof. exact directivity_zero_angle. Qed.

Theorem directivity_symmetric : forall theta width lam,
  directivity NumR (- theta) width lam = directivity NumR theta width lam.
Proof. exact directivity_even. Qed.

Theorem directivity_bounded : forall theta width lam, Rabs (directivity NumR theta width lam) <= 1.
Proof. exact directivity_bound. Qed.

Theorem directivity_null : forall theta width lam, lam <> 0 -> width * sin theta = lam ->
  directivity NumR theta width lam = 0.
Proof. exact directivity_first_null. Qed.

(* exp(-sum alpha_k d_k): a leg whose material has no attenuation for its mode contributes nothing *)
Theorem attenuation_law : forall atts legs, attenuation NumR atts legs = exp (- att_sum atts legs).
Proof. exact attenuation_R. Qed.

Theorem attenuation_sum_unattenuated_leg : forall atts d legs, att_sum (None :: atts) (d :: legs) = att_sum atts legs.
Proof. exact att_sum_none. Qed.

Theorem attenuation_sum_attenuated_leg : forall al atts d legs,
  att_sum (Some al :: atts) (d :: legs) = al * d + att_sum atts legs.
Proof. exact att_sum_some. Qed.

Theorem attenuation_without_laws_is_one : forall legs, attenuation NumR (map (fun _ => None) legs) legs = 1.
Proof. exact attenuation_no_law. Qed.

Theorem attenuation_in_unit_interval : forall atts legs,
  Forall (fun a => match a with None => True | Some al => 0 <= al end) atts -> Forall (fun d => 0 <= d) legs ->
  0 < attenuation NumR atts legs <= 1.
Proof. exact attenuation_range. Qed.

(* material_attenuation_factory: "constant" ignores the frequency; "polynomial" is
   sum_k c_k (f / 1e6)^k; an empty coefficient list is rejected *)
Theorem attenuation_constant_law : forall v f, att_eval NumR (AttConstant v) f = Some v.
Proof. exact att_eval_constant. Qed.

Theorem attenuation_polynomial_law : forall cs f, cs <> [] ->
  att_eval NumR (AttPolynomial cs) f = Some (power_sum cs (f / 1000000) 0).
Proof. exact att_eval_polynomial. Qed.

Theorem attenuation_polynomial_empty_rejected : forall f, att_eval NumR (AttPolynomial []) f = None.
Proof. exact att_eval_polynomial_empty. Qed.

Local Close Scope R_scope.

(* ===== 3. the two ModelAmplitudes classes ==================================================== *)

(* for ALL tx / rx lists of equal length (repeated, partial, any order, negative), every list G of
   grid indices, every rotation a and every numeric instance: both classes ARE the index-level
   definition, including when they raise *)
Theorem amplitude_indexing_fn : forall (T : Type) (N : Num T) (S : T -> T -> T * T)
    tx rx ne ng Qtx Qrx Ttx Trx a o G,
  length tx = length rx ->
  factory tx rx ne ng Qtx Qrx Ttx Trx a = Some o ->
  getitem_fn N S o G = spec_amp N S a ne ng Qtx Qrx Ttx Trx tx rx G.
Proof. intros T N S tx rx ne ng Qtx Qrx Ttx Trx a o G H1 H2. exact (getitem_fn_is_spec N S tx rx ne ng Qtx Qrx Ttx Trx a o G H1 H2). Qed.

Theorem amplitude_indexing_mat : forall (T : Type) (N : Num T) (P : T) (M : list (list (T * T)))
    tx rx ne ng Qtx Qrx Ttx Trx a o G,
  mat_ok M = true -> length tx = length rx ->
  factory tx rx ne ng Qtx Qrx Ttx Trx a = Some o ->
  getitem_mat N P M o G = spec_amp N (interp_c N P M) a ne ng Qtx Qrx Ttx Trx tx rx G.
Proof. intros T N P M tx rx ne ng Qtx Qrx Ttx Trx a o G H0 H1 H2. exact (getitem_mat_is_spec N P M tx rx ne ng Qtx Qrx Ttx Trx a o G H0 H1 H2). Qed.

(* the factory succeeds exactly on four arrays of one shape (numelements, numgridpoints) *)
Theorem factory_defined : forall (T : Type) tx rx ne ng (Qtx Qrx : list (list (T * T))) (Ttx Trx : list (list T)) a,
  has_shape ne ng Qtx = true -> has_shape ne ng Qrx = true -> has_shape ne ng Ttx = true -> has_shape ne ng Trx = true ->
  exists o, factory tx rx ne ng Qtx Qrx Ttx Trx a = Some o.
Proof. intros T tx rx ne ng Qtx Qrx Ttx Trx a H1 H2 H3 H4. exact (factory_some tx rx ne ng Qtx Qrx Ttx Trx a H1 H2 H3 H4). Qed.

(* entry-wise reading of the definition (nth-characterisation):
   P[p][k] = S(Ttx[i][g] - a, Trx[j][g] - a) * Qtx[i][g] * Qrx[j][g],
   g = G[p], i = tx[k], j = rx[k] after normalisation of negative indices *)
Theorem amplitude_entries : forall (T : Type) (N : Num T) (S : T -> T -> T * T) a ne ng Qtx Qrx Ttx Trx tx rx G P,
  spec_amp N S a ne ng Qtx Qrx Ttx Trx tx rx G = Some P ->
  length P = length G /\
  forall p zg, nth_error G p = Some zg ->
    exists g row, norm_index ng zg = Some g /\ nth_error P p = Some row /\
      length row = length (combine tx rx) /\
      forall k zi zj, nth_error tx k = Some zi -> nth_error rx k = Some zj ->
        exists i j q q' th th',
          norm_index ne zi = Some i /\ norm_index ne zj = Some j /\
          get2 Qtx i g = Some q /\ get2 Qrx j g = Some q' /\ get2 Ttx i g = Some th /\ get2 Trx j g = Some th' /\
          nth_error row k = Some (model_amplitude N S a q q' th th').
Proof. intros T N S a ne ng Qtx Qrx Ttx Trx tx rx G P H. exact (spec_amp_sound N S a ne ng Qtx Qrx Ttx Trx tx rx G P H). Qed.

(* defined for all in-range indices ... *)
Theorem amplitude_defined : forall (T : Type) (N : Num T) (S : T -> T -> T * T) a ne ng Qtx Qrx Ttx Trx tx rx G,
  has_shape ne ng Qtx = true -> has_shape ne ng Qrx = true -> has_shape ne ng Ttx = true -> has_shape ne ng Trx = true ->
  Forall (valid_index ng) G -> Forall (valid_index ne) tx -> Forall (valid_index ne) rx ->
  exists P, spec_amp N S a ne ng Qtx Qrx Ttx Trx tx rx G = Some P.
Proof.
  intros T N S a ne ng Qtx Qrx Ttx Trx tx rx G H1 H2 H3 H4 H5 H6 H7.
  exact (spec_amp_total N S a ne ng Qtx Qrx Ttx Trx tx rx G H1 H2 H3 H4 H5 H6 H7).
Qed.

(* ... and an IndexError otherwise *)
Theorem amplitude_grid_index_error : forall (T : Type) (N : Num T) (S : T -> T -> T * T) a ne ng Qtx Qrx Ttx Trx tx rx G zg,
  In zg G -> ~ valid_index ng zg -> spec_amp N S a ne ng Qtx Qrx Ttx Trx tx rx G = None.
Proof. intros T N S a ne ng Qtx Qrx Ttx Trx tx rx G zg H1 H2. exact (spec_amp_bad_grid N S a ne ng Qtx Qrx Ttx Trx tx rx G zg H1 H2). Qed.

Theorem amplitude_element_index_error : forall (T : Type) (N : Num T) (S : T -> T -> T * T) a ne ng Qtx Qrx Ttx Trx tx rx G zg k zi zj,
  In zg G -> nth_error tx k = Some zi -> nth_error rx k = Some zj ->
  ~ valid_index ne zi \/ ~ valid_index ne zj ->
  spec_amp N S a ne ng Qtx Qrx Ttx Trx tx rx G = None.
Proof.
  intros T N S a ne ng Qtx Qrx Ttx Trx tx rx G zg k zi zj H1 H2 H3 H4.
  exact (spec_amp_bad_element N S a ne ng Qtx Qrx Ttx Trx tx rx G zg k zi zj H1 H2 H3 H4).
Qed.

(* the matrix class equals the function class applied to the bilinear interpolant of the matrix
   (ScatMatrix.interp of C10 on real and imaginary parts) *)
Theorem matrix_eq_function : forall (T : Type) (N : Num T) (P : T) (M : list (list (T * T)))
    tx rx ne ng Qtx Qrx Ttx Trx a o G,
  mat_ok M = true -> length tx = length rx ->
  factory tx rx ne ng Qtx Qrx Ttx Trx a = Some o ->
  getitem_mat N P M o G = getitem_fn N (interp_c N P M) o G.
Proof. intros T N P M tx rx ne ng Qtx Qrx Ttx Trx a o G H0 H1 H2. exact (getitem_mat_eq_fn N P M tx rx ne ng Qtx Qrx Ttx Trx a o G H0 H1 H2). Qed.

(* ===== 4. sensitivities ========================================================================= *)

(* the chunked loop of both sensitivity functions, for ANY object whose indexing is pointwise in
   the grid index: every block size >= 1 (also larger than the grid) gives the unchunked result *)
Theorem sensitivity_loop_chunk_independent : forall (T V : Type)
    (getitem : list Z -> option (list (list (T * T)))) (rowP : Z -> option (list (T * T))),
  (forall G, getitem G = mapM rowP G) ->
  forall (f : list (T * T) -> V) (zero : V) (n b : nat), 1 <= b -> 1 <= n ->
  sens_loop getitem f zero n b = spec_sensitivity getitem f n.
Proof. intros T V getitem rowP H f zero n b Hb Hn. exact (sens_loop_unchunked getitem rowP H f zero n b Hb Hn). Qed.

(* both functions, both classes: equal to (weighted sum over the timetraces of P[all points]) /
   numtimetraces, whatever the block size *)
Theorem sensitivity_chunk_independent_uniform_fn : forall (T : Type) (N : Num T) tx rx ne ng Qtx Qrx Ttx Trx a o,
  length tx = length rx -> factory tx rx ne ng Qtx Qrx Ttx Trx a = Some o ->
  forall (S : T -> T -> T * T) w b, 1 <= b -> 1 <= ng ->
  sensitivity_uniform_tfm N (getitem_fn N S o) ng (length tx) w b
  = if length w =? length tx then
      omap (map (fun row => ndiv (NumC N) (wsum_uniform N w row) (cre N (nofnat N (length tx)))))
           (getitem_fn N S o (map Z.of_nat (seq 0 ng)))
    else None.
Proof. intros T N tx rx ne ng Qtx Qrx Ttx Trx a o H1 H2. exact (sensitivity_uniform_fn_unchunked N tx rx ne ng Qtx Qrx Ttx Trx a o H1 H2). Qed.

Theorem sensitivity_chunk_independent_assisted_fn : forall (T : Type) (N : Num T) tx rx ne ng Qtx Qrx Ttx Trx a o,
  length tx = length rx -> factory tx rx ne ng Qtx Qrx Ttx Trx a = Some o ->
  forall (S : T -> T -> T * T) w b, 1 <= b -> 1 <= ng ->
  sensitivity_model_assisted_tfm N (getitem_fn N S o) ng (length tx) w b
  = if length w =? length tx then
      omap (map (fun row => ndiv N (wsum_assisted N w row) (nofnat N (length tx))))
           (getitem_fn N S o (map Z.of_nat (seq 0 ng)))
    else None.
Proof. intros T N tx rx ne ng Qtx Qrx Ttx Trx a o H1 H2. exact (sensitivity_assisted_fn_unchunked N tx rx ne ng Qtx Qrx Ttx Trx a o H1 H2). Qed.

Theorem sensitivity_chunk_independent_uniform_mat : forall (T : Type) (N : Num T) tx rx ne ng Qtx Qrx Ttx Trx a o,
  length tx = length rx -> factory tx rx ne ng Qtx Qrx Ttx Trx a = Some o ->
  forall (P : T) (M : list (list (T * T))) w b, mat_ok M = true -> 1 <= b -> 1 <= ng ->
  sensitivity_uniform_tfm N (getitem_mat N P M o) ng (length tx) w b
  = if length w =? length tx then
      omap (map (fun row => ndiv (NumC N) (wsum_uniform N w row) (cre N (nofnat N (length tx)))))
           (getitem_mat N P M o (map Z.of_nat (seq 0 ng)))
    else None.
Proof. intros T N tx rx ne ng Qtx Qrx Ttx Trx a o H1 H2. exact (sensitivity_uniform_mat_unchunked N tx rx ne ng Qtx Qrx Ttx Trx a o H1 H2). Qed.

Theorem sensitivity_chunk_independent_assisted_mat : forall (T : Type) (N : Num T) tx rx ne ng Qtx Qrx Ttx Trx a o,
  length tx = length rx -> factory tx rx ne ng Qtx Qrx Ttx Trx a = Some o ->
  forall (P : T) (M : list (list (T * T))) w b, mat_ok M = true -> 1 <= b -> 1 <= ng ->
  sensitivity_model_assisted_tfm N (getitem_mat N P M o) ng (length tx) w b
  = if length w =? length tx then
      omap (map (fun row => ndiv N (wsum_assisted N w row) (nofnat N (length tx))))
           (getitem_mat N P M o (map Z.of_nat (seq 0 ng)))
    else None.
Proof. intros T N tx rx ne ng Qtx Qrx Ttx Trx a o H1 H2. exact (sensitivity_assisted_mat_unchunked N tx rx ne ng Qtx Qrx Ttx Trx a o H1 H2). Qed.

(* ===== 5. the public multi-frequency entry points ================================================= *)

(* ----- 5.1 ray_weights_for_views ----- *)

(* one entry per distinct path of the views *)
Theorem ray_weights_one_entry_per_path : forall (T : Type) (N : Num T) paths views frequency width
    use_directivity use_beamspread use_transrefl use_attenuation rw,
  ray_weights_for_views N paths views frequency width use_directivity use_beamspread use_transrefl use_attenuation = Some rw ->
  map e_path rw = nodup Nat.eq_dec (map v_tx views ++ map v_rx views) /\ NoDup (map e_path rw).
Proof. intros T N paths views frequency width ud ub ut ua rw H. exact (rwfv_paths N paths views frequency width ud ub ut ua rw H). Qed.

(* which path of a view gets which weights: its tx path the TRANSMIT weights, its rx path the RECEIVE
   weights, every ray with the caller's frequency, width and switches, each switch reaching its own factor
   (tx_ray_weights / rx_ray_weights take them in the order directivity, transrefl, beamspread, attenuation);
   the scattering angles of both paths *)
Theorem ray_weights_of_a_view : forall (T : Type) (N : Num T) paths views frequency width
    use_directivity use_beamspread use_transrefl use_attenuation rw v,
  ray_weights_for_views N paths views frequency width use_directivity use_beamspread use_transrefl use_attenuation = Some rw ->
  In v views ->
  exists ptx prx Qtx Qrx,
    nth_error paths (v_tx v) = Some ptx /\ nth_error paths (v_rx v) = Some prx /\
    path_tx_weights N use_directivity use_transrefl use_beamspread use_attenuation width frequency ptx = Some Qtx /\
    path_rx_weights N use_directivity use_transrefl use_beamspread use_attenuation width frequency prx = Some Qrx /\
    rw_tx rw (v_tx v) = Some Qtx /\ rw_rx rw (v_rx v) = Some Qrx /\
    rw_angles rw (v_tx v) = Some (p_angles ptx) /\ rw_angles rw (v_rx v) = Some (p_angles prx).
Proof. intros T N paths views frequency width ud ub ut ua rw v H Hv. exact (rwfv_view N paths views frequency width ud ub ut ua rw v H Hv). Qed.

Theorem path_weights_are_ray_weights_tx : forall (T : Type) (N : Num T) ud ut ub ua width f (p : path) Q e s w,
  path_tx_weights N ud ut ub ua width f p = Some Q -> get2 Q e s = Some w ->
  exists r dict, get2 (p_rays p) e s = Some r /\ tx_ray_weights N ud ut ub ua width f (p_couplant p) r = Some (w, dict).
Proof. intros T N ud ut ub ua width f p Q e s w H1 H2. exact (path_tx_weights_entry N ud ut ub ua width f p Q e s w H1 H2). Qed.

Theorem path_weights_are_ray_weights_rx : forall (T : Type) (N : Num T) ud ut ub ua width f (p : path) Q e s w,
  path_rx_weights N ud ut ub ua width f p = Some Q -> get2 Q e s = Some w ->
  exists r dict, get2 (p_rays p) e s = Some r /\
    rx_ray_weights N ud ut ub ua width f (p_couplant p) (p_block p) r = Some (w, dict).
Proof. intros T N ud ut ub ua width f p Q e s w H1 H2. exact (path_rx_weights_entry N ud ut ub ua width f p Q e s w H1 H2). Qed.

(* a path through which no view transmits (receives) has no transmit (receive) weights: KeyError *)
Theorem ray_weights_no_tx_entry : forall (T : Type) (N : Num T) paths views f width ud ub ut ua rw k,
  ray_weights_for_views N paths views f width ud ub ut ua = Some rw -> ~ In k (map v_tx views) -> rw_tx rw k = None.
Proof. intros T N paths views f width ud ub ut ua rw k H Hk. exact (rwfv_no_tx N paths views f width ud ub ut ua rw k H Hk). Qed.

Theorem ray_weights_no_rx_entry : forall (T : Type) (N : Num T) paths views f width ud ub ut ua rw k,
  ray_weights_for_views N paths views f width ud ub ut ua = Some rw -> ~ In k (map v_rx views) -> rw_rx rw k = None.
Proof. intros T N paths views f width ud ub ut ua rw k H Hk. exact (rwfv_no_rx N paths views f width ud ub ut ua rw k H Hk). Qed.

(* ----- 5.2 first_nonzero_freq_idx ----- *)

(* None with one frequency: bin 0 *)
Theorem first_nonzero_default_one_frequency : default_first 1 None = 0%Z /\ first_bin 1 (default_first 1 None) = Some 0.
Proof. exact (conj default_first_none_one first_bin_default_one). Qed.

(* None with several frequencies: bin 1, the first bin is assumed to be the zero frequency *)
Theorem first_nonzero_default_several_frequencies : forall n, 2 <= n ->
  default_first n None = 1%Z /\ first_bin n (default_first n None) = Some 1.
Proof. exact first_nonzero_several. Qed.

(* an explicit 0 is honoured, whatever the number of frequencies *)
Theorem first_nonzero_explicit_zero : forall n, default_first n (Some 0%Z) = 0%Z /\ first_bin n (default_first n (Some 0%Z)) = Some 0.
Proof. intros n. exact (conj (default_first_some n 0%Z) (first_bin_explicit_zero n)). Qed.

(* any explicit index: non-negative clipped at the number of frequencies (slice), negative counted from the
   end, below -numfreq an IndexError on the first write *)
Theorem first_nonzero_explicit : forall n z,
  ((0 <= z)%Z -> first_bin n (default_first n (Some z)) = Some (Nat.min n (Z.to_nat z))) /\
  ((- Z.of_nat n <= z < 0)%Z -> first_bin n (default_first n (Some z)) = Some (Z.to_nat (Z.of_nat n + z))) /\
  (n <> 0 -> (z < - Z.of_nat n)%Z -> first_bin n (default_first n (Some z)) = None).
Proof. exact first_nonzero_explicit_cases. Qed.

(* ----- 5.3 scat_unshifted_transfer_functions ----- *)

(* one result per view, in the order of the views; shapes (numscatterers, numtimetraces, numfreq) and
   (numscatterers, numtimetraces) *)
Theorem unshifted_tf_defined : forall (T : Type) (N : Num T) (P : T) paths views tx rx freqs so width
    use_directivity use_beamspread use_transrefl use_attenuation a numangles first out,
  scat_unshifted_transfer_functions N P paths views tx rx freqs so width
    use_directivity use_beamspread use_transrefl use_attenuation a numangles first = Some out ->
  forall vi v, nth_error views vi = Some v ->
  length out = length views /\
  exists off ptx prx H delays,
    first_bin (length freqs) (default_first (length freqs) first) = Some off /\ off <= length freqs /\
    nth_error out vi = Some (H, delays) /\
    nth_error paths (v_tx v) = Some ptx /\ nth_error paths (v_rx v) = Some prx /\
    view_delays N ptx prx tx rx = Some delays /\
    length H = snd (shape2 (p_times ptx)) /\
    (forall s rows, nth_error H s = Some rows -> length rows = length tx) /\
    (forall s t row, get2 H s t = Some row -> length row = length freqs).
Proof.
  intros T N P paths views tx rx freqs so width ud ub ut ua a numangles first out H vi v Hv.
  exact (unshifted_defined N P paths views tx rx freqs so width ud ub ut ua a numangles first out H vi v Hv).
Qed.

(* delays[s][t] = times of the tx path [tx[t]][s] + times of the rx path [rx[t]][s] (transposed) *)
Theorem unshifted_tf_delays : forall (T : Type) (N : Num T) (ptx prx : path) tx rx D,
  view_delays N ptx prx tx rx = Some D ->
  length D = snd (shape2 (p_times ptx)) /\
  (forall s row, nth_error D s = Some row -> length row = length tx) /\
  forall s t zi zj, s < snd (shape2 (p_times ptx)) -> nth_error tx t = Some zi -> nth_error rx t = Some zj ->
    exists i j d d', norm_index (length (p_times ptx)) zi = Some i /\ norm_index (length (p_times prx)) zj = Some j /\
      get2 (p_times ptx) i s = Some d /\ get2 (p_times prx) j s = Some d' /\
      get2 D s t = Some (nadd N d d').
Proof. intros T N ptx prx tx rx D H. exact (view_delays_entry N ptx prx tx rx D H). Qed.

(* the bins before first_nonzero_freq_idx are zero *)
Theorem unshifted_tf_zero_bins : forall (T : Type) (N : Num T) (P : T) paths views tx rx freqs so width
    use_directivity use_beamspread use_transrefl use_attenuation a numangles first out,
  scat_unshifted_transfer_functions N P paths views tx rx freqs so width
    use_directivity use_beamspread use_transrefl use_attenuation a numangles first = Some out ->
  forall vi v H delays off, nth_error views vi = Some v -> nth_error out vi = Some (H, delays) ->
  first_bin (length freqs) (default_first (length freqs) first) = Some off ->
  forall s t b, s < length H -> t < length tx -> b < off -> get3 H s t b = Some (n0 (NumC N)).
Proof.
  intros T N P paths views tx rx freqs so width ud ub ut ua a numangles first out Hout vi v H delays off Hv Hvi Hoff.
  exact (unshifted_zero_bins N P paths views tx rx freqs so width ud ub ut ua a numangles first out Hout vi v H delays off Hv Hvi Hoff).
Qed.

(* bin first + k = conj of model_amplitudes_factory(tx, rx, view, ray_weights_k, scattering_k, a)[...] with
   ray_weights_k = ray_weights_for_views at THAT frequency with THE CALLER'S width and switches, each in its own
   position, and scattering_k the precomputed matrices [k] or the functions at that frequency *)
Theorem unshifted_tf_bin : forall (T : Type) (N : Num T) (P : T) paths views tx rx freqs so width
    use_directivity use_beamspread use_transrefl use_attenuation a numangles first out,
  scat_unshifted_transfer_functions N P paths views tx rx freqs so width
    use_directivity use_beamspread use_transrefl use_attenuation a numangles first = Some out ->
  forall vi v H delays off, nth_error views vi = Some v -> nth_error out vi = Some (H, delays) ->
  first_bin (length freqs) (default_first (length freqs) first) = Some off ->
  forall k f, nth_error freqs (off + k) = Some f ->
  exists rw Pk,
    ray_weights_for_views N paths views f width use_directivity use_beamspread use_transrefl use_attenuation = Some rw /\
    model_coefficients N P tx rx v rw (scattering_at so (precompute so (skipn off freqs) numangles) k f) a = Some Pk /\
    has_shape (length H) (length tx) Pk = true /\
    forall s t, s < length H -> t < length tx ->
      exists p, get2 Pk s t = Some p /\ get3 H s t (off + k) = Some (cconj N p).
Proof.
  intros T N P paths views tx rx freqs so width ud ub ut ua a numangles first out Hout vi v H delays off Hv Hvi Hoff.
  exact (unshifted_bin N P paths views tx rx freqs so width ud ub ut ua a numangles first out Hout vi v H delays off Hv Hvi Hoff).
Qed.

(* ... entry by entry: H[s][t][first + k] = conj( S_f(theta_i - a, theta_j - a) * Q_i(f) * Q'_j(f) ), i = tx[t], j = rx[t],
   Q_i the transmit weight of ray (i, s) of the view's tx path, Q'_j the receive weight of ray (j, s) of its rx path,
   computed by the one-ray functions with (use_directivity, use_transrefl, use_beamspread, use_attenuation) exactly as
   passed (a permutation of the switches would contradict this statement), theta the scattering angles of the two paths *)
Theorem unshifted_tf_bin_formula : forall (T : Type) (N : Num T) (P : T) paths views tx rx freqs so width
    use_directivity use_beamspread use_transrefl use_attenuation a numangles first out,
  scat_unshifted_transfer_functions N P paths views tx rx freqs so width
    use_directivity use_beamspread use_transrefl use_attenuation a numangles first = Some out ->
  forall vi v H delays off, nth_error views vi = Some v -> nth_error out vi = Some (H, delays) ->
  first_bin (length freqs) (default_first (length freqs) first) = Some off ->
  forall k f s t zi zj, nth_error freqs (off + k) = Some f -> s < length H ->
  nth_error tx t = Some zi -> nth_error rx t = Some zj ->
  exists (ptx prx : path) i j r r' q dq q' dq' th th',
    nth_error paths (v_tx v) = Some ptx /\ nth_error paths (v_rx v) = Some prx /\
    norm_index (length (p_rays ptx)) zi = Some i /\ norm_index (length (p_rays ptx)) zj = Some j /\
    get2 (p_rays ptx) i s = Some r /\ get2 (p_rays prx) j s = Some r' /\
    tx_ray_weights N use_directivity use_transrefl use_beamspread use_attenuation width f (p_couplant ptx) r = Some (q, dq) /\
    rx_ray_weights N use_directivity use_transrefl use_beamspread use_attenuation width f (p_couplant prx) (p_block prx) r'
      = Some (q', dq') /\
    get2 (p_angles ptx) i s = Some th /\ get2 (p_angles prx) j s = Some th' /\
    get3 H s t (off + k)
    = Some (cconj N (model_amplitude N
                       (scat_fun N P (scattering_at so (precompute so (skipn off freqs) numangles) k f (v_scat v)))
                       a q q' th th')).
Proof.
  intros T N P paths views tx rx freqs so width ud ub ut ua a numangles first out Hout vi v H delays off Hv Hvi Hoff.
  exact (unshifted_bin_formula N P paths views tx rx freqs so width ud ub ut ua a numangles first out Hout vi v H delays off Hv Hvi Hoff).
Qed.

(* switching a factor off in the pipeline replaces exactly that factor by one, in every bin: from the factors
   (d, tr, b, at) / (d', tr', b', at') of the all-enabled weights of the two rays, the bin computed with ANY switch
   set is conj( S * prod(switched tx factors) * prod(switched rx factors) * sqrt(lambda) ) *)
Theorem unshifted_tf_switch_off_is_one : forall (T : Type) (N : Num T) (P : T) paths views tx rx freqs so width
    use_directivity use_beamspread use_transrefl use_attenuation a numangles first out,
  scat_unshifted_transfer_functions N P paths views tx rx freqs so width
    use_directivity use_beamspread use_transrefl use_attenuation a numangles first = Some out ->
  forall vi v H delays off, nth_error views vi = Some v -> nth_error out vi = Some (H, delays) ->
  first_bin (length freqs) (default_first (length freqs) first) = Some off ->
  forall k f s t zi zj (ptx prx : path) i j r r' th th' w1 d tr b at' w1' d' tr' b' at'',
  nth_error freqs (off + k) = Some f -> s < length H ->
  nth_error tx t = Some zi -> nth_error rx t = Some zj ->
  nth_error paths (v_tx v) = Some ptx -> nth_error paths (v_rx v) = Some prx ->
  norm_index (length (p_rays ptx)) zi = Some i -> norm_index (length (p_rays ptx)) zj = Some j ->
  get2 (p_rays ptx) i s = Some r -> get2 (p_rays prx) j s = Some r' ->
  get2 (p_angles ptx) i s = Some th -> get2 (p_angles prx) j s = Some th' ->
  tx_ray_weights N true true true true width f (p_couplant ptx) r = Some (w1, (d, tr, b, at')) ->
  rx_ray_weights N true true true true width f (p_couplant prx) (p_block prx) r' = Some (w1', (d', tr', b', at'')) ->
  get3 H s t (off + k)
  = Some (cconj N (model_amplitude N
            (scat_fun N P (scattering_at so (precompute so (skipn off freqs) numangles) k f (v_scat v))) a
            (product4 N (switch use_directivity d (n1 N)) (switch use_transrefl tr (cre N (n1 N)))
                        (switch use_beamspread b (n1 N)) (switch use_attenuation at' (n1 N)))
            (nmul (NumC N)
               (product4 N (switch use_directivity d' (n1 N)) (switch use_transrefl tr' (cre N (n1 N)))
                           (switch use_beamspread b' (n1 N)) (switch use_attenuation at'' (n1 N)))
               (cre N (nsqrt N (wavelength_in_block N (p_block prx) (r_lastmode r') f))))
            th th')).
Proof.
  intros T N P paths views tx rx freqs so width ud ub ut ua a numangles first out Hout vi v H delays off Hv Hvi Hoff.
  exact (unshifted_bin_switch N P paths views tx rx freqs so width ud ub ut ua a numangles first out Hout vi v H delays off Hv Hvi Hoff).
Qed.

(* reciprocity lifts: if at every non-zero frequency the coefficients of view v at (s, t) equal those of view v' at
   (s, t') (C03's conclusion for a view, its reciprocal view and timetraces (i, j), (j, i)), the two rows of the
   unshifted transfer functions are equal, bin by bin *)
Theorem unshifted_tf_reciprocity : forall (T : Type) (N : Num T) (P : T) paths views tx rx freqs so width
    use_directivity use_beamspread use_transrefl use_attenuation a numangles first out,
  scat_unshifted_transfer_functions N P paths views tx rx freqs so width
    use_directivity use_beamspread use_transrefl use_attenuation a numangles first = Some out ->
  forall vi vi' v v' H H' D D' off,
  nth_error views vi = Some v -> nth_error views vi' = Some v' ->
  nth_error out vi = Some (H, D) -> nth_error out vi' = Some (H', D') ->
  first_bin (length freqs) (default_first (length freqs) first) = Some off ->
  forall s t t', s < length H -> s < length H' -> t < length tx -> t' < length tx ->
  (forall k f rw Pk Pk',
      nth_error freqs (off + k) = Some f ->
      ray_weights_for_views N paths views f width use_directivity use_beamspread use_transrefl use_attenuation = Some rw ->
      model_coefficients N P tx rx v rw (scattering_at so (precompute so (skipn off freqs) numangles) k f) a = Some Pk ->
      model_coefficients N P tx rx v' rw (scattering_at so (precompute so (skipn off freqs) numangles) k f) a = Some Pk' ->
      get2 Pk s t = get2 Pk' s t') ->
  get2 H s t = get2 H' s t' /\ forall b, get3 H s t b = get3 H' s t' b.
Proof.
  intros T N P paths views tx rx freqs so width ud ub ut ua a numangles first out Hout vi vi' v v' H H' D D' off Hv Hv' Hvi Hvi' Hoff.
  exact (unshifted_reciprocity N P paths views tx rx freqs so width ud ub ut ua a numangles first out Hout
           vi vi' v v' H H' D D' off Hv Hv' Hvi Hvi' Hoff).
Qed.

(* ----- 5.4 timeshift_spectra, the sum over the scatterers, the two wrappers ----- *)

(* out[s][t][b] = exp(-2j pi f_b delays[s][t]) * x[s][t][b]   (x[s][t][0] when x has ONE bin), shapes kept *)
Theorem timeshift_spectra_entries : forall (T : Type) (N : Num T) X D freqs Y,
  timeshift_spectra N X D freqs = Some Y ->
  length Y = length X /\
  (forall s Ys, nth_error Y s = Some Ys -> exists Xs, nth_error X s = Some Xs /\ length Ys = length Xs) /\
  (forall s t y, get2 Y s t = Some y -> length y = length freqs) /\
  forall s t x b f, get2 X s t = Some x -> nth_error freqs b = Some f ->
    exists d xb, get2 D s t = Some d /\ spectrum_value x b = Some xb /\
      get3 Y s t b = Some (nmul (NumC N) (phase N f d) xb).
Proof. intros T N X D freqs Y H. exact (timeshift_spectra_entry N X D freqs Y H). Qed.

(* the sum over the first axis, entry by entry, for any number of scatterers (numpy's order of accumulation) *)
Theorem sum_over_scatterers_entries : forall (T : Type) (N : Num T) nt nf tf t b terms,
  t < nt -> b < nf -> mapM (fun Y => get2 Y t b) tf = Some terms ->
  get2 (sum_scatterers N nt nf tf) t b = Some (csum1 N terms).
Proof. intros T N nt nf tf t b terms Ht Hb H. exact (sum_scatterers_entry N nt nf tf t b terms Ht Hb H). Qed.

(* with one scatterer the sum is that scatterer's term (the code's `tf[0]` shortcut changes nothing) *)
Theorem sum_one_scatterer_is_its_term : forall (T : Type) (N : Num T) nt nf Y p,
  sum_scatterers N nt nf [Y] = Y /\ csum1 N [p] = p.
Proof. intros T N nt nf Y p. exact (conj (sum_one_scatterer N nt nf Y) (csum1_one N p)). Qed.

(* multifreq_scat_transfer_functions: per view (same order, same names),
     tf[t][b] = sum_s exp(-2j pi f_b delays[s][t]) * H[s][t][b]
   with (H, delays) what scat_unshifted_transfer_functions yields on the SAME arguments (default first index) *)
Theorem multifreq_tf_is_sum_of_shifted : forall (T : Type) (N : Num T) (Name : Type) (P : T) paths
    (views : list (Name * view)) tx rx so width use_directivity use_beamspread use_transrefl use_attenuation a numangles
    freqs res vi name v,
  multifreq_scat_transfer_functions N P paths views tx rx freqs so width
    use_directivity use_beamspread use_transrefl use_attenuation a numangles = Some res ->
  nth_error views vi = Some (name, v) ->
  length res = length views /\
  exists us H D tf,
    scat_unshifted_transfer_functions N P paths (map snd views) tx rx freqs so width
      use_directivity use_beamspread use_transrefl use_attenuation a numangles None = Some us /\
    nth_error us vi = Some (H, D) /\ nth_error res vi = Some (name, tf) /\
    shifted_sum N freqs (length tx) (H, D) = Some tf /\
    forall t b f, t < length tx -> nth_error freqs b = Some f ->
      exists terms, length terms = length H /\
        (forall s, s < length H ->
           exists d x xb, get2 D s t = Some d /\ get2 H s t = Some x /\ nth_error x b = Some xb /\
             nth_error terms s = Some (nmul (NumC N) (phase N f d) xb)) /\
        get2 tf t b = Some (csum1 N terms).
Proof.
  intros T N Name P paths views tx rx so width ud ub ut ua a numangles freqs res vi name v H Hv.
  exact (multifreq_entry N P paths views tx rx so width ud ub ut ua a numangles freqs res vi name v H Hv).
Qed.

(* singlefreq_scat_transfer_functions: the unshifted function at the ONE frequency `frequency` (one bin),
     tf[t][b] = sum_s exp(-2j pi f_b delays[s][t]) * H[s][t][0]      for every f_b of freq_array *)
Theorem singlefreq_tf_is_sum_of_shifted : forall (T : Type) (N : Num T) (Name : Type) (P : T) paths
    (views : list (Name * view)) tx rx so width use_directivity use_beamspread use_transrefl use_attenuation a numangles
    frequency freqs res vi name v,
  singlefreq_scat_transfer_functions N P paths views tx rx frequency freqs so width
    use_directivity use_beamspread use_transrefl use_attenuation a numangles = Some res ->
  nth_error views vi = Some (name, v) ->
  length res = length views /\
  exists us H D tf,
    scat_unshifted_transfer_functions N P paths (map snd views) tx rx [frequency] so width
      use_directivity use_beamspread use_transrefl use_attenuation a numangles None = Some us /\
    nth_error us vi = Some (H, D) /\ nth_error res vi = Some (name, tf) /\
    shifted_sum N freqs (length tx) (H, D) = Some tf /\
    forall t b f, t < length tx -> nth_error freqs b = Some f ->
      exists terms, length terms = length H /\
        (forall s, s < length H ->
           exists d x xb, get2 D s t = Some d /\ get2 H s t = Some x /\ x = [xb] /\
             nth_error terms s = Some (nmul (NumC N) (phase N f d) xb)) /\
        get2 tf t b = Some (csum1 N terms).
Proof.
  intros T N Name P paths views tx rx so width ud ub ut ua a numangles frequency freqs res vi name v H Hv.
  exact (singlefreq_entry N P paths views tx rx so width ud ub ut ua a numangles frequency freqs res vi name v H Hv).
Qed.

(* over the reals: the phase factor and the product are those of Model/Dft.v (C11) — on the frequencies
   k / (n dt) of an n-point transform the shift of one bin IS shift_spectrum —, np.conj is the complex
   conjugate and the ordered accumulation is the sum *)
Theorem timeshift_is_dft_shift_spectrum : forall (X : nat -> C) n dt delay k,
  nmul (NumC NumR) (phase NumR (INR k / (INR n * dt))%R delay) (X k) = shift_spectrum X n dt delay k.
Proof. exact timeshift_bin_is_shift_spectrum. Qed.

Theorem pipeline_conj_is_complex_conjugate : forall z : R * R, cconj NumR z = Cconj z.
Proof. exact cconj_R. Qed.

Theorem ordered_sum_is_sum : forall l : list (R * R), csum1 NumR l = fold_right Cplus (RtoC 0) l.
Proof. exact csum1_R. Qed.

(* ===== non-vacuity ================================================================================ *)
Section Examples.
  Local Open Scope Q_scope.
  Let cq (x y : Q) : Q * Q := (x, y).
  (* 2 elements, 3 grid points, all entries distinct *)
  Let Qtx := [[cq 1 2; cq 3 (-1); cq (1#2) 0]; [cq (-2) 1; cq 0 3; cq 5 (1#4)]].
  Let Qrx := [[cq 2 0; cq 1 1; cq (-1) 2]; [cq (3#2) (-1); cq 4 0; cq 0 (-2)]].
  Let Ttx := [[1#4; 1#2; 3#4]; [-(1#4); -(1#2); -(3#4)]].
  Let Trx := [[1#8; 3#8; 5#8]; [-(1#8); -(3#8); -(5#8)]].
  Let S (x y : Q) : Q * Q := (1 + 2 * x + 3 * y, x * y).
  Let tx := [0; 1; 1; -1]%Z.
  Let rx := [1; 0; -1; 0]%Z.

  (* grid indices [2; -3] (= [2; 0]), rotation 1/8: the entry for the first selected point and
     timetrace 2 (tx = 1, rx = -1 = 1) is S(-3/4 - 1/8, -5/8 - 1/8) * (5 + i/4) * (-2i) *)
  Example amplitudes_example :
    exists o P, factory tx rx 2 3 Qtx Qrx Ttx Trx (1#8) = Some o /\
      getitem_fn NumQ S o [2; -3]%Z = Some P /\
      get2 P 0 2 = Some (81 # 16, 1941 # 64) /\ get2 P 1 1 = Some (-1, 1 # 2) /\
      length P = 2%nat /\ map (@length _) P = [4; 4]%nat.
  Proof.
    destruct (factory tx rx 2 3 Qtx Qrx Ttx Trx (1#8)) as [o|] eqn:E; [|vm_compute in E; discriminate].
    exists o. destruct (getitem_fn NumQ S o [2; -3]%Z) as [P|] eqn:EP.
    - exists P. split; [reflexivity|]. split; [reflexivity|].
      vm_compute in E. inversion E; subst o. vm_compute in EP. inversion EP; subst P.
      vm_compute. repeat split; reflexivity.
    - vm_compute in E. inversion E; subst o. vm_compute in EP. discriminate.
  Qed.

  (* grid index 3 is out of range for 3 points *)
  Example amplitudes_index_error :
    forall o, factory tx rx 2 3 Qtx Qrx Ttx Trx (1#8) = Some o -> getitem_fn NumQ S o [3]%Z = None.
  Proof. intros o E. vm_compute in E. inversion E; subst o. vm_compute. reflexivity. Qed.

  (* block sizes 1, 2 and 7 on 3 points give the same uniform sensitivity *)
  Example sensitivity_example :
    forall o, factory tx rx 2 3 Qtx Qrx Ttx Trx (1#8) = Some o ->
      sensitivity_uniform_tfm NumQ (getitem_fn NumQ S o) 3 4 [1; 1; 2; 1#2] 2
        = Some [(53 # 128, -(143 # 256)); (-(435 # 256), -(2707 # 256)); (1263 # 512, 4815 # 256)] /\
      sensitivity_uniform_tfm NumQ (getitem_fn NumQ S o) 3 4 [1; 1; 2; 1#2] 1
        = sensitivity_uniform_tfm NumQ (getitem_fn NumQ S o) 3 4 [1; 1; 2; 1#2] 2 /\
      sensitivity_uniform_tfm NumQ (getitem_fn NumQ S o) 3 4 [1; 1; 2; 1#2] 7
        = sensitivity_uniform_tfm NumQ (getitem_fn NumQ S o) 3 4 [1; 1; 2; 1#2] 2.
  Proof. intros o E. vm_compute in E. inversion E; subst o. vm_compute. repeat split; reflexivity. Qed.

  (* one ray at normal incidence, water -> steel, legs 1 and 3/4 (virtual distance 4), exact over Q:
     hypotheses of the weight theorems are satisfiable, and the switches act as stated *)
  Let water : material (Q * Q) := mkMaterial (cq 1000 0) (cq 1500 0) (cq Qbad 0).
  Let steel : material (Q * Q) := mkMaterial (cq 8000 0) (cq 6000 0) (cq 3000 0).
  Let ray0 := mkRay 0 [mkIface FluidSolid true water steel water ModeL ModeL (cq 0 0)]
                    [1500; 6000] [1; 3#4] [None; Some (AttConstant 0)] ModeL.
  Example weights_example :
    tx_ray_weights NumQ true true true true (Some (1#1000)) 24000 water ray0
      = Some (cq (1#33) 0, (1, cq (2#33) 0, 1#2, 1)) /\
    rx_ray_weights NumQ true true true true (Some (1#1000)) 24000 water steel ray0
      = Some (cq (32#33) 0, (1, cq (64#33) 0, 1, 1)) /\
    tx_ray_weights NumQ false true false true None 24000 water ray0
      = Some (cq (2#33) 0, (1, cq (2#33) 0, 1, 1)) /\
    tx_ray_weights NumQ true true false true None 24000 water ray0 = None.
  Proof. vm_compute. repeat split; reflexivity. Qed.

  (* the pipeline on one path (2 elements, 2 scatterers, every ray = ray0) used for transmission and reception,
     one view, timetraces (0,0) (1,0) (1,-1), frequencies [0; 6000; 24000], scattering
     S_f(x, y) = 1 + 2x + 3y + i (f/6000) x, rotation 1/8: bin 0 stays zero, bins 1 and 2 are the conjugated
     coefficients (e.g. scatterer 1, timetrace 2, bin 2: conj(S_24000(-5/8, -5/8) * 1/33 * 32/33)), delays are
     sums of times; with an explicit first index 0 on [6000; 24000] both bins are computed, with None the first
     is left at zero; directivity without element width raises *)
  Let p0 := mkPath water steel [[ray0; ray0]; [ray0; ray0]] [[1#4; 1#2]; [-(1#4); -(1#2)]] [[1; 2]; [3; 4]].
  Let sobj : scat_obj := mkScat None (fun f _ x y => (1 + 2 * x + 3 * y, (f / 6000) * x)) (fun _ _ _ => []).
  Let vw := mkView 0 0 (ModeL, ModeL).
  Let txl := [0; 1; 1]%Z.
  Let rxl := [0; 0; -1]%Z.
  Example pipeline_example :
    scat_unshifted_transfer_functions NumQ 0 [p0] [vw] txl rxl [0; 6000; 24000] sobj (Some (1#1000)) true true true true (1#8) 0%Z None
      = Some [([[[(0, 0); (104 # 1089, -8 # 1089); (52 # 1089, -16 # 1089)];
                 [(0, 0); (40 # 1089, 8 # 363); (20 # 1089, 16 # 363)];
                 [(0, 0); (-56 # 1089, 8 # 363); (-28 # 1089, 16 # 363)]];
                [[(0, 0); (184 # 1089, -8 # 363); (92 # 1089, -16 # 363)];
                 [(0, 0); (56 # 1089, 40 # 1089); (28 # 1089, 80 # 1089)];
                 [(0, 0); (-136 # 1089, 40 # 1089); (-68 # 1089, 80 # 1089)]]],
               [[2; 4; 6]; [4; 6; 8]])] /\
    omap (map (fun u => get3 (fst u) 1 2 0)) (scat_unshifted_transfer_functions NumQ 0 [p0] [vw] txl rxl [6000; 24000] sobj
             (Some (1#1000)) true true true true (1#8) 0%Z (Some 0%Z)) = Some [Some (-136 # 1089, 40 # 1089)] /\
    omap (map (fun u => get3 (fst u) 1 2 0)) (scat_unshifted_transfer_functions NumQ 0 [p0] [vw] txl rxl [6000; 24000] sobj
             (Some (1#1000)) true true true true (1#8) 0%Z None) = Some [Some (0, 0)] /\
    scat_unshifted_transfer_functions NumQ 0 [p0] [vw] txl rxl [0; 6000; 24000] sobj None true true true true (1#8) 0%Z None = None /\
    (* the wrappers on the same path with zero travel times (over Q only a zero phase is computable): sums over
       the two scatterers; the single-frequency one repeats the value at 24000 in every bin *)
    (let p0z := mkPath water steel [[ray0; ray0]; [ray0; ray0]] [[1#4; 1#2]; [-(1#4); -(1#2)]] [[0; 0]; [0; 0]] in
     multifreq_scat_transfer_functions NumQ 0 [p0z] [(7%nat, vw)] txl rxl [0; 6000; 24000] sobj (Some (1#1000)) true true true true (1#8) 0%Z
       = Some [(7%nat, [[(0, 0); (32 # 121, -32 # 1089); (16 # 121, -64 # 1089)];
                        [(0, 0); (32 # 363, 64 # 1089); (16 # 363, 128 # 1089)];
                        [(0, 0); (-64 # 363, 64 # 1089); (-32 # 363, 128 # 1089)]])] /\
     singlefreq_scat_transfer_functions NumQ 0 [p0z] [(7%nat, vw)] txl rxl 24000 [0; 6000; 24000] sobj (Some (1#1000)) true true true true (1#8) 0%Z
       = Some [(7%nat, [[(16 # 121, -64 # 1089); (16 # 121, -64 # 1089); (16 # 121, -64 # 1089)];
                        [(16 # 363, 128 # 1089); (16 # 363, 128 # 1089); (16 # 363, 128 # 1089)];
                        [(-32 # 363, 128 # 1089); (-32 # 363, 128 # 1089); (-32 # 363, 128 # 1089)]])]) /\
    (* two views sharing the tx path 0, one receiving through path 1: one entry per path, path 1 has no transmit weights *)
    omap (map (fun e => (e_path e, match e_tx e with Some _ => true | None => false end,
                                   match e_rx e with Some _ => true | None => false end)))
         (ray_weights_for_views NumQ [p0; p0] [mkView 0 1 (ModeL, ModeL); mkView 0 0 (ModeL, ModeL)] 24000 (Some (1#1000))
                                true true true true)
      = Some [(1%nat, false, true); (0%nat, true, true)].
  Proof. vm_compute. repeat split; reflexivity. Qed.
End Examples.

(* ===== 6. the glue around the coefficients (Model/AmplitudesGlue.v, Proofs/AmplitudesGlueProofs.v) ================
   Reading guide
     selector = the list of the items of the index tuple given to ModelAmplitudes.__getitem__ (an index that is not a
         tuple is the one-item list): GInt z | GSlice start stop step | GList l | GMask m | GDots (Ellipsis) | GNone.
     gres = GOk value | GRaise kind (EIndex, EValue, EKey, EAssertion, EType; EUnmodelled is not an exception: the model
         declines — numba reading out of bounds, both axes indexed in the matrix class, (None, k)).  arr = A1 row | A2 rows.
     getitem_fn_sel / getitem_mat_sel N .. o dtx drx sel : __getitem__(sel) of the two classes on the object o built by
         `factory`, dtx / drx the dtypes of the tx / rx index arrays (DtInt, DtUInt, DtUInt64, DtBool, DtFloat).
     expand_sel ng sel = the grid points an index of the FIRST dimension designates, and whether the axis is dropped;
     grid_selector sel: at most one int / slice / list / mask, not preceded by an Ellipsis, no None.
     spec_sel .. S bad sel = the rows spec_amp of these grid points (GRaise bad when an element index is out of range).
     model_amplitudes_factory tx rx view rw scattering a : the factory on the RayWeights namedtuple (dictionaries =
         association lists keyed by the path's number) and the dictionary of scattering functions / matrices.
     ray_weights_for_views_full N paths views f width ud ub ut ua save_debug : the namedtuple, paths = (path, traced?). *)
From Arim Require Import Model.AmplitudesGlue Proofs.AmplitudesGlueProofs.

(* ----- 6.1 Python slices, the chunk selectors ----- *)

(* list(range(n))[start:stop:step] for ANY bounds and step (negative, beyond the ends, missing): every index lies on
   the axis — a slice never raises IndexError and never wraps — and no index is repeated *)
Theorem slice_never_leaves_the_axis : forall n start stop step idx,
  slice_indices n start stop step = GOk idx -> Forall (in_axis n) idx /\ NoDup idx.
Proof. intros n start stop step idx H. exact (conj (slice_indices_in_axis n start stop step idx H) (slice_indices_nodup n start stop step idx H)). Qed.

(* model_amplitudes[:] designates every grid point, in order *)
Theorem slice_colon_is_every_point : forall n, slice_indices n None None None = GOk (all_points n).
Proof. exact slice_all. Qed.

(* model_amplitudes[a:b], 0 <= a, b: the clipped half-open range *)
Theorem slice_is_clipped_range : forall n a b,
  slice_indices n (Some (Z.of_nat a)) (Some (Z.of_nat b)) None = GOk (map Z.of_nat (range_of (Nat.min a n, Nat.min b n))).
Proof. exact slice_range. Qed.

(* the selector (slice(i*b, (i+1)*b), Ellipsis) that helpers.chunk_array yields to the two sensitivity functions IS an
   index of the first dimension and designates exactly the list of grid points that sens_loop (section 4) passes *)
Theorem chunk_selectors_are_the_chunks : forall ng b i,
  grid_selector (chunk_selector b i) = true /\
  expand_sel ng (chunk_selector b i) = GOk (map Z.of_nat (range_of (chunk ng b i)), false).
Proof. exact chunk_selector_expands. Qed.

(* ----- 6.2 the index forms of ModelAmplitudes.__getitem__ ----- *)

(* for EVERY index of the first dimension — int (first axis dropped), slice with any bounds and step, Ellipsis, (),
   index list, boolean mask, and tuples of one of them with an Ellipsis after it — both classes are the index-level
   definition on the designated grid points; the exceptions too: IndexError (int / list entry off the axis, non-empty mask
   of another length — an EMPTY mask is accepted on every axis and designates no grid point —, two Ellipsis), ValueError (step 0), and an element index off the probe (IndexError in the function
   class; undefined in the matrix class).  Any integer dtype of tx / rx, booleans included *)
Theorem amplitude_selector_indexing_fn : forall (T : Type) (N : Num T) tx rx ne ng Qtx Qrx Ttx Trx a o,
  length tx = length rx -> factory tx rx ne ng Qtx Qrx Ttx Trx a = Some o ->
  forall (S : T -> T -> T * T) dtx drx sel,
  grid_selector sel = true -> idx_ok_fn dtx = true -> idx_ok_fn drx = true ->
  getitem_fn_sel N S o dtx drx sel = spec_sel N tx rx ne ng Qtx Qrx Ttx Trx a S EIndex sel.
Proof. intros T N tx rx ne ng Qtx Qrx Ttx Trx a o H1 H2. exact (getitem_fn_sel_is_spec N tx rx ne ng Qtx Qrx Ttx Trx a o H1 H2). Qed.

Theorem amplitude_selector_indexing_mat : forall (T : Type) (N : Num T) tx rx ne ng Qtx Qrx Ttx Trx a o,
  length tx = length rx -> factory tx rx ne ng Qtx Qrx Ttx Trx a = Some o ->
  forall (P : T) (M : list (list (T * T))) dtx drx sel,
  grid_selector sel = true -> idx_ok_mat dtx = true -> idx_ok_mat drx = true -> mat_ok M = true ->
  getitem_mat_sel N P M o dtx drx sel = spec_sel N tx rx ne ng Qtx Qrx Ttx Trx a (interp_c N P M) EUnmodelled sel.
Proof. intros T N tx rx ne ng Qtx Qrx Ttx Trx a o H1 H2. exact (getitem_mat_sel_is_spec N tx rx ne ng Qtx Qrx Ttx Trx a o H1 H2). Qed.

(* model_amplitudes[sel] = (model_amplitudes[...])[sel]: whenever the full array has a value, indexing the object is
   numpy-indexing that array (index2 = A[sel] on a 2-d array), for every index of the first dimension *)
Theorem amplitude_selector_is_subarray_fn : forall (T : Type) (N : Num T) tx rx ne ng Qtx Qrx Ttx Trx a o,
  length tx = length rx -> factory tx rx ne ng Qtx Qrx Ttx Trx a = Some o ->
  forall (S : T -> T -> T * T) dtx drx F sel,
  getitem_fn N S o (all_points ng) = Some F ->
  grid_selector sel = true -> idx_ok_fn dtx = true -> idx_ok_fn drx = true ->
  getitem_fn_sel N S o dtx drx sel = index2 ng (length tx) F sel.
Proof. intros T N tx rx ne ng Qtx Qrx Ttx Trx a o H1 H2. exact (getitem_fn_sel_subarray N tx rx ne ng Qtx Qrx Ttx Trx a o H1 H2). Qed.

Theorem amplitude_selector_is_subarray_mat : forall (T : Type) (N : Num T) tx rx ne ng Qtx Qrx Ttx Trx a o,
  length tx = length rx -> factory tx rx ne ng Qtx Qrx Ttx Trx a = Some o ->
  forall (P : T) (M : list (list (T * T))) dtx drx F sel,
  getitem_mat N P M o (all_points ng) = Some F -> mat_ok M = true ->
  grid_selector sel = true -> idx_ok_mat dtx = true -> idx_ok_mat drx = true ->
  getitem_mat_sel N P M o dtx drx sel = index2 ng (length tx) F sel.
Proof. intros T N tx rx ne ng Qtx Qrx Ttx Trx a o H1 H2. exact (getitem_mat_sel_subarray N tx rx ne ng Qtx Qrx Ttx Trx a o H1 H2). Qed.

(* "identically for scattering given as functions or as matrices", selector by selector, exceptions included, when
   the element indices are on the probe *)
Theorem matrix_eq_function_on_selectors : forall (T : Type) (N : Num T) tx rx ne ng Qtx Qrx Ttx Trx a o,
  length tx = length rx -> factory tx rx ne ng Qtx Qrx Ttx Trx a = Some o ->
  forall (P : T) (M : list (list (T * T))) dtx drx sel,
  grid_selector sel = true -> idx_ok_mat dtx = true -> idx_ok_mat drx = true -> mat_ok M = true ->
  Forall (valid_index ne) tx -> Forall (valid_index ne) rx ->
  getitem_mat_sel N P M o dtx drx sel = getitem_fn_sel N (interp_c N P M) o dtx drx sel.
Proof. intros T N tx rx ne ng Qtx Qrx Ttx Trx a o H1 H2. exact (classes_agree_on_selectors N tx rx ne ng Qtx Qrx Ttx Trx a o H1 H2). Qed.

(* the SAME array passed as tx and as rx (pulse-echo: tx is rx): the incident angle and the transmit weight still
   come from the tx path's arrays, the scattered angle and the receive weight from the rx path's *)
Theorem amplitude_same_index_array : forall (T : Type) (N : Num T) (S : T -> T -> T * T) idx ne ng Qtx Qrx Ttx Trx a o G,
  factory idx idx ne ng Qtx Qrx Ttx Trx a = Some o ->
  getitem_fn N S o G = spec_amp N S a ne ng Qtx Qrx Ttx Trx idx idx G.
Proof. intros T N S idx ne ng Qtx Qrx Ttx Trx a o G H. exact (getitem_fn_is_spec N S idx idx ne ng Qtx Qrx Ttx Trx a o G eq_refl H). Qed.

(* what the function class rejects, for any object: two or more indices (model_amplitudes[3, 7], [:, 0], ...) *)
Theorem second_dimension_index_rejected : forall (T : Type) (N : Num T) (S : T -> T -> T * T) o dtx drx sel,
  2 <= length (consumers sel) -> getitem_fn_sel N S o dtx drx sel = GRaise EIndex.
Proof. intros T N S o dtx drx sel H. exact (fn_two_indices_rejected N S o dtx drx sel H). Qed.

(* ... np.newaxis without an integer index (the explicit IndexError of the guard, or numpy's exception for the
   other item) *)
Theorem newaxis_rejected : forall (T : Type) (N : Num T) (S : T -> T -> T * T) o dtx drx sel,
  has_none sel = true -> (forall z, consumers sel <> [GInt z]) ->
  exists e, e <> EUnmodelled /\ getitem_fn_sel N S o dtx drx sel = GRaise e.
Proof. intros T N S o dtx drx sel H1 H2. exact (fn_newaxis_rejected N S o dtx drx sel H1 H2). Qed.

(* ... two Ellipsis, in both classes *)
Theorem two_ellipsis_rejected_both_classes : forall (T : Type) (N : Num T) (S : T -> T -> T * T) o dtx drx (P : T) M sel,
  2 <= count_dots sel -> has_none sel = false ->
  getitem_fn_sel N S o dtx drx sel = GRaise EIndex /\ getitem_mat_sel N P M o dtx drx sel = GRaise EIndex.
Proof. intros T N S o dtx drx P M sel H1 H2. exact (two_ellipsis_rejected N S o dtx drx P M sel H1 H2). Qed.

(* FULL statement (docstring of ModelAmplitudes): "Only the first dimension must be indexed ... Indexing the second
   dimension will fail", i.e. every selector that passes the guard of the function class is an index of the first
   dimension and returns rows of model_amplitudes[...].  REFUTED: model_amplitudes[..., 0] passes
   (np.empty(numpoints)[..., 0] is 0-dimensional) and returns a value that is no row of model_amplitudes[...]
   (2 elements, 3 grid points, exact rationals).  Replayed on the library: notes/prover_C08_TIE.md *)
Theorem only_first_dimension_guard_refuted :
  exists o F row,
    factory [0; 1; 1; -1]%Z [1; 0; -1; 0]%Z 2 3
      [[(1, 2); (3, -1); (1 # 2, 0)]; [(-2, 1); (0, 3); (5, 1 # 4)]]%Q
      [[(2, 0); (1, 1); (-1, 2)]; [(3 # 2, -1); (4, 0); (0, -2)]]%Q
      [[1 # 4; 1 # 2; 3 # 4]; [-(1 # 4); -(1 # 2); -(3 # 4)]]%Q
      [[1 # 8; 3 # 8; 5 # 8]; [-(1 # 8); -(3 # 8); -(5 # 8)]]%Q (1 # 8)%Q = Some o /\
    getitem_fn NumQ (fun x y => (1 + 2 * x + 3 * y, x * y)%Q) o (all_points 3) = Some F /\
    getitem_fn_sel NumQ (fun x y => (1 + 2 * x + 3 * y, x * y)%Q) o DtInt DtInt [GDots; GInt 0] = GOk (A1 row) /\
    length row = 4 /\ existsb (same_row row) F = false.
Proof. exact guard_incomplete_witness. Qed.

(* what model_amplitudes[..., e] does return, in general: the answer, for "grid point" e, of an object holding the
   RayWeights arrays WITHOUT the great transposition — tx / rx are read as grid-point indices, e as an element index
   (IndexError unless e is both a valid grid index, for the guard, and a valid element index, for the arrays) *)
Theorem ellipsis_first_reads_untransposed : forall (T : Type) (N : Num T) tx rx ne ng Qtx Qrx Ttx Trx a o,
  length tx = length rx -> factory tx rx ne ng Qtx Qrx Ttx Trx a = Some o ->
  forall (S : T -> T -> T * T) dtx drx e, idx_ok_fn dtx = true -> idx_ok_fn drx = true ->
  getitem_fn_sel N S o dtx drx [GDots; GInt e]
  = if zvalid ng e && zvalid ne e
    then of_option EIndex (omap (shape_result true) (getitem_fn N S (mkAmp tx rx Qtx Qrx Ttx Trx a ne ng) [e]))
    else GRaise EIndex.
Proof. intros T N tx rx ne ng Qtx Qrx Ttx Trx a o H1 H2. exact (fn_ellipsis_then_int N tx rx ne ng Qtx Qrx Ttx Trx a o H1 H2). Qed.

(* the dtype of the index arrays: a float tx is a TypeError (np.take) once the selector has passed ... *)
Theorem float_tx_is_a_typeerror_fn : forall (T : Type) (N : Num T) tx rx ne ng Qtx Qrx Ttx Trx a o,
  factory tx rx ne ng Qtx Qrx Ttx Trx a = Some o ->
  forall (S : T -> T -> T * T) drx sel gd, grid_selector sel = true -> expand_sel ng sel = GOk gd ->
  getitem_fn_sel N S o DtFloat drx sel = GRaise EType.
Proof. intros T N tx rx ne ng Qtx Qrx Ttx Trx a o H. exact (fn_float_tx_typeerror N tx rx ne ng Qtx Qrx Ttx Trx a o H). Qed.

(* ... the gufunc of the matrix class accepts neither float nor uint64 (the function class accepts uint64) ... *)
Theorem bad_index_dtype_is_a_typeerror_mat : forall (T : Type) (N : Num T) tx rx ne ng Qtx Qrx Ttx Trx a o,
  factory tx rx ne ng Qtx Qrx Ttx Trx a = Some o ->
  forall (P : T) (M : list (list (T * T))) dtx drx sel gd, grid_selector sel = true -> expand_sel ng sel = GOk gd ->
  idx_ok_mat dtx && idx_ok_mat drx = false ->
  getitem_mat_sel N P M o dtx drx sel = GRaise EType.
Proof. intros T N tx rx ne ng Qtx Qrx Ttx Trx a o H. exact (mat_bad_dtype_typeerror N tx rx ne ng Qtx Qrx Ttx Trx a o H). Qed.

(* tx and rx of different lengths: ValueError in the matrix class (signature (n),(n)) ... *)
Theorem length_mismatch_is_a_valueerror_mat : forall (T : Type) (N : Num T) tx rx ne ng Qtx Qrx Ttx Trx a o,
  factory tx rx ne ng Qtx Qrx Ttx Trx a = Some o ->
  forall (P : T) (M : list (list (T * T))) dtx drx sel gd, grid_selector sel = true -> expand_sel ng sel = GOk gd ->
  idx_ok_mat dtx = true -> idx_ok_mat drx = true -> length tx <> length rx ->
  getitem_mat_sel N P M o dtx drx sel = GRaise EValue.
Proof. intros T N tx rx ne ng Qtx Qrx Ttx Trx a o H. exact (mat_length_mismatch_valueerror N tx rx ne ng Qtx Qrx Ttx Trx a o H). Qed.

(* ... in the function class only when the two lengths do not broadcast (neither equal nor one of them 1) ... *)
Theorem length_mismatch_is_a_valueerror_fn : forall (T : Type) (N : Num T) tx rx ne ng Qtx Qrx Ttx Trx a o,
  factory tx rx ne ng Qtx Qrx Ttx Trx a = Some o ->
  forall (S : T -> T -> T * T) dtx drx sel gd, grid_selector sel = true -> expand_sel ng sel = GOk gd ->
  idx_ok_fn dtx = true -> idx_ok_fn drx = true ->
  Forall (valid_index ne) tx -> Forall (valid_index ne) rx ->
  broadcastable (length tx) (length rx) = false ->
  getitem_fn_sel N S o dtx drx sel = GRaise EValue.
Proof. intros T N tx rx ne ng Qtx Qrx Ttx Trx a o H. exact (fn_length_mismatch_valueerror N tx rx ne ng Qtx Qrx Ttx Trx a o H). Qed.

(* ... and a single receiver index is broadcast: the same answer, for every selector, as rx = [j] * numtimetraces *)
Theorem single_rx_index_is_broadcast_fn : forall (T : Type) (N : Num T) (S : T -> T -> T * T) tx j qtx qrx ttx trx a np nel dtx drx sel,
  1 <= length tx ->
  getitem_fn_sel N S (mkAmp tx [j] qtx qrx ttx trx a np nel) dtx drx sel
  = getitem_fn_sel N S (mkAmp tx (repeat j (length tx)) qtx qrx ttx trx a np nel) dtx drx sel.
Proof. intros T N S tx j qtx qrx ttx trx a np nel dtx drx sel H. exact (fn_single_rx_is_broadcast N S tx j qtx qrx ttx trx a np nel dtx drx sel H). Qed.

(* [repair after the tie C08] a boolean mask as index: accepted exactly when it has the length of the axis OR is empty —
   numpy accepts a boolean index of size 0 on an axis of ANY length and selects nothing
   (np.arange(4)[np.array([], dtype=bool)] = []); the model used to answer IndexError for every length other than the
   axis'.  Any other length: IndexError.  The theorems above are stated through expand_sel / mask_indices and hold
   unchanged with the empty-mask case included *)
Theorem mask_accepted_iff_axis_length_or_empty : forall n m,
  (forall idx, mask_indices n m = GOk idx <-> (length m = n \/ m = []) /\ idx = mask_positions 0 m) /\
  (forall e, mask_indices n m = GRaise e <-> e = EIndex /\ length m <> n /\ m <> []).
Proof. intros n m. split; [intros idx; exact (mask_indices_ok_iff n m idx) | intros e; exact (mask_indices_raises_iff n m e)]. Qed.

(* model_amplitudes[np.array([], dtype=bool)] on a grid of ANY size: no exception, the array of shape (0, numtimetraces)
   (no rows), in both classes — whatever the element indices, since no grid point is read *)
Theorem empty_mask_selects_nothing : forall (T : Type) (N : Num T) tx rx ne ng Qtx Qrx Ttx Trx a o,
  length tx = length rx -> factory tx rx ne ng Qtx Qrx Ttx Trx a = Some o ->
  (forall (S : T -> T -> T * T) dtx drx, idx_ok_fn dtx = true -> idx_ok_fn drx = true ->
     getitem_fn_sel N S o dtx drx [GMask []] = GOk (A2 [])) /\
  (forall (P : T) (M : list (list (T * T))) dtx drx, idx_ok_mat dtx = true -> idx_ok_mat drx = true -> mat_ok M = true ->
     getitem_mat_sel N P M o dtx drx [GMask []] = GOk (A2 [])).
Proof.
  intros T N tx rx ne ng Qtx Qrx Ttx Trx a o H1 H2. split.
  - intros S dtx drx Hx Hr.
    rewrite (getitem_fn_sel_is_spec N tx rx ne ng Qtx Qrx Ttx Trx a o H1 H2 S dtx drx [GMask []] eq_refl Hx Hr). reflexivity.
  - intros P M dtx drx Hx Hr Hm.
    rewrite (getitem_mat_sel_is_spec N tx rx ne ng Qtx Qrx Ttx Trx a o H1 H2 P M dtx drx [GMask []] eq_refl Hx Hr Hm). reflexivity.
Qed.

(* ----- 6.3 model_amplitudes_factory on the RayWeights namedtuple ----- *)

(* a value: every dictionary lookup succeeded (scattering[view.scat_key()], the tx path among the TRANSMIT weights, the
   rx path among the RECEIVE weights, both among the scattering angles), the four shapes agree, the object holds the
   transposed arrays, the caller's tx / rx and the scattering object of THAT key *)
Theorem factory_value : forall (T : Type) tx rx v (rw : ray_weights_nt (T := T)) scat a ob,
  model_amplitudes_factory tx rx v rw scat a = GOk ob ->
  exists sobj Qtx Qrx Ttx Trx o,
    sget scat (v_scat v) = Some sobj /\
    dget (rw_txd rw) (v_tx v) = Some Qtx /\ dget (rw_rxd rw) (v_rx v) = Some Qrx /\
    dget (rw_angd rw) (v_tx v) = Some Ttx /\ dget (rw_angd rw) (v_rx v) = Some Trx /\
    shapes_agree Qtx Qrx Ttx Trx /\
    factory (ix_vals tx) (ix_vals rx) (fst (shape2 Qtx)) (snd (shape2 Qtx)) Qtx Qrx Ttx Trx a = Some o /\
    ob = mkObj sobj o (ix_dtype tx) (ix_dtype rx).
Proof. intros T tx rx v rw scat a ob H. exact (maf_inv tx rx v rw scat a ob H). Qed.

Theorem factory_keyerror_iff : forall (T : Type) tx rx v (rw : ray_weights_nt (T := T)) scat a,
  model_amplitudes_factory tx rx v rw scat a = GRaise EKey
  <-> sget scat (v_scat v) = None \/ dget (rw_txd rw) (v_tx v) = None \/ dget (rw_rxd rw) (v_rx v) = None
      \/ dget (rw_angd rw) (v_tx v) = None \/ dget (rw_angd rw) (v_rx v) = None.
Proof. intros T tx rx v rw scat a. exact (maf_keyerror_iff tx rx v rw scat a). Qed.

Theorem factory_assertionerror_iff : forall (T : Type) tx rx v (rw : ray_weights_nt (T := T)) scat a,
  model_amplitudes_factory tx rx v rw scat a = GRaise EAssertion
  <-> exists sobj Qtx Qrx Ttx Trx,
        sget scat (v_scat v) = Some sobj /\
        dget (rw_txd rw) (v_tx v) = Some Qtx /\ dget (rw_rxd rw) (v_rx v) = Some Qrx /\
        dget (rw_angd rw) (v_tx v) = Some Ttx /\ dget (rw_angd rw) (v_rx v) = Some Trx /\
        ~ shapes_agree Qtx Qrx Ttx Trx.
Proof. intros T tx rx v rw scat a. exact (maf_assertion_iff tx rx v rw scat a). Qed.

Theorem factory_defined_on_agreeing_arrays : forall (T : Type) tx rx v (rw : ray_weights_nt (T := T)) scat a sobj Qtx Qrx Ttx Trx,
  sget scat (v_scat v) = Some sobj ->
  dget (rw_txd rw) (v_tx v) = Some Qtx -> dget (rw_rxd rw) (v_rx v) = Some Qrx ->
  dget (rw_angd rw) (v_tx v) = Some Ttx -> dget (rw_angd rw) (v_rx v) = Some Trx ->
  is_array Qtx = true -> is_array Qrx = true -> is_array Ttx = true -> is_array Trx = true ->
  shapes_agree Qtx Qrx Ttx Trx ->
  exists o, factory (ix_vals tx) (ix_vals rx) (fst (shape2 Qtx)) (snd (shape2 Qtx)) Qtx Qrx Ttx Trx a = Some o /\
            model_amplitudes_factory tx rx v rw scat a = GOk (mkObj sobj o (ix_dtype tx) (ix_dtype rx)).
Proof. intros T tx rx v rw scat a. exact (maf_defined tx rx v rw scat a). Qed.

(* .shape = (numpoints, numtimetraces) = (columns of the tx weights, tx.shape[0]); numelements = their rows; rx, the
   scattering and its kind play no part *)
Theorem factory_object_shape : forall (T : Type) tx rx v (rw : ray_weights_nt (T := T)) scat a ob Qtx,
  model_amplitudes_factory tx rx v rw scat a = GOk ob -> dget (rw_txd rw) (v_tx v) = Some Qtx ->
  mo_shape ob = (snd (shape2 Qtx), length (ix_vals tx)) /\ ma_numelements (mo_amp ob) = fst (shape2 Qtx) /\
  mo_txdt ob = ix_dtype tx /\ mo_rxdt ob = ix_dtype rx.
Proof. intros T tx rx v rw scat a ob Qtx H1 H2. exact (maf_shape tx rx v rw scat a ob Qtx H1 H2). Qed.

(* end to end: the object the factory returns, indexed by any index of the first dimension, is the index-level
   definition on the arrays found in the dictionaries, with the scattering of the view's key — itself for a function,
   its bilinear interpolant for a matrix *)
Theorem factory_getitem_is_the_definition : forall (T : Type) (N : Num T) tx rx v (rw : ray_weights_nt (T := T)) scat a
    (P : T) ob sobj Qtx Qrx Ttx Trx sel,
  model_amplitudes_factory tx rx v rw scat a = GOk ob ->
  sget scat (v_scat v) = Some sobj ->
  dget (rw_txd rw) (v_tx v) = Some Qtx -> dget (rw_rxd rw) (v_rx v) = Some Qrx ->
  dget (rw_angd rw) (v_tx v) = Some Ttx -> dget (rw_angd rw) (v_rx v) = Some Trx ->
  length (ix_vals tx) = length (ix_vals rx) ->
  idx_ok_mat (ix_dtype tx) = true -> idx_ok_mat (ix_dtype rx) = true ->
  match sobj with ScatFn _ => True | ScatMat M => mat_ok M = true end ->
  grid_selector sel = true ->
  mo_getitem N P ob sel
  = spec_sel N (ix_vals tx) (ix_vals rx) (fst (shape2 Qtx)) (snd (shape2 Qtx)) Qtx Qrx Ttx Trx a
             (scat_fun N P sobj) (match sobj with ScatFn _ => EIndex | ScatMat _ => EUnmodelled end) sel.
Proof. intros T N tx rx v rw scat a. exact (maf_getitem_is_spec N tx rx v rw scat a). Qed.

(* ----- 6.4 ray_weights_for_views: save_debug, untraced paths, any sub-collection of views ----- *)

(* the full function refines the reduced one of section 5.1: same success, and the three dictionaries hold key by key
   what rw_tx / rw_rx / rw_angles read — so every theorem of 5.1 reads on the namedtuple *)
Theorem ray_weights_full_refines_reduced : forall (T : Type) (N : Num T) paths views f width ud ub ut ua sd R,
  ray_weights_for_views_full N paths views f width ud ub ut ua sd = Some R ->
  exists rw, ray_weights_for_views N (map gp_path paths) views f width ud ub ut ua = Some rw /\
    forall k, dget (rw_txd R) k = rw_tx rw k /\ dget (rw_rxd R) k = rw_rx rw k /\ dget (rw_angd R) k = rw_angles rw k.
Proof. intros T N paths views f width ud ub ut ua sd R H. exact (full_refines_reduced N paths views f width ud ub ut ua sd R H). Qed.

Theorem ray_weights_reduced_gives_full : forall (T : Type) (N : Num T) paths views f width ud ub ut ua sd rw,
  (forall k gp, In k (nodup Nat.eq_dec (map v_tx views ++ map v_rx views)) -> nth_error paths k = Some gp -> gp_traced gp = true) ->
  ray_weights_for_views N (map gp_path paths) views f width ud ub ut ua = Some rw ->
  exists R, ray_weights_for_views_full N paths views f width ud ub ut ua sd = Some R.
Proof. intros T N paths views f width ud ub ut ua sd rw H1 H2. exact (reduced_gives_full N paths views f width ud ub ut ua sd rw H1 H2). Qed.

(* a path of the views whose rays were not traced: ValueError, whatever else *)
Theorem ray_weights_untraced_path_raises : forall (T : Type) (N : Num T) paths views f width ud ub ut ua sd k gp,
  In k (nodup Nat.eq_dec (map v_tx views ++ map v_rx views)) -> nth_error paths k = Some gp -> gp_traced gp = false ->
  ray_weights_for_views_full N paths views f width ud ub ut ua sd = None.
Proof. intros T N paths views f width ud ub ut ua sd k gp H1 H2 H3. exact (untraced_path_raises N paths views f width ud ub ut ua sd k gp H1 H2 H3). Qed.

(* save_debug changes nothing but the two debug dictionaries: None without it; with it one entry per entry of the
   corresponding weights dictionary, same paths, same order; the weights, the angles and the success are the same *)
Theorem ray_weights_save_debug_only_adds_debug : forall (T : Type) (N : Num T) paths views f width ud ub ut ua R1,
  ray_weights_for_views_full N paths views f width ud ub ut ua true = Some R1 ->
  exists R0 dtx drx,
    ray_weights_for_views_full N paths views f width ud ub ut ua false = Some R0 /\
    rw_txd R0 = rw_txd R1 /\ rw_rxd R0 = rw_rxd R1 /\ rw_angd R0 = rw_angd R1 /\
    rw_txdbg R0 = None /\ rw_rxdbg R0 = None /\
    rw_txdbg R1 = Some dtx /\ rw_rxdbg R1 = Some drx /\
    map fst dtx = map fst (rw_txd R1) /\ map fst drx = map fst (rw_rxd R1).
Proof. intros T N paths views f width ud ub ut ua R1 H. exact (save_debug_only_adds_debug N paths views f width ud ub ut ua R1 H). Qed.

Theorem ray_weights_save_debug_never_fails_alone : forall (T : Type) (N : Num T) paths views f width ud ub ut ua R0,
  ray_weights_for_views_full N paths views f width ud ub ut ua false = Some R0 ->
  exists R1, ray_weights_for_views_full N paths views f width ud ub ut ua true = Some R1.
Proof. intros T N paths views f width ud ub ut ua R0 H. exact (without_save_debug_iff_with N paths views f width ud ub ut ua R0 H). Qed.

(* the debug arrays ARE the factors, ray by ray: (weights[e][s], debug[e][s]) = the pair returned by ONE call of the
   one-ray function, so weights_factorise_* and switch_off_is_one_* (section 1) apply to them *)
Theorem ray_weights_debug_are_the_factors_tx : forall (T : Type) (N : Num T) paths views f width ud ub ut ua R D k W F e s w,
  ray_weights_for_views_full N paths views f width ud ub ut ua true = Some R ->
  rw_txdbg R = Some D -> dget (rw_txd R) k = Some W -> dget D k = Some F -> get2 W e s = Some w ->
  exists gp r fac, nth_error paths k = Some gp /\ get2 (p_rays (gp_path gp)) e s = Some r /\ get2 F e s = Some fac /\
    tx_ray_weights N ud ut ub ua width f (p_couplant (gp_path gp)) r = Some (w, fac).
Proof. intros T N paths views f width ud ub ut ua R D k W F e s w. exact (debug_factors_tx N paths views f width ud ub ut ua R D k W F e s w). Qed.

Theorem ray_weights_debug_are_the_factors_rx : forall (T : Type) (N : Num T) paths views f width ud ub ut ua R D k W F e s w,
  ray_weights_for_views_full N paths views f width ud ub ut ua true = Some R ->
  rw_rxdbg R = Some D -> dget (rw_rxd R) k = Some W -> dget D k = Some F -> get2 W e s = Some w ->
  exists gp r fac, nth_error paths k = Some gp /\ get2 (p_rays (gp_path gp)) e s = Some r /\ get2 F e s = Some fac /\
    rx_ray_weights N ud ut ub ua width f (p_couplant (gp_path gp)) (p_block (gp_path gp)) r = Some (w, fac).
Proof. intros T N paths views f width ud ub ut ua R D k W F e s w. exact (debug_factors_rx N paths views f width ud ub ut ua R D k W F e s w). Qed.

(* which paths have an entry where: the distinct tx paths, the distinct rx paths, every distinct path *)
Theorem ray_weights_dictionary_keys : forall (T : Type) (N : Num T) paths views f width ud ub ut ua sd R,
  ray_weights_for_views_full N paths views f width ud ub ut ua sd = Some R ->
  let all := nodup Nat.eq_dec (map v_tx views ++ map v_rx views) in
  map fst (rw_txd R) = filter (fun k => mem k (map v_tx views)) all /\
  map fst (rw_rxd R) = filter (fun k => mem k (map v_rx views)) all /\
  map fst (rw_angd R) = all.
Proof. intros T N paths views f width ud ub ut ua sd R H. exact (dictionary_keys N paths views f width ud ub ut ua sd R H). Qed.

(* a single view: its tx path gets TRANSMIT weights only, its rx path RECEIVE weights only (both when they are the
   same path) *)
Theorem ray_weights_single_view : forall (T : Type) (N : Num T) paths v f width ud ub ut ua sd R,
  ray_weights_for_views_full N paths [v] f width ud ub ut ua sd = Some R ->
  map fst (rw_txd R) = [v_tx v] /\ map fst (rw_rxd R) = [v_rx v] /\
  map fst (rw_angd R) = (if v_rx v =? v_tx v then [v_tx v] else [v_tx v; v_rx v]).
Proof. intros T N paths v f width ud ub ut ua sd R H. exact (single_view_dictionaries N paths v f width ud ub ut ua sd R H). Qed.

(* ANY sub-collection of the views (one view, another order, repeats): succeeds when the larger call does, and what
   its views' paths get is what they got in the larger call — independent of which other views are requested *)
Theorem ray_weights_subset_of_views_consistent : forall (T : Type) (N : Num T) paths f views views' width ud ub ut ua sd R,
  incl views' views ->
  ray_weights_for_views_full N paths views f width ud ub ut ua sd = Some R ->
  exists R', ray_weights_for_views_full N paths views' f width ud ub ut ua sd = Some R' /\
    forall v, In v views' ->
      dget (rw_txd R') (v_tx v) = dget (rw_txd R) (v_tx v) /\
      dget (rw_rxd R') (v_rx v) = dget (rw_rxd R) (v_rx v) /\
      dget (rw_angd R') (v_tx v) = dget (rw_angd R) (v_tx v) /\
      dget (rw_angd R') (v_rx v) = dget (rw_angd R) (v_rx v).
Proof. intros T N paths f views views' width ud ub ut ua sd R H1 H2. exact (subset_of_views_consistent N paths f views views' width ud ub ut ua sd R H1 H2). Qed.

(* no view: empty dictionaries, whatever the other arguments (not even a missing element width is noticed) *)
Theorem ray_weights_no_views : forall (T : Type) (N : Num T) paths f width ud ub ut ua sd,
  ray_weights_for_views_full N paths [] f width ud ub ut ua sd
  = Some (mkRW [] [] (if sd then Some [] else None) (if sd then Some [] else None) []).
Proof. intros T N paths f width ud ub ut ua sd. exact (no_views_empty N paths f width ud ub ut ua sd). Qed.

(* probe_element_width=None: ValueError as soon as there is a view IF the directivity is enabled ... *)
Theorem ray_weights_missing_width_raises : forall (T : Type) (N : Num T) paths f views ub ut ua sd,
  views <> [] -> ray_weights_for_views_full N paths views f None true ub ut ua sd = None.
Proof. intros T N paths f views ub ut ua sd H. exact (missing_width_raises N paths f views ub ut ua sd H). Qed.

(* ... and not read at all when it is disabled: None, or any value, the same result *)
Theorem ray_weights_width_unused_without_directivity : forall (T : Type) (N : Num T) paths f views w w' ub ut ua sd,
  ray_weights_for_views_full N paths views f w false ub ut ua sd
  = ray_weights_for_views_full N paths views f w' false ub ut ua sd.
Proof. intros T N paths f views w w' ub ut ua sd. exact (width_unused_without_directivity N paths f views w w' ub ut ua sd). Qed.

(* ----- 6.5 ray_weights_for_views, then model_amplitudes_factory ----- *)

Theorem computed_weights_of_a_view_of_the_call : forall (T : Type) (N : Num T) paths views f width ud ub ut ua sd R v,
  ray_weights_for_views_full N paths views f width ud ub ut ua sd = Some R -> In v views ->
  exists gpt gpr Qtx Qrx,
    nth_error paths (v_tx v) = Some gpt /\ nth_error paths (v_rx v) = Some gpr /\
    path_tx_weights N ud ut ub ua width f (gp_path gpt) = Some Qtx /\
    path_rx_weights N ud ut ub ua width f (gp_path gpr) = Some Qrx /\
    dget (rw_txd R) (v_tx v) = Some Qtx /\ dget (rw_rxd R) (v_rx v) = Some Qrx /\
    dget (rw_angd R) (v_tx v) = Some (p_angles (gp_path gpt)) /\
    dget (rw_angd R) (v_rx v) = Some (p_angles (gp_path gpr)).
Proof. intros T N paths views f width ud ub ut ua sd R v H Hv. exact (computed_weights_of_a_view N paths views f width ud ub ut ua sd R H v Hv). Qed.

(* for a view of the call whose scattering key is provided the factory never raises KeyError ... *)
Theorem factory_no_keyerror_for_a_view_of_the_call : forall (T : Type) (N : Num T) paths views f width ud ub ut ua sd R tx rx v scat a,
  ray_weights_for_views_full N paths views f width ud ub ut ua sd = Some R ->
  In v views -> sget scat (v_scat v) <> None ->
  model_amplitudes_factory tx rx v R scat a <> GRaise EKey.
Proof. intros T N paths views f width ud ub ut ua sd R tx rx v scat a H. exact (factory_no_keyerror_for_views_of_the_call N paths views f width ud ub ut ua sd R H tx rx v scat a). Qed.

(* ... and always does for a view through whose tx path no view of the call transmits, or through whose rx path none
   receives — even when that path has an entry in the other dictionary (e.g. the reciprocal view of the only view) *)
Theorem factory_keyerror_for_a_foreign_path : forall (T : Type) (N : Num T) paths views f width ud ub ut ua sd R tx rx v scat a,
  ray_weights_for_views_full N paths views f width ud ub ut ua sd = Some R ->
  ~ In (v_tx v) (map v_tx views) \/ ~ In (v_rx v) (map v_rx views) ->
  model_amplitudes_factory tx rx v R scat a = GRaise EKey.
Proof. intros T N paths views f width ud ub ut ua sd R tx rx v scat a H. exact (factory_keyerror_for_foreign_path N paths views f width ud ub ut ua sd R H tx rx v scat a). Qed.

(* ----- 6.6 exactly zero weights ----- *)
(* over the reals (every scattering value finite): a transmit weight Q[tx_k][g] or a receive weight Q'[rx_k][g] that is
   exactly zero makes P[p][k] exactly zero, whatever S, the angles and the other weight *)
Theorem zero_weight_gives_zero_coefficient : forall (S : R -> R -> R * R) a ne ng Qtx Qrx Ttx Trx tx rx G P p k zg zi zj g i j,
  spec_amp NumR S a ne ng Qtx Qrx Ttx Trx tx rx G = Some P ->
  nth_error G p = Some zg -> nth_error tx k = Some zi -> nth_error rx k = Some zj ->
  norm_index ng zg = Some g -> norm_index ne zi = Some i -> norm_index ne zj = Some j ->
  get2 Qtx i g = Some (0%R, 0%R) \/ get2 Qrx j g = Some (0%R, 0%R) ->
  get2 P p k = Some (0%R, 0%R).
Proof. exact zero_weight_zero_coefficient. Qed.

(* ===== non-vacuity of section 6 ======================================================================================= *)
Section Examples6.
  Local Open Scope Q_scope.
  Let cq (x y : Q) : Q * Q := (x, y).
  (* the 2-element, 3-grid-point arrays of the examples above *)
  Let Qtx := [[cq 1 2; cq 3 (-1); cq (1#2) 0]; [cq (-2) 1; cq 0 3; cq 5 (1#4)]].
  Let Qrx := [[cq 2 0; cq 1 1; cq (-1) 2]; [cq (3#2) (-1); cq 4 0; cq 0 (-2)]].
  Let Ttx := [[1#4; 1#2; 3#4]; [-(1#4); -(1#2); -(3#4)]].
  Let Trx := [[1#8; 3#8; 5#8]; [-(1#8); -(3#8); -(5#8)]].
  Let S (x y : Q) : Q * Q := (1 + 2 * x + 3 * y, x * y).
  Let tx := [0; 1; 1; -1]%Z.
  Let rx := [1; 0; -1; 0]%Z.
  Let Mc : list (list (Q * Q)) := [[cq 2 1; cq 2 1]; [cq 2 1; cq 2 1]].
  Let rw0 := mkRW [(0%nat, Qtx)] [(1%nat, Qrx)] None None [(0%nat, Ttx); (1%nat, Trx)].
  Let vw := mkView 0 1 (ModeL, ModeL).
  Let fac sc := model_amplitudes_factory (mkIdx DtInt tx) (mkIdx DtInt rx) vw rw0 sc (1#8).
  Let gi sc dtx drx sel :=
    match model_amplitudes_factory (mkIdx dtx tx) (mkIdx drx rx) vw rw0 sc (1#8) with
    | GOk ob => mo_getitem NumQ 0 ob sel
    | GRaise e => GRaise e
    end.
  Let sc_fn := [((ModeL, ModeL), ScatFn S)].
  Let sc_mat := [((ModeL, ModeL), ScatMat Mc)].

  (* slices: list(range(5))[::-2], [-2:], [7:-9:-1], [1:1], step 0 *)
  Example slices_example :
    slice_indices 5 None None (Some (-2)%Z) = GOk [4; 2; 0]%Z /\
    slice_indices 5 (Some (-2)%Z) None None = GOk [3; 4]%Z /\
    slice_indices 5 (Some 7%Z) (Some (-9)%Z) (Some (-1)%Z) = GOk [4; 3; 2; 1; 0]%Z /\
    slice_indices 5 (Some 1%Z) (Some 1%Z) None = GOk [] /\
    slice_indices 5 None None (Some 0%Z) = GRaise EValue /\
    expand_sel 11 (chunk_selector 4 2) = GOk ([8; 9; 10]%Z, false).
  Proof. vm_compute. repeat split; reflexivity. Qed.

  (* the hypotheses of the selector theorems hold, and the index forms give: the row of grid point 0 (axis dropped);
     the rows of grid points 2 and 0 for [2, -3], for the mask and for [::-2]; exceptions of the right kind; the
     matrix class (constant matrix 2 + i) the products (2 + i) Q Q' *)
  Example selectors_example :
    (exists ob, fac sc_fn = GOk ob /\ mo_shape ob = (3, 4)%nat /\ ma_numelements (mo_amp ob) = 2%nat) /\
    grid_selector [GSlice (Some 0%Z) (Some 2%Z) None; GDots] = true /\
    gi sc_fn DtInt DtInt [GInt 0] = GOk (A1 [(29 # 16, 57 # 64); (-1, 1 # 2); (43 # 64, -(31 # 16)); (-1, 1 # 2)]) /\
    omap (fun P => nth 1 P []) (match gi sc_fn DtInt DtUInt [GList [2; -3]%Z] with GOk (A2 P) => Some P | _ => None end)
      = Some [(29 # 16, 57 # 64); (-1, 1 # 2); (43 # 64, -(31 # 16)); (-1, 1 # 2)] /\
    gi sc_fn DtInt DtInt [GMask [true; false; true]] = gi sc_fn DtInt DtInt [GList [0; 2]%Z] /\
    gi sc_fn DtInt DtInt [GSlice None None (Some (-2)%Z)] = gi sc_fn DtBool DtInt [GList [2; -3]%Z] /\
    gi sc_fn DtInt DtInt [GDots] = gi sc_fn DtInt DtInt [] /\
    gi sc_fn DtInt DtInt [GInt 3] = GRaise EIndex /\
    gi sc_fn DtInt DtInt [GSlice None None (Some 0%Z); GDots] = GRaise EValue /\
    gi sc_fn DtInt DtInt [GMask [true; false]] = GRaise EIndex /\
    gi sc_fn DtInt DtInt [GMask []] = GOk (A2 []) /\
    gi sc_mat DtInt DtInt [GMask []; GDots] = GOk (A2 []) /\
    gi sc_fn DtInt DtInt [GInt 0; GInt 1] = GRaise EIndex /\
    gi sc_fn DtInt DtInt [GNone] = GRaise EIndex /\
    gi sc_fn DtInt DtInt [GDots; GDots] = GRaise EIndex /\
    gi sc_fn DtFloat DtInt [GInt 0] = GRaise EType /\
    gi sc_fn DtUInt64 DtUInt64 [GInt (-1)] = gi sc_fn DtInt DtInt [GInt 2] /\
    gi sc_mat DtUInt64 DtInt [GInt 0] = GRaise EType /\
    gi sc_mat DtInt DtInt [GInt 1] = GOk (A1 [(28, 4); (-9, 3); (-12, 24); (-9, 3)]) /\
    gi [((ModeL, ModeL), ScatMat [[cq 2 1; cq 2 1; cq 2 1]; [cq 2 1; cq 2 1; cq 2 1]])] DtInt DtInt [GInt 1] = GRaise EValue.
  Proof.
    split; [eexists; split; [reflexivity|]; vm_compute; split; reflexivity|].
    vm_compute. repeat split; reflexivity.
  Qed.

  (* tx and rx of other lengths: one receiver index is broadcast by the function class (same rows as [1; 1; 1; 1]),
     lengths 4 and 2 are a ValueError in both classes, as is length 1 in the matrix class *)
  Example lengths_example :
    (match model_amplitudes_factory (mkIdx DtInt tx) (mkIdx DtInt [1]%Z) vw rw0 sc_fn (1#8) with
     | GOk ob => mo_getitem NumQ 0 ob [GInt 0] | GRaise e => GRaise e end)
    = GOk (A1 [(29 # 16, 57 # 64); (43 # 64, -(31 # 16)); (43 # 64, -(31 # 16)); (43 # 64, -(31 # 16))]) /\
    (match model_amplitudes_factory (mkIdx DtInt tx) (mkIdx DtInt [0; 1]%Z) vw rw0 sc_fn (1#8) with
     | GOk ob => mo_getitem NumQ 0 ob [GInt 0] | GRaise e => GRaise e end) = GRaise EValue /\
    (match model_amplitudes_factory (mkIdx DtInt tx) (mkIdx DtInt [1]%Z) vw rw0 sc_mat (1#8) with
     | GOk ob => mo_getitem NumQ 0 ob [GInt 0] | GRaise e => GRaise e end) = GRaise EValue.
  Proof. vm_compute. repeat split; reflexivity. Qed.

  (* the factory: missing scattering key, the reciprocal view (its tx path has no TRANSMIT weights), a path without
     angles, arrays of different shapes (checked after the lookups) *)
  Example factory_example :
    fac [((ModeL, ModeT), ScatFn S)] = GRaise EKey /\
    model_amplitudes_factory (mkIdx DtInt tx) (mkIdx DtInt rx) (mkView 1 0 (ModeL, ModeL)) rw0 sc_fn (1#8) = GRaise EKey /\
    model_amplitudes_factory (mkIdx DtInt tx) (mkIdx DtInt rx) vw
      (mkRW [(0%nat, Qtx)] [(1%nat, Qrx)] None None [(0%nat, Ttx)]) sc_fn (1#8) = GRaise EKey /\
    model_amplitudes_factory (mkIdx DtInt tx) (mkIdx DtInt rx) vw
      (mkRW [(0%nat, Qtx)] [(1%nat, map (firstn 2) Qrx)] None None [(0%nat, Ttx); (1%nat, Trx)]) sc_fn (1#8) = GRaise EAssertion /\
    model_amplitudes_factory (mkIdx DtInt tx) (mkIdx DtInt rx) vw
      (mkRW [(0%nat, Qtx)] [(1%nat, map (firstn 2) Qrx)] None None [(0%nat, Ttx); (1%nat, Trx)]) [] (1#8) = GRaise EKey.
  Proof. vm_compute. repeat split; reflexivity. Qed.

  (* ray_weights_for_views on the normal-incidence ray of the examples above (water -> steel, legs 1 and 3/4, 24 kHz):
     two paths with that ray, the view (tx path 0, rx path 1), save_debug: the weights 1/33 and 32/33, their factors
     (1, 2/33, 1/2, 1) and (1, 64/33, 1, 1), one dictionary entry where stated; without save_debug the same and no
     debug; an untraced path, a missing width: errors; the width is not read without directivity; the sub-collection
     [view] of [view; reciprocal view] gets the same entries; then the factory and an index *)
  Let water : material (Q * Q) := mkMaterial (cq 1000 0) (cq 1500 0) (cq Qbad 0).
  Let steel : material (Q * Q) := mkMaterial (cq 8000 0) (cq 6000 0) (cq 3000 0).
  Let ray0 := mkRay 0 [mkIface FluidSolid true water steel water ModeL ModeL (cq 0 0)]
                    [1500; 6000] [1; 3#4] [None; Some (AttConstant 0)] ModeL.
  Let p0 := mkPath water steel [[ray0]] [[1#4]] [[1]].
  Let p1 := mkPath water steel [[ray0]] [[1#2]] [[2]].
  Let gps := [mkGPath p0 true; mkGPath p1 true].
  Let v01 := mkView 0 1 (ModeL, ModeL).
  Let v10 := mkView 1 0 (ModeL, ModeL).
  Example ray_weights_full_example :
    ray_weights_for_views_full NumQ gps [v01] 24000 (Some (1#1000)) true true true true true
      = Some (mkRW [(0%nat, [[cq (1#33) 0]])] [(1%nat, [[cq (32#33) 0]])]
                   (Some [(0%nat, [[(1, cq (2#33) 0, 1#2, 1)]])]) (Some [(1%nat, [[(1, cq (64#33) 0, 1, 1)]])])
                   [(0%nat, [[1#4]]); (1%nat, [[1#2]])]) /\
    ray_weights_for_views_full NumQ gps [v01] 24000 (Some (1#1000)) true true true true false
      = Some (mkRW [(0%nat, [[cq (1#33) 0]])] [(1%nat, [[cq (32#33) 0]])] None None [(0%nat, [[1#4]]); (1%nat, [[1#2]])]) /\
    ray_weights_for_views_full NumQ [mkGPath p0 true; mkGPath p1 false] [v01] 24000 (Some (1#1000)) true true true true false = None /\
    ray_weights_for_views_full NumQ gps [v01] 24000 None true true true true false = None /\
    ray_weights_for_views_full NumQ gps [v01] 24000 None false true true true false
      = Some (mkRW [(0%nat, [[cq (1#33) 0]])] [(1%nat, [[cq (32#33) 0]])] None None [(0%nat, [[1#4]]); (1%nat, [[1#2]])]) /\
    omap (fun R => (map fst (rw_txd R), map fst (rw_rxd R), map fst (rw_angd R), dget (rw_txd R) 0, dget (rw_rxd R) 1))
         (ray_weights_for_views_full NumQ gps [v01; v10] 24000 (Some (1#1000)) true true true true false)
      = Some ([1; 0]%nat, [1; 0]%nat, [1; 0]%nat, Some [[cq (1#33) 0]], Some [[cq (32#33) 0]]) /\
    (match ray_weights_for_views_full NumQ gps [v01] 24000 (Some (1#1000)) true true true true false with
     | Some R =>
         (match model_amplitudes_factory (mkIdx DtInt [0; -1]%Z) (mkIdx DtInt [0; 0]%Z) v01 R
                  [((ModeL, ModeL), ScatFn (fun x y : Q => (1 + 2 * x + 3 * y, x * y)))] (1#8) with
          | GOk ob => mo_getitem NumQ 0 ob [GInt 0] | GRaise e => GRaise e end,
          model_amplitudes_factory (mkIdx DtInt [0; -1]%Z) (mkIdx DtInt [0; 0]%Z) v10 R
                  [((ModeL, ModeL), ScatFn (fun x y : Q => (1 + 2 * x + 3 * y, x * y)))] (1#8))
     | None => (GRaise EUnmodelled, GRaise EUnmodelled)
     end)
    = (GOk (A1 [(76 # 1089, 1 # 726); (76 # 1089, 1 # 726)]), GRaise EKey).
  Proof. vm_compute. repeat split; reflexivity. Qed.
End Examples6.

(* the hypotheses of zero_weight_gives_zero_coefficient are satisfiable: one element, one grid point, a zero transmit weight *)
Example zero_weight_example :
  exists P, spec_amp NumR (fun x y : R => (x + 1, y)%R) 0%R 1 1 [[(0%R, 0%R)]] [[(2%R, 1%R)]] [[3%R]] [[4%R]] [0%Z] [0%Z] [0%Z] = Some P /\
            get2 P 0 0 = Some (0%R, 0%R).
Proof.
  eexists. split; [reflexivity|].
  apply (zero_weight_gives_zero_coefficient (fun x y : R => (x + 1, y)%R) 0%R 1 1 [[(0%R, 0%R)]] [[(2%R, 1%R)]] [[3%R]] [[4%R]]
           [0%Z] [0%Z] [0%Z] _ 0 0 0%Z 0%Z 0%Z 0 0 0 eq_refl eq_refl eq_refl eq_refl eq_refl eq_refl eq_refl).
  left. reflexivity.
Qed.
