(* Props/C08.v — Model coefficients are assembled as Q_i * Q'_j * S(theta_i - a, theta_j - a).
   Statements only (proofs: Proofs/AmplitudesWeightsProofs.v for the ray weights and the laws of
   their factors, Proofs/AmplitudesProofs.v for the index plumbing of the two ModelAmplitudes
   classes and the sensitivities).  Model: Model/Amplitudes.v on top of Model/Weights.v,
   Model/Beamspread.v, Model/ScatMatrix.v, Model/Chunk.v.

   Reading guide
     tx_ray_weights N use_dir use_tr use_bs use_att width frequency couplant ray
         = Some (weights, (directivity, transrefl, beamspread, attenuation))   | None (raises)
     product4 N d t b a = cre d * t * cre b * cre a   (complex product in the code's order)
     getitem_fn / getitem_mat : ModelAmplitudes.__getitem__ of the two classes, on the list of
         selected grid indices; spec_amp : the index-level definition
         P[p][k] = S(Ttx[tx_k][G_p] - a, Trx[rx_k][G_p] - a) * Qtx[tx_k][G_p] * Qrx[rx_k][G_p]
         in the (element, grid) layout of RayWeights, None when an index is out of range.
   Not covered by theorems (only by the correspondence): numpy's expansion of slices / Ellipsis /
   masks into index lists, dtype promotion, the physical content of the transmission-reflection
   and beamspread factors (C04, C06, C07), floating-point rounding. *)
From Coq Require Import List ZArith Bool Arith Reals QArith.
From Arim Require Import Base.Num Base.NumR Base.NumQ Model.Interface Model.Weights Model.Beamspread
                         Model.ScatMatrix Model.Chunk Model.Amplitudes
                         Proofs.BeamspreadProofs Proofs.AmplitudesProofs Proofs.AmplitudesWeightsProofs.
Import ListNotations.
Local Close Scope Q_scope.   (* QArith opens it *)

(* ===== 1. ray weights ====================================================================== *)

(* weights = directivity * transrefl * beamspread * attenuation, whatever the switches (a
   disabled factor is returned as one): over the reals this is the complex transmission-
   reflection coefficient scaled by the three real factors *)
Theorem weights_factorise_tx : forall ud ut ub ua width f couplant r w d t b a,
  tx_ray_weights NumR ud ut ub ua width f couplant r = Some (w, (d, t, b, a)) ->
  w = product4 NumR d t b a /\ w = ((d * b * a) * fst t, (d * b * a) * snd t)%R.
Proof. exact weights_factorise_tx_R. Qed.

(* receive: the same with the reverse terms, times sqrt(wavelength of the LAST leg's mode in the block) *)
Theorem weights_factorise_rx : forall ud ut ub ua width f couplant block r w d t b a,
  rx_ray_weights NumR ud ut ub ua width f couplant block r = Some (w, (d, t, b, a)) ->
  let lam := (fst (velocity block (r_lastmode r)) / f)%R in
  w = nmul (NumC NumR) (product4 NumR d t b a) (cre NumR (sqrt lam)) /\
  w = ((d * b * a * sqrt lam) * fst t, (d * b * a * sqrt lam) * snd t)%R.
Proof. exact weights_factorise_rx_R. Qed.

(* what each returned factor is: the function the code calls when the switch is on *)
Theorem weights_factors_tx : forall (T : Type) (N : Num T) ud ut ub ua width f couplant r w d t b a,
  tx_ray_weights N ud ut ub ua width f couplant r = Some (w, (d, t, b, a)) ->
  w = tx_weight N ud ut ub ua d t b a /\
  dir_factor N ud width f couplant r d /\
  tr_factor N ut (transrefl_for_path (NumC N) Displacement (r_ifaces r)) t /\
  bs_factor N ub (beamspread N (r_vels r) (r_legs r) (r_thetas r)) b /\
  att_factor N ua f r a.
Proof. intros T N ud ut ub ua width f couplant r w d t b a H. exact (tx_ray_weights_inv N ud ut ub ua width f couplant r w d t b a H). Qed.

Theorem weights_factors_rx : forall (T : Type) (N : Num T) ud ut ub ua width f couplant block r w d t b a,
  rx_ray_weights N ud ut ub ua width f couplant block r = Some (w, (d, t, b, a)) ->
  w = rx_weight N ud ut ub ua d t b a (wavelength_in_block N block (r_lastmode r) f) /\
  dir_factor N ud width f couplant r d /\
  tr_factor N ut (reverse_transrefl_for_path (NumC N) Displacement (r_ifaces r)) t /\
  bs_factor N ub (reverse_beamspread N (r_vels r) (r_legs r) (r_thetas r)) b /\
  att_factor N ua f r a.
Proof. intros T N ud ut ub ua width f couplant block r w d t b a H. exact (rx_ray_weights_inv N ud ut ub ua width f couplant block r w d t b a H). Qed.

(* switching off: for EACH of the 16 switch sets the enabled factors are those of the
   all-enabled call, the disabled ones are exactly one, and the weights are their product *)
Theorem switch_off_is_one_tx : forall (T : Type) (N : Num T) width f couplant r w1 d t b a,
  tx_ray_weights N true true true true width f couplant r = Some (w1, (d, t, b, a)) ->
  forall ud ut ub ua,
  tx_ray_weights N ud ut ub ua width f couplant r
  = Some (product4 N (switch ud d (n1 N)) (switch ut t (cre N (n1 N))) (switch ub b (n1 N)) (switch ua a (n1 N)),
          (switch ud d (n1 N), switch ut t (cre N (n1 N)), switch ub b (n1 N), switch ua a (n1 N))).
Proof. intros T N width f couplant r w1 d t b a H. exact (switch_sets_tx N width f couplant r w1 d t b a H). Qed.

Theorem switch_off_is_one_rx : forall (T : Type) (N : Num T) width f couplant block r w1 d t b a,
  rx_ray_weights N true true true true width f couplant block r = Some (w1, (d, t, b, a)) ->
  forall ud ut ub ua,
  rx_ray_weights N ud ut ub ua width f couplant block r
  = Some (nmul (NumC N)
            (product4 N (switch ud d (n1 N)) (switch ut t (cre N (n1 N))) (switch ub b (n1 N)) (switch ua a (n1 N)))
            (cre N (nsqrt N (wavelength_in_block N block (r_lastmode r) f))),
          (switch ud d (n1 N), switch ut t (cre N (n1 N)), switch ub b (n1 N), switch ua a (n1 N))).
Proof. intros T N width f couplant block r w1 d t b a H. exact (switch_sets_rx N width f couplant block r w1 d t b a H). Qed.

(* ... and in ANY successful call (also when the all-enabled call would raise, e.g. no element
   width given) a disabled factor is exactly one *)
Theorem disabled_factor_is_one_tx : forall (T : Type) (N : Num T) ud ut ub ua width f couplant r w d t b a,
  tx_ray_weights N ud ut ub ua width f couplant r = Some (w, (d, t, b, a)) ->
  (ud = false -> d = n1 N) /\ (ut = false -> t = cre N (n1 N)) /\ (ub = false -> b = n1 N) /\ (ua = false -> a = n1 N).
Proof. intros T N ud ut ub ua width f couplant r w d t b a H. exact (off_is_one_tx N ud ut ub ua width f couplant r w d t b a H). Qed.

Theorem disabled_factor_is_one_rx : forall (T : Type) (N : Num T) ud ut ub ua width f couplant block r w d t b a,
  rx_ray_weights N ud ut ub ua width f couplant block r = Some (w, (d, t, b, a)) ->
  (ud = false -> d = n1 N) /\ (ut = false -> t = cre N (n1 N)) /\ (ub = false -> b = n1 N) /\ (ua = false -> a = n1 N).
Proof. intros T N ud ut ub ua width f couplant block r w d t b a H. exact (off_is_one_rx N ud ut ub ua width f couplant block r w d t b a H). Qed.

(* ===== 2. laws of the factors ================================================================ *)
Local Open Scope R_scope.

(* sinc(a sin(theta)/lambda), numpy's normalised sinc: sin(pi x)/(pi x), 1 at x = 0 *)
Theorem directivity_law : forall theta width lam,
  directivity NumR theta width lam = sinc_pi (width / lam * sin theta).
Proof. exact directivity_R. Qed.

Theorem directivity_at_zero : forall width lam, directivity NumR 0 width lam = 1.
Proof. exact directivity_zero_angle. Qed.

Theorem directivity_symmetric : forall theta width lam,
  directivity NumR (- theta) width lam = directivity NumR theta width lam.
Proof. exact directivity_even. Qed.

Theorem directivity_bounded : forall theta width lam, Rabs (directivity NumR theta width lam) <= 1.
Proof. exact directivity_bound. Qed.

Theorem directivity_null : forall theta width lam, lam <> 0 -> width * sin theta = lam ->
  directivity NumR theta width lam = 0.
Proof. exact directivity_first_null. Qed.

(* exp(-sum alpha_k d_k): a leg whose material has no attenuation for its mode contributes nothing *)
Theorem attenuation_law : forall atts legs, attenuation NumR atts legs = exp (- att_sum atts legs).
Proof. exact attenuation_R. Qed.

Theorem attenuation_sum_unattenuated_leg : forall atts d legs, att_sum (None :: atts) (d :: legs) = att_sum atts legs.
Proof. exact att_sum_none. Qed.

Theorem attenuation_sum_attenuated_leg : forall al atts d legs,
  att_sum (Some al :: atts) (d :: legs) = al * d + att_sum atts legs.
Proof. exact att_sum_some. Qed.

Theorem attenuation_without_laws_is_one : forall legs, attenuation NumR (map (fun _ => None) legs) legs = 1.
Proof. exact attenuation_no_law. Qed.

Theorem attenuation_in_unit_interval : forall atts legs,
  Forall (fun a => match a with None => True | Some al => 0 <= al end) atts -> Forall (fun d => 0 <= d) legs ->
  0 < attenuation NumR atts legs <= 1.
Proof. exact attenuation_range. Qed.

(* material_attenuation_factory: "constant" ignores the frequency; "polynomial" is
   sum_k c_k (f / 1e6)^k; an empty coefficient list is rejected *)
Theorem attenuation_constant_law : forall v f, att_eval NumR (AttConstant v) f = Some v.
Proof. exact att_eval_constant. Qed.

Theorem attenuation_polynomial_law : forall cs f, cs <> [] ->
  att_eval NumR (AttPolynomial cs) f = Some (power_sum cs (f / 1000000) 0).
Proof. exact att_eval_polynomial. Qed.

Theorem attenuation_polynomial_empty_rejected : forall f, att_eval NumR (AttPolynomial []) f = None.
Proof. exact att_eval_polynomial_empty. Qed.

Local Close Scope R_scope.

(* ===== 3. the two ModelAmplitudes classes ==================================================== *)

(* for ALL tx / rx lists of equal length (repeated, partial, any order, negative), every list G of
   grid indices, every rotation a and every numeric instance: both classes ARE the index-level
   definition, including when they raise *)
Theorem amplitude_indexing_fn : forall (T : Type) (N : Num T) (S : T -> T -> T * T)
    tx rx ne ng Qtx Qrx Ttx Trx a o G,
  length tx = length rx ->
  factory tx rx ne ng Qtx Qrx Ttx Trx a = Some o ->
  getitem_fn N S o G = spec_amp N S a ne ng Qtx Qrx Ttx Trx tx rx G.
Proof. intros T N S tx rx ne ng Qtx Qrx Ttx Trx a o G H1 H2. exact (getitem_fn_is_spec N S tx rx ne ng Qtx Qrx Ttx Trx a o G H1 H2). Qed.

Theorem amplitude_indexing_mat : forall (T : Type) (N : Num T) (P : T) (M : list (list (T * T)))
    tx rx ne ng Qtx Qrx Ttx Trx a o G,
  mat_ok M = true -> length tx = length rx ->
  factory tx rx ne ng Qtx Qrx Ttx Trx a = Some o ->
  getitem_mat N P M o G = spec_amp N (interp_c N P M) a ne ng Qtx Qrx Ttx Trx tx rx G.
Proof. intros T N P M tx rx ne ng Qtx Qrx Ttx Trx a o G H0 H1 H2. exact (getitem_mat_is_spec N P M tx rx ne ng Qtx Qrx Ttx Trx a o G H0 H1 H2). Qed.

(* the factory succeeds exactly on four arrays of one shape (numelements, numgridpoints) *)
Theorem factory_defined : forall (T : Type) tx rx ne ng (Qtx Qrx : list (list (T * T))) (Ttx Trx : list (list T)) a,
  has_shape ne ng Qtx = true -> has_shape ne ng Qrx = true -> has_shape ne ng Ttx = true -> has_shape ne ng Trx = true ->
  exists o, factory tx rx ne ng Qtx Qrx Ttx Trx a = Some o.
Proof. intros T tx rx ne ng Qtx Qrx Ttx Trx a H1 H2 H3 H4. exact (factory_some tx rx ne ng Qtx Qrx Ttx Trx a H1 H2 H3 H4). Qed.

(* entry-wise reading of the definition (nth-characterisation):
   P[p][k] = S(Ttx[i][g] - a, Trx[j][g] - a) * Qtx[i][g] * Qrx[j][g],
   g = G[p], i = tx[k], j = rx[k] after normalisation of negative indices *)
Theorem amplitude_entries : forall (T : Type) (N : Num T) (S : T -> T -> T * T) a ne ng Qtx Qrx Ttx Trx tx rx G P,
  spec_amp N S a ne ng Qtx Qrx Ttx Trx tx rx G = Some P ->
  length P = length G /\
  forall p zg, nth_error G p = Some zg ->
    exists g row, norm_index ng zg = Some g /\ nth_error P p = Some row /\
      length row = length (combine tx rx) /\
      forall k zi zj, nth_error tx k = Some zi -> nth_error rx k = Some zj ->
        exists i j q q' th th',
          norm_index ne zi = Some i /\ norm_index ne zj = Some j /\
          get2 Qtx i g = Some q /\ get2 Qrx j g = Some q' /\ get2 Ttx i g = Some th /\ get2 Trx j g = Some th' /\
          nth_error row k = Some (model_amplitude N S a q q' th th').
Proof. intros T N S a ne ng Qtx Qrx Ttx Trx tx rx G P H. exact (spec_amp_sound N S a ne ng Qtx Qrx Ttx Trx tx rx G P H). Qed.

(* defined for all in-range indices ... *)
Theorem amplitude_defined : forall (T : Type) (N : Num T) (S : T -> T -> T * T) a ne ng Qtx Qrx Ttx Trx tx rx G,
  has_shape ne ng Qtx = true -> has_shape ne ng Qrx = true -> has_shape ne ng Ttx = true -> has_shape ne ng Trx = true ->
  Forall (valid_index ng) G -> Forall (valid_index ne) tx -> Forall (valid_index ne) rx ->
  exists P, spec_amp N S a ne ng Qtx Qrx Ttx Trx tx rx G = Some P.
Proof.
  intros T N S a ne ng Qtx Qrx Ttx Trx tx rx G H1 H2 H3 H4 H5 H6 H7.
  exact (spec_amp_total N S a ne ng Qtx Qrx Ttx Trx tx rx G H1 H2 H3 H4 H5 H6 H7).
Qed.

(* ... and an IndexError otherwise *)
Theorem amplitude_grid_index_error : forall (T : Type) (N : Num T) (S : T -> T -> T * T) a ne ng Qtx Qrx Ttx Trx tx rx G zg,
  In zg G -> ~ valid_index ng zg -> spec_amp N S a ne ng Qtx Qrx Ttx Trx tx rx G = None.
Proof. intros T N S a ne ng Qtx Qrx Ttx Trx tx rx G zg H1 H2. exact (spec_amp_bad_grid N S a ne ng Qtx Qrx Ttx Trx tx rx G zg H1 H2). Qed.

Theorem amplitude_element_index_error : forall (T : Type) (N : Num T) (S : T -> T -> T * T) a ne ng Qtx Qrx Ttx Trx tx rx G zg k zi zj,
  In zg G -> nth_error tx k = Some zi -> nth_error rx k = Some zj ->
  ~ valid_index ne zi \/ ~ valid_index ne zj ->
  spec_amp N S a ne ng Qtx Qrx Ttx Trx tx rx G = None.
Proof.
  intros T N S a ne ng Qtx Qrx Ttx Trx tx rx G zg k zi zj H1 H2 H3 H4.
  exact (spec_amp_bad_element N S a ne ng Qtx Qrx Ttx Trx tx rx G zg k zi zj H1 H2 H3 H4).
Qed.

(* the matrix class equals the function class applied to the bilinear interpolant of the matrix
   (ScatMatrix.interp of C10 on real and imaginary parts) *)
Theorem matrix_eq_function : forall (T : Type) (N : Num T) (P : T) (M : list (list (T * T)))
    tx rx ne ng Qtx Qrx Ttx Trx a o G,
  mat_ok M = true -> length tx = length rx ->
  factory tx rx ne ng Qtx Qrx Ttx Trx a = Some o ->
  getitem_mat N P M o G = getitem_fn N (interp_c N P M) o G.
Proof. intros T N P M tx rx ne ng Qtx Qrx Ttx Trx a o G H0 H1 H2. exact (getitem_mat_eq_fn N P M tx rx ne ng Qtx Qrx Ttx Trx a o G H0 H1 H2). Qed.

(* ===== 4. sensitivities ========================================================================= *)

(* the chunked loop of both sensitivity functions, for ANY object whose indexing is pointwise in
   the grid index: every block size >= 1 (also larger than the grid) gives the unchunked result *)
Theorem sensitivity_loop_chunk_independent : forall (T V : Type)
    (getitem : list Z -> option (list (list (T * T)))) (rowP : Z -> option (list (T * T))),
  (forall G, getitem G = mapM rowP G) ->
  forall (f : list (T * T) -> V) (zero : V) (n b : nat), 1 <= b -> 1 <= n ->
  sens_loop getitem f zero n b = spec_sensitivity getitem f n.
Proof. intros T V getitem rowP H f zero n b Hb Hn. exact (sens_loop_unchunked getitem rowP H f zero n b Hb Hn). Qed.

(* both functions, both classes: equal to (weighted sum over the timetraces of P[all points]) /
   numtimetraces, whatever the block size *)
Theorem sensitivity_chunk_independent_uniform_fn : forall (T : Type) (N : Num T) tx rx ne ng Qtx Qrx Ttx Trx a o,
  length tx = length rx -> factory tx rx ne ng Qtx Qrx Ttx Trx a = Some o ->
  forall (S : T -> T -> T * T) w b, 1 <= b -> 1 <= ng ->
  sensitivity_uniform_tfm N (getitem_fn N S o) ng (length tx) w b
  = if length w =? length tx then
      omap (map (fun row => ndiv (NumC N) (wsum_uniform N w row) (cre N (nofnat N (length tx)))))
           (getitem_fn N S o (map Z.of_nat (seq 0 ng)))
    else None.
Proof. intros T N tx rx ne ng Qtx Qrx Ttx Trx a o H1 H2. exact (sensitivity_uniform_fn_unchunked N tx rx ne ng Qtx Qrx Ttx Trx a o H1 H2). Qed.

Theorem sensitivity_chunk_independent_assisted_fn : forall (T : Type) (N : Num T) tx rx ne ng Qtx Qrx Ttx Trx a o,
  length tx = length rx -> factory tx rx ne ng Qtx Qrx Ttx Trx a = Some o ->
  forall (S : T -> T -> T * T) w b, 1 <= b -> 1 <= ng ->
  sensitivity_model_assisted_tfm N (getitem_fn N S o) ng (length tx) w b
  = if length w =? length tx then
      omap (map (fun row => ndiv N (wsum_assisted N w row) (nofnat N (length tx))))
           (getitem_fn N S o (map Z.of_nat (seq 0 ng)))
    else None.
Proof. intros T N tx rx ne ng Qtx Qrx Ttx Trx a o H1 H2. exact (sensitivity_assisted_fn_unchunked N tx rx ne ng Qtx Qrx Ttx Trx a o H1 H2). Qed.

Theorem sensitivity_chunk_independent_uniform_mat : forall (T : Type) (N : Num T) tx rx ne ng Qtx Qrx Ttx Trx a o,
  length tx = length rx -> factory tx rx ne ng Qtx Qrx Ttx Trx a = Some o ->
  forall (P : T) (M : list (list (T * T))) w b, mat_ok M = true -> 1 <= b -> 1 <= ng ->
  sensitivity_uniform_tfm N (getitem_mat N P M o) ng (length tx) w b
  = if length w =? length tx then
      omap (map (fun row => ndiv (NumC N) (wsum_uniform N w row) (cre N (nofnat N (length tx)))))
           (getitem_mat N P M o (map Z.of_nat (seq 0 ng)))
    else None.
Proof. intros T N tx rx ne ng Qtx Qrx Ttx Trx a o H1 H2. exact (sensitivity_uniform_mat_unchunked N tx rx ne ng Qtx Qrx Ttx Trx a o H1 H2). Qed.

Theorem sensitivity_chunk_independent_assisted_mat : forall (T : Type) (N : Num T) tx rx ne ng Qtx Qrx Ttx Trx a o,
  length tx = length rx -> factory tx rx ne ng Qtx Qrx Ttx Trx a = Some o ->
  forall (P : T) (M : list (list (T * T))) w b, mat_ok M = true -> 1 <= b -> 1 <= ng ->
  sensitivity_model_assisted_tfm N (getitem_mat N P M o) ng (length tx) w b
  = if length w =? length tx then
      omap (map (fun row => ndiv N (wsum_assisted N w row) (nofnat N (length tx))))
           (getitem_mat N P M o (map Z.of_nat (seq 0 ng)))
    else None.
Proof. intros T N tx rx ne ng Qtx Qrx Ttx Trx a o H1 H2. exact (sensitivity_assisted_mat_unchunked N tx rx ne ng Qtx Qrx Ttx Trx a o H1 H2). Qed.

(* ===== non-vacuity ================================================================================ *)
Section Examples.
  Local Open Scope Q_scope.
  Let cq (x y : Q) : Q * Q := (x, y).
  (* 2 elements, 3 grid points, all entries distinct *)
  Let Qtx := [[cq 1 2; cq 3 (-1); cq (1#2) 0]; [cq (-2) 1; cq 0 3; cq 5 (1#4)]].
  Let Qrx := [[cq 2 0; cq 1 1; cq (-1) 2]; [cq (3#2) (-1); cq 4 0; cq 0 (-2)]].
  Let Ttx := [[1#4; 1#2; 3#4]; [-(1#4); -(1#2); -(3#4)]].
  Let Trx := [[1#8; 3#8; 5#8]; [-(1#8); -(3#8); -(5#8)]].
  Let S (x y : Q) : Q * Q := (1 + 2 * x + 3 * y, x * y).
  Let tx := [0; 1; 1; -1]%Z.
  Let rx := [1; 0; -1; 0]%Z.

  (* grid indices [2; -3] (= [2; 0]), rotation 1/8: the entry for the first selected point and
     timetrace 2 (tx = 1, rx = -1 = 1) is S(-3/4 - 1/8, -5/8 - 1/8) * (5 + i/4) * (-2i) *)
  Example amplitudes_example :
    exists o P, factory tx rx 2 3 Qtx Qrx Ttx Trx (1#8) = Some o /\
      getitem_fn NumQ S o [2; -3]%Z = Some P /\
      get2 P 0 2 = Some (81 # 16, 1941 # 64) /\ get2 P 1 1 = Some (-1, 1 # 2) /\
      length P = 2%nat /\ map (@length _) P = [4; 4]%nat.
  Proof.
    destruct (factory tx rx 2 3 Qtx Qrx Ttx Trx (1#8)) as [o|] eqn:E; [|vm_compute in E; discriminate].
    exists o. destruct (getitem_fn NumQ S o [2; -3]%Z) as [P|] eqn:EP.
    - exists P. split; [reflexivity|]. split; [reflexivity|].
      vm_compute in E. inversion E; subst o. vm_compute in EP. inversion EP; subst P.
      vm_compute. repeat split; reflexivity.
    - vm_compute in E. inversion E; subst o. vm_compute in EP. discriminate.
  Qed.

  (* grid index 3 is out of range for 3 points *)
  Example amplitudes_index_error :
    forall o, factory tx rx 2 3 Qtx Qrx Ttx Trx (1#8) = Some o -> getitem_fn NumQ S o [3]%Z = None.
  Proof. intros o E. vm_compute in E. inversion E; subst o. vm_compute. reflexivity. Qed.

  (* block sizes 1, 2 and 7 on 3 points give the same uniform sensitivity *)
  Example sensitivity_example :
    forall o, factory tx rx 2 3 Qtx Qrx Ttx Trx (1#8) = Some o ->
      sensitivity_uniform_tfm NumQ (getitem_fn NumQ S o) 3 4 [1; 1; 2; 1#2] 2
        = Some [(53 # 128, -(143 # 256)); (-(435 # 256), -(2707 # 256)); (1263 # 512, 4815 # 256)] /\
      sensitivity_uniform_tfm NumQ (getitem_fn NumQ S o) 3 4 [1; 1; 2; 1#2] 1
        = sensitivity_uniform_tfm NumQ (getitem_fn NumQ S o) 3 4 [1; 1; 2; 1#2] 2 /\
      sensitivity_uniform_tfm NumQ (getitem_fn NumQ S o) 3 4 [1; 1; 2; 1#2] 7
        = sensitivity_uniform_tfm NumQ (getitem_fn NumQ S o) 3 4 [1; 1; 2; 1#2] 2.
  Proof. intros o E. vm_compute in E. inversion E; subst o. vm_compute. repeat split; reflexivity. Qed.

  (* one ray at normal incidence, water -> steel, legs 1 and 3/4 (virtual distance 4), exact over Q:
     hypotheses of the weight theorems are satisfiable, and the switches act as stated *)
  Let water : material (Q * Q) := mkMaterial (cq 1000 0) (cq 1500 0) (cq Qbad 0).
  Let steel : material (Q * Q) := mkMaterial (cq 8000 0) (cq 6000 0) (cq 3000 0).
  Let ray0 := mkRay 0 [mkIface FluidSolid true water steel water ModeL ModeL (cq 0 0)]
                    [1500; 6000] [1; 3#4] [None; Some (AttConstant 0)] ModeL.
  Example weights_example :
    tx_ray_weights NumQ true true true true (Some (1#1000)) 24000 water ray0
      = Some (cq (1#33) 0, (1, cq (2#33) 0, 1#2, 1)) /\
    rx_ray_weights NumQ true true true true (Some (1#1000)) 24000 water steel ray0
      = Some (cq (32#33) 0, (1, cq (64#33) 0, 1, 1)) /\
    tx_ray_weights NumQ false true false true None 24000 water ray0
      = Some (cq (2#33) 0, (1, cq (2#33) 0, 1, 1)) /\
    tx_ray_weights NumQ true true false true None 24000 water ray0 = None.
  Proof. vm_compute. repeat split; reflexivity. Qed.
End Examples.
