(* Props/C15.v — Frame bookkeeping never mis-attributes a timetrace to an element pair.
   Only statements; every proof is `exact <lemma>` (lemmas in Proofs/FrameProofs.v and
   Proofs/FrameOpsProofs.v; the model is Model/Frame.v).

   Reading guide: a frame is the list of its rows (tx, rx, payload); a probe the list of
   its per-element attributes (location ...).  `option` = the Python call may raise.
   Index expressions are the lists arange(n)[idx].

   What these theorems do NOT cover (exercised by harness/prop_C15.py): numpy's fancy
   indexing / np.isin / CPython set and dict semantics (modelled), filters that mix rows
   (apply_filter is covered for row-wise filters: premise `filter_ok`). *)
From Coq Require Import Arith List Bool Permutation Sorted ZArith.
From Arim Require Import Model.Frame Proofs.FrameProofs Proofs.FrameOpsProofs.
Import ListNotations.

(* ---- fmc / hmc ------------------------------------------------------------- *)
(* every ordered pair of [0, n) exactly once *)
Theorem fmc_enumerates : forall n,
  NoDup (fmc n) /\ length (fmc n) = n * n /\ (forall a b, In (a, b) (fmc n) <-> a < n /\ b < n).
Proof. intros n. exact (conj (fmc_NoDup n) (conj (fmc_length n) (fmc_In n))). Qed.

(* every unordered pair exactly once, stored with tx <= rx *)
Theorem hmc_enumerates : forall n,
  NoDup (hmc n) /\ 2 * length (hmc n) = n * (n + 1) /\ (forall a b, In (a, b) (hmc n) <-> a <= b /\ b < n).
Proof. intros n. exact (conj (hmc_NoDup n) (conj (hmc_length n) (hmc_In n))). Qed.

(* "unordered pair exactly once": one of (a,b), (b,a) is listed, never both *)
Theorem hmc_unordered_pairs_once : forall n a b, a < n -> b < n ->
  (In (a, b) (hmc n) \/ In (b, a) (hmc n)) /\ (a <> b -> ~ (In (a, b) (hmc n) /\ In (b, a) (hmc n))).
Proof. exact hmc_unordered_once. Qed.

(* the storage order: tx-major *)
Theorem fmc_order : forall n, fmc n = list_prod (seq 0 n) (seq 0 n).
Proof. exact fmc_list_prod. Qed.

Theorem hmc_order : forall n, hmc n = flat_map (fun i => map (pair i) (seq i (n - i))) (seq 0 n).
Proof. exact hmc_hmc_rows. Qed.

(* ---- infer_capture_method -------------------------------------------------- *)
(* any order of the rows gives the same answer *)
Theorem infer_permutation_invariant : forall l l',
  Permutation l l' -> infer_capture_method l = infer_capture_method l'.
Proof. exact infer_perm. Qed.

(* every permutation of an HMC, in either orientation, is recognised (n = 1 included:
   the single pair (0,0) is reported as hmc, as the code does) *)
Theorem infer_recognises_hmc : forall n l, 1 <= n ->
  Permutation l (hmc n) \/ Permutation l (map swap (hmc n)) -> infer_capture_method l = Some Hmc.
Proof. exact FrameProofs.infer_recognises_hmc. Qed.

Theorem infer_recognises_fmc : forall n l, 2 <= n ->
  Permutation l (fmc n) -> infer_capture_method l = Some Fmc.
Proof. exact FrameProofs.infer_recognises_fmc. Qed.

(* and nothing else is: a list with a missing, repeated or foreign pair is not reported *)
Theorem infer_hmc_sound : forall l, infer_capture_method l = Some Hmc ->
  let n := numel_of l in Permutation l (hmc n) \/ Permutation l (map swap (hmc n)).
Proof. exact FrameProofs.infer_hmc_sound. Qed.

Theorem infer_fmc_sound : forall l, infer_capture_method l = Some Fmc -> Permutation l (fmc (numel_of l)).
Proof. exact FrameProofs.infer_fmc_sound. Qed.

(* ---- default_timetrace_weights --------------------------------------------- *)
(* row by row: weight 1 iff the mirrored pair is present, else 2 *)
Theorem weights_spec : forall l,
  Forall2 (fun p w => (In (swap p) l -> w = 1) /\ (~ In (swap p) l -> w = 2))
          l (default_timetrace_weights l).
Proof. exact weights_Forall2. Qed.

Theorem weights_hmc_sum : forall n, list_sum (default_timetrace_weights (hmc n)) = n * n.
Proof. exact weights_hmc. Qed.

Theorem weights_fmc_all_one : forall n, default_timetrace_weights (fmc n) = repeat 1 (n * n).
Proof. exact weights_fmc. Qed.

(* ---- constructor and get_timetrace ------------------------------------------ *)
Theorem frame_rejects_duplicates : forall P (f : frame P), mk_frame f = None <-> ~ NoDup (keys f).
Proof. exact mk_frame_None. Qed.

Theorem get_timetrace_unique_row : forall P (f : frame P) t r p,
  NoDup (keys f) -> (get_timetrace f t r = Some p <-> In (t, r, p) f).
Proof. exact get_timetrace_spec. Qed.

(* ---- expand_frame_assuming_reciprocity --------------------------------------- *)
(* never raises; the pairs of the result are exactly the recorded pairs and their mirrors,
   without duplicates, in increasing tuple order when an expansion takes place (this pins
   the list: sorted_unique below), the same frame when none is needed; the row (a, b)
   carries the data of a recorded row (a, b), and only if there is none, of the recorded
   row (b, a) *)
Theorem expand_spec : forall P (f : frame P), NoDup (keys f) ->
  exists g, expand f = Some g /\
    NoDup (keys g) /\
    (forall k, In k (keys g) <-> In k (keys f) \/ In (swap k) (keys f)) /\
    (is_complete f = true -> g = f) /\
    (is_complete f = false -> StronglySorted pair_lt (keys g)) /\
    (forall k p, In (k, p) g -> In (k, p) f \/ (~ In k (keys f) /\ In (swap k, p) f)).
Proof. exact expand_full_spec. Qed.

(* every recorded row is still there, with its own data *)
Theorem expand_keeps_recorded_rows : forall P (f g : frame P) k p,
  NoDup (keys f) -> expand f = Some g -> In (k, p) f -> In (k, p) g.
Proof. exact expand_keeps_recorded. Qed.

(* and the default weights of a complete (e.g. expanded) frame are all 1 *)
Theorem weights_of_complete_frame : forall P (f : frame P),
  is_complete f = true -> default_timetrace_weights (keys f) = repeat 1 (length f).
Proof. exact weights_complete. Qed.

Theorem sorted_pairs_unique : forall l1 l2,
  StronglySorted pair_lt l1 -> StronglySorted pair_lt l2 -> (forall p, In p l1 <-> In p l2) -> l1 = l2.
Proof. exact sorted_unique. Qed.

Theorem is_complete_iff : forall P (f : frame P),
  is_complete f = true <-> (forall k, In k (keys f) <-> In (swap k) (keys f)).
Proof. exact is_complete_spec. Qed.

Theorem expand_complete : forall P (f g : frame P), expand f = Some g -> is_complete g = true.
Proof. exact expand_is_complete. Qed.

Theorem expand_idempotent : forall P (f g : frame P), expand f = Some g -> expand g = Some g.
Proof. exact expand_idem. Qed.

(* ---- subframe by timetrace index --------------------------------------------- *)
Theorem subframe_by_index_spec : forall P (f g : frame P) idx,
  subframe f idx = Some g <-> Forall2 (fun i e => nth_error f i = Some e) idx g /\ NoDup (keys g).
Proof. exact subframe_spec. Qed.

(* ---- subframe_from_probe_elements / Probe.subprobe ----------------------------- *)
(* E = arange(numelements)[elements_idx] (E may even repeat elements).
   (1) a row is kept iff both its elements are in E;
   (2) with a sub-probe: sub-probe element k is old element E[k]; the kept rows are the
       retained rows in the original order, each with its own data, renumbered so that
       E[new_tx] = old_tx and E[new_rx] = old_rx — hence attached to elements with the same
       attributes (physical location) as before;
   (3) without sub-probe: the retained rows, unchanged, on the unchanged probe;
   (4) valid elements and a duplicate-free frame never raise. *)
Theorem subframe_elements_spec : forall P L (pr : list L) (f : frame P) (E : list nat),
  (forall e : entry P, retained E e = true <-> In (fst (key e)) E /\ In (snd (key e)) E) /\
  (forall sp g, subframe_from_probe_elements pr f E true = Some (sp, g) ->
     subprobe pr E = Some sp /\
     Forall2 (fun e x => nth_error pr e = Some x) E sp /\
     Forall2 (renumbered P E) (filter (retained E) f) g /\
     Forall2 (fun e e' => payload e' = payload e /\
                nth_error sp (fst (key e')) = nth_error pr (fst (key e)) /\
                nth_error sp (snd (key e')) = nth_error pr (snd (key e)) /\
                nth_error sp (fst (key e')) <> None /\ nth_error sp (snd (key e')) <> None)
             (filter (retained E) f) g /\
     NoDup (keys g)) /\
  (forall pr' g, subframe_from_probe_elements pr f E false = Some (pr', g) ->
     pr' = pr /\ g = filter (retained E) f /\ NoDup (keys g)) /\
  ((forall e, In e E -> e < length pr) -> NoDup (keys f) ->
     forall mk, exists s, subframe_from_probe_elements pr f E mk = Some s).
Proof. exact sub_elements_full. Qed.

(* ---- chains ------------------------------------------------------------------- *)
(* `rec p` = the physical (tx, rx) elements the row p was recorded with.  For every finite
   chain of subframe / subframe_from_probe_elements / expand / apply_filter (row-wise
   filters) that does not raise:
   - if every row is labelled with the elements it was recorded with (up to the mirror
     that reciprocity expansion introduces), this still holds at the end;
   - without expansion in the chain the labelling stays exact;
   - every row of the result carries the record of some row of the initial frame. *)
Theorem chain_attribution : forall P L (rec : P -> L * L) (ops : list (op P)) (s s' : state P L),
  Forall (filter_ok P L rec) ops -> run ops s = Some s' ->
  (attributed_sym P L rec s -> attributed_sym P L rec s') /\
  (Forall (not_expand P) ops -> attributed P L rec s -> attributed P L rec s') /\
  (forall t r p, In (t, r, p) (snd s') -> exists t0 r0 p0, In (t0, r0, p0) (snd s) /\ rec p = rec p0).
Proof. exact chain_full. Qed.

(* the states listed by `trace` (what the harness compares step by step) end with the
   result of `run` (what chain_attribution speaks about) *)
Theorem trace_ends_with_run : forall P L (ops : list (op P)) (s s' : state P L),
  ops <> [] -> run ops s = Some s' -> last (trace ops s) None = Some s'.
Proof. exact trace_last. Qed.

(* integers of an integer-list index: a negative i designates position i + n; anything
   outside [-n, n) raises (IndexError) *)
Theorem negative_index_wraps_once : forall n i k, resolve_index n i = Some k ->
  k < n /\ ((0 <= i)%Z /\ Z.of_nat k = i \/ (i < 0)%Z /\ Z.of_nat k = (i + Z.of_nat n)%Z).
Proof. exact resolve_index_spec. Qed.

Theorem index_out_of_range_raises : forall n i,
  resolve_index n i = None <-> (i < - Z.of_nat n \/ Z.of_nat n <= i)%Z.
Proof. exact resolve_index_None. Qed.

(* ---- non-vacuity ---------------------------------------------------------------- *)
Example hmc_3 : hmc 3 = [(0,0); (0,1); (0,2); (1,1); (1,2); (2,2)].
Proof. vm_compute. reflexivity. Qed.

Example fmc_2 : fmc 2 = [(0,0); (0,1); (1,0); (1,1)].
Proof. vm_compute. reflexivity. Qed.

Example infer_examples :
  infer_capture_method [(1,1); (0,1); (0,0)] = Some Hmc /\
  infer_capture_method [(1,1); (1,0); (0,0)] = Some Hmc /\
  infer_capture_method [(0,0)] = Some Hmc /\
  infer_capture_method [(1,0); (1,1); (0,1); (0,0)] = Some Fmc /\
  infer_capture_method [(0,1); (0,0)] = Some Unsupported /\
  infer_capture_method [(0,0); (0,1); (2,1); (1,1); (0,2); (2,2)] = Some Unsupported /\
  infer_capture_method [] = None.
Proof. vm_compute. repeat split; reflexivity. Qed.

Example weights_example : default_timetrace_weights [(0,0); (0,1); (2,1); (1,0)] = [1; 1; 2; 1].
Proof. vm_compute. reflexivity. Qed.

(* the direct row wins over the mirrored one; a missing pair is filled from its mirror *)
Example expand_example :
  expand [(2, 1, 21); (0, 1, 1); (1, 0, 10); (0, 0, 0)] =
  Some [(0, 0, 0); (0, 1, 1); (1, 0, 10); (1, 2, 21); (2, 1, 21)].
Proof. vm_compute. reflexivity. Qed.

(* a chain on a 3-element probe (labels 10, 20, 30; payload = recorded label pair):
   the premise of chain_attribution holds for the initial state and the chain runs *)
Definition ex_state : state (nat * nat) nat :=
  ([10; 20; 30], [(0, 1, (10, 20)); (2, 1, (30, 20)); (0, 0, (10, 10))]).

Example chain_premise : attributed (nat * nat) nat (fun p => p) ex_state.
Proof.
  intros t r p [H|[H|[H|[]]]]; inversion H; subst; simpl; eauto.
Qed.

Example chain_runs :
  run [OpExpand; OpElements [2; 0] true; OpFilter (fun p => p); OpSubframe [0]] ex_state
  = Some ([30; 10], [(1, 1, (10, 10))]).
Proof. vm_compute. reflexivity. Qed.

Example subframe_elements_example :
  subframe_from_probe_elements [10; 20; 30] [(0, 2, 1); (1, 1, 2); (2, 0, 3); (2, 2, 4)] [2; 0] true
  = Some ([30; 10], [(1, 0, 1); (0, 1, 3); (0, 0, 4)]).
Proof. vm_compute. reflexivity. Qed.

(* ==================================================================================
   SECOND PART — the glue of arim.core.Frame around the row bookkeeping above
   (Model/FrameOps2.v; lemmas in Proofs/FrameOps2Proofs.v and Proofs/FrameCaptureProofs.v).

   There a frame is what the code holds: three parallel arrays `timetraces`, `tx`, `rx`
   (+ numsamples, probe, examination object, metadata) that every method indexes / rebuilds
   separately and hands to Frame.__init__ again; the index argument is any numpy index
   (np_idx of Model/ProbeOps.v: bare integer, list of integers, slice, boolean mask); a raise
   is `Err <exception class>`.  `rows_of F` is the list of rows (tx, rx, samples) of the first
   part, `abs_state F` = (probe, rows), `wf F` the invariant Frame.__init__ establishes.
   The theorems (i) pin numpy's index semantics as lists of positions, (ii) characterise the
   constructor, (iii) give every method end to end with every exception it can raise,
   (iv) prove that each call — hence each history of calls — IS the corresponding operation
   of the first part, so that chain_attribution holds for real call sequences with real
   index expressions, (v) say what Frame.capture_method reports afterwards (metadata is
   never consulted), (vi) identify the abstract per-element probe with the Probe object of
   C16 under Probe.subprobe. *)
From Arim Require Import Model.ProbeOps Proofs.ProbeOpsGenProofs.
From Arim Require Import Model.Frame Model.FrameOps2 Proofs.FrameOps2Proofs Proofs.FrameCaptureProofs.

(* ---- (i) one index expression, three uses ------------------------------------------- *)
(* x[idx] = [x[p] for p in np.arange(len(x))[idx]], or both raise: the retained elements,
   the sub-probe arrays and the mapper assignment of subframe_from_probe_elements, and the
   timetraces / tx / rx of subframe, all see the same positions *)
Theorem index_selects_same_positions : forall A (idx : np_idx) (l : list A),
  np_take idx l = match np_positions idx (length l) with
                  | Some ps => mapM (nth_error l) ps
                  | None => None
                  end.
Proof. exact @np_take_by_positions. Qed.

(* a slice designates Python's range over slice.indices(n) (None / negative start and stop,
   any non-zero step), in strictly increasing or strictly decreasing order *)
Theorem slice_is_python_range : forall (n : nat) (s e st : option Z),
  np_positions (IdxSlice s e st) n = option_map (map Z.to_nat) (slice_indices (Z.of_nat n) s e st).
Proof. exact slice_positions. Qed.

Theorem slice_positions_strictly_monotone : forall (n : nat) (s e st : option Z) (ps : list nat),
  np_positions (IdxSlice s e st) n = Some ps ->
  let stp := match st with None => 1%Z | Some x => x end in
  ((0 < stp)%Z -> StronglySorted lt ps) /\ ((stp < 0)%Z -> StronglySorted gt ps).
Proof. exact slice_positions_sorted. Qed.

(* a boolean mask: accepted iff it has the length of the axis OR IS EMPTY (numpy accepts an
   empty boolean array on an axis of any length: it designates nothing); every other length
   raises; an accepted mask designates exactly its True positions, increasing.
   (Model repair: the first conjunct used to read `length bs = n /\ ...` — np_take answered
   None for the empty mask on a non-empty axis, which numpy does not.) *)
Theorem mask_positions_are_true_entries : forall (bs : list bool) (n : nat) (ps : list nat),
  (np_positions (IdxMask bs) n = Some ps <-> (length bs = n \/ bs = []) /\ ps = mask_select bs (seq 0 n)) /\
  (np_positions (IdxMask bs) n = Some ps ->
     StronglySorted lt ps /\ forall i, In i ps <-> i < n /\ nth i bs false = true) /\
  np_positions (IdxMask []) n = Some [].
Proof.
  intros bs n ps.
  exact (conj (mask_positions_spec bs n ps) (conj (mask_positions_sorted bs n ps) (mask_positions_empty n))).
Qed.

(* a list of integers: entry k designates k, or n + k when negative, in the order given,
   repetitions kept; one entry outside [-n, n) raises *)
Theorem integer_list_positions : forall (ks : list Z) (n : nat),
  (Forall (fun k => (- Z.of_nat n <= k < Z.of_nat n)%Z) ks ->
     np_positions (IdxList ks) n = Some (map (norm_index n) ks)) /\
  (Exists (fun k => ~ (- Z.of_nat n <= k < Z.of_nat n)%Z) ks -> np_positions (IdxList ks) n = None).
Proof. exact list_positions. Qed.

(* ---- (ii) Frame.__init__ ---------------------------------------------------------------- *)
Theorem constructor_accepts_iff : forall Smp L M X tok ns (tt : list (list Smp)) ktx tx krx rx
    (pr : list L) (ex : X) (m : M) (F : frame2 Smp L M X),
  init_core tok ns tt ktx tx krx rx pr ex m = Ok F <->
  tok = true /\ is_index_kind ktx = true /\ is_index_kind krx = true /\
  Forall (fun r : list Smp => length r = ns) tt /\ length tx = length tt /\ length rx = length tt /\
  NoDup (combine tx rx) /\ F = mkFrame2 tt ns tx rx pr ex m (length tt).
Proof. exact init_core_Ok. Qed.

(* the exception is that of the first failing check, in the order of the code *)
Theorem constructor_error_order : forall Smp L M X tok ns (tt : list (list Smp)) ktx tx krx rx
    (pr : list L) (ex : X) (m : M) (e : ferror),
  init_core (S:=Smp) tok ns tt ktx tx krx rx pr ex m = Err e <->
  (tok = false /\ e = ErrType) \/
  (tok = true /\ is_index_kind ktx = false /\ e = ErrType) \/
  (tok = true /\ is_index_kind ktx = true /\ is_index_kind krx = false /\ e = ErrType) \/
  (tok = true /\ is_index_kind ktx = true /\ is_index_kind krx = true /\
     ((~ Forall (fun r : list Smp => length r = ns) tt /\ e = ErrShape) \/
      (Forall (fun r : list Smp => length r = ns) tt /\
         ((length tx <> length tt /\ e = ErrShape) \/
          (length tx = length tt /\
             ((length rx <> length tt /\ e = ErrShape) \/
              (length rx = length tt /\ ~ NoDup (combine tx rx) /\ e = ErrValue))))))).
Proof. exact init_core_Err. Qed.

Theorem constructor_stores_arguments : forall Smp L M X (mempty : M) tok ns (tt : list (list Smp)) ktx tx krx rx
    (pr : list L) (ex : X) (meta : option M) (F : frame2 Smp L M X),
  init_frame mempty tok ns tt ktx tx krx rx pr ex meta = Ok F ->
  wf _ _ _ _ F /\ f_tt F = tt /\ f_tx F = tx /\ f_rx F = rx /\ f_probe F = pr /\ f_exam F = ex /\ f_ns F = ns /\
  f_meta F = match meta with None => mempty | Some m => m end.
Proof. exact init_frame_metadata. Qed.

(* ---- (iii) the methods, end to end ------------------------------------------------------ *)
(* get_timetrace(tx, rx) with any integers: the samples of THE row labelled (tx, rx), else
   IndexError — a negative element index designates nothing (no wrap-around) *)
Theorem get_timetrace_any_integers : forall Smp L M X (F : frame2 Smp L M X) (t r : Z) (p : list Smp),
  wf _ _ _ _ F ->
  (get_timetrace2 F t r = Ok p <->
   exists a b, t = Z.of_nat a /\ r = Z.of_nat b /\ In (a, b, p) (rows_of F)) /\
  (forall e, get_timetrace2 F t r = Err e -> e = ErrIndex).
Proof. exact get_timetrace2_spec. Qed.

(* subframe(idx), idx keeping the axis.  ps = np.arange(numtimetraces)[idx]:
   the index raises -> its exception; else the rows at ps in that order, on the same probe,
   time, examination object and metadata — or ValueError iff a pair is selected twice *)
Theorem subframe_any_index : forall Smp L M X (F : frame2 Smp L M X) (idx : np_idx),
  wf _ _ _ _ F -> not_int idx ->
  match np_positions idx (f_ntt F) with
  | None => subframe2 F idx = Err (idx_error idx)
  | Some ps =>
      exists g, Forall2 (fun i e => nth_error (rows_of F) i = Some e) ps g /\
        ((NoDup (keys g) /\ exists F', subframe2 F idx = Ok F' /\ rows_of F' = g /\ wf _ _ _ _ F' /\
                                        f_probe F' = f_probe F /\ same_context _ _ _ _ F F') \/
         (~ NoDup (keys g) /\ subframe2 F idx = Err ErrValue))
  end.
Proof. exact subframe2_spec. Qed.

(* a bare integer: IndexError out of [-n, n), else InvalidDimension (1-D timetraces) *)
Theorem subframe_bare_integer : forall Smp L M X (F : frame2 Smp L M X) (k : Z),
  subframe2 F (IdxInt k) =
  if ((- Z.of_nat (length (f_tt F)) <=? k) && (k <? Z.of_nat (length (f_tt F))))%Z
  then Err ErrDimension else Err ErrIndex.
Proof. exact subframe2_int. Qed.

(* every slice with a non-zero step and every mask of the right length — or empty (model
   repair: that case is new) — is accepted *)
Theorem subframe_slice_or_mask_never_raises : forall Smp L M X (F : frame2 Smp L M X),
  wf _ _ _ _ F ->
  (forall s e st, st <> Some 0%Z -> exists F', subframe2 F (IdxSlice s e st) = Ok F') /\
  (forall bs, length bs = f_ntt F \/ bs = [] -> exists F', subframe2 F (IdxMask bs) = Ok F').
Proof.
  intros Smp L M X F Hwf.
  exact (conj (fun s e st H => subframe2_slice_ok Smp L M X F s e st Hwf H)
              (fun bs H => subframe2_mask_ok Smp L M X F bs Hwf H)).
Qed.

(* the empty boolean array as index, on a frame with any number of timetraces / elements:
   Frame.subframe gives the frame without timetraces (same probe), and
   Frame.subframe_from_probe_elements the frame without timetraces whose probe has no element
   (make_subprobe=True) or is unchanged; same time, examination object, metadata; no raise *)
Theorem empty_mask_selects_nothing : forall Smp L M X (F : frame2 Smp L M X) (mk : bool),
  wf _ _ _ _ F ->
  subframe2 F (IdxMask []) = Ok (mkFrame2 [] (f_ns F) [] [] (f_probe F) (f_exam F) (f_meta F) 0) /\
  sub_elements2 F (IdxMask []) mk =
    Ok (mkFrame2 [] (f_ns F) [] [] (if mk then [] else f_probe F) (f_exam F) (f_meta F) 0).
Proof.
  intros Smp L M X F mk Hwf.
  exact (conj (subframe2_empty_mask Smp L M X F Hwf) (sub_elements2_empty_mask Smp L M X F mk Hwf)).
Qed.

(* subframe_from_probe_elements(idx, make_subprobe=True), E = np.arange(numelements)[idx]:
   the sub-probe is probe[idx], its element k being element E[k] of the probe; the rows kept
   are exactly those with both elements in E (np.isin = membership, whatever the order and
   repetitions of E), in the original order, with their samples, relabelled so that
   E[new_tx] = old_tx and E[new_rx] = old_rx; context unchanged *)
Theorem sub_elements_any_index : forall Smp L M X (F F' : frame2 Smp L M X) (idx : np_idx) (E : list nat),
  wf _ _ _ _ F -> not_int idx ->
  np_positions idx (length (f_probe F)) = Some E -> sub_elements2 F idx true = Ok F' ->
  np_take idx (f_probe F) = Some (f_probe F') /\
  Forall2 (fun e x => nth_error (f_probe F) e = Some x) E (f_probe F') /\
  Forall2 (renumbered (list Smp) E) (filter (retained E) (rows_of F)) (rows_of F') /\
  wf _ _ _ _ F' /\ same_context _ _ _ _ F F'.
Proof. exact sub_elements2_spec. Qed.

(* no spurious error, with or without sub-probe, repeated elements included *)
Theorem sub_elements_accepts_every_valid_index : forall Smp L M X (F : frame2 Smp L M X) idx E mk,
  wf _ _ _ _ F -> not_int idx -> np_positions idx (length (f_probe F)) = Some E ->
  exists F', sub_elements2 F idx mk = Ok F'.
Proof. exact sub_elements2_total. Qed.

(* make_subprobe=False, any index incl. a bare integer (then E = [that element]): the index
   error if any, else the retained rows unchanged on the unchanged probe (the constructor
   cannot fail on them unless the frame had duplicates) *)
Theorem sub_elements_without_subprobe : forall Smp L M X (F : frame2 Smp L M X) (idx : np_idx),
  wf _ _ _ _ F ->
  sub_elements2 F idx false =
  rbind (retained_elements (length (f_probe F)) idx)
        (fun E => close _ _ _ _ F (filter (retained E) (rows_of F)) (f_probe F)).
Proof. exact sub_elements2_nomk. Qed.

(* a bare integer with a sub-probe: Probe.subprobe cannot build a probe (TypeError) *)
Theorem sub_elements_bare_integer_subprobe : forall Smp L M X (F : frame2 Smp L M X) (k : Z),
  sub_elements2 F (IdxInt k) true =
  if ((- Z.of_nat (length (f_probe F)) <=? k) && (k <? Z.of_nat (length (f_probe F))))%Z
  then Err ErrType else Err ErrIndex.
Proof. exact sub_elements2_int_mk. Qed.

(* an index numpy refuses: its exception (IndexError; ValueError for a zero slice step) *)
Theorem refused_index_raises_its_exception : forall Smp L M X (F : frame2 Smp L M X) (idx : np_idx),
  wf _ _ _ _ F -> not_int idx ->
  (np_positions idx (f_ntt F) = None -> step2 (Op2Subframe idx) F = Err (idx_error idx)) /\
  (np_positions idx (length (f_probe F)) = None ->
     forall mk, step2 (Op2Elements idx mk) F = Err (idx_error idx)).
Proof. exact step2_index_raises. Qed.

(* expansion on the three arrays (dictionary pair -> row index, row-by-row copy, unzipped
   pairs): never raises; the result is complete, a second expansion returns the same object *)
Theorem expand_three_arrays : forall Smp L M X (F : frame2 Smp L M X),
  wf _ _ _ _ F ->
  (exists F', expand2 F = Ok F' /\ wf _ _ _ _ F' /\ expand (rows_of F) = Some (rows_of F') /\
              f_probe F' = f_probe F) /\
  (forall F', expand2 F = Ok F' ->
     wf _ _ _ _ F' /\ is_complete2 F' = true /\ expand2 F' = Ok F' /\ f_probe F' = f_probe F /\
     same_context _ _ _ _ F F').
Proof.
  intros Smp L M X F Hwf.
  exact (conj (expand2_total Smp L M X F Hwf) (fun F' H => expand2_idempotent Smp L M X F F' Hwf H)).
Qed.

(* apply_filter with ANY function of the 2-D array (it may mix rows): tx, rx, probe and
   context are never touched; InvalidShape iff the filter changes the shape *)
Theorem apply_filter_any_filter : forall Smp L M X (filt : list (list Smp) -> list (list Smp)) (F : frame2 Smp L M X),
  wf _ _ _ _ F ->
  apply_filter2 filt F =
  if forallb (fun r => length r =? f_ns F) (filt (f_tt F)) && (length (filt (f_tt F)) =? f_ntt F)
  then Ok (mkFrame2 (filt (f_tt F)) (f_ns F) (f_tx F) (f_rx F) (f_probe F) (f_exam F) (f_meta F) (f_ntt F))
  else Err ErrShape.
Proof. exact apply_filter2_any. Qed.

(* ---- (iv) refinement -------------------------------------------------------------------- *)
(* one call = one operation of the row model, error for error; invariant and context kept *)
Theorem call_refines_row_model : forall Smp L M X (F : frame2 Smp L M X) (o : op2 Smp) (o' : op (list Smp)),
  wf _ _ _ _ F -> op_rel _ _ _ _ F o o' ->
  option_map abs_state (res_opt (step2 o F)) = step o' (abs_state F) /\
  (forall F', step2 o F = Ok F' -> wf _ _ _ _ F' /\ same_context _ _ _ _ F F').
Proof. exact step2_sim. Qed.

(* and every call that succeeds is one (filters: row-wise ones) *)
Theorem successful_call_is_row_operation : forall Smp L M X (F F1 : frame2 Smp L M X) (o : op2 Smp),
  wf _ _ _ _ F -> rowwise _ o -> step2 o F = Ok F1 -> exists o', op_rel _ _ _ _ F o o'.
Proof. exact step2_Ok_rel. Qed.

Theorem history_refines_row_model : forall Smp L M X (rec : list Smp -> L * L) (ops : list (op2 Smp))
    (F F' : frame2 Smp L M X),
  wf _ _ _ _ F -> Forall (filter2_ok _ _ rec) ops -> run2 ops F = Ok F' ->
  wf _ _ _ _ F' /\ same_context _ _ _ _ F F' /\
  exists ops', run ops' (abs_state F) = Some (abs_state F') /\
               Forall (filter_ok (list Smp) L rec) ops' /\
               (Forall (not_expand2 _) ops -> Forall (not_expand (list Smp)) ops').
Proof. exact run2_refines. Qed.

(* chain_attribution for real call sequences: any history of subframe /
   subframe_from_probe_elements (any numpy index, with or without sub-probe) / expand /
   apply_filter (row-wise) on a constructed frame that does not raise *)
Theorem history_attribution : forall Smp L M X (rec : list Smp -> L * L) (ops : list (op2 Smp))
    (F F' : frame2 Smp L M X),
  wf _ _ _ _ F -> Forall (filter2_ok _ _ rec) ops -> run2 ops F = Ok F' ->
  wf _ _ _ _ F' /\ same_context _ _ _ _ F F' /\
  (attributed_sym (list Smp) L rec (abs_state F) -> attributed_sym (list Smp) L rec (abs_state F')) /\
  (Forall (not_expand2 _) ops -> attributed (list Smp) L rec (abs_state F) -> attributed (list Smp) L rec (abs_state F')) /\
  (forall t r p, In (t, r, p) (rows_of F') -> exists t0 r0 p0, In (t0, r0, p0) (rows_of F) /\ rec p = rec p0).
Proof. exact run2_attribution. Qed.

(* ---- (v) Frame.capture_method ----------------------------------------------------------- *)
(* the metadata dictionary is only carried: running any history on the same frame with
   another dictionary gives the same outcome with that dictionary; capture_method is
   inferred from tx / rx and ignores it (a capture method declared there has no effect) *)
Theorem metadata_only_carried : forall Smp L M X (ops : list (op2 Smp)) (F : frame2 Smp L M X) (m : M),
  run2 ops (with_meta _ _ _ _ F m) = rmap (fun F' => with_meta _ _ _ _ F' m) (run2 ops F) /\
  capture_method2 (with_meta _ _ _ _ F m) = capture_method2 F.
Proof. intros Smp L M X ops F m. exact (conj (run2_meta Smp L M X ops F m) (capture2_ignores_metadata Smp L M X F m)). Qed.

(* full matrix, any duplicate-free selection of elements in any order: full matrix of the
   sub-probe *)
Theorem fmc_subaperture_is_fmc : forall Smp L M X (F F' : frame2 Smp L M X) (idx : np_idx) (E : list nat),
  wf _ _ _ _ F -> Permutation (pairs_of F) (fmc (length (f_probe F))) -> not_int idx ->
  np_positions idx (length (f_probe F)) = Some E -> NoDup E ->
  sub_elements2 F idx true = Ok F' ->
  Permutation (pairs_of F') (fmc (length (f_probe F'))) /\ length (f_probe F') = length E /\
  (2 <= length E -> capture_method2 F' = Some Fmc).
Proof. exact capture2_fmc_subaperture. Qed.

(* half matrix: elements in increasing order keep the orientation, in decreasing order
   reverse it; both are reported as hmc.  (In any other order the result is in general
   `unsupported`: example hmc_subaperture_unsorted below.) *)
Theorem hmc_subaperture_monotone_is_hmc : forall Smp L M X (F F' : frame2 Smp L M X) (idx : np_idx) (E : list nat),
  wf _ _ _ _ F -> Permutation (pairs_of F) (hmc (length (f_probe F))) -> not_int idx ->
  np_positions idx (length (f_probe F)) = Some E ->
  sub_elements2 F idx true = Ok F' ->
  (StronglySorted lt E -> Permutation (pairs_of F') (hmc (length (f_probe F')))) /\
  (StronglySorted gt E -> Permutation (pairs_of F') (map swap (hmc (length (f_probe F'))))) /\
  length (f_probe F') = length E /\
  (StronglySorted lt E \/ StronglySorted gt E -> 1 <= length E -> capture_method2 F' = Some Hmc).
Proof. exact capture2_hmc_subaperture. Qed.

(* composed with (i): every mask and every slice *)
Theorem hmc_subaperture_by_mask_or_slice : forall Smp L M X (F F' : frame2 Smp L M X),
  wf _ _ _ _ F -> Permutation (pairs_of F) (hmc (length (f_probe F))) -> 1 <= length (f_probe F') ->
  (forall bs, sub_elements2 F (IdxMask bs) true = Ok F' -> capture_method2 F' = Some Hmc) /\
  (forall s e st, sub_elements2 F (IdxSlice s e st) true = Ok F' -> capture_method2 F' = Some Hmc).
Proof.
  intros Smp L M X F F' Hwf Hp Hl.
  exact (conj (fun bs H => proj2 (capture2_hmc_mask Smp L M X F F' bs Hwf Hp H) Hl)
              (fun s e st H => capture2_hmc_slice Smp L M X F F' s e st Hwf Hp H Hl)).
Qed.

(* any half-matrix acquisition (rows in any order, either orientation) expands, without
   raising, to tx / rx exactly those of ut.fmc — reported as fmc — each row carrying the
   recorded row of its pair or, failing that, of the mirrored pair *)
Theorem expand_half_matrix_is_fmc : forall Smp L M X (F : frame2 Smp L M X) (n : nat),
  wf _ _ _ _ F ->
  Permutation (pairs_of F) (hmc n) \/ Permutation (pairs_of F) (map swap (hmc n)) ->
  exists F', expand2 F = Ok F' /\ wf _ _ _ _ F' /\ pairs_of F' = fmc n /\
             (2 <= n -> capture_method2 F' = Some Fmc) /\
             (forall k p, In (k, p) (rows_of F') ->
                In (k, p) (rows_of F) \/ (~ In k (pairs_of F) /\ In (swap k, p) (rows_of F))).
Proof. exact capture2_expand_hmc. Qed.

(* the same two facts in the row model of the first part (any payload type) *)
Theorem sub_elements_of_fmc_rows : forall P L (pr sp : list L) (f g : frame P) (E : list nat),
  Permutation (keys f) (fmc (length pr)) -> NoDup E ->
  subframe_from_probe_elements pr f E true = Some (sp, g) -> Permutation (keys g) (fmc (length E)).
Proof. exact sub_elements_fmc. Qed.

Theorem expand_half_matrix_rows : forall P (f g : frame P) (n : nat),
  Permutation (keys f) (hmc n) \/ Permutation (keys f) (map swap (hmc n)) ->
  expand f = Some g -> keys g = fmc n.
Proof. exact expand_half_matrix_keys. Qed.

(* ---- (vi) the probe of a frame as the Probe object of C16 -------------------------------- *)
(* Probe.subprobe on the whole object (locations, orientations, dimensions, shapes, dead
   flags, PCS, frequency, bandwidth, metadata) indexes the list of per-element attribute
   tuples with the same numpy index — so `L` above may be read as that tuple: sub-probe
   element k has EVERY attribute of element E[k]; PCS, frequency, bandwidth are kept,
   metadata kept or emptied; it raises exactly when the index raises *)
Theorem subprobe_object_is_element_indexing : forall T (N : Num.Num T) (n : nat) (idx : np_idx) (sm : bool)
    (px px' : probe_x (T:=T)),
  wf_len n px -> ProbeOps.subprobe N idx sm px = Some px' ->
  np_take idx (probe_elems px) = Some (probe_elems px') /\
  Probe.p_pcs (x_core px') = Probe.p_pcs (x_core px) /\ x_freq px' = x_freq px /\ x_bw px' = x_bw px /\
  x_meta px' = (if sm then x_meta px else []) /\
  x_numel px' = Z.of_nat (length (probe_elems px')) /\ wf_len (length (probe_elems px')) px'.
Proof. intros T N. exact (subprobe_object_elems N). Qed.

Theorem subprobe_object_raises_iff_index_raises : forall T (N : Num.Num T) (n : nat) (idx : np_idx) (sm : bool)
    (px : probe_x (T:=T)),
  wf_len n px -> (ProbeOps.subprobe N idx sm px = None <-> np_positions idx n = None).
Proof. intros T N. exact (subprobe_object_raises N). Qed.

(* ---- non-vacuity of the second part ------------------------------------------------------ *)
(* a full matrix on 4 elements; samples of row (t, r) = [label_t; label_r] with labels 10 (e + 1):
   the samples say which physical elements recorded them; metadata = 7; no examination object *)
Definition ex_labels : list nat := [10; 20; 30; 40].
Definition ex_row (p : nat * nat) : list nat := [10 * (fst p + 1); 10 * (snd p + 1)].
Definition ex_rec (r : list nat) : nat * nat := (nth 0 r 0, nth 1 r 0).
Definition ex_fmc4 : frame2 nat nat nat unit :=
  mkFrame2 (map ex_row (fmc 4)) 2 (map fst (fmc 4)) (map snd (fmc 4)) ex_labels tt 7 16.
Definition ex_hmc3 : frame2 nat nat nat unit :=
  mkFrame2 (map ex_row (hmc 3)) 2 (map fst (hmc 3)) (map snd (hmc 3)) [10; 20; 30] tt 7 6.

Example ex_fmc4_constructed :
  init_frame 0 true 2 (map ex_row (fmc 4)) KInt (map fst (fmc 4)) KUInt (map snd (fmc 4)) ex_labels tt (Some 7)
  = Ok ex_fmc4.
Proof. vm_compute. reflexivity. Qed.

Example ex_fmc4_wf : wf _ _ _ _ ex_fmc4.
Proof. exact (proj1 (init_frame_metadata _ _ _ _ _ _ _ _ _ _ _ _ _ _ _ _ ex_fmc4_constructed)). Qed.

Example ex_hmc3_wf : wf _ _ _ _ ex_hmc3.
Proof.
  apply (init_core_wf nat nat nat unit true 2 (map ex_row (hmc 3)) KInt (map fst (hmc 3)) KInt (map snd (hmc 3)) [10; 20; 30] tt 7).
  vm_compute. reflexivity.
Qed.

(* the order of the checks: a float tx wins over duplicate pairs; a wrong width over a short
   tx; duplicates are the last thing looked at; metadata None becomes the empty dictionary *)
Example ex_constructor_errors :
  init_frame (S:=nat) (L:=nat) (X:=unit) 0 true 1 [[1]; [2]] KFloat [0; 0] KInt [1; 1] [] tt None = Err ErrType /\
  init_frame (S:=nat) (L:=nat) (X:=unit) 0 true 1 [[1]; [2; 3]] KInt [0] KInt [1; 1] [] tt None = Err ErrShape /\
  init_frame (S:=nat) (L:=nat) (X:=unit) 0 true 1 [[1]; [2]] KInt [0] KInt [1; 1] [] tt None = Err ErrShape /\
  init_frame (S:=nat) (L:=nat) (X:=unit) 0 true 1 [[1]; [2]] KInt [0; 0] KInt [1; 1] [] tt None = Err ErrValue /\
  init_frame (S:=nat) (L:=nat) (X:=unit) 0 false 1 [[1]; [2]] KBool [0; 0] KInt [1; 1] [] tt None = Err ErrType /\
  option_map (fun F => f_meta F) (res_opt (init_frame (S:=nat) (L:=nat) (X:=unit) 0 true 1 [[1]; [2]] KInt [0; 1] KInt [1; 1] [] tt None)) = Some 0.
Proof. vm_compute. repeat split; reflexivity. Qed.

Example ex_positions :
  np_positions (IdxSlice (Some (-3)%Z) None None) 4 = Some [1; 2; 3] /\
  np_positions (IdxSlice None None (Some (-2)%Z)) 4 = Some [3; 1] /\
  np_positions (IdxSlice (Some 1%Z) (Some (-1)%Z) None) 4 = Some [1; 2] /\
  np_positions (IdxSlice (Some 0%Z) (Some 3%Z) (Some 0%Z)) 4 = None /\
  np_positions (IdxMask [true; false; true; false]) 4 = Some [0; 2] /\
  np_positions (IdxMask [true; false; true]) 4 = None /\
  np_positions (IdxMask []) 4 = Some [] /\
  np_positions (IdxList [2; -4; 2]%Z) 4 = Some [2; 0; 2] /\
  np_positions (IdxList [2; 4]%Z) 4 = None.
Proof. vm_compute. repeat split; reflexivity. Qed.

Example ex_get_timetrace :
  get_timetrace2 ex_fmc4 1 0 = Ok [20; 10] /\ get_timetrace2 ex_fmc4 (-1) 0 = Err ErrIndex /\
  get_timetrace2 ex_fmc4 4 0 = Err ErrIndex.
Proof. vm_compute. repeat split; reflexivity. Qed.

(* elements [2, -4] = physical elements 30 and 10, in that order: new element 0 is old 2 *)
Example ex_sub_elements :
  res_view (sub_elements2 ex_fmc4 (IdxList [2; -4]%Z) true) =
  Ok ([1; 1; 0; 0]%Z, [1; 0; 1; 0]%Z, [[10; 10]; [10; 30]; [30; 10]; [30; 30]], [30; 10], 7) /\
  res_view (sub_elements2 ex_fmc4 (IdxList [0; 0; 1]%Z) true) =
  Ok ([1; 1; 2; 2]%Z, [1; 2; 1; 2]%Z, [[10; 10]; [10; 20]; [20; 10]; [20; 20]], [10; 10; 20], 7) /\
  res_view (sub_elements2 ex_fmc4 (IdxInt (-1)%Z) false) = Ok ([3]%Z, [3]%Z, [[40; 40]], ex_labels, 7) /\
  res_view (sub_elements2 ex_fmc4 (IdxInt 2%Z) true) = Err ErrType /\
  res_view (sub_elements2 ex_fmc4 (IdxList [2; 4]%Z) true) = Err ErrIndex /\
  res_view (sub_elements2 ex_fmc4 (IdxSlice None None (Some 0%Z)) false) = Err ErrValue /\
  res_view (subframe2 ex_fmc4 (IdxList [0; -16]%Z)) = Err ErrValue /\
  res_view (subframe2 ex_fmc4 (IdxInt 3%Z)) = Err ErrDimension /\
  (* the empty boolean array: no timetrace; no element / the four elements *)
  res_view (subframe2 ex_fmc4 (IdxMask [])) = Ok ([], [], [], ex_labels, 7) /\
  res_view (sub_elements2 ex_fmc4 (IdxMask []) true) = Ok ([], [], [], [], 7) /\
  res_view (sub_elements2 ex_fmc4 (IdxMask []) false) = Ok ([], [], [], ex_labels, 7) /\
  res_view (subframe2 ex_fmc4 (IdxMask [true])) = Err ErrIndex.
Proof. vm_compute. repeat split; reflexivity. Qed.

(* premises of fmc_subaperture_is_fmc / hmc_subaperture_monotone_is_hmc / expand_half_matrix_is_fmc *)
Example ex_fmc4_is_fmc : Permutation (pairs_of ex_fmc4) (fmc (length (f_probe ex_fmc4))).
Proof. vm_compute. apply Permutation_refl. Qed.
Example ex_hmc3_is_hmc : Permutation (pairs_of ex_hmc3) (hmc (length (f_probe ex_hmc3))).
Proof. vm_compute. apply Permutation_refl. Qed.

(* a half matrix restricted to elements in increasing / decreasing order is reported hmc; in
   another order it is `unsupported` although no timetrace is mis-attributed *)
Example hmc_subaperture_unsorted :
  option_map capture_method2 (res_opt (sub_elements2 ex_hmc3 (IdxMask [true; false; true]) true)) = Some (Some Hmc) /\
  option_map capture_method2 (res_opt (sub_elements2 ex_hmc3 (IdxSlice None None (Some (-1)%Z)) true)) = Some (Some Hmc) /\
  option_map capture_method2 (res_opt (sub_elements2 ex_hmc3 (IdxList [1; 0; 2]%Z) true)) = Some (Some Unsupported) /\
  option_map capture_method2 (res_opt (sub_elements2 ex_fmc4 (IdxList [3; 0; 2]%Z) true)) = Some (Some Fmc) /\
  option_map capture_method2 (res_opt (sub_elements2 ex_fmc4 (IdxList []) true)) = Some None.
Proof. vm_compute. repeat split; reflexivity. Qed.

Example ex_expand_hmc :
  option_map (fun F => (pairs_of F, f_tt F, capture_method2 F)) (res_opt (expand2 ex_hmc3)) =
  Some (fmc 3, map (fun p => ex_row (Nat.min (fst p) (snd p), Nat.max (fst p) (snd p))) (fmc 3), Some Fmc).
Proof. vm_compute. reflexivity. Qed.

(* a filter that changes the number of rows or of samples is refused; one that mixes rows is
   accepted and leaves tx, rx alone *)
Example ex_filters :
  res_view (apply_filter2 (@rev (list nat)) ex_hmc3) =
  Ok ([0; 0; 0; 1; 1; 2]%Z, [0; 1; 2; 1; 2; 2]%Z, rev (map ex_row (hmc 3)), [10; 20; 30], 7) /\
  res_view (apply_filter2 (@tl (list nat)) ex_hmc3) = Err ErrShape /\
  res_view (apply_filter2 (map (@tl nat)) ex_hmc3) = Err ErrShape.
Proof. vm_compute. repeat split; reflexivity. Qed.

(* a history with real index expressions; its premises (history_attribution) hold *)
Definition ex_history : list (op2 nat) :=
  [Op2Expand; Op2Elements (IdxList [2; -3]%Z) true; Op2Filter (map (fun r => r));
   Op2Subframe (IdxSlice None None (Some (-1)%Z)); Op2Elements (IdxMask [false; true]) false].

Example ex_history_runs :
  res_view (run2 ex_history ex_hmc3) = Ok ([1]%Z, [1]%Z, [[10; 10]], [30; 10], 7).
Proof. vm_compute. reflexivity. Qed.

Example ex_history_filters_ok : Forall (filter2_ok nat nat ex_rec) ex_history.
Proof.
  repeat constructor. exists (fun r => r). repeat split.
Qed.

Example ex_history_premise : attributed (list nat) nat ex_rec (abs_state ex_hmc3).
Proof.
  intros t r p H. vm_compute in H.
  repeat (destruct H as [H|H]; [inversion H; subst; vm_compute; eauto|]). contradiction.
Qed.

(* metadata that "declares" anything changes nothing *)
Example ex_metadata_ignored :
  capture_method2 (with_meta _ _ _ _ ex_hmc3 1) = Some Hmc /\
  res_view (run2 ex_history (with_meta _ _ _ _ ex_hmc3 1)) = Ok ([1]%Z, [1]%Z, [[10; 10]], [30; 10], 1).
Proof. vm_compute. repeat split; reflexivity. Qed.

(* a Probe object over the rationals: 3 elements, orientations known, dimensions unknown *)
From Arim Require Import Base.NumQ.
From Coq Require Import QArith.
Definition ex_px : probe_x (T:=Q) :=
  mkPX (Probe.mkProbe [(0, 0, 0); (1, 0, 0); (2, 0, 0)]%Q (Some [(0, 0, 1); (0, 0, 1); (0, 1, 0)]%Q)
          (Probe.mkCS (5, 0, 0) (1, 0, 0) (0, 1, 0))%Q)
       None (Some [0; 1; 1]%Z) [false; true; false] (Some 5%Q) None [] 3%Z.

Example ex_px_wf : wf_len 3 ex_px.
Proof. vm_compute. repeat split; reflexivity. Qed.

Example ex_subprobe_object :
  option_map probe_elems (ProbeOps.subprobe NumQ (IdxList [2; 0]%Z) false ex_px) =
  Some [((2, 0, 0)%Q, (Some (0, 1, 0)%Q, (None, (Some 1%Z, false))));
        ((0, 0, 0)%Q, (Some (0, 0, 1)%Q, (None, (Some 0%Z, false))))] /\
  option_map (fun p => Probe.p_pcs (x_core p)) (ProbeOps.subprobe NumQ (IdxList [2; 0]%Z) false ex_px)
  = Some (Probe.mkCS (5, 0, 0) (1, 0, 0) (0, 1, 0))%Q /\
  ProbeOps.subprobe NumQ (IdxList [3]%Z) false ex_px = None.
Proof. vm_compute. repeat split; reflexivity. Qed.
