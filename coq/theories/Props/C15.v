(* Props/C15.v — Frame bookkeeping never mis-attributes a timetrace to an element pair.
   Only statements; every proof is `exact <lemma>` (lemmas in Proofs/FrameProofs.v and
   Proofs/FrameOpsProofs.v; the model is Model/Frame.v).

   Reading guide: a frame is the list of its rows (tx, rx, payload); a probe the list of
   its per-element attributes (location ...).  `option` = the Python call may raise.
   Index expressions are the lists arange(n)[idx].

   What these theorems do NOT cover (exercised by harness/prop_C15.py): numpy's fancy
   indexing / np.isin / CPython set and dict semantics (modelled), filters that mix rows
   (apply_filter is covered for row-wise filters: premise `filter_ok`). *)
From Coq Require Import Arith List Bool Permutation Sorted ZArith.
From Arim Require Import Model.Frame Proofs.FrameProofs Proofs.FrameOpsProofs.
Import ListNotations.

(* ---- fmc / hmc ------------------------------------------------------------- *)
(* every ordered pair of [0, n) exactly once *)
Theorem fmc_enumerates : forall n,
  NoDup (fmc n) /\ length (fmc n) = n * n /\ (forall a b, In (a, b) (fmc n) <-> a < n /\ b < n).
Proof. intros n. exact (conj (fmc_NoDup n) (conj (fmc_length n) (fmc_In n))). Qed.

(* every unordered pair exactly once, stored with tx <= rx *)
Theorem hmc_enumerates : forall n,
  NoDup (hmc n) /\ 2 * length (hmc n) = n * (n + 1) /\ (forall a b, In (a, b) (hmc n) <-> a <= b /\ b < n).
Proof. intros n. exact (conj (hmc_NoDup n) (conj (hmc_length n) (hmc_In n))). Qed.

(* "unordered pair exactly once": one of (a,b), (b,a) is listed, never both *)
Theorem hmc_unordered_pairs_once : forall n a b, a < n -> b < n ->
  (In (a, b) (hmc n) \/ In (b, a) (hmc n)) /\ (a <> b -> ~ (In (a, b) (hmc n) /\ In (b, a) (hmc n))).
Proof. exact hmc_unordered_once. Qed.

(* the storage order: tx-major *)
Theorem fmc_order : forall n, fmc n = list_prod (seq 0 n) (seq 0 n).
Proof. exact fmc_list_prod. Qed.

Theorem hmc_order : forall n, hmc n = flat_map (fun i => map (pair i) (seq i (n - i))) (seq 0 n).
Proof. exact hmc_hmc_rows. Qed.

(* ---- infer_capture_method -------------------------------------------------- *)
(* any order of the rows gives the same answer *)
Theorem infer_permutation_invariant : forall l l',
  Permutation l l' -> infer_capture_method l = infer_capture_method l'.
Proof. exact infer_perm. Qed.

(* every permutation of an HMC, in either orientation, is recognised (n = 1 included:
   the single pair (0,0) is reported as hmc, as the code does) *)
Theorem infer_recognises_hmc : forall n l, 1 <= n ->
  Permutation l (hmc n) \/ Permutation l (map swap (hmc n)) -> infer_capture_method l = Some Hmc.
Proof. exact FrameProofs.infer_recognises_hmc. Qed.

Theorem infer_recognises_fmc : forall n l, 2 <= n ->
  Permutation l (fmc n) -> infer_capture_method l = Some Fmc.
Proof. exact FrameProofs.infer_recognises_fmc. Qed.

(* and nothing else is: a list with a missing, repeated or foreign pair is not reported *)
Theorem infer_hmc_sound : forall l, infer_capture_method l = Some Hmc ->
  let n := numel_of l in Permutation l (hmc n) \/ Permutation l (map swap (hmc n)).
Proof. exact FrameProofs.infer_hmc_sound. Qed.

Theorem infer_fmc_sound : forall l, infer_capture_method l = Some Fmc -> Permutation l (fmc (numel_of l)).
Proof. exact FrameProofs.infer_fmc_sound. Qed.

(* ---- default_timetrace_weights --------------------------------------------- *)
(* row by row: weight 1 iff the mirrored pair is present, else 2 *)
Theorem weights_spec : forall l,
  Forall2 (fun p w => (In (swap p) l -> w = 1) /\ (~ In (swap p) l -> w = 2))
          l (default_timetrace_weights l).
Proof. exact weights_Forall2. Qed.

Theorem weights_hmc_sum : forall n, list_sum (default_timetrace_weights (hmc n)) = n * n.
Proof. exact weights_hmc. Qed.

Theorem weights_fmc_all_one : forall n, default_timetrace_weights (fmc n) = repeat 1 (n * n).
Proof. exact weights_fmc. Qed.

(* ---- constructor and get_timetrace ------------------------------------------ *)
Theorem frame_rejects_duplicates : forall P (f : frame P), mk_frame f = None <-> ~ NoDup (keys f).
Proof. exact mk_frame_None. Qed.

Theorem get_timetrace_unique_row : forall P (f : frame P) t r p,
  NoDup (keys f) -> (get_timetrace f t r = Some p <-> In (t, r, p) f).
Proof. exact get_timetrace_spec. Qed.

(* ---- expand_frame_assuming_reciprocity --------------------------------------- *)
(* never raises; the pairs of the result are exactly the recorded pairs and their mirrors,
   without duplicates, in increasing tuple order when an expansion takes place (this pins
   the list: sorted_unique below), the same frame when none is needed; the row (a, b)
   carries the data of a recorded row (a, b), and only if there is none, of the recorded
   row (b, a) *)
Theorem expand_spec : forall P (f : frame P), NoDup (keys f) ->
  exists g, expand f = Some g /\
    NoDup (keys g) /\
    (forall k, In k (keys g) <-> In k (keys f) \/ In (swap k) (keys f)) /\
    (is_complete f = true -> g = f) /\
    (is_complete f = false -> StronglySorted pair_lt (keys g)) /\
    (forall k p, In (k, p) g -> In (k, p) f \/ (~ In k (keys f) /\ In (swap k, p) f)).
Proof. exact expand_full_spec. Qed.

(* every recorded row is still there, with its own data *)
Theorem expand_keeps_recorded_rows : forall P (f g : frame P) k p,
  NoDup (keys f) -> expand f = Some g -> In (k, p) f -> In (k, p) g.
Proof. exact expand_keeps_recorded. Qed.

(* and the default weights of a complete (e.g. expanded) frame are all 1 *)
Theorem weights_of_complete_frame : forall P (f : frame P),
  is_complete f = true -> default_timetrace_weights (keys f) = repeat 1 (length f).
Proof. exact weights_complete. Qed.

Theorem sorted_pairs_unique : forall l1 l2,
  StronglySorted pair_lt l1 -> StronglySorted pair_lt l2 -> (forall p, In p l1 <-> In p l2) -> l1 = l2.
Proof. exact sorted_unique. Qed.

Theorem is_complete_iff : forall P (f : frame P),
  is_complete f = true <-> (forall k, In k (keys f) <-> In (swap k) (keys f)).
Proof. exact is_complete_spec. Qed.

Theorem expand_complete : forall P (f g : frame P), expand f = Some g -> is_complete g = true.
Proof. exact expand_is_complete. Qed.

Theorem expand_idempotent : forall P (f g : frame P), expand f = Some g -> expand g = Some g.
Proof. exact expand_idem. Qed.

(* ---- subframe by timetrace index --------------------------------------------- *)
Theorem subframe_by_index_spec : forall P (f g : frame P) idx,
  subframe f idx = Some g <-> Forall2 (fun i e => nth_error f i = Some e) idx g /\ NoDup (keys g).
Proof. exact subframe_spec. Qed.

(* ---- subframe_from_probe_elements / Probe.subprobe ----------------------------- *)
(* E = arange(numelements)[elements_idx] (E may even repeat elements).
   (1) a row is kept iff both its elements are in E;
   (2) with a sub-probe: sub-probe element k is old element E[k]; the kept rows are the
       retained rows in the original order, each with its own data, renumbered so that
       E[new_tx] = old_tx and E[new_rx] = old_rx — hence attached to elements with the same
       attributes (physical location) as before;
   (3) without sub-probe: the retained rows, unchanged, on the unchanged probe;
   (4) valid elements and a duplicate-free frame never raise. *)
Theorem subframe_elements_spec : forall P L (pr : list L) (f : frame P) (E : list nat),
  (forall e : entry P, retained E e = true <-> In (fst (key e)) E /\ In (snd (key e)) E) /\
  (forall sp g, subframe_from_probe_elements pr f E true = Some (sp, g) ->
     subprobe pr E = Some sp /\
     Forall2 (fun e x => nth_error pr e = Some x) E sp /\
     Forall2 (renumbered P E) (filter (retained E) f) g /\
     Forall2 (fun e e' => payload e' = payload e /\
                nth_error sp (fst (key e')) = nth_error pr (fst (key e)) /\
                nth_error sp (snd (key e')) = nth_error pr (snd (key e)) /\
                nth_error sp (fst (key e')) <> None /\ nth_error sp (snd (key e')) <> None)
             (filter (retained E) f) g /\
     NoDup (keys g)) /\
  (forall pr' g, subframe_from_probe_elements pr f E false = Some (pr', g) ->
     pr' = pr /\ g = filter (retained E) f /\ NoDup (keys g)) /\
  ((forall e, In e E -> e < length pr) -> NoDup (keys f) ->
     forall mk, exists s, subframe_from_probe_elements pr f E mk = Some s).
Proof. exact sub_elements_full. Qed.

(* ---- chains ------------------------------------------------------------------- *)
(* `rec p` = the physical (tx, rx) elements the row p was recorded with.  For every finite
   chain of subframe / subframe_from_probe_elements / expand / apply_filter (row-wise
   filters) that does not raise:
   - if every row is labelled with the elements it was recorded with (up to the mirror
     that reciprocity expansion introduces), this still holds at the end;
   - without expansion in the chain the labelling stays exact;
   - every row of the result carries the record of some row of the initial frame. *)
Theorem chain_attribution : forall P L (rec : P -> L * L) (ops : list (op P)) (s s' : state P L),
  Forall (filter_ok P L rec) ops -> run ops s = Some s' ->
  (attributed_sym P L rec s -> attributed_sym P L rec s') /\
  (Forall (not_expand P) ops -> attributed P L rec s -> attributed P L rec s') /\
  (forall t r p, In (t, r, p) (snd s') -> exists t0 r0 p0, In (t0, r0, p0) (snd s) /\ rec p = rec p0).
Proof. exact chain_full. Qed.

(* the states listed by `trace` (what the harness compares step by step) end with the
   result of `run` (what chain_attribution speaks about) *)
Theorem trace_ends_with_run : forall P L (ops : list (op P)) (s s' : state P L),
  ops <> [] -> run ops s = Some s' -> last (trace ops s) None = Some s'.
Proof. exact trace_last. Qed.

(* integers of an integer-list index: a negative i designates position i + n; anything
   outside [-n, n) raises (IndexError) *)
Theorem negative_index_wraps_once : forall n i k, resolve_index n i = Some k ->
  k < n /\ ((0 <= i)%Z /\ Z.of_nat k = i \/ (i < 0)%Z /\ Z.of_nat k = (i + Z.of_nat n)%Z).
Proof. exact resolve_index_spec. Qed.

Theorem index_out_of_range_raises : forall n i,
  resolve_index n i = None <-> (i < - Z.of_nat n \/ Z.of_nat n <= i)%Z.
Proof. exact resolve_index_None. Qed.

(* ---- non-vacuity ---------------------------------------------------------------- *)
Example hmc_3 : hmc 3 = [(0,0); (0,1); (0,2); (1,1); (1,2); (2,2)].
Proof. vm_compute. reflexivity. Qed.

Example fmc_2 : fmc 2 = [(0,0); (0,1); (1,0); (1,1)].
Proof. vm_compute. reflexivity. Qed.

Example infer_examples :
  infer_capture_method [(1,1); (0,1); (0,0)] = Some Hmc /\
  infer_capture_method [(1,1); (1,0); (0,0)] = Some Hmc /\
  infer_capture_method [(0,0)] = Some Hmc /\
  infer_capture_method [(1,0); (1,1); (0,1); (0,0)] = Some Fmc /\
  infer_capture_method [(0,1); (0,0)] = Some Unsupported /\
  infer_capture_method [(0,0); (0,1); (2,1); (1,1); (0,2); (2,2)] = Some Unsupported /\
  infer_capture_method [] = None.
Proof. vm_compute. repeat split; reflexivity. Qed.

Example weights_example : default_timetrace_weights [(0,0); (0,1); (2,1); (1,0)] = [1; 1; 2; 1].
Proof. vm_compute. reflexivity. Qed.

(* the direct row wins over the mirrored one; a missing pair is filled from its mirror *)
Example expand_example :
  expand [(2, 1, 21); (0, 1, 1); (1, 0, 10); (0, 0, 0)] =
  Some [(0, 0, 0); (0, 1, 1); (1, 0, 10); (1, 2, 21); (2, 1, 21)].
Proof. vm_compute. reflexivity. Qed.

(* a chain on a 3-element probe (labels 10, 20, 30; payload = recorded label pair):
   the premise of chain_attribution holds for the initial state and the chain runs *)
Definition ex_state : state (nat * nat) nat :=
  ([10; 20; 30], [(0, 1, (10, 20)); (2, 1, (30, 20)); (0, 0, (10, 10))]).

Example chain_premise : attributed (nat * nat) nat (fun p => p) ex_state.
Proof.
  intros t r p [H|[H|[H|[]]]]; inversion H; subst; simpl; eauto.
Qed.

Example chain_runs :
  run [OpExpand; OpElements [2; 0] true; OpFilter (fun p => p); OpSubframe [0]] ex_state
  = Some ([30; 10], [(1, 1, (10, 10))]).
Proof. vm_compute. reflexivity. Qed.

Example subframe_elements_example :
  subframe_from_probe_elements [10; 20; 30] [(0, 2, 1); (1, 1, 2); (2, 0, 3); (2, 2, 4)] [2; 0] true
  = Some ([30; 10], [(1, 0, 1); (0, 1, 3); (0, 0, 4)]).
Proof. vm_compute. reflexivity. Qed.
