(* Props/C11.v — Time-domain synthesis places each echo at its delay with the right
   waveform.  Statements only (proofs: Proofs/SignalProofs.v, Proofs/DftProofs.v).
   Exact arithmetic (NumR); numpy.fft / scipy.fftpack are oracles for the finite
   Fourier sums of Model/Dft.v.
   NOT proved (measured by harness/prop_C11.py): for a FRACTIONAL remainder the
   envelope peak stays within half a sample of the delay (band-limited interpolation
   property) — see peak_within_half_sample_partial below. *)
From Coq Require Import ZArith Reals List.
From Coquelicot Require Import Complex.
From Arim Require Import Base.Num Base.NumR Model.Signal Model.Dft Proofs.SignalProofs Proofs.DftProofs.
Local Open Scope R_scope.

(* -- tonebursts ------------------------------------------------------------- *)
Theorem toneburst_odd_length : forall (T : Type) (N : Num T) cycles f dt,
  Z.odd (pulse_len N cycles f dt) = true.
Proof. exact @pulse_len_odd. Qed.

Theorem toneburst_symmetric : forall cycles f dt ns k,
  (0 <= k < pulse_len NumR cycles f dt)%Z -> (pulse_len NumR cycles f dt <= ns)%Z ->
  toneburst_at NumR cycles f dt ns (pulse_len NumR cycles f dt - 1 - k)
  = toneburst_at NumR cycles f dt ns k.
Proof. exact toneburst_symmetric_R. Qed.

Theorem toneburst_peak_one : forall cycles f dt ns,
  (1 <= pulse_len NumR cycles f dt)%Z -> (pulse_len NumR cycles f dt <= ns)%Z ->
  toneburst_at NumR cycles f dt ns (pulse_len NumR cycles f dt / 2) = 1.
Proof. exact toneburst_peak_R. Qed.

Theorem toneburst_bounded : forall cycles f dt ns k, -1 <= toneburst_at NumR cycles f dt ns k <= 1.
Proof. exact toneburst_bounded_R. Qed.

Theorem toneburst_zero_outside : forall cycles f dt ns k,
  (k < 0 \/ pulse_len NumR cycles f dt <= k \/ ns <= k)%Z -> toneburst_at NumR cycles f dt ns k = 0.
Proof. exact toneburst_zero_outside_R. Qed.

Theorem toneburst_vanishes_at_ends : forall cycles f dt ns,
  (2 <= pulse_len NumR cycles f dt)%Z -> (pulse_len NumR cycles f dt <= ns)%Z ->
  toneburst_at NumR cycles f dt ns 0 = 0 /\
  toneburst_at NumR cycles f dt ns (pulse_len NumR cycles f dt - 1) = 0.
Proof. exact toneburst_ends_R. Qed.

Theorem toneburst_wrapped_peak_at_zero : forall cycles f dt ns,
  (1 <= pulse_len NumR cycles f dt)%Z -> (pulse_len NumR cycles f dt <= ns)%Z ->
  toneburst_wrapped_at NumR cycles f dt ns 0 = 1.
Proof. exact toneburst_wrapped_peak_R. Qed.

(* make_toneburst2: the declared time-zero sample carries the peak and time 0 *)
Theorem toneburst2_t0 : forall cycles f dt nb,
  (1 <= pulse_len NumR cycles f dt)%Z -> (0 <= nb)%Z ->
  toneburst2_at NumR cycles f dt nb (toneburst2_t0_idx NumR cycles f dt nb) = 1
  /\ time_sample NumR (toneburst2_time_start NumR cycles f dt nb) dt (toneburst2_t0_idx NumR cycles f dt nb) = 0.
Proof. exact toneburst2_t0_R. Qed.

(* -- analytic signal ---------------------------------------------------------- *)
(* the weights applied to the half spectrum (zero-padded to n by the inverse FFT) are
   those of the Hilbert analytic signal of a length-n sequence, for both parities *)
Theorem hilbert_weights : forall (T : Type) (N : Num T) n k, (0 < n)%Z -> (0 <= k < n)%Z ->
  hilbert_weight n (n / 2 + 1) k = scipy_hilbert_weight n k.
Proof. exact @hilbert_weight_scipy. Qed.

(* -- spectral shift ---------------------------------------------------------- *)
(* shifting a spectrum by a delay of m whole samples and transforming back delays the
   signal by m samples ... *)
Theorem dft_shift_integer : forall X n dt (m j : Z), (0 < n)%nat -> dt <> 0 ->
  idft (shift_spectrum X n dt (IZR m * dt)) n j = idft X n (j - m).
Proof. exact shift_whole_samples. Qed.

(* ... circularly: the transform-back is n-periodic in the sample index *)
Theorem dft_shift_circular : forall X n (j : Z), (0 < n)%nat ->
  idft X n (j + Z.of_nat n) = idft X n j.
Proof. exact idft_periodic. Qed.

Theorem dft_shift_zero : forall X n dt k, shift_spectrum X n dt 0 k = X k.
Proof. exact shift_zero. Qed.

(* the finite Fourier sums invert each other on the stored samples (orthogonality of the
   roots of unity), so the statement above is about the signal itself: shifting the
   spectrum of x by m whole samples and transforming back gives x delayed CIRCULARLY by m *)
Theorem dft_inversion : forall (x : nat -> C) n (j : nat), (j < n)%nat ->
  idft (dft x n) n (Z.of_nat j) = x j.
Proof. exact idft_dft. Qed.

Theorem shift_is_circular_delay : forall (x : nat -> C) n dt (m : Z) (j : nat), (j < n)%nat -> dt <> 0 ->
  idft (shift_spectrum (dft x n) n dt (IZR m * dt)) n (Z.of_nat j)
  = x (Z.to_nat ((Z.of_nat j - m) mod Z.of_nat n)).
Proof. exact shift_delays_signal. Qed.

(* -- transfer function to timetraces ------------------------------------------ *)
(* the delay is split consistently: the nearest whole sample q and a signed remainder of
   at most half a sample *)
Theorem delay_split : forall d dt, 0 < dt ->
  IZR (delay_idx NumR d dt) * dt + delay_rem NumR d dt = d /\ Rabs (delay_rem NumR d dt) <= dt / 2.
Proof. exact delay_split_R. Qed.

(* a delay that falls on output sample k (relative to the time origin), with the whole
   response inside the window, for any window origin t0 and length: no fractional
   shift is applied (rem = 0) and response sample i is ADDED at output sample
   k - t0 + i, nothing else changes — so the response's time-zero sample (index t0,
   where the analytic toneburst has its envelope peak) lands exactly on sample k *)
Theorem place_integer_delay : forall (resp out : Z -> R) n k t0 len dt, 0 < dt ->
  place_ok k t0 n len = true ->
  exists out', place NumR resp n (delay_idx NumR (IZR k * dt) dt) t0 len out = Some out' /\
    delay_rem NumR (IZR k * dt) dt = 0 /\
    (forall i, (0 <= i < n)%Z -> out' (k - t0 + i)%Z = out (k - t0 + i)%Z + resp i) /\
    (forall j, (j < k - t0 \/ k - t0 + n <= j)%Z -> out' j = out j).
Proof. exact place_on_sample_R. Qed.

(* general placement (any delay that fits) *)
Theorem place_spec : forall (resp out : Z -> R) n q t0 len, place_ok q t0 n len = true ->
  exists out', place NumR resp n q t0 len out = Some out' /\
    (forall j, (q - t0 <= j < q - t0 + n)%Z -> out' j = out j + resp (j - (q - t0))%Z) /\
    (forall j, (j < q - t0 \/ q - t0 + n <= j)%Z -> out' j = out j).
Proof. exact place_spec_R. Qed.

(* peak_within_half_sample_partial — full statement (NOT proved): for every delay d that
   fits, the maximum of |timetrace| is at a sample p with |p - (d - start)/dt| <= 1/2.
   Proved part: delay_split (the whole-sample part is the sample nearest to d/dt, the
   remainder at most dt/2 in magnitude), place_spec, dft_shift_integer/dft_shift_zero (rem = 0 case).  Missing: the
   band-limited interpolation argument for 0 < |rem| <= dt/2 (a shift of the response by
   less than half a sample keeps its envelope maximum on the same sample). *)

(* non-vacuity: 5 cycles at 5 MHz sampled at 25 MHz: 25 samples, centre 12 *)
Example pulse_len_example : pulse_len NumR 5 5 (/ 25) = 25%Z.
Proof.
  unfold pulse_len, nceil. cbn [NumR ndiv nopp nfloor].
  replace (- (5 / 5 / / 25)) with (IZR (-25)) by (simpl; field).
  rewrite Flocq.Core.Raux.Zfloor_IZR. reflexivity.
Qed.

(* ======================================================================================== *)
(* EXTENSION — the glue around the cores above (Model/Synthesis.v, Proofs/SynthesisProofs.v):
   argument handling and options of make_toneburst / make_toneburst2 (and next_fast_len),
   the weight table of rfft_to_hilbert as the code builds it, rfft_to_hilbert on n-dimensional
   arrays along any (negative) axis, the analytic signal of a real signal, the dispatcher
   timeshift_spectra, and the whole of transfer_func_to_timetraces (input reshaping, guards,
   the loop over scatterers and timetraces, linearity, sample-aligned delays end to end).
   Exact arithmetic (NumR); complex numbers are pairs = Coquelicot's C; the one-dimensional
   inverse FFT is the finite Fourier sum Dft.idft (`idft1`). *)
From Coq Require Import Lra Lia.
From Arim Require Import Model.Synthesis Proofs.SynthesisProofs.

(* -- make_toneburst: arguments and options ------------------------------------------------ *)
(* the five ValueErrors, in the order of the code: an earlier one hides the later ones *)
Theorem make_toneburst_error_order : forall (cycles f dt : R) (ns_opt : option Z) (wrap an : bool),
  let mt := make_toneburst NumR cycles f dt ns_opt wrap an in
  (dt <= 0 -> mt = inl TbNegStep) /\
  (0 < dt -> f <= 0 -> mt = inl TbNegFreq) /\
  (0 < dt -> 0 < f -> cycles <= 0 -> mt = inl TbNegCycles) /\
  (0 < dt -> 0 < f -> 0 < cycles -> (forall n, ns_opt = Some n -> (n <= 0)%Z) -> ns_opt <> None ->
     mt = inl TbNegSamples) /\
  (0 < dt -> 0 < f -> 0 < cycles -> (forall n, ns_opt = Some n -> (0 < n < pulse_len NumR cycles f dt)%Z) ->
     ns_opt <> None -> mt = inl TbTooShort).
Proof. exact make_toneburst_errors. Qed.

(* accepted exactly when Signal.toneburst_args_ok holds, whatever wrap / analytical *)
Theorem make_toneburst_accepted_iff : forall (cycles f dt : R) (ns_opt : option Z) (wrap an : bool),
  (exists l, make_toneburst NumR cycles f dt ns_opt wrap an = inr l)
  <-> toneburst_args_ok NumR cycles f dt ns_opt = true.
Proof. exact make_toneburst_accepts. Qed.

(* full_toneburst[:len_pulse] = toneburst never fails: the five errors above are the only ones *)
Theorem make_toneburst_slice_assignment_never_fails : forall (cycles f dt : R) ns_opt wrap an,
  make_toneburst NumR cycles f dt ns_opt wrap an <> inl TbBroadcast.
Proof. exact make_toneburst_never_broadcast. Qed.

(* analytical=False: the array IS Signal.toneburst_at (wrap=False) / toneburst_wrapped_at
   (wrap=True), of length num_samples (None: exactly the pulse) — so every theorem of the
   first part (symmetric, peak 1, zero outside, wrapped peak at 0) is about the returned array *)
Theorem make_toneburst_real_array : forall cycles f dt : R, 0 < dt -> 0 < f -> 0 < cycles ->
  forall (ns_opt : option Z) (wrap : bool),
  let ns := match ns_opt with Some n => n | None => pulse_len NumR cycles f dt end in
  (0 < ns)%Z -> (pulse_len NumR cycles f dt <= ns)%Z ->
  exists l, make_toneburst NumR cycles f dt ns_opt wrap false = inr l /\
    length l = Z.to_nat ns /\
    forall k, (0 <= k < ns)%Z ->
      nth (Z.to_nat k) l (0, 0)
      = ((if wrap then toneburst_wrapped_at NumR cycles f dt ns k else toneburst_at NumR cycles f dt ns k), 0).
Proof. exact make_toneburst_real_samples. Qed.

(* analytical=True, any num_samples / wrap: same length, real parts = the real toneburst *)
Theorem make_toneburst_analytic_real_part_is_toneburst : forall cycles f dt : R, 0 < dt -> 0 < f -> 0 < cycles ->
  forall (ns_opt : option Z) (wrap : bool),
  let ns := match ns_opt with Some n => n | None => pulse_len NumR cycles f dt end in
  (0 < ns)%Z -> (pulse_len NumR cycles f dt <= ns)%Z ->
  exists l la, make_toneburst NumR cycles f dt ns_opt wrap false = inr l /\
    make_toneburst NumR cycles f dt ns_opt wrap true = inr la /\ length la = length l /\
    forall k, (0 <= k < ns)%Z ->
      fst (nth (Z.to_nat k) la (0, 0)) = fst (nth (Z.to_nat k) l (0, 0)) /\ snd (nth (Z.to_nat k) l (0, 0)) = 0.
Proof. exact SynthesisProofs.make_toneburst_analytic_real_part. Qed.

(* analytical=True, wrap=False: the imaginary part is the Hann-windowed SINE, antisymmetric about
   the centre; the envelope |.| is the Hann window, equal to 1 at the centre sample ONLY; the centre
   sample is 1+0j; zero padding after the pulse *)
Theorem make_toneburst_analytic_array : forall cycles f dt : R, 0 < dt -> 0 < f -> 0 < cycles ->
  forall ns_opt : option Z,
  let M := pulse_len NumR cycles f dt in
  let ns := match ns_opt with Some n => n | None => M end in
  (0 < ns)%Z -> (M <= ns)%Z ->
  exists la, make_toneburst NumR cycles f dt ns_opt false true = inr la /\
    (forall k, (0 <= k < M)%Z ->
       snd (nth (Z.to_nat k) la (0, 0)) = hanning NumR M k * sin (2 * PI * dt * f * IZR (k - M / 2)) /\
       snd (nth (Z.to_nat (M - 1 - k)) la (0, 0)) = - snd (nth (Z.to_nat k) la (0, 0)) /\
       Cmod (nth (Z.to_nat k) la (0, 0)) = hanning NumR M k /\
       (k <> (M / 2)%Z -> Cmod (nth (Z.to_nat k) la (0, 0)) < 1)) /\
    nth (Z.to_nat (M / 2)) la (0, 0) = (1, 0) /\
    (forall k, (M <= k < ns)%Z -> nth (Z.to_nat k) la (0, 0) = (0, 0)).
Proof. exact make_toneburst_analytic_samples. Qed.

(* wrap=True is _rotate_array of the wrap=False result by half a pulse: entry k is entry
   (k + len_pulse // 2) mod num_samples — real or analytic *)
Theorem make_toneburst_wrap_rotates : forall cycles f dt : R, 0 < dt -> 0 < f -> 0 < cycles ->
  forall (ns_opt : option Z) (an : bool),
  let M := pulse_len NumR cycles f dt in
  let ns := match ns_opt with Some n => n | None => M end in
  (0 < ns)%Z -> (M <= ns)%Z ->
  exists l0 l1, make_toneburst NumR cycles f dt ns_opt false an = inr l0 /\
    make_toneburst NumR cycles f dt ns_opt true an = inr l1 /\ length l1 = length l0 /\
    forall k, (0 <= k < ns)%Z ->
      nth (Z.to_nat k) l1 (0, 0) = nth (Z.to_nat ((k + M / 2) mod ns)) l0 (0, 0).
Proof. exact make_toneburst_wrap_is_rotation. Qed.

(* -- make_toneburst2 ------------------------------------------------------------------------ *)
(* an error of make_toneburst comes out unchanged, whatever the padding options *)
Theorem make_toneburst2_propagates_errors : forall (cycles f dt : R) (nfl : Z -> option Z) nb na an fast e,
  make_toneburst NumR cycles f dt None false an = inl e ->
  make_toneburst2 NumR nfl cycles f dt nb na an fast = inl (Tb2Toneburst e).
Proof. exact make_toneburst2_error. Qed.

(* layout for num_before, num_after >= 0 and ANY final length L >= (nb + 1 + na) * n (nfl = the
   fast-length function, use_fast_len on or off): L samples; real parts = Signal.toneburst2_at;
   zeros before m = nb*n and from m + n on; imaginary parts 0 unless analytical; the declared
   t0_idx lies inside, holds 1+0j, and the time axis is 0 there *)
Theorem make_toneburst2_layout : forall (cycles f dt : R) (nfl : Z -> option Z) (nb na : Z) (an fast : bool) (L : Z),
  0 < dt -> 0 < f -> 0 < cycles -> (0 <= nb)%Z -> (0 <= na)%Z ->
  let M := pulse_len NumR cycles f dt in
  (if fast then nfl (nb * M + M + na * M)%Z else Some (nb * M + M + na * M)%Z) = Some L ->
  (nb * M + M + na * M <= L)%Z ->
  exists r, make_toneburst2 NumR nfl cycles f dt nb na an fast = inr r /\
    length (tb2_samples r) = Z.to_nat L /\
    (forall k, (0 <= k < L)%Z -> fst (nth (Z.to_nat k) (tb2_samples r) (0, 0)) = toneburst2_at NumR cycles f dt nb k) /\
    (forall k, (0 <= k < nb * M \/ nb * M + M <= k < L)%Z -> nth (Z.to_nat k) (tb2_samples r) (0, 0) = (0, 0)) /\
    (an = false -> forall k, (0 <= k < L)%Z -> snd (nth (Z.to_nat k) (tb2_samples r) (0, 0)) = 0) /\
    (0 <= tb2_t0 r < L)%Z /\
    nth (Z.to_nat (tb2_t0 r)) (tb2_samples r) (0, 0) = (1, 0) /\
    time_sample NumR (tb2_start r) (tb2_step r) (tb2_t0 r) = 0.
Proof. exact make_toneburst2_samples. Qed.

(* with scipy's next_fast_len: the length is the smallest 5-smooth number >= (nb+1+na)*n (less
   than twice that); use_fast_len only appends zeros: same t0_idx, same time origin, same samples *)
Theorem make_toneburst2_fast_len_only_pads : forall (cycles f dt : R) (nb na : Z) (an : bool),
  0 < dt -> 0 < f -> 0 < cycles -> (0 <= nb)%Z -> (0 <= na)%Z ->
  let M := pulse_len NumR cycles f dt in
  let total := (nb * M + M + na * M)%Z in
  exists rf rs L, make_toneburst2 NumR next_fast_len cycles f dt nb na an true = inr rf /\
    make_toneburst2 NumR next_fast_len cycles f dt nb na an false = inr rs /\
    next_fast_len total = Some L /\ (total <= L < 2 * total)%Z /\ is_5smooth L = true /\
    (forall m, (total <= m < L)%Z -> is_5smooth m = false) /\
    length (tb2_samples rf) = Z.to_nat L /\ length (tb2_samples rs) = Z.to_nat total /\
    tb2_t0 rf = tb2_t0 rs /\ tb2_start rf = tb2_start rs /\
    forall k, (0 <= k < total)%Z -> nth (Z.to_nat k) (tb2_samples rf) (0, 0) = nth (Z.to_nat k) (tb2_samples rs) (0, 0).
Proof. exact make_toneburst2_lengths. Qed.

(* scipy.fftpack.next_fast_len: the smallest number 2^a 3^b 5^c that is >= target *)
Theorem next_fast_len_smallest_smooth : forall target : Z, (1 <= target)%Z ->
  exists r, next_fast_len target = Some r /\ (target <= r < 2 * target)%Z /\
    is_5smooth r = true /\ smooth5 r /\ forall m, (target <= m < r)%Z -> is_5smooth m = false.
Proof. exact next_fast_len_spec. Qed.

Theorem next_fast_len_zero_and_negative :
  next_fast_len 0 = Some 0%Z /\ forall t, (t < 0)%Z -> next_fast_len t = None.
Proof. exact next_fast_len_edge. Qed.

(* -- rfft_to_hilbert ------------------------------------------------------------------------ *)
(* the table built by the code's assignments (h[0] = h[n//2] = 1; h[1:n//2] = 2 / h[0] = 1;
   h[1:(n+1)//2] = 2 on zeros(numfreq)) is Signal.hilbert_weight, for ANY table length *)
Theorem hilbert_table_is_hilbert_weight : forall (n : Z) (numfreq : nat) (l : list Z), (0 <= n)%Z ->
  hilbert_table n numfreq = Some l ->
  length l = numfreq /\
  forall k, (k < numfreq)%nat -> nth k l 0%Z = hilbert_weight n (Z.of_nat numfreq) (Z.of_nat k).
Proof. exact hilbert_table_spec. Qed.

(* ... and building it raises IndexError exactly for an empty table, or an even n whose Nyquist
   bin n//2 lies beyond the table (a spectrum with fewer than n//2 + 1 bins) *)
Theorem hilbert_table_index_error_iff : forall (n : Z) (numfreq : nat), (0 <= n)%Z ->
  (hilbert_table n numfreq = None <-> numfreq = 0%nat \/ (Z.even n = true /\ (Z.of_nat numfreq <= n / 2)%Z)).
Proof. exact hilbert_table_none_iff. Qed.

(* every failure of rfft_to_hilbert, any numeric instance, any inverse transform.
   CHANGED with the repair of the model's 0-d branch: the first conjunct was
     shape = nil -> r = inl HIndexError
   which the library contradicts for n < 1 (xf.ndim == 0: h = 1.0, then scipy.fftpack.ifft checks n
   before the axis: rfft_to_hilbert(np.array(1+0j), 0) and (..., -1) raise ValueError "invalid number
   of data points" for every axis; IndexError "tuple index out of range" only for n >= 1).  It is now
   the two conjuncts on shape = nil; the conjuncts on n-dimensional inputs are as before. *)
Theorem rfft_to_hilbert_error_branches : forall (T : Type) (N : Num T) (ifft1 : (nat -> cx) -> nat -> Z -> cx)
    (shape : list nat) (xf : list nat -> cx) (n axis : Z),
  let r := rfft_to_hilbert N ifft1 shape xf n axis in
  (shape = nil -> (n < 1)%Z -> r = inl HValueError) /\
  (shape = nil -> (1 <= n)%Z -> r = inl HIndexError) /\
  (shape <> nil -> (axis < - Z.of_nat (length shape) \/ Z.of_nat (length shape) <= axis)%Z -> r = inl HIndexError) /\
  (forall ax, shape <> nil -> py_index (Z.of_nat (length shape)) axis = Some ax ->
     hilbert_table n (nth ax shape O) = None -> r = inl HIndexError) /\
  (forall ax h, shape <> nil -> py_index (Z.of_nat (length shape)) axis = Some ax ->
     hilbert_table n (nth ax shape O) = Some h -> (n < 1)%Z -> r = inl HValueError).
Proof. exact @rfft_to_hilbert_errors. Qed.

(* the priority of the two error kinds as an equivalence (added with the repair): ValueError exactly
   when n < 1 and no IndexError came first — the input is 0-d (nothing is indexed before scipy's check
   of n), or the axis exists and the table could be written *)
Theorem rfft_to_hilbert_value_error_exactly : forall (T : Type) (N : Num T) (ifft1 : (nat -> cx) -> nat -> Z -> cx)
    (shape : list nat) (xf : list nat -> cx) (n axis : Z),
  rfft_to_hilbert N ifft1 shape xf n axis = inl HValueError <->
  (n < 1)%Z /\ (shape = nil \/
                exists ax h, py_index (Z.of_nat (length shape)) axis = Some ax /\
                             hilbert_table n (nth ax shape O) = Some h).
Proof. exact @rfft_to_hilbert_value_error_iff. Qed.

(* a 0-d input never succeeds, and its outcome does not depend on the axis (added with the repair) *)
Theorem rfft_to_hilbert_zero_dimensional : forall (T : Type) (N : Num T) (ifft1 : (nat -> cx) -> nat -> Z -> cx)
    (xf : list nat -> cx) (n axis : Z),
  rfft_to_hilbert N ifft1 nil xf n axis = inl (if (n <? 1)%Z then HValueError else HIndexError).
Proof. exact @rfft_to_hilbert_0d. Qed.

(* success on an n-dimensional array: same number of dimensions, the frequency axis is replaced
   IN PLACE by n samples, every other axis keeps its length; each entry is the 1-D inverse
   transform, along that axis, of the weighted (zero-padded / truncated) column through it *)
Theorem rfft_to_hilbert_shape_and_entries : forall (T : Type) (N : Num T) (ifft1 : (nat -> cx) -> nat -> Z -> cx)
    (shape : list nat) (xf : list nat -> cx) (n axis : Z) (ax : nat) (h : list Z),
  shape <> nil -> py_index (Z.of_nat (length shape)) axis = Some ax ->
  hilbert_table n (nth ax shape O) = Some h -> (1 <= n)%Z ->
  exists oshape out, rfft_to_hilbert N ifft1 shape xf n axis = inr (oshape, out) /\
    length oshape = length shape /\ nth ax oshape O = Z.to_nat n /\
    (forall j, j <> ax -> nth j oshape O = nth j shape O) /\
    forall idx, out idx =
      ifft1 (fun k => if (k <? nth ax shape O)%nat
                      then cscale N (nofZ N (nth k h 0%Z)) (xf (upd_nth idx ax k)) else c0 N)
            (Z.to_nat n) (Z.of_nat (nth ax idx O)).
Proof. exact @rfft_to_hilbert_success. Qed.

(* axis and axis - ndim are the same call; in particular the default axis=-1 is the last axis *)
Theorem rfft_to_hilbert_negative_axis_same : forall (T : Type) (N : Num T) (ifft1 : (nat -> cx) -> nat -> Z -> cx)
    (shape : list nat) (xf : list nat -> cx) (n a : Z), (0 <= a < Z.of_nat (length shape))%Z ->
  rfft_to_hilbert N ifft1 shape xf n (a - Z.of_nat (length shape)) = rfft_to_hilbert N ifft1 shape xf n a.
Proof. exact @rfft_to_hilbert_negative_axis. Qed.

(* with the finite Fourier sum as inverse transform: entries by the weight FORMULA, under the
   exact condition for the table to exist *)
Theorem rfft_to_hilbert_fourier_entries : forall (shape : list nat) (xf : list nat -> C) (n axis : Z) (ax : nat),
  shape <> nil -> py_index (Z.of_nat (length shape)) axis = Some ax -> (1 <= n)%Z ->
  (1 <= nth ax shape O)%nat -> (Z.even n = true -> (n / 2 < Z.of_nat (nth ax shape O))%Z) ->
  exists out, rfft_to_hilbert NumR idft1 shape xf n axis = inr (upd_nth shape ax (Z.to_nat n), out) /\
    forall idx, out idx = hilbert_entry n (nth ax shape O) (fun k => xf (upd_nth idx ax k)) (Z.of_nat (nth ax idx O)).
Proof. exact rfft_to_hilbert_entry. Qed.

(* linear in the spectrum; a zero spectrum gives a zero signal *)
Theorem rfft_to_hilbert_linear : forall (n : Z) (numfreq : nat),
  (forall c1 c2 j, hilbert_entry n numfreq (fun k => Cplus (c1 k) (c2 k)) j
                   = Cplus (hilbert_entry n numfreq c1 j) (hilbert_entry n numfreq c2 j)) /\
  (forall c col j, hilbert_entry n numfreq (fun k => Cmult c (col k)) j = Cmult c (hilbert_entry n numfreq col j)) /\
  (forall j, hilbert_entry n numfreq (fun _ => RtoC 0) j = RtoC 0).
Proof. exact hilbert_entry_linear. Qed.

(* on the half spectrum (n//2 + 1 bins of the transform) of a length-n signal x this IS
   scipy.signal.hilbert(x) = ifft(fft(x) * h), for both parities of n *)
Theorem analytic_signal_is_hilbert : forall (x : nat -> C) (n : Z) (col : nat -> C) (j : Z), (1 <= n)%Z ->
  (forall k, (k < Z.to_nat (n / 2 + 1))%nat -> col k = dft x (Z.to_nat n) k) ->
  hilbert_entry n (Z.to_nat (n / 2 + 1)) col j
  = idft (fun k => Cmult (RtoC (IZR (scipy_hilbert_weight n (Z.of_nat k)))) (dft x (Z.to_nat n) k)) (Z.to_nat n) j.
Proof. exact hilbert_entry_is_hilbert. Qed.

(* ... and the analytic signal of a REAL signal has that signal as its real part (conjugate
   symmetry of the spectrum + the mirrored weights add up to 2) *)
Theorem analytic_signal_real_part : forall (xr : nat -> R) (n j : nat), (j < n)%nat ->
  fst (idft (fun k => Cmult (RtoC (IZR (scipy_hilbert_weight (Z.of_nat n) (Z.of_nat k))))
                            (dft (fun m => RtoC (xr m)) n k)) n (Z.of_nat j)) = xr j.
Proof. exact analytic_real_part. Qed.

(* -- timeshift_spectra ------------------------------------------------------------------------ *)
(* dispatcher: one frequency in the transfer function is broadcast over the frequency axis,
   otherwise frequency by frequency; any other number of frequencies is a ValueError *)
Theorem timeshift_spectra_dispatch : forall (nxf : nat) (H : nat -> nat -> nat -> C) (delays : nat -> nat -> R) (freqs : list R),
  (nxf = 1%nat \/ nxf = length freqs ->
     exists sh, timeshift_spectra NumR nxf H delays freqs = Some sh /\
       forall s t k, sh s t k = Cmult (phase_factor NumR (nth k freqs 0) (delays s t)) (H s t (bcast_idx nxf k))) /\
  (nxf <> 1%nat -> nxf <> length freqs -> timeshift_spectra NumR nxf H delays freqs = None).
Proof. intros nxf H delays freqs. exact (conj (timeshift_spectra_ok nxf H delays freqs) (timeshift_spectra_mismatch nxf H delays freqs)). Qed.

(* its phase factor is the one of Dft.shift_spectrum on the axis rfftfreq(n, dt) — so
   dft_shift_integer / shift_is_circular_delay above speak about this code — and is 1 for a zero delay *)
Theorem timeshift_spectra_is_shift_spectrum : forall (X : nat -> C) (n : nat) (dt delay : R) (k : nat),
  Cmult (phase_factor NumR (INR k / (INR n * dt)) delay) (X k) = shift_spectrum X n dt delay k.
Proof. exact timeshift_is_shift_spectrum. Qed.

Theorem timeshift_zero_delay : forall fr : R, phase_factor NumR fr 0 = RtoC 1.
Proof. exact phase_factor_zero. Qed.

(* -- transfer_func_to_timetraces ---------------------------------------------------------------- *)
(* a 2-D transfer function / 1-D delays are the 3-D / 2-D case with ONE scatterer *)
Theorem transfer_func_2d_is_one_scatterer : forall (T : Type) (N : Num T) (ifft1 : (nat -> cx) -> nat -> Z -> cx)
    (tt tb : time_axis) (freqs : list T) (tf : list cx) (t0 : Z) (timetraces : option (nat -> Z -> cx))
    (nt nxf : nat) (H2 : nat -> nat -> cx) (d1 : nat -> T),
  transfer_func_to_timetraces N ifft1 (TF2 nt nxf H2) (D1 nt d1) tt tb freqs tf t0 timetraces
  = transfer_func_to_timetraces N ifft1 (TF3 1 nt nxf (fun _ => H2)) (D2 1 nt (fun _ => d1)) tt tb freqs tf t0 timetraces
  /\ transfer_func_to_timetraces N ifft1 (TF2 nt nxf H2) (D2 1 nt (fun _ => d1)) tt tb freqs tf t0 timetraces
  = transfer_func_to_timetraces N ifft1 (TF3 1 nt nxf (fun _ => H2)) (D2 1 nt (fun _ => d1)) tt tb freqs tf t0 timetraces
  /\ transfer_func_to_timetraces N ifft1 (TF3 1 nt nxf (fun _ => H2)) (D1 nt d1) tt tb freqs tf t0 timetraces
  = transfer_func_to_timetraces N ifft1 (TF3 1 nt nxf (fun _ => H2)) (D2 1 nt (fun _ => d1)) tt tb freqs tf t0 timetraces.
Proof. exact @tf_2d_is_one_scatterer. Qed.

(* guards, in the order of the code.  (1) shapes *)
Theorem transfer_func_shape_errors : forall (T : Type) (N : Num T) (ifft1 : (nat -> cx) -> nat -> Z -> cx)
    (tt tb : time_axis) (freqs : list T) (tf : list cx) (t0 : Z) (timetraces : option (nat -> Z -> cx))
    (ns nt nxf : nat) (H : nat -> nat -> nat -> cx) (ds dtt : nat) (d : nat -> nat -> T),
  (forall din, transfer_func_to_timetraces N ifft1 TFother din tt tb freqs tf t0 timetraces = inl TfUnpack) /\
  ((ds <> ns \/ dtt <> nt)%nat ->
   transfer_func_to_timetraces N ifft1 (TF3 ns nt nxf H) (D2 ds dtt d) tt tb freqs tf t0 timetraces = inl TfAssertShape /\
   transfer_func_to_timetraces N ifft1 (TF3 ns nt nxf H) Dother tt tb freqs tf t0 timetraces = inl TfAssertShape /\
   ((ns <> 1 \/ dtt <> nt)%nat ->
    transfer_func_to_timetraces N ifft1 (TF3 ns nt nxf H) (D1 dtt (d O)) tt tb freqs tf t0 timetraces = inl TfAssertShape) /\
   ((ds <> 1 \/ dtt <> nt)%nat ->
    transfer_func_to_timetraces N ifft1 (TF2 nt nxf (H O)) (D2 ds dtt d) tt tb freqs tf t0 timetraces = inl TfAssertShape)).
Proof.
  intros T N ifft1 tt tb freqs tf t0 timetraces ns nt nxf H ds dtt d.
  exact (conj (tf_error_unpack N ifft1 tt tb freqs tf t0 timetraces)
              (tf_error_shape N ifft1 tt tb freqs tf t0 timetraces ns nt nxf H ds dtt d)).
Qed.

(* (2) different steps -> NotImplementedError; (3) a delay before the time origin ->
   AssertionError; (4) a transfer function with neither 1 nor len(toneburst_freq) frequencies
   -> ValueError; each reached only when the earlier guards pass *)
Theorem transfer_func_guards : forall (ifft1 : (nat -> cx) -> nat -> Z -> cx) (ns nt nxf : nat)
    (H : nat -> nat -> nat -> cx) (d : nat -> nat -> R) (start dt : R) (len : Z) (bstart bdt : R) (n : Z)
    (freqs : list R) (tf : list cx) (t0 : Z) (timetraces : option (nat -> Z -> cx)),
  let run := transfer_func_to_timetraces NumR ifft1 (TF3 ns nt nxf H) (D2 ns nt d)
               (mkTime start dt len) (mkTime bstart bdt n) freqs tf t0 timetraces in
  (dt <> bdt -> run = inl TfNotImplemented) /\
  (dt = bdt -> (exists s t, (s < ns)%nat /\ (t < nt)%nat /\ d s t < start) -> run = inl TfAssertNegative) /\
  (dt = bdt -> (forall s t, (s < ns)%nat -> (t < nt)%nat -> start <= d s t) ->
     nxf <> 1%nat -> nxf <> length freqs -> run = inl TfFreqMismatch).
Proof. exact tf_error_guards_R. Qed.

(* (5) past the guards, an echo that does not lie inside the window is reported by the model
   (outside the property's domain), never written partially *)
Theorem transfer_func_echo_outside_window : forall (numscat numtt nxf : nat) (H : nat -> nat -> nat -> C)
    (d : nat -> nat -> R) (start bstart dt : R) (len n t0 : Z) (freqs : list R) (tf : list C)
    (timetraces : option (nat -> Z -> cx)) (s0 t0' : nat),
  length tf = length freqs -> (nxf = 1 \/ nxf = length freqs)%nat -> (1 <= n)%Z -> (1 <= length freqs)%nat ->
  (Z.even n = true -> (n / 2 < Z.of_nat (length freqs))%Z) ->
  (forall s t, (s < numscat)%nat -> (t < numtt)%nat -> 0 <= rel_delay d start s t) ->
  (s0 < numscat)%nat -> (t0' < numtt)%nat -> place_ok (q_of d start dt s0 t0') t0 n len = false ->
  transfer_func_to_timetraces NumR idft1 (TF3 numscat numtt nxf H) (D2 numscat numtt d)
    (mkTime start dt len) (mkTime bstart dt n) freqs tf t0 timetraces = inl TfOutside.
Proof. exact tf_outside. Qed.

(* THE SYNTHESIS, for any real delays that fit: timetrace t, sample j =
     given[t][j] + sum over scatterers s of the analytic response of (s, t) — the inverse
     transform of h * exp(-2j pi f rem(s,t)) * H[s][t] * toneburst_f — read at
     j - (q(s,t) - t0) when that lies in [0, n), where q(s,t), rem(s,t) split the delay of THAT
     pair relative to the time origin of the window.  Rows >= numtimetraces are untouched. *)
Theorem transfer_func_closed_form : forall (numscat numtt nxf : nat) (H : nat -> nat -> nat -> C)
    (d : nat -> nat -> R) (start dt : R) (len n t0 : Z) (freqs : list R) (tf : list C),
  length tf = length freqs -> (nxf = 1 \/ nxf = length freqs)%nat -> (1 <= n)%Z -> (1 <= length freqs)%nat ->
  (Z.even n = true -> (n / 2 < Z.of_nat (length freqs))%Z) ->
  (forall s t, (s < numscat)%nat -> (t < numtt)%nat -> 0 <= rel_delay d start s t) ->
  (forall s t, (s < numscat)%nat -> (t < numtt)%nat -> place_ok (q_of d start dt s t) t0 n len = true) ->
  forall (bstart : R) (timetraces : option (nat -> Z -> cx)),
  exists out,
    transfer_func_to_timetraces NumR idft1 (TF3 numscat numtt nxf H) (D2 numscat numtt d)
      (mkTime start dt len) (mkTime bstart dt n) freqs tf t0 timetraces = inr (numtt, len, out) /\
    forall t j, out t j =
      if (t <? numtt)%nat
      then Cplus (out0_of timetraces t j)
                 (csum (fun s => echo (response nxf H d start dt n freqs tf s t) n (q_of d start dt s t) t0 j) numscat)
      else out0_of timetraces t j.
Proof. exact tf_formula. Qed.

(* a zero transfer function leaves the (given or fresh) timetraces as they are *)
Theorem transfer_func_zero : forall (numscat numtt nxf : nat) (d : nat -> nat -> R) (start bstart dt : R)
    (len n t0 : Z) (freqs : list R) (tf : list C),
  length tf = length freqs -> (nxf = 1 \/ nxf = length freqs)%nat -> (1 <= n)%Z -> (1 <= length freqs)%nat ->
  (Z.even n = true -> (n / 2 < Z.of_nat (length freqs))%Z) ->
  (forall s t, (s < numscat)%nat -> (t < numtt)%nat -> 0 <= rel_delay d start s t) ->
  (forall s t, (s < numscat)%nat -> (t < numtt)%nat -> place_ok (q_of d start dt s t) t0 n len = true) ->
  forall (H : nat -> nat -> nat -> C) (timetraces : option (nat -> Z -> C)),
  (forall s t k, H s t k = RtoC 0) ->
  exists out,
    transfer_func_to_timetraces NumR idft1 (TF3 numscat numtt nxf H) (D2 numscat numtt d)
      (mkTime start dt len) (mkTime bstart dt n) freqs tf t0 timetraces = inr (numtt, len, out) /\
    forall t j, out t j = out0_of timetraces t j.
Proof. exact tf_zero. Qed.

(* additive and homogeneous in the transfer function (same delays, fresh timetraces) *)
Theorem transfer_func_additive : forall (numscat numtt nxf : nat) (d : nat -> nat -> R) (start bstart dt : R)
    (len n t0 : Z) (freqs : list R) (tf : list C),
  length tf = length freqs -> (nxf = 1 \/ nxf = length freqs)%nat -> (1 <= n)%Z -> (1 <= length freqs)%nat ->
  (Z.even n = true -> (n / 2 < Z.of_nat (length freqs))%Z) ->
  (forall s t, (s < numscat)%nat -> (t < numtt)%nat -> 0 <= rel_delay d start s t) ->
  (forall s t, (s < numscat)%nat -> (t < numtt)%nat -> place_ok (q_of d start dt s t) t0 n len = true) ->
  forall H1 H2 H12 : nat -> nat -> nat -> C, (forall s t k, H12 s t k = Cplus (H1 s t k) (H2 s t k)) ->
  exists o1 o2 o12,
    transfer_func_to_timetraces NumR idft1 (TF3 numscat numtt nxf H1) (D2 numscat numtt d)
      (mkTime start dt len) (mkTime bstart dt n) freqs tf t0 None = inr (numtt, len, o1) /\
    transfer_func_to_timetraces NumR idft1 (TF3 numscat numtt nxf H2) (D2 numscat numtt d)
      (mkTime start dt len) (mkTime bstart dt n) freqs tf t0 None = inr (numtt, len, o2) /\
    transfer_func_to_timetraces NumR idft1 (TF3 numscat numtt nxf H12) (D2 numscat numtt d)
      (mkTime start dt len) (mkTime bstart dt n) freqs tf t0 None = inr (numtt, len, o12) /\
    forall t j, o12 t j = Cplus (o1 t j) (o2 t j).
Proof. exact tf_additive. Qed.

Theorem transfer_func_homogeneous : forall (numscat numtt nxf : nat) (d : nat -> nat -> R) (start bstart dt : R)
    (len n t0 : Z) (freqs : list R) (tf : list C),
  length tf = length freqs -> (nxf = 1 \/ nxf = length freqs)%nat -> (1 <= n)%Z -> (1 <= length freqs)%nat ->
  (Z.even n = true -> (n / 2 < Z.of_nat (length freqs))%Z) ->
  (forall s t, (s < numscat)%nat -> (t < numtt)%nat -> 0 <= rel_delay d start s t) ->
  (forall s t, (s < numscat)%nat -> (t < numtt)%nat -> place_ok (q_of d start dt s t) t0 n len = true) ->
  forall (c : C) (H1 Hc : nat -> nat -> nat -> C), (forall s t k, Hc s t k = Cmult c (H1 s t k)) ->
  exists o1 oc,
    transfer_func_to_timetraces NumR idft1 (TF3 numscat numtt nxf H1) (D2 numscat numtt d)
      (mkTime start dt len) (mkTime bstart dt n) freqs tf t0 None = inr (numtt, len, o1) /\
    transfer_func_to_timetraces NumR idft1 (TF3 numscat numtt nxf Hc) (D2 numscat numtt d)
      (mkTime start dt len) (mkTime bstart dt n) freqs tf t0 None = inr (numtt, len, oc) /\
    forall t j, oc t j = Cmult c (o1 t j).
Proof. exact tf_homogeneous. Qed.

(* timetraces=<array>: the call ADDS to the given array what a fresh call returns *)
Theorem transfer_func_accumulates_on_given : forall (numscat numtt nxf : nat) (d : nat -> nat -> R) (start bstart dt : R)
    (len n t0 : Z) (freqs : list R) (tf : list C),
  length tf = length freqs -> (nxf = 1 \/ nxf = length freqs)%nat -> (1 <= n)%Z -> (1 <= length freqs)%nat ->
  (Z.even n = true -> (n / 2 < Z.of_nat (length freqs))%Z) ->
  (forall s t, (s < numscat)%nat -> (t < numtt)%nat -> 0 <= rel_delay d start s t) ->
  (forall s t, (s < numscat)%nat -> (t < numtt)%nat -> place_ok (q_of d start dt s t) t0 n len = true) ->
  forall (H : nat -> nat -> nat -> C) (given : nat -> Z -> C),
  exists o0 o,
    transfer_func_to_timetraces NumR idft1 (TF3 numscat numtt nxf H) (D2 numscat numtt d)
      (mkTime start dt len) (mkTime bstart dt n) freqs tf t0 None = inr (numtt, len, o0) /\
    transfer_func_to_timetraces NumR idft1 (TF3 numscat numtt nxf H) (D2 numscat numtt d)
      (mkTime start dt len) (mkTime bstart dt n) freqs tf t0 (Some given) = inr (numtt, len, o) /\
    forall t j, o t j = if (t <? numtt)%nat then Cplus (given t j) (o0 t j) else given t j.
Proof. exact tf_accumulates. Qed.

(* the complex placement is Signal.place (place_spec, place_integer_delay above) on the real and
   on the imaginary parts *)
Theorem complex_placement_is_place : forall (resp out : Z -> C) (n q t0 len : Z),
  match placec NumR resp n q t0 len out,
        place NumR (fun j => fst (resp j)) n q t0 len (fun j => fst (out j)),
        place NumR (fun j => snd (resp j)) n q t0 len (fun j => snd (out j)) with
  | Some o, Some ore, Some oim => forall j, fst (o j) = ore j /\ snd (o j) = oim j
  | None, None, None => True
  | _, _, _ => False
  end.
Proof. exact placec_components. Qed.

(* delays on output samples (relative to ANY time origin), single-frequency transfer function,
   several scatterers: every scatterer adds H[s][t] times the analytic toneburst with its sample i
   at output sample k(s,t) - t0 + i — no fractional shift *)
Theorem transfer_func_on_sample_delays : forall (numscat numtt : nat) (H : nat -> nat -> nat -> C) (d : nat -> nat -> R)
    (k : nat -> nat -> Z) (start bstart dt : R) (len n t0 : Z) (freqs : list R) (tf : list C)
    (timetraces : option (nat -> Z -> cx)),
  0 < dt -> length tf = length freqs -> (1 <= n)%Z -> (1 <= length freqs)%nat ->
  (Z.even n = true -> (n / 2 < Z.of_nat (length freqs))%Z) ->
  (forall s t, (s < numscat)%nat -> (t < numtt)%nat -> d s t - start = IZR (k s t) * dt /\ (0 <= k s t)%Z) ->
  (forall s t, (s < numscat)%nat -> (t < numtt)%nat -> place_ok (k s t) t0 n len = true) ->
  exists out,
    transfer_func_to_timetraces NumR idft1 (TF3 numscat numtt 1 H) (D2 numscat numtt d)
      (mkTime start dt len) (mkTime bstart dt n) freqs tf t0 timetraces = inr (numtt, len, out) /\
    forall t j, (t < numtt)%nat ->
      out t j = Cplus (out0_of timetraces t j)
                  (csum (fun s => echo (fun i => Cmult (H s t O) (analytic_toneburst n tf i)) n (k s t) t0 j) numscat).
Proof. exact tf_on_sample. Qed.

(* END TO END (public call with a 2-D transfer function and 1-D delays): toneburst_f = rfft of a
   REAL toneburst of n samples, real coefficients c[t], delays on samples k[t]: the real part of
   timetrace t reproduces c[t] * toneburst[i] at sample k[t] - t0 + i for every i — so the
   toneburst's time-zero sample t0 lands exactly on sample k[t] — and nothing else is written *)
Theorem transfer_func_reproduces_toneburst : forall (numtt : nat) (c d : nat -> R) (k : nat -> Z) (xr : nat -> R)
    (start bstart dt : R) (len n t0 : Z) (freqs : list R) (tf : list C),
  0 < dt -> (1 <= n)%Z -> length freqs = Z.to_nat (n / 2 + 1) -> length tf = length freqs ->
  (forall m, (m < length tf)%nat -> nth m tf (RtoC 0) = dft (fun i => RtoC (xr i)) (Z.to_nat n) m) ->
  (forall t, (t < numtt)%nat -> d t - start = IZR (k t) * dt /\ (0 <= k t)%Z) ->
  (forall t, (t < numtt)%nat -> place_ok (k t) t0 n len = true) ->
  exists out,
    transfer_func_to_timetraces NumR idft1 (TF2 numtt 1 (fun t _ => RtoC (c t))) (D1 numtt d)
      (mkTime start dt len) (mkTime bstart dt n) freqs tf t0 None = inr (numtt, len, out) /\
    forall t, (t < numtt)%nat ->
      (forall i, (0 <= i < n)%Z -> fst (out t (k t - t0 + i)%Z) = c t * xr (Z.to_nat i)) /\
      (forall j, (j < k t - t0 \/ k t - t0 + n <= j)%Z -> out t j = RtoC 0).
Proof. exact tf_on_sample_reproduces_toneburst. Qed.

(* -- non-vacuity of the hypotheses of the extension ------------------------------------------- *)
(* make_toneburst: 5 cycles at 5 MHz sampled at 25 MHz, 30 samples asked: accepted (so are
   num_samples=None, 25); 7 samples: "time vector is too short"; dt = 0: "negative time step" *)
Example make_toneburst_hypotheses :
  0 < / 25 /\ 0 < 5 /\ (0 < 30)%Z /\ (pulse_len NumR 5%R 5%R (/ 25)%R <= 30)%Z /\
  toneburst_args_ok NumR 5 5 (/ 25) (Some 30%Z) = true /\
  make_toneburst NumR 5 5 (/ 25) (Some 7%Z) true true = inl TbTooShort /\
  make_toneburst NumR 5 5 0 (Some (-3)%Z) false false = inl TbNegStep.
Proof.
  assert (H25 : 0 < / 25) by lra. assert (H5 : 0 < 5) by lra.
  destruct (make_toneburst_error_order 5 5 (/ 25) (Some 7%Z) true true) as (_ & _ & _ & _ & E5).
  destruct (make_toneburst_error_order 5 5 0 (Some (-3)%Z) false false) as (E1 & _).
  repeat split; try assumption; try (rewrite pulse_len_example; lia).
  - apply make_toneburst_accepted_iff with (wrap := false) (an := false).
    pose proof (make_toneburst_real_array 5 5 (/ 25) H25 H5 H5 (Some 30%Z) false) as Hr. cbv zeta in Hr.
    destruct Hr as (l & El & _); [lia | rewrite pulse_len_example; lia |]. exists l. exact El.
  - apply E5; try assumption; [|discriminate]. intros n En. injection En as <-. rewrite pulse_len_example. lia.
  - apply E1. lra.
Qed.

(* make_toneburst2 defaults (num_before=2, num_after=1, use_fast_len): 4*25 = 100 = 2^2 5^2 is its
   own fast length; 3*25 = 75 = 3*5^2 as well (an ODD padded length) *)
Example make_toneburst2_hypotheses :
  (let M := pulse_len NumR 5 5 (/ 25) in
   next_fast_len (2 * M + M + 1 * M)%Z = Some 100%Z /\ (2 * M + M + 1 * M <= 100)%Z /\
   next_fast_len (1 * M + M + 1 * M)%Z = Some 75%Z) /\
  next_fast_len 121 = Some 125%Z /\ next_fast_len 127 = Some 128%Z /\ is_5smooth 126 = false.
Proof. cbv zeta. rewrite pulse_len_example. repeat split; try reflexivity; try lia. Qed.

(* the weight table: n = 8 with the 5 bins of rfft, n = 7 with 4 bins, too few bins, too many bins *)
Example hilbert_table_examples :
  hilbert_table 8 5 = Some (1 :: 2 :: 2 :: 2 :: 1 :: nil)%Z /\ hilbert_table 7 4 = Some (1 :: 2 :: 2 :: 2 :: nil)%Z /\
  hilbert_table 8 4 = None /\ hilbert_table 7 3 = Some (1 :: 2 :: 2 :: nil)%Z /\
  hilbert_table 4 5 = Some (1 :: 2 :: 1 :: 0 :: 0 :: nil)%Z /\ hilbert_table 5 0 = None.
Proof. repeat split; reflexivity. Qed.

(* rfft_to_hilbert of a 2 x 3 x 4 array with n = 3 along axis -2 (= axis 1): the hypotheses hold
   and the result has shape 2 x 3 x 4 again; along axis -1 (4 bins): 2 x 3 x 3 *)
Example rfft_to_hilbert_hypotheses :
  py_index (Z.of_nat (length (2 :: 3 :: 4 :: nil)%nat)) (-2) = Some 1%nat /\
  hilbert_table 3 (nth 1 (2 :: 3 :: 4 :: nil)%nat O) = Some (1 :: 2 :: 0 :: nil)%Z /\
  upd_nth (2 :: 3 :: 4 :: nil)%nat 1 (Z.to_nat 3) = (2 :: 3 :: 4 :: nil)%nat /\
  py_index 3 (-1) = Some 2%nat /\ upd_nth (2 :: 3 :: 4 :: nil)%nat 2 (Z.to_nat 3) = (2 :: 3 :: 3 :: nil)%nat /\
  py_index 3 3 = None /\ py_index 3 (-4) = None.
Proof. repeat split; reflexivity. Qed.

(* transfer_func_closed_form etc.: 2 scatterers x 2 timetraces, FRACTIONAL delays k + 1/4 samples
   (k = 3 + s + 2t), dt = 1, toneburst of n = 4 samples with its 3 rfft bins, window of 16 samples,
   t0 = 1: every hypothesis holds *)
Example transfer_func_hypotheses :
  let d := fun s t : nat => IZR (Z.of_nat (3 + s + 2 * t)) + / 4 in
  let freqs := (0 :: / 4 :: / 2 :: nil) in
  let tf := (RtoC 1 :: RtoC 1 :: RtoC 1 :: nil) in
  length tf = length freqs /\ (1 <= 4)%Z /\ (1 <= length freqs)%nat /\
  (Z.even 4 = true -> (4 / 2 < Z.of_nat (length freqs))%Z) /\
  (forall s t, (s < 2)%nat -> (t < 2)%nat -> 0 <= rel_delay d 0 s t) /\
  (forall s t, (s < 2)%nat -> (t < 2)%nat -> place_ok (q_of d 0 1 s t) 1 4 16 = true) /\
  place_ok (q_of d 0 1 0 1) 1 4 7 = false.
Proof.
  cbv zeta.
  assert (Hq : forall k : Z, delay_idx NumR (IZR k + / 4 - 0) 1 = k).
  { intros k. unfold delay_idx. cbn [NumR ndiv nround]. apply Flocq.Core.Generic_fmt.Znearest_imp.
    replace ((IZR k + / 4 - 0) / 1 - IZR k) with (/ 4) by field. rewrite Rabs_pos_eq; lra. }
  split; [reflexivity|]. split; [lia|]. split; [simpl; lia|]. split; [intros _; reflexivity|].
  split; [|split].
  - intros s t Hs Ht. unfold rel_delay. assert (0 <= IZR (Z.of_nat (3 + s + 2 * t))) by (apply IZR_le; lia). lra.
  - intros s t Hs Ht. unfold q_of, rel_delay. rewrite Hq.
    destruct s as [|[|s]]; [| |lia]; (destruct t as [|[|t]]; [| |lia]); reflexivity.
  - unfold q_of, rel_delay. rewrite Hq. reflexivity.
Qed.

(* transfer_func_reproduces_toneburst: any time origin and step, delays start + k*dt, the spectrum
   list built from the transform of a real 4-sample toneburst *)
Example transfer_func_on_sample_hypotheses : forall (xr : nat -> R) (start : R),
  let x := fun i => RtoC (xr i) in
  let tf := (dft x 4 0 :: dft x 4 1 :: dft x 4 2 :: nil) in
  let d := fun t : nat => start + IZR (Z.of_nat (5 + t)) * / 25 in
  length (0 :: 10 :: 20 :: nil) = Z.to_nat (4 / 2 + 1) /\
  (forall m, (m < length tf)%nat -> nth m tf (RtoC 0) = dft x (Z.to_nat 4) m) /\
  (forall t, (t < 3)%nat -> d t - start = IZR (Z.of_nat (5 + t)) * / 25 /\ (0 <= Z.of_nat (5 + t))%Z) /\
  (forall t, (t < 3)%nat -> place_ok (Z.of_nat (5 + t)) 1 4 16 = true).
Proof.
  intros xr start. cbv zeta. repeat split.
  - intros m Hm. cbn [length] in Hm. destruct m as [|[|[|m]]]; try reflexivity. lia.
  - ring.
  - lia.
  - intros t Ht. destruct t as [|[|[|t]]]; try reflexivity. lia.
Qed.
