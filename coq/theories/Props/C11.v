(* Props/C11.v — Time-domain synthesis places each echo at its delay with the right
   waveform.  Statements only (proofs: Proofs/SignalProofs.v, Proofs/DftProofs.v).
   Exact arithmetic (NumR); numpy.fft / scipy.fftpack are oracles for the finite
   Fourier sums of Model/Dft.v.
   NOT proved (measured by harness/prop_C11.py): for a FRACTIONAL remainder the
   envelope peak stays within half a sample of the delay (band-limited interpolation
   property) — see peak_within_half_sample_partial below. *)
From Coq Require Import ZArith Reals List.
From Coquelicot Require Import Complex.
From Arim Require Import Base.Num Base.NumR Model.Signal Model.Dft Proofs.SignalProofs Proofs.DftProofs.
Local Open Scope R_scope.

(* -- tonebursts ------------------------------------------------------------- *)
Theorem toneburst_odd_length : forall (T : Type) (N : Num T) cycles f dt,
  Z.odd (pulse_len N cycles f dt) = true.
Proof. exact @pulse_len_odd. Qed.

Theorem toneburst_symmetric : forall cycles f dt ns k,
  (0 <= k < pulse_len NumR cycles f dt)%Z -> (pulse_len NumR cycles f dt <= ns)%Z ->
  toneburst_at NumR cycles f dt ns (pulse_len NumR cycles f dt - 1 - k)
  = toneburst_at NumR cycles f dt ns k.
Proof. exact toneburst_symmetric_R. Qed.

Theorem toneburst_peak_one : forall cycles f dt ns,
  (1 <= pulse_len NumR cycles f dt)%Z -> (pulse_len NumR cycles f dt <= ns)%Z ->
  toneburst_at NumR cycles f dt ns (pulse_len NumR cycles f dt / 2) = 1.
Proof. exact toneburst_peak_R. Qed.

Theorem toneburst_bounded : forall cycles f dt ns k, -1 <= toneburst_at NumR cycles f dt ns k <= 1.
Proof. exact toneburst_bounded_R. Qed.

Theorem toneburst_zero_outside : forall cycles f dt ns k,
  (k < 0 \/ pulse_len NumR cycles f dt <= k \/ ns <= k)%Z -> toneburst_at NumR cycles f dt ns k = 0.
Proof. exact toneburst_zero_outside_R. Qed.

Theorem toneburst_vanishes_at_ends : forall cycles f dt ns,
  (2 <= pulse_len NumR cycles f dt)%Z -> (pulse_len NumR cycles f dt <= ns)%Z ->
  toneburst_at NumR cycles f dt ns 0 = 0 /\
  toneburst_at NumR cycles f dt ns (pulse_len NumR cycles f dt - 1) = 0.
Proof. exact toneburst_ends_R. Qed.

Theorem toneburst_wrapped_peak_at_zero : forall cycles f dt ns,
  (1 <= pulse_len NumR cycles f dt)%Z -> (pulse_len NumR cycles f dt <= ns)%Z ->
  toneburst_wrapped_at NumR cycles f dt ns 0 = 1.
Proof. exact toneburst_wrapped_peak_R. Qed.

(* make_toneburst2: the declared time-zero sample carries the peak and time 0 *)
Theorem toneburst2_t0 : forall cycles f dt nb,
  (1 <= pulse_len NumR cycles f dt)%Z -> (0 <= nb)%Z ->
  toneburst2_at NumR cycles f dt nb (toneburst2_t0_idx NumR cycles f dt nb) = 1
  /\ time_sample NumR (toneburst2_time_start NumR cycles f dt nb) dt (toneburst2_t0_idx NumR cycles f dt nb) = 0.
Proof. exact toneburst2_t0_R. Qed.

(* -- analytic signal ---------------------------------------------------------- *)
(* the weights applied to the half spectrum (zero-padded to n by the inverse FFT) are
   those of the Hilbert analytic signal of a length-n sequence, for both parities *)
Theorem hilbert_weights : forall (T : Type) (N : Num T) n k, (0 < n)%Z -> (0 <= k < n)%Z ->
  hilbert_weight n (n / 2 + 1) k = scipy_hilbert_weight n k.
Proof. exact @hilbert_weight_scipy. Qed.

(* -- spectral shift ---------------------------------------------------------- *)
(* shifting a spectrum by a delay of m whole samples and transforming back delays the
   signal by m samples ... *)
Theorem dft_shift_integer : forall X n dt (m j : Z), (0 < n)%nat -> dt <> 0 ->
  idft (shift_spectrum X n dt (IZR m * dt)) n j = idft X n (j - m).
Proof. exact shift_whole_samples. Qed.

(* ... circularly: the transform-back is n-periodic in the sample index *)
Theorem dft_shift_circular : forall X n (j : Z), (0 < n)%nat ->
  idft X n (j + Z.of_nat n) = idft X n j.
Proof. exact idft_periodic. Qed.

Theorem dft_shift_zero : forall X n dt k, shift_spectrum X n dt 0 k = X k.
Proof. exact shift_zero. Qed.

(* the finite Fourier sums invert each other on the stored samples (orthogonality of the
   roots of unity), so the statement above is about the signal itself: shifting the
   spectrum of x by m whole samples and transforming back gives x delayed CIRCULARLY by m *)
Theorem dft_inversion : forall (x : nat -> C) n (j : nat), (j < n)%nat ->
  idft (dft x n) n (Z.of_nat j) = x j.
Proof. exact idft_dft. Qed.

Theorem shift_is_circular_delay : forall (x : nat -> C) n dt (m : Z) (j : nat), (j < n)%nat -> dt <> 0 ->
  idft (shift_spectrum (dft x n) n dt (IZR m * dt)) n (Z.of_nat j)
  = x (Z.to_nat ((Z.of_nat j - m) mod Z.of_nat n)).
Proof. exact shift_delays_signal. Qed.

(* -- transfer function to timetraces ------------------------------------------ *)
(* the delay is split consistently: the nearest whole sample q and a signed remainder of
   at most half a sample *)
Theorem delay_split : forall d dt, 0 < dt ->
  IZR (delay_idx NumR d dt) * dt + delay_rem NumR d dt = d /\ Rabs (delay_rem NumR d dt) <= dt / 2.
Proof. exact delay_split_R. Qed.

(* a delay that falls on output sample k (relative to the time origin), with the whole
   response inside the window, for any window origin t0 and length: no fractional
   shift is applied (rem = 0) and response sample i is ADDED at output sample
   k - t0 + i, nothing else changes — so the response's time-zero sample (index t0,
   where the analytic toneburst has its envelope peak) lands exactly on sample k *)
Theorem place_integer_delay : forall (resp out : Z -> R) n k t0 len dt, 0 < dt ->
  place_ok k t0 n len = true ->
  exists out', place NumR resp n (delay_idx NumR (IZR k * dt) dt) t0 len out = Some out' /\
    delay_rem NumR (IZR k * dt) dt = 0 /\
    (forall i, (0 <= i < n)%Z -> out' (k - t0 + i)%Z = out (k - t0 + i)%Z + resp i) /\
    (forall j, (j < k - t0 \/ k - t0 + n <= j)%Z -> out' j = out j).
Proof. exact place_on_sample_R. Qed.

(* general placement (any delay that fits) *)
Theorem place_spec : forall (resp out : Z -> R) n q t0 len, place_ok q t0 n len = true ->
  exists out', place NumR resp n q t0 len out = Some out' /\
    (forall j, (q - t0 <= j < q - t0 + n)%Z -> out' j = out j + resp (j - (q - t0))%Z) /\
    (forall j, (j < q - t0 \/ q - t0 + n <= j)%Z -> out' j = out j).
Proof. exact place_spec_R. Qed.

(* peak_within_half_sample_partial — full statement (NOT proved): for every delay d that
   fits, the maximum of |timetrace| is at a sample p with |p - (d - start)/dt| <= 1/2.
   Proved part: delay_split (the whole-sample part is the sample nearest to d/dt, the
   remainder at most dt/2 in magnitude), place_spec, dft_shift_integer/dft_shift_zero (rem = 0 case).  Missing: the
   band-limited interpolation argument for 0 < |rem| <= dt/2 (a shift of the response by
   less than half a sample keeps its envelope maximum on the same sample). *)

(* non-vacuity: 5 cycles at 5 MHz sampled at 25 MHz: 25 samples, centre 12 *)
Example pulse_len_example : pulse_len NumR 5 5 (/ 25) = 25%Z.
Proof.
  unfold pulse_len, nceil. cbn [NumR ndiv nopp nfloor].
  replace (- (5 / 5 / / 25)) with (IZR (-25)) by (simpl; field).
  rewrite Flocq.Core.Raux.Zfloor_IZR. reflexivity.
Qed.
