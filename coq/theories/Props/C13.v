(* Props/C13.v — Results do not depend on threads, block sizes or task order.
   Only statements; every proof is `exact <lemma>` (lemmas in Proofs/ChunkProofs.v).
   What these theorems do NOT cover (sampled at run time by harness/prop_C13.py):
   OS scheduling of real threads, numba's threading layer, atomicity of tasks. *)
From Coq Require Import Arith List Bool Permutation ZArith.
From Arim Require Import Model.Chunk Proofs.ChunkProofs Model.MinPlus Proofs.MinPlusProofs.
From Arim Require Import Model.ChunkND Proofs.ChunkNDProofs.
Import ListNotations.

(* chunk_array: for every length and every block size >= 1 the slices, in
   order, enumerate 0..len-1 exactly once (ordered, pairwise disjoint, cover) *)
Theorem chunks_partition : forall len b, 1 <= b ->
  flat_map range_of (chunks len b) = seq 0 len.
Proof. exact chunks_concat. Qed.

Theorem chunks_count : forall len b, length (chunks len b) = ceil_div len b.
Proof. exact chunks_length. Qed.

(* products of two chunkings partition the output matrix *)
Theorem tiles_partition : forall n p b1 b2, 1 <= b1 -> 1 <= b2 ->
  Permutation (flat_map tile_cells (tiles n p b1 b2)) (list_prod (seq 0 n) (seq 0 p))
  /\ NoDup (flat_map tile_cells (tiles n p b1 b2)).
Proof. intros n p b1 b2 H1 H2. split; [exact (tiles_perm n p b1 b2 H1 H2) | exact (tiles_NoDup n p b1 b2 H1 H2)]. Qed.

(* any execution order of tasks with pairwise disjoint write sets gives the
   same output array, cell by cell *)
Theorem schedule_independent : forall (V : Type) (ts ts' : list (task V)) (a : arr V) i j,
  NoDup (flat_map t_cells ts) -> Permutation ts ts' -> run ts a i j = run ts' a i j.
Proof. exact run_permutation. Qed.

(* find_minimum_times / distance_pairwise: whatever the block size (>= 1 after
   adjustment) and whatever the order in which the tiles are executed, the
   output equals the unchunked kernel f on every cell of the (n, p) result, and
   nothing outside is written *)
Theorem tiled_equals_unchunked : forall (V : Type) (f : nat -> nat -> V) n p b1 b2 ts' (a : arr V) i j,
  1 <= b1 -> 1 <= b2 ->
  Permutation (tasks_of f (tiles n p b1 b2)) ts' ->
  run ts' a i j = if (i <? n) && (j <? p) then f i j else a i j.
Proof. exact run_tiles. Qed.

Theorem fmt_block_adjusted_positive : forall block_size m, 1 <= m -> 1 <= block_size ->
  1 <= ceil_div block_size m.
Proof. intros block_size m Hm Hb. exact (ceil_div_pos block_size m Hm Hb). Qed.

(* one task of find_minimum_times computes, on its tile, exactly the block of the unchunked
   kernel: each task sees complete rows of time_1 and complete columns of time_2 *)
Theorem fmt_task_is_block : forall T (ltb : T -> T -> bool) (add : T -> T -> T) (t1 t2c : list (list T)) a b c d,
  minplus ltb add (slice a b t1) (slice c d t2c) = block a b c d (minplus ltb add t1 t2c).
Proof. exact minplus_tile_lemma. Qed.

(* numba prange loops: iteration p writes result[p] only *)
Theorem prange_disjoint : forall numpoints, NoDup (flat_map tile_cells (prange_tiles numpoints)).
Proof. exact prange_NoDup. Qed.

(* non-vacuity: a 5 x 7 output cut with blocks 2 and 3 *)
Example tiles_example :
  tiles 5 7 2 3 =
  [((0,2),(0,3)); ((0,2),(3,6)); ((0,2),(6,7));
   ((2,4),(0,3)); ((2,4),(3,6)); ((2,4),(6,7));
   ((4,5),(0,3)); ((4,5),(3,6)); ((4,5),(6,7))].
Proof. vm_compute. reflexivity. Qed.

(* ---- chunk_array on n-dimensional shapes, any axis spelling (Model/ChunkND.v) ----
   chunk_selectors shape b axis = for every selector the code yields (in order), the
   half-open range it selects on EVERY axis of the shape after numpy's Ellipsis
   expansion and clipping; None = the code raises.  The three branches of the code
   (axis 0 / last axis, Ellipsis first / interior axis with slice(None) fillers) are
   modelled syntactically and resolved, not assumed uniform. *)

(* list(range(ndim))[axis]: a valid axis resolves to a position below ndim, equal to
   axis or to axis + ndim *)
Theorem axis_normalised : forall ndim axis ax, normalise_axis ndim axis = Some ax ->
  ax < ndim /\ (- Z.of_nat ndim <= axis < Z.of_nat ndim)%Z /\
  (Z.of_nat ax = axis \/ Z.of_nat ax = axis + Z.of_nat ndim)%Z.
Proof. exact normalise_axis_Some. Qed.

(* (a) the negative and the non-negative spelling of an axis give the same selectors *)
Theorem nd_axis_spelling_irrelevant : forall shape b axis, (0 <= axis < Z.of_nat (length shape))%Z ->
  chunk_selectors shape b (axis - Z.of_nat (length shape)) = chunk_selectors shape b axis.
Proof. exact chunk_selectors_axis_spelling. Qed.

(* (b) every selector has one range per axis and is the full range on every axis other
   than the requested one *)
Theorem nd_other_axes_untouched : forall shape b axis ax sels sel k,
  normalise_axis (length shape) axis = Some ax ->
  chunk_selectors shape b axis = Some sels -> In sel sels ->
  length sel = length shape /\
  (k < length shape -> k <> ax -> nth k sel (0, 0) = (0, nth k shape 0)).
Proof. exact chunk_selectors_other_axes. Qed.

(* (c) for every block size >= 1 and every valid axis the call succeeds, and along the
   requested axis the ranges are exactly the 1-D chunks of that axis' length *)
Theorem nd_requested_axis_is_chunks : forall shape b axis ax, 1 <= b ->
  normalise_axis (length shape) axis = Some ax ->
  exists sels, chunk_selectors shape b axis = Some sels /\
               map (fun sel => nth ax sel (0, 0)) sels = chunks (nth ax shape 0) b.
Proof. exact chunk_selectors_requested_axis. Qed.

(* (d) whenever the call succeeds, the multi-index sets selected by the yielded
   selectors are pairwise disjoint and their union is the whole index space *)
Theorem nd_selectors_partition : forall shape b axis sels,
  chunk_selectors shape b axis = Some sels ->
  Permutation (flat_map box_cells sels) (index_space shape) /\ NoDup (flat_map box_cells sels).
Proof. exact chunk_selectors_partition. Qed.

Theorem nd_selectors_pairwise_disjoint : forall shape b axis sels i j idx,
  chunk_selectors shape b axis = Some sels -> i < j < length sels ->
  In idx (box_cells (nth i sels [])) -> ~ In idx (box_cells (nth j sels [])).
Proof. exact chunk_selectors_pairwise_disjoint. Qed.

Theorem nd_selectors_cover : forall shape b axis sels idx,
  chunk_selectors shape b axis = Some sels ->
  (Forall2 lt idx shape <-> exists sel, In sel sels /\ In idx (box_cells sel)).
Proof. exact chunk_selectors_cover. Qed.

(* meaning of the two index-set functions used above *)
Theorem box_cells_meaning : forall rs idx,
  In idx (box_cells rs) <-> Forall2 (fun i r => fst r <= i < snd r) idx rs.
Proof. exact box_cells_In. Qed.

Theorem index_space_meaning : forall shape idx, In idx (index_space shape) <-> Forall2 lt idx shape.
Proof. exact index_space_In. Qed.

(* (e) the call raises exactly for a zero block size (ZeroDivisionError) or an axis
   outside [-ndim, ndim) (IndexError); in particular such an axis is rejected *)
Theorem nd_rejected_iff : forall shape b axis,
  chunk_selectors shape b axis = None <->
  b = 0 \/ (axis < - Z.of_nat (length shape) \/ Z.of_nat (length shape) <= axis)%Z.
Proof. exact chunk_selectors_None_iff. Qed.

Theorem nd_axis_out_of_range_rejected : forall shape b axis,
  (axis < - Z.of_nat (length shape) \/ Z.of_nat (length shape) <= axis)%Z ->
  chunk_selectors shape b axis = None.
Proof. exact chunk_selectors_axis_rejected. Qed.

(* non-vacuity: a (2, 5, 3) array cut along its interior axis, spelled -2, blocks of 2:
   what the code writes, what it selects, the rejected spellings *)
Example nd_raw_example :
  raw_selectors 3 1 5 2 =
  [[Sl colon; Sl (Some 0, Some 2); Dots]; [Sl colon; Sl (Some 2, Some 4); Dots];
   [Sl colon; Sl (Some 4, Some 6); Dots]].
Proof. vm_compute. reflexivity. Qed.

Example nd_selectors_example :
  chunk_selectors [2; 5; 3] 2 (-2) =
  Some [[(0,2); (0,2); (0,3)]; [(0,2); (2,4); (0,3)]; [(0,2); (4,5); (0,3)]]
  /\ chunk_selectors [2; 5; 3] 2 1 = chunk_selectors [2; 5; 3] 2 (-2)
  /\ chunk_selectors [2; 5; 3] 2 (-1) = Some [[(0,2); (0,5); (0,2)]; [(0,2); (0,5); (2,3)]]
  /\ chunk_selectors [2; 5; 3] 2 (-3) = Some [[(0,2); (0,5); (0,3)]]
  /\ chunk_selectors [2; 5; 3] 2 3 = None /\ chunk_selectors [2; 5; 3] 2 (-4) = None
  /\ chunk_selectors [2; 5; 3] 0 (-2) = None.
Proof. vm_compute. repeat split; reflexivity. Qed.

Example nd_partition_example :
  option_map (flat_map box_cells) (chunk_selectors [2; 3; 2] 2 (-2)) =
  Some [[0;0;0]; [0;0;1]; [0;1;0]; [0;1;1]; [1;0;0]; [1;0;1]; [1;1;0]; [1;1;1];
        [0;2;0]; [0;2;1]; [1;2;0]; [1;2;1]]
  /\ length (index_space [2; 3; 2]) = 12.
Proof. vm_compute. split; reflexivity. Qed.
