(* Props/C13.v — Results do not depend on threads, block sizes or task order.
   Only statements; every proof is `exact <lemma>` (lemmas in Proofs/ChunkProofs.v).
   What these theorems do NOT cover (sampled at run time by harness/prop_C13.py):
   OS scheduling of real threads, numba's threading layer, atomicity of tasks. *)
From Coq Require Import Arith List Bool Permutation ZArith.
From Arim Require Import Model.Chunk Proofs.ChunkProofs Model.MinPlus Proofs.MinPlusProofs.
From Arim Require Import Model.ChunkND Proofs.ChunkNDProofs.
Import ListNotations.

(* chunk_array: for every length and every block size >= 1 the slices, in
   order, enumerate 0..len-1 exactly once (ordered, pairwise disjoint, cover) *)
Theorem chunks_partition : forall len b, 1 <= b ->
  flat_map range_of (chunks len b) = seq 0 len.
Proof. exact chunks_concat. Qed.

Theorem chunks_count : forall len b, length (chunks len b) = ceil_div len b.
Proof. exact chunks_length. Qed.

(* products of two chunkings partition the output matrix *)
Theorem tiles_partition : forall n p b1 b2, 1 <= b1 -> 1 <= b2 ->
  Permutation (flat_map tile_cells (tiles n p b1 b2)) (list_prod (seq 0 n) (seq 0 p))
  /\ NoDup (flat_map tile_cells (tiles n p b1 b2)).
Proof. intros n p b1 b2 H1 H2. split; [exact (tiles_perm n p b1 b2 H1 H2) | exact (tiles_NoDup n p b1 b2 H1 H2)]. Qed.

(* any execution order of tasks with pairwise disjoint write sets gives the
   same output array, cell by cell *)
Theorem schedule_independent : forall (V : Type) (ts ts' : list (task V)) (a : arr V) i j,
  NoDup (flat_map t_cells ts) -> Permutation ts ts' -> run ts a i j = run ts' a i j.
Proof. exact run_permutation. Qed.

(* find_minimum_times / distance_pairwise: whatever the block size (>= 1 after
   adjustment) and whatever the order in which the tiles are executed, the
   output equals the unchunked kernel f on every cell of the (n, p) result, and
   nothing outside is written *)
Theorem tiled_equals_unchunked : forall (V : Type) (f : nat -> nat -> V) n p b1 b2 ts' (a : arr V) i j,
  1 <= b1 -> 1 <= b2 ->
  Permutation (tasks_of f (tiles n p b1 b2)) ts' ->
  run ts' a i j = if (i <? n) && (j <? p) then f i j else a i j.
Proof. exact run_tiles. Qed.

Theorem fmt_block_adjusted_positive : forall block_size m, 1 <= m -> 1 <= block_size ->
  1 <= ceil_div block_size m.
Proof. intros block_size m Hm Hb. exact (ceil_div_pos block_size m Hm Hb). Qed.

(* one task of find_minimum_times computes, on its tile, exactly the block of the unchunked
   kernel: each task sees complete rows of time_1 and complete columns of time_2 *)
Theorem fmt_task_is_block : forall T (ltb : T -> T -> bool) (add : T -> T -> T) (t1 t2c : list (list T)) a b c d,
  minplus ltb add (slice a b t1) (slice c d t2c) = block a b c d (minplus ltb add t1 t2c).
Proof. exact minplus_tile_lemma. Qed.

(* numba prange loops: iteration p writes result[p] only *)
Theorem prange_disjoint : forall numpoints, NoDup (flat_map tile_cells (prange_tiles numpoints)).
Proof. exact prange_NoDup. Qed.

(* non-vacuity: a 5 x 7 output cut with blocks 2 and 3 *)
Example tiles_example :
  tiles 5 7 2 3 =
  [((0,2),(0,3)); ((0,2),(3,6)); ((0,2),(6,7));
   ((2,4),(0,3)); ((2,4),(3,6)); ((2,4),(6,7));
   ((4,5),(0,3)); ((4,5),(3,6)); ((4,5),(6,7))].
Proof. vm_compute. reflexivity. Qed.

(* ---- chunk_array on n-dimensional shapes, any axis spelling (Model/ChunkND.v) ----
   chunk_selectors shape b axis = for every selector the code yields (in order), the
   half-open range it selects on EVERY axis of the shape after numpy's Ellipsis
   expansion and clipping; None = the code raises.  The three branches of the code
   (axis 0 / last axis, Ellipsis first / interior axis with slice(None) fillers) are
   modelled syntactically and resolved, not assumed uniform. *)

(* list(range(ndim))[axis]: a valid axis resolves to a position below ndim, equal to
   axis or to axis + ndim *)
Theorem axis_normalised : forall ndim axis ax, normalise_axis ndim axis = Some ax ->
  ax < ndim /\ (- Z.of_nat ndim <= axis < Z.of_nat ndim)%Z /\
  (Z.of_nat ax = axis \/ Z.of_nat ax = axis + Z.of_nat ndim)%Z.
Proof. exact normalise_axis_Some. Qed.

(* (a) the negative and the non-negative spelling of an axis give the same selectors *)
Theorem nd_axis_spelling_irrelevant : forall shape b axis, (0 <= axis < Z.of_nat (length shape))%Z ->
  chunk_selectors shape b (axis - Z.of_nat (length shape)) = chunk_selectors shape b axis.
Proof. exact chunk_selectors_axis_spelling. Qed.

(* (b) every selector has one range per axis and is the full range on every axis other
   than the requested one *)
Theorem nd_other_axes_untouched : forall shape b axis ax sels sel k,
  normalise_axis (length shape) axis = Some ax ->
  chunk_selectors shape b axis = Some sels -> In sel sels ->
  length sel = length shape /\
  (k < length shape -> k <> ax -> nth k sel (0, 0) = (0, nth k shape 0)).
Proof. exact chunk_selectors_other_axes. Qed.

(* (c) for every block size >= 1 and every valid axis the call succeeds, and along the
   requested axis the ranges are exactly the 1-D chunks of that axis' length *)
Theorem nd_requested_axis_is_chunks : forall shape b axis ax, 1 <= b ->
  normalise_axis (length shape) axis = Some ax ->
  exists sels, chunk_selectors shape b axis = Some sels /\
               map (fun sel => nth ax sel (0, 0)) sels = chunks (nth ax shape 0) b.
Proof. exact chunk_selectors_requested_axis. Qed.

(* (d) whenever the call succeeds, the multi-index sets selected by the yielded
   selectors are pairwise disjoint and their union is the whole index space *)
Theorem nd_selectors_partition : forall shape b axis sels,
  chunk_selectors shape b axis = Some sels ->
  Permutation (flat_map box_cells sels) (index_space shape) /\ NoDup (flat_map box_cells sels).
Proof. exact chunk_selectors_partition. Qed.

Theorem nd_selectors_pairwise_disjoint : forall shape b axis sels i j idx,
  chunk_selectors shape b axis = Some sels -> i < j < length sels ->
  In idx (box_cells (nth i sels [])) -> ~ In idx (box_cells (nth j sels [])).
Proof. exact chunk_selectors_pairwise_disjoint. Qed.

Theorem nd_selectors_cover : forall shape b axis sels idx,
  chunk_selectors shape b axis = Some sels ->
  (Forall2 lt idx shape <-> exists sel, In sel sels /\ In idx (box_cells sel)).
Proof. exact chunk_selectors_cover. Qed.

(* meaning of the two index-set functions used above *)
Theorem box_cells_meaning : forall rs idx,
  In idx (box_cells rs) <-> Forall2 (fun i r => fst r <= i < snd r) idx rs.
Proof. exact box_cells_In. Qed.

Theorem index_space_meaning : forall shape idx, In idx (index_space shape) <-> Forall2 lt idx shape.
Proof. exact index_space_In. Qed.

(* (e) the call raises exactly for a zero block size (ZeroDivisionError) or an axis
   outside [-ndim, ndim) (IndexError); in particular such an axis is rejected *)
Theorem nd_rejected_iff : forall shape b axis,
  chunk_selectors shape b axis = None <->
  b = 0 \/ (axis < - Z.of_nat (length shape) \/ Z.of_nat (length shape) <= axis)%Z.
Proof. exact chunk_selectors_None_iff. Qed.

Theorem nd_axis_out_of_range_rejected : forall shape b axis,
  (axis < - Z.of_nat (length shape) \/ Z.of_nat (length shape) <= axis)%Z ->
  chunk_selectors shape b axis = None.
Proof. exact chunk_selectors_axis_rejected. Qed.

(* non-vacuity: a (2, 5, 3) array cut along its interior axis, spelled -2, blocks of 2:
   what the code writes, what it selects, the rejected spellings *)
Example nd_raw_example :
  raw_selectors 3 1 5 2 =
  [[Sl colon; Sl (Some 0, Some 2); Dots]; [Sl colon; Sl (Some 2, Some 4); Dots];
   [Sl colon; Sl (Some 4, Some 6); Dots]].
Proof. vm_compute. reflexivity. Qed.

Example nd_selectors_example :
  chunk_selectors [2; 5; 3] 2 (-2) =
  Some [[(0,2); (0,2); (0,3)]; [(0,2); (2,4); (0,3)]; [(0,2); (4,5); (0,3)]]
  /\ chunk_selectors [2; 5; 3] 2 1 = chunk_selectors [2; 5; 3] 2 (-2)
  /\ chunk_selectors [2; 5; 3] 2 (-1) = Some [[(0,2); (0,5); (0,2)]; [(0,2); (0,5); (2,3)]]
  /\ chunk_selectors [2; 5; 3] 2 (-3) = Some [[(0,2); (0,5); (0,3)]]
  /\ chunk_selectors [2; 5; 3] 2 3 = None /\ chunk_selectors [2; 5; 3] 2 (-4) = None
  /\ chunk_selectors [2; 5; 3] 0 (-2) = None.
Proof. vm_compute. repeat split; reflexivity. Qed.

Example nd_partition_example :
  option_map (flat_map box_cells) (chunk_selectors [2; 3; 2] 2 (-2)) =
  Some [[0;0;0]; [0;0;1]; [0;1;0]; [0;1;1]; [1;0;0]; [1;0;1]; [1;1;0]; [1;1;1];
        [0;2;0]; [0;2;1]; [1;2;0]; [1;2;1]]
  /\ length (index_space [2; 3; 2]) = 12.
Proof. vm_compute. split; reflexivity. Qed.

(* ==== the blockwise public functions as WHOLE functions (Model/Blocks.v) ===================
   find_minimum_times and distance_pairwise with their error branches, the selectors they
   build, the tuple picking `(chunk1[0], chunk2[1])`, numpy's resolution of one selector on
   arrays of different shapes, the kernels run on the views they are handed, the pool's order
   of execution; block sizes are Python ints of ANY sign.  Then the model amplitudes and the
   sensitivities block by block (on the model of C08, Model/Amplitudes.v), entry by entry.
   All axiom-free; the numeric type is abstract (a Num record or two operations), so every
   equality below is bit for bit for floats too. *)
From Arim Require Import Base.Num Model.Blocks Proofs.BlocksProofs.
From Arim Require Model.Amplitudes Proofs.BlocksSensProofs.

(* ---- Python arithmetic on block sizes ---- *)
(* math.ceil(a / b) on a positive block size is the ceiling of Model/Chunk.v *)
Theorem py_ceil_is_ceil_div : forall a b, 1 <= b ->
  py_ceil_div (Z.of_nat a) (Z.of_nat b) = Some (Z.of_nat (ceil_div a b)).
Proof. exact py_ceil_div_nat. Qed.

(* chunk_array with an integer block size of any sign: positive = the selectors of
   Model/ChunkND.v; zero raises; NEGATIVE YIELDS NOTHING (numchunks <= 0) without raising *)
Theorem chunk_array_any_sign : forall shape b axis ax,
  normalise_axis (length shape) axis = Some ax ->
  ((1 <= b)%Z -> chunk_array_py shape b axis
                 = inr (raw_selectors (length shape) ax (nth ax shape 0) (Z.to_nat b)))
  /\ (b = 0%Z -> chunk_array_py shape b axis = inl ZeroDivisionError)
  /\ ((b < 0)%Z -> chunk_array_py shape b axis = inr []).
Proof.
  intros shape b axis ax Hn. split; [|split].
  - intros Hb. exact (chunk_array_py_pos shape b axis ax Hb Hn).
  - intros ->. exact (chunk_array_py_zero shape axis ax Hn).
  - intros Hb. exact (chunk_array_py_neg shape b axis ax Hb Hn).
Qed.

Theorem chunk_array_error_iff : forall shape b axis e,
  chunk_array_py shape b axis = inl e <->
  (e = IndexError /\ normalise_axis (length shape) axis = None) \/
  (e = ZeroDivisionError /\ b = 0%Z /\ normalise_axis (length shape) axis <> None).
Proof. exact chunk_array_py_error. Qed.

(* the two extreme block sizes: one block holding everything / one block per index *)
Theorem chunks_extreme_blocks : forall len,
  (forall b, 1 <= len <= b -> chunks len b = [(0, len)])
  /\ chunks len 1 = map (fun i => (i, i + 1)) (seq 0 len).
Proof. intros len. split; [intros b H; exact (chunks_block_large len b H) | exact (chunks_block_one len)]. Qed.

(* ---- tasks that read-modify-write their own cells (accumulating kernels) ---- *)
(* a cell ends up holding what its ONE owner makes of the initial content ... *)
Theorem rmw_owner_decides : forall (V : Type) (ts : list (rtask V)) (a : arr V) t i j,
  NoDup (flat_map r_cells ts) -> In t ts -> In (i, j) (r_cells t) ->
  rrun ts a i j = r_fun t i j (a i j).
Proof. exact rrun_in. Qed.

(* ... hence any execution order gives the same array, cell by cell *)
Theorem schedule_independent_rmw : forall (V : Type) (ts ts' : list (rtask V)) (a : arr V) i j,
  NoDup (flat_map r_cells ts) -> Permutation ts ts' -> rrun ts a i j = rrun ts' a i j.
Proof. exact rrun_permutation. Qed.

(* ---- find_minimum_times ---- *)
(* the views really handed to the tasks (through the selectors, `(chunk1[0], chunk2[1])`
   and numpy's resolution on (n,m), (m,p), (n,p)): output views pairwise disjoint and
   covering, complete rows of time_1, complete columns of time_2 *)
Theorem fmt_write_regions_partition : forall n m p block_size, 1 <= m -> (1 <= block_size)%Z ->
  exists adj tasks,
    py_ceil_div block_size (Z.of_nat m) = Some adj /\ fmt_submit n m p adj = inr tasks /\
    length tasks = ceil_div n (Z.to_nat adj) * ceil_div p (Z.to_nat adj) /\
    Permutation (flat_map (fun tv => box_cells (fv_res tv)) tasks) (index_space [n; p]) /\
    NoDup (flat_map (fun tv => box_cells (fv_res tv)) tasks) /\
    (forall tv, In tv tasks ->
       exists r c, fv_t1 tv = [r; (0, m)] /\ fv_t2 tv = [(0, m); c] /\ fv_res tv = [r; c]).
Proof. exact fmt_views_partition. Qed.

(* the kernel is a read-modify-write kernel: on its output view it continues the scan from
   what the view contains, and touches nothing else *)
Theorem fmt_kernel_effect : forall (T : Type) ltb add (rows cols : list (list T)) r0 c0 (o : arr (cellv T)) i j,
  (~ In (i, j) (list_prod (seq r0 (length rows)) (seq c0 (length cols))) ->
   fmt_kernel ltb add rows cols r0 c0 o i j = o i j)
  /\ (forall r c, r0 <= i -> c0 <= j -> nth_error rows (i - r0) = Some r -> nth_error cols (j - c0) = Some c ->
      fmt_kernel ltb add rows cols r0 c0 o i j = mp_scan ltb add 0 r c (o i j)).
Proof.
  intros T ltb add rows cols r0 c0 o i j. split.
  - exact (fmt_kernel_out T ltb add rows cols r0 c0 o i j).
  - intros r c. exact (fmt_kernel_in T ltb add rows cols r0 c0 o i j r c).
Qed.

(* MAIN: every block size >= 1 (1, not dividing the sizes, larger than the problem), every
   thread count >= 1, every order in which the pool runs the tasks: the result is the
   unblocked min-plus product, every cell with its minimum AND its index (first index
   reaching the minimum: minplus_first in Props/C01.v) — no hypothesis on the order of T *)
Theorem find_minimum_times_blocked_is_unblocked : forall (T : Type) ltb add m (t1 t2c : list (list T))
    block_size numthreads sched,
  rows_have m t1 -> rows_have m t2c -> 1 <= m ->
  (1 <= block_size)%Z -> (1 <= numthreads)%Z -> (forall l, Permutation l (sched l)) ->
  find_minimum_times ltb add m m t1 t2c block_size numthreads sched = inr (minplus ltb add t1 t2c).
Proof. exact find_minimum_times_unblocked. Qed.

Theorem find_minimum_times_config_independent : forall (T : Type) ltb add m (t1 t2c : list (list T))
    bs bs' nt nt' sched sched',
  rows_have m t1 -> rows_have m t2c -> 1 <= m ->
  (1 <= bs)%Z -> (1 <= bs')%Z -> (1 <= nt)%Z -> (1 <= nt')%Z ->
  (forall l, Permutation l (sched l)) -> (forall l, Permutation l (sched' l)) ->
  find_minimum_times ltb add m m t1 t2c bs nt sched = find_minimum_times ltb add m m t1 t2c bs' nt' sched'.
Proof. exact find_minimum_times_block_independent. Qed.

(* the error branches in the order of the source: shapes, block_size / m with m = 0,
   ThreadPoolExecutor(max_workers <= 0), chunk_array with an adjusted block of 0 *)
Theorem find_minimum_times_error_branches : forall (T : Type) ltb add m m_ (t1 t2c : list (list T))
    block_size numthreads sched,
  (m <> m_ -> find_minimum_times ltb add m m_ t1 t2c block_size numthreads sched = inl ValueError)
  /\ (m = m_ -> m = 0 -> find_minimum_times ltb add m m_ t1 t2c block_size numthreads sched = inl ZeroDivisionError)
  /\ (m = m_ -> 1 <= m -> (numthreads <= 0)%Z ->
      find_minimum_times ltb add m m_ t1 t2c block_size numthreads sched = inl ValueError)
  /\ (m = m_ -> 1 <= m -> (1 <= numthreads)%Z -> (- Z.of_nat m < block_size <= 0)%Z ->
      find_minimum_times ltb add m m_ t1 t2c block_size numthreads sched = inl ZeroDivisionError).
Proof. exact find_minimum_times_errors. Qed.

(* OUTSIDE the property's range (block sizes from 1): the statement "the result does not
   depend on the block size" does NOT extend to negative block sizes — block_size <= -m is
   accepted without error and every cell stays at (+inf, -1) *)
Theorem find_minimum_times_negative_block_refuted : forall (T : Type) ltb add m (t1 t2c : list (list T))
    block_size numthreads sched,
  1 <= m -> (block_size <= - Z.of_nat m)%Z -> (1 <= numthreads)%Z -> sched [] = [] ->
  find_minimum_times ltb add m m t1 t2c block_size numthreads sched
  = inr (tab (length t1) (length t2c) (fun _ _ => None)).
Proof. exact find_minimum_times_negative_block. Qed.

(* ---- distance_pairwise ---- *)
Theorem dist_write_regions_partition : forall num1 num2 block_size, (1 <= block_size)%Z ->
  exists cs tasks,
    py_ceil_div block_size 6 = Some cs /\ dist_submit num1 num2 cs = inr tasks /\
    length tasks = ceil_div num1 (Z.to_nat cs) * ceil_div num2 (Z.to_nat cs) /\
    Permutation (flat_map (fun dv => box_cells (dv_out dv)) tasks) (index_space [num1; num2]) /\
    NoDup (flat_map (fun dv => box_cells (dv_out dv)) tasks) /\
    (forall dv, In dv tasks -> dv_out dv = dv_1 dv ++ dv_2 dv /\ length (dv_1 dv) = 1 /\ length (dv_2 dv) = 1).
Proof. exact dist_views_partition. Qed.

(* MAIN: every block size >= 1, thread count >= 1, order of execution, with or without a
   preallocated `out=` of the right shape WHATEVER IT CONTAINED: the table of the distances
   (every entry with the code's order of operations) *)
Theorem distance_pairwise_blocked_is_unblocked : forall (T : Type) (N : Num T) (P1 P2 : points)
    out block_size numthreads sched,
  points_ok P1 = true -> points_ok P2 = true -> out_ok P1 P2 out ->
  (1 <= block_size)%Z -> (1 <= numthreads)%Z -> (forall l, Permutation l (sched l)) ->
  distance_pairwise N P1 P2 out block_size numthreads sched = inr (distance_table N P1 P2).
Proof. intros T N P1 P2 out bs nt sched H1 H2. exact (distance_pairwise_unblocked N P1 P2 H1 H2 out bs nt sched). Qed.

(* both point sets the same object *)
Theorem distance_pairwise_same_object : forall (T : Type) (N : Num T) (P : points) out bs nt sched,
  points_ok P = true -> out_ok P P out -> (1 <= bs)%Z -> (1 <= nt)%Z -> (forall l, Permutation l (sched l)) ->
  distance_pairwise N P P out bs nt sched = inr (distance_table N P P).
Proof. intros T N P out bs nt sched H. exact (distance_pairwise_unblocked N P P H H out bs nt sched). Qed.

Theorem distance_pairwise_error_branches : forall (T : Type) (N : Num T) (P1 P2 : points) out block_size numthreads sched,
  (points_ok P1 = false -> distance_pairwise N P1 P2 out block_size numthreads sched = inl InvalidShape)
  /\ (points_ok P1 = true -> points_ok P2 = false ->
      distance_pairwise N P1 P2 out block_size numthreads sched = inl InvalidShape)
  /\ (points_ok P1 = true -> points_ok P2 = true ->
      forall r c content, out = Some (r, c, content) -> (r, c) <> (length (px P1), length (px P2)) ->
      distance_pairwise N P1 P2 out block_size numthreads sched = inl InvalidShape)
  /\ (points_ok P1 = true -> points_ok P2 = true -> out_ok P1 P2 out -> (numthreads <= 0)%Z ->
      distance_pairwise N P1 P2 out block_size numthreads sched = inl ValueError)
  /\ (points_ok P1 = true -> points_ok P2 = true -> out_ok P1 P2 out -> (1 <= numthreads)%Z ->
      (-6 < block_size <= 0)%Z ->
      distance_pairwise N P1 P2 out block_size numthreads sched = inl ZeroDivisionError).
Proof. intros T N. exact (distance_pairwise_errors N). Qed.

(* OUTSIDE the property's range: block_size <= -6 computes nothing and returns the zeros, or
   what `out` contained *)
Theorem distance_pairwise_negative_block_refuted : forall (T : Type) (N : Num T) (P1 P2 : points)
    block_size numthreads sched,
  points_ok P1 = true -> points_ok P2 = true ->
  (block_size <= -6)%Z -> (1 <= numthreads)%Z -> sched [] = [] ->
  distance_pairwise N P1 P2 None block_size numthreads sched
  = inr (tab (length (px P1)) (length (px P2)) (fun _ _ => n0 N))
  /\ forall content,
     distance_pairwise N P1 P2 (Some (length (px P1), length (px P2), content)) block_size numthreads sched
     = inr (tab (length (px P1)) (length (px P2)) (arr_of_table N content)).
Proof. intros T N P1 P2 bs nt sched H1 H2. exact (distance_pairwise_negative_block N P1 P2 H1 H2 bs nt sched). Qed.

(* ---- the sensitivity loops: one selector on three shapes ---- *)
Theorem sensitivity_selector_on_every_array : forall np nt ne b, 1 <= b ->
  sens_submit np nt ne (Z.of_nat b)
  = inr (map (fun r => Some ([r], [r; (0, ne)], [r; (0, nt)])) (chunks np b)).
Proof. exact sens_submit_pos. Qed.

Theorem sensitivity_selector_nonpositive_block : forall np nt ne,
  sens_submit np nt ne 0 = inl ZeroDivisionError /\
  forall b, (b < 0)%Z -> sens_submit np nt ne b = inr [].
Proof. exact sens_submit_nonpos. Qed.

(* ---- model amplitudes and sensitivities, block by block, entry by entry ---- *)
Import Model.Amplitudes Proofs.BlocksSensProofs.

(* for ANY object whose indexing is pointwise in the grid index: indexing a block gives the
   rows of that block of `obj[...]` *)
Theorem amplitudes_block_is_slice : forall (T : Type)
    (getitem : list Z -> option (list (list (T * T)))) (rowP : Z -> option (list (T * T))),
  (forall G, getitem G = mapM rowP G) ->
  forall n P a b, b <= n ->
  getitem (map Z.of_nat (seq 0 n)) = Some P ->
  getitem (map Z.of_nat (seq a (b - a))) = Some (rows_slice a b P).
Proof. intros T getitem rowP H. exact (getitem_chunk_is_slice getitem rowP H). Qed.

(* the blocks of chunk_array concatenated in order are `obj[...]` *)
Theorem amplitudes_blocks_concat : forall (T : Type)
    (getitem : list Z -> option (list (list (T * T)))) (rowP : Z -> option (list (T * T))),
  (forall G, getitem G = mapM rowP G) ->
  forall n b P, 1 <= b ->
  getitem (map Z.of_nat (seq 0 n)) = Some P ->
  mapM (fun ch => getitem (map Z.of_nat (range_of ch))) (chunks n b)
    = Some (map (fun ch => rows_slice (fst ch) (snd ch) P) (chunks n b))
  /\ concat (map (fun ch => rows_slice (fst ch) (snd ch) P) (chunks n b)) = P.
Proof. intros T getitem rowP H. exact (getitem_chunks_concat getitem rowP H). Qed.

(* the two classes built by model_amplitudes_factory *)
Theorem model_amplitudes_fn_block_is_slice : forall (T : Type) (N : Num T) tx rx ne ng Qtx Qrx Ttx Trx a o,
  length tx = length rx -> factory tx rx ne ng Qtx Qrx Ttx Trx a = Some o ->
  forall (S : T -> T -> T * T) Pall lo hi, hi <= ng ->
  getitem_fn N S o (map Z.of_nat (seq 0 ng)) = Some Pall ->
  getitem_fn N S o (map Z.of_nat (seq lo (hi - lo))) = Some (rows_slice lo hi Pall).
Proof. intros T N tx rx ne ng Qtx Qrx Ttx Trx a o H1 H2. exact (getitem_fn_chunk_is_slice N tx rx ne ng Qtx Qrx Ttx Trx a o H1 H2). Qed.

Theorem model_amplitudes_mat_block_is_slice : forall (T : Type) (N : Num T) tx rx ne ng Qtx Qrx Ttx Trx a o,
  length tx = length rx -> factory tx rx ne ng Qtx Qrx Ttx Trx a = Some o ->
  forall (P : T) (M : list (list (T * T))) Pall lo hi, mat_ok M = true -> hi <= ng ->
  getitem_mat N P M o (map Z.of_nat (seq 0 ng)) = Some Pall ->
  getitem_mat N P M o (map Z.of_nat (seq lo (hi - lo))) = Some (rows_slice lo hi Pall).
Proof. intros T N tx rx ne ng Qtx Qrx Ttx Trx a o H1 H2. exact (getitem_mat_chunk_is_slice N tx rx ne ng Qtx Qrx Ttx Trx a o H1 H2). Qed.

(* ENTRY BY ENTRY, for ANY reduction f of one row (the code's `.sum(axis=1)` of a product, in
   whatever order NumPy adds the terms of a row) and any block size >= 1: entry p of the
   blockwise loop is f of row p of the amplitudes *)
Theorem sensitivity_entries_any_block : forall (T V : Type)
    (getitem : list Z -> option (list (list (T * T)))) (rowP : Z -> option (list (T * T))),
  (forall G, getitem G = mapM rowP G) ->
  forall (f : list (T * T) -> V) (zero : V) n b (row : nat -> list (T * T)), 1 <= b -> 1 <= n ->
  (forall p, p < n -> rowP (Z.of_nat p) = Some (row p)) ->
  sens_loop getitem f zero n b = Some (map (fun p => f (row p)) (seq 0 n)).
Proof. intros T V getitem rowP H. exact (sens_loop_entries getitem rowP H). Qed.

(* any two block sizes >= 1 give the same value, or the same failure *)
Theorem sensitivity_loop_any_two_blocks : forall (T V : Type)
    (getitem : list Z -> option (list (list (T * T)))) (rowP : Z -> option (list (T * T))),
  (forall G, getitem G = mapM rowP G) ->
  forall (f : list (T * T) -> V) (zero : V) n b b', 1 <= b -> 1 <= b' ->
  sens_loop getitem f zero n b = sens_loop getitem f zero n b'.
Proof. intros T V getitem rowP H. exact (sens_loop_block_independent getitem rowP H). Qed.

(* the loop fails exactly when there is no grid point (`None /= numtimetraces`) or a grid
   point cannot be evaluated — never because of a block size >= 1; block size 0 always fails *)
Theorem sensitivity_loop_fails_iff : forall (T V : Type)
    (getitem : list Z -> option (list (list (T * T)))) (rowP : Z -> option (list (T * T))),
  (forall G, getitem G = mapM rowP G) ->
  forall (f : list (T * T) -> V) (zero : V) n b, 1 <= b ->
  (sens_loop getitem f zero n b = None <-> n = 0 \/ exists p, p < n /\ rowP (Z.of_nat p) = None).
Proof. intros T V getitem rowP H. exact (sens_loop_none_iff getitem rowP H). Qed.

Theorem sensitivity_loop_block_zero_fails : forall (T V : Type)
    (getitem : list Z -> option (list (list (T * T)))) (f : list (T * T) -> V) zero n,
  sens_loop getitem f zero n 0 = None.
Proof. intros T V. exact (@sens_loop_block_zero T V). Qed.

(* the amplitudes given as a materialised (numpoints, numtimetraces) array *)
Theorem sensitivity_of_ndarray_amplitudes : forall (T V : Type) (A : list (list (T * T)))
    (f : list (T * T) -> V) zero b, 1 <= b -> 1 <= length A ->
  sens_loop (take A) f zero (length A) b = Some (map f A).
Proof. intros T V A. exact (sens_loop_ndarray A). Qed.

(* both public functions, both classes: any two block sizes >= 1, identical results *)
Theorem sensitivities_any_two_blocks_fn : forall (T : Type) (N : Num T) tx rx ne ng Qtx Qrx Ttx Trx a o,
  length tx = length rx -> factory tx rx ne ng Qtx Qrx Ttx Trx a = Some o ->
  forall (S : T -> T -> T * T) w b b', 1 <= b -> 1 <= b' ->
  sensitivity_uniform_tfm N (getitem_fn N S o) ng (length tx) w b
  = sensitivity_uniform_tfm N (getitem_fn N S o) ng (length tx) w b'
  /\ sensitivity_model_assisted_tfm N (getitem_fn N S o) ng (length tx) w b
     = sensitivity_model_assisted_tfm N (getitem_fn N S o) ng (length tx) w b'.
Proof. intros T N tx rx ne ng Qtx Qrx Ttx Trx a o H1 H2. exact (sensitivities_block_independent_fn N tx rx ne ng Qtx Qrx Ttx Trx a o H1 H2). Qed.

Theorem sensitivities_any_two_blocks_mat : forall (T : Type) (N : Num T) tx rx ne ng Qtx Qrx Ttx Trx a o,
  length tx = length rx -> factory tx rx ne ng Qtx Qrx Ttx Trx a = Some o ->
  forall (P : T) (M : list (list (T * T))) w b b', mat_ok M = true -> 1 <= b -> 1 <= b' ->
  sensitivity_uniform_tfm N (getitem_mat N P M o) ng (length tx) w b
  = sensitivity_uniform_tfm N (getitem_mat N P M o) ng (length tx) w b'
  /\ sensitivity_model_assisted_tfm N (getitem_mat N P M o) ng (length tx) w b
     = sensitivity_model_assisted_tfm N (getitem_mat N P M o) ng (length tx) w b'.
Proof. intros T N tx rx ne ng Qtx Qrx Ttx Trx a o H1 H2. exact (sensitivities_block_independent_mat N tx rx ne ng Qtx Qrx Ttx Trx a o H1 H2). Qed.

(* ---- non-vacuity of the statements above (hypotheses satisfiable, values as the real code
   returns them; the same inputs are replayed on arim in notes/prover_C13_TIE.md) ---- *)
From Coq Require Floats QArith.
From Arim Require Base.NumF Base.NumQ.

Section BlocksExamples.
  Let ex_t1 : list (list Z) := [[1; 5; 3]; [4; 1; 1]; [7; 2; 9]; [0; 0; 0]; [3; 3; 2]]%Z.
  Let ex_t2c : list (list Z) := [[2; 1; 4]; [0; 0; 1]; [5; 5; 5]; [1; 3; 1]]%Z.   (* time_2.T *)
  Let ce (t : Z) (k : nat) : cellv Z := Some (t, k).              (* (minimum, index) *)
  Let ex_res : list (list (cellv Z)) :=
    [[ce 3 0; ce 1 0; ce 6 0; ce 2 0];
     [ce 2 1; ce 1 1; ce 6 1; ce 2 2];
     [ce 3 1; ce 2 1; ce 7 1; ce 5 1];
     [ce 1 1; ce 0 0; ce 5 0; ce 1 0];          (* cell (3,1): tie 0+0 = 0+0, index 0 *)
     [ce 4 1; ce 3 0; ce 7 2; ce 3 2]].

  (* time_1 (5,3), time_2 (3,4), block_size 4 (adjusted 2: 3 x 2 tasks), tasks run in reverse *)
  Example find_minimum_times_example :
    rows_have 3 ex_t1 /\ rows_have 3 ex_t2c /\ (forall l : list fmt_views, Permutation l (rev l)) /\
    find_minimum_times Z.ltb Z.add 3 3 ex_t1 ex_t2c 4 2 (@rev _) = inr ex_res /\
    find_minimum_times Z.ltb Z.add 3 3 ex_t1 ex_t2c 1 1 (fun l => l) = inr ex_res /\
    find_minimum_times Z.ltb Z.add 3 3 ex_t1 ex_t2c 1000 16 (fun l => l) = inr ex_res /\
    minplus Z.ltb Z.add ex_t1 ex_t2c = ex_res.
  Proof.
    split; [repeat constructor|]. split; [repeat constructor|]. split; [exact (@Permutation_rev _)|].
    vm_compute. repeat split; reflexivity.
  Qed.

  Example find_minimum_times_error_example :
    find_minimum_times Z.ltb Z.add 3 2 ex_t1 ex_t2c 4 2 (fun l => l) = inl ValueError /\
    find_minimum_times Z.ltb Z.add 0 0 [[]; []] [[]] 5 1 (fun l => l) = inl ZeroDivisionError /\
    find_minimum_times Z.ltb Z.add 3 3 ex_t1 ex_t2c 5 0 (fun l => l) = inl ValueError /\
    find_minimum_times Z.ltb Z.add 3 3 ex_t1 ex_t2c 0 2 (fun l => l) = inl ZeroDivisionError /\
    find_minimum_times Z.ltb Z.add 3 3 ex_t1 ex_t2c (-2) 2 (fun l => l) = inl ZeroDivisionError /\
    find_minimum_times Z.ltb Z.add 3 3 ex_t1 ex_t2c (-3) 2 (fun l => l)
      = inr (tab 5 4 (fun _ _ => None)).
  Proof. vm_compute. repeat split; reflexivity. Qed.

  Example fmt_submit_example :
    fmt_submit 5 3 4 2 =
    inr [mkFV [(0,2); (0,3)] [(0,3); (0,2)] [(0,2); (0,2)]; mkFV [(0,2); (0,3)] [(0,3); (2,4)] [(0,2); (2,4)];
         mkFV [(2,4); (0,3)] [(0,3); (0,2)] [(2,4); (0,2)]; mkFV [(2,4); (0,3)] [(0,3); (2,4)] [(2,4); (2,4)];
         mkFV [(4,5); (0,3)] [(0,3); (0,2)] [(4,5); (0,2)]; mkFV [(4,5); (0,3)] [(0,3); (2,4)] [(4,5); (2,4)]]
    /\ py_ceil_div 4 3 = Some 2%Z /\ py_ceil_div (-4) 3 = Some (-1)%Z /\ py_ceil_div (-2) 3 = Some 0%Z
    /\ py_ceil_div 7 (-2) = Some (-3)%Z /\ py_ceil_div 7 0 = None.
  Proof. vm_compute. repeat split; reflexivity. Qed.

  Example chunk_array_py_example :
    normalise_axis 2 (-1) = Some 1 /\
    chunk_array_py [3; 5] 2 (-1) = inr [[Dots; Sl (Some 0, Some 2)]; [Dots; Sl (Some 2, Some 4)]; [Dots; Sl (Some 4, Some 6)]] /\
    chunk_array_py [3; 5] 0 (-1) = inl ZeroDivisionError /\ chunk_array_py [3; 5] (-2) (-1) = inr [] /\
    chunk_array_py [3; 5] 2 2 = inl IndexError /\
    chunks 5 7 = [(0, 5)] /\ chunks 3 1 = [(0, 1); (1, 2); (2, 3)].
  Proof. vm_compute. repeat split; reflexivity. Qed.

  (* two accumulating tasks with disjoint cells, both orders *)
  Example rmw_example :
    let ts := [mkR [(0, 0); (0, 1)] (fun i j v => v + i + j + 1); mkR [(1, 0)] (fun _ _ v => 2 * v)] in
    NoDup (flat_map r_cells ts) /\
    (rrun ts (fun i j => 10 * i + j) 0 1, rrun ts (fun i j => 10 * i + j) 1 0, rrun ts (fun i j => 10 * i + j) 1 1) = (3, 20, 11) /\
    (rrun (rev ts) (fun i j => 10 * i + j) 0 1, rrun (rev ts) (fun i j => 10 * i + j) 1 0) = (3, 20).
  Proof.
    cbv zeta. split.
    - cbn. repeat constructor; cbn; intuition congruence.
    - vm_compute. split; reflexivity.
  Qed.

  Import Coq.Floats.Floats Base.NumF.
  Let P1 : points := mkPts [0; 3; 0]%float [0; 4; 0]%float [0; 0; 2]%float.
  Let P2 : points := mkPts [0; 0]%float [0; 4]%float [0; 3]%float.
  Let prefilled := Some (3, 2, [[99; 99]; [99; 99]; [99; 99]]%float).

  (* 3 x 2 points; block sizes 7 (chunks of 2), 1 (chunks of 1) and 600; a prefilled out *)
  Example distance_pairwise_example :
    points_ok P1 = true /\ points_ok P2 = true /\ out_ok P1 P2 prefilled /\ out_ok P1 P2 None /\
    distance_pairwise NumF P1 P2 None 7 2 (@rev _) = inr (distance_table NumF P1 P2) /\
    distance_pairwise NumF P1 P2 prefilled 1 1 (fun l => l) = inr (distance_table NumF P1 P2) /\
    distance_pairwise NumF P1 P2 prefilled 600 3 (@rev _) = inr (distance_table NumF P1 P2) /\
    option_map (map (firstn 1)) (Some (distance_table NumF P1 P2)) = Some [[0]; [5]; [2]]%float /\
    distance_pairwise NumF P1 P2 prefilled (-6) 1 (fun l => l) = inr [[99; 99]; [99; 99]; [99; 99]]%float /\
    distance_pairwise NumF P1 P2 None (-5) 1 (fun l => l) = inl ZeroDivisionError /\
    distance_pairwise NumF P1 P2 None 6 0 (fun l => l) = inl ValueError /\
    distance_pairwise NumF P1 P2 (Some (2, 3, [])) 6 1 (fun l => l) = inl InvalidShape /\
    distance_pairwise NumF (mkPts [0]%float [] [0]%float) P2 None 6 1 (fun l => l) = inl InvalidShape.
  Proof.
    split; [reflexivity|]. split; [reflexivity|]. split; [split; reflexivity|]. split; [exact I|].
    vm_compute. repeat split; reflexivity.
  Qed.

  Example dist_submit_example :
    dist_submit 3 2 2 = inr [mkDV [(0,2)] [(0,2)] [(0,2); (0,2)]; mkDV [(2,3)] [(0,2)] [(2,3); (0,2)]] /\
    sens_submit 5 3 4 2 = inr [Some ([(0,2)], [(0,2); (0,4)], [(0,2); (0,3)]);
                               Some ([(2,4)], [(2,4); (0,4)], [(2,4); (0,3)]);
                               Some ([(4,5)], [(4,5); (0,4)], [(4,5); (0,3)])].
  Proof. vm_compute. split; reflexivity. Qed.

  Import Coq.QArith.QArith Base.NumQ.
  Local Open Scope Q_scope.
  Let cq (x y : Q) : Q * Q := (x, y).
  (* 2 elements, 3 grid points, 4 timetraces (the object of Props/C08.v) *)
  Let Qtx := [[cq 1 2; cq 3 (-1); cq (1#2) 0]; [cq (-2) 1; cq 0 3; cq 5 (1#4)]].
  Let Qrx := [[cq 2 0; cq 1 1; cq (-1) 2]; [cq (3#2) (-1); cq 4 0; cq 0 (-2)]].
  Let Ttx := [[1#4; 1#2; 3#4]; [-(1#4); -(1#2); -(3#4)]].
  Let Trx := [[1#8; 3#8; 5#8]; [-(1#8); -(3#8); -(5#8)]].
  Let S (x y : Q) : Q * Q := (1 + 2 * x + 3 * y, x * y).
  Let tx := [0; 1; 1; -1]%Z.
  Let rx := [1; 0; -1; 0]%Z.
  Let w := [1; 1; 2; 1#2].

  Example amplitudes_blocks_example :
    forall o, factory tx rx 2 3 Qtx Qrx Ttx Trx (1#8) = Some o ->
      length tx = length rx /\
      (exists Pall, getitem_fn NumQ S o (map Z.of_nat (seq 0 3)) = Some Pall /\ length Pall = 3%nat /\
                    getitem_fn NumQ S o (map Z.of_nat (seq 1 (3 - 1))) = Some (rows_slice 1 3 Pall) /\
                    getitem_fn NumQ S o (map Z.of_nat (seq 2 (3 - 2))) = Some (rows_slice 2 3 Pall) /\
                    sens_loop (take Pall) (wsum_uniform NumQ w) (0, 0) 3 2 = Some (map (wsum_uniform NumQ w) Pall) /\
                    sens_loop (take Pall) (wsum_uniform NumQ w) (0, 0) 4 2 = None /\
                    sens_loop (take Pall) (wsum_uniform NumQ w) (0, 0) 3 0 = None) /\
      sensitivity_uniform_tfm NumQ (getitem_fn NumQ S o) 3 4 w 1
        = sensitivity_uniform_tfm NumQ (getitem_fn NumQ S o) 3 4 w 7 /\
      sensitivity_model_assisted_tfm NumQ (getitem_fn NumQ S o) 3 4 w 2
        = sensitivity_model_assisted_tfm NumQ (getitem_fn NumQ S o) 3 4 w 3 /\
      sensitivity_uniform_tfm NumQ (getitem_fn NumQ S o) 3 4 w 2
        = Some [(53 # 128, -(143 # 256)); (-(435 # 256), -(2707 # 256)); (1263 # 512, 4815 # 256)].
  Proof.
    intros o E. vm_compute in E. inversion E; subst o. split; [reflexivity|]. split.
    - eexists. split; [vm_compute; reflexivity|]. vm_compute. repeat split; reflexivity.
    - vm_compute. repeat split; reflexivity.
  Qed.
End BlocksExamples.
