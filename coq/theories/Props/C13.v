(* Props/C13.v — Results do not depend on threads, block sizes or task order.
   Only statements; every proof is `exact <lemma>` (lemmas in Proofs/ChunkProofs.v).
   What these theorems do NOT cover (sampled at run time by harness/prop_C13.py):
   OS scheduling of real threads, numba's threading layer, atomicity of tasks. *)
From Coq Require Import Arith List Bool Permutation.
From Arim Require Import Model.Chunk Proofs.ChunkProofs Model.MinPlus Proofs.MinPlusProofs.
Import ListNotations.

(* chunk_array: for every length and every block size >= 1 the slices, in
   order, enumerate 0..len-1 exactly once (ordered, pairwise disjoint, cover) *)
Theorem chunks_partition : forall len b, 1 <= b ->
  flat_map range_of (chunks len b) = seq 0 len.
Proof. exact chunks_concat. Qed.

Theorem chunks_count : forall len b, length (chunks len b) = ceil_div len b.
Proof. exact chunks_length. Qed.

(* products of two chunkings partition the output matrix *)
Theorem tiles_partition : forall n p b1 b2, 1 <= b1 -> 1 <= b2 ->
  Permutation (flat_map tile_cells (tiles n p b1 b2)) (list_prod (seq 0 n) (seq 0 p))
  /\ NoDup (flat_map tile_cells (tiles n p b1 b2)).
Proof. intros n p b1 b2 H1 H2. split; [exact (tiles_perm n p b1 b2 H1 H2) | exact (tiles_NoDup n p b1 b2 H1 H2)]. Qed.

(* any execution order of tasks with pairwise disjoint write sets gives the
   same output array, cell by cell *)
Theorem schedule_independent : forall (V : Type) (ts ts' : list (task V)) (a : arr V) i j,
  NoDup (flat_map t_cells ts) -> Permutation ts ts' -> run ts a i j = run ts' a i j.
Proof. exact run_permutation. Qed.

(* find_minimum_times / distance_pairwise: whatever the block size (>= 1 after
   adjustment) and whatever the order in which the tiles are executed, the
   output equals the unchunked kernel f on every cell of the (n, p) result, and
   nothing outside is written *)
Theorem tiled_equals_unchunked : forall (V : Type) (f : nat -> nat -> V) n p b1 b2 ts' (a : arr V) i j,
  1 <= b1 -> 1 <= b2 ->
  Permutation (tasks_of f (tiles n p b1 b2)) ts' ->
  run ts' a i j = if (i <? n) && (j <? p) then f i j else a i j.
Proof. exact run_tiles. Qed.

Theorem fmt_block_adjusted_positive : forall block_size m, 1 <= m -> 1 <= block_size ->
  1 <= ceil_div block_size m.
Proof. intros block_size m Hm Hb. exact (ceil_div_pos block_size m Hm Hb). Qed.

(* one task of find_minimum_times computes, on its tile, exactly the block of the unchunked
   kernel: each task sees complete rows of time_1 and complete columns of time_2 *)
Theorem fmt_task_is_block : forall T (ltb : T -> T -> bool) (add : T -> T -> T) (t1 t2c : list (list T)) a b c d,
  minplus ltb add (slice a b t1) (slice c d t2c) = block a b c d (minplus ltb add t1 t2c).
Proof. exact minplus_tile_lemma. Qed.

(* numba prange loops: iteration p writes result[p] only *)
Theorem prange_disjoint : forall numpoints, NoDup (flat_map tile_cells (prange_tiles numpoints)).
Proof. exact prange_NoDup. Qed.

(* non-vacuity: a 5 x 7 output cut with blocks 2 and 3 *)
Example tiles_example :
  tiles 5 7 2 3 =
  [((0,2),(0,3)); ((0,2),(3,6)); ((0,2),(6,7));
   ((2,4),(0,3)); ((2,4),(3,6)); ((2,4),(6,7));
   ((4,5),(0,3)); ((4,5),(3,6)); ((4,5),(6,7))].
Proof. vm_compute. reflexivity. Qed.
