(* Props/C05.v — Ray geometry: leg lengths, travel time and angle conventions are as
   documented (docs/source/model/coordinate_system.rst).  Statements only; proofs in
   Proofs/RayGeomProofs.v (any numeric instance), Proofs/RayGeomRealProofs.v (reals),
   Proofs/RayGeomTimeProofs.v (travel time, on top of C01's solver theorems).

   Vocabulary (Model/RayGeom.v): a RayGeometry object is (ifs, ray): the interfaces and the
   column rays.indices[:, i, j] of ONE ray (every method is elementwise in (i, j));
   `ray_point ifs ray a` / `ray_frame ifs ray a` are the point / the 3x3 frame (rows = local
   axes) through which the ray goes at interface a; `resolve n idx = Some a` says that the
   Python index idx (negative allowed) designates interface a of n.  Outcomes: Val v,
   NoLeg (Python None), IndexErr, ValueErr.  Frames are "orthonormal" when their columns
   are (equivalently their rows: Vec3Proofs.rows_to_cols / cols_to_rows).
   Exact arithmetic (NumR) except where a theorem is stated for every numeric instance. *)
From Coq Require Import List ZArith Bool Arith Lia Reals Lra.
From Flocq Require Import Core.Raux.
From Arim Require Import Base.Num Base.NumR Model.Vec3 Model.RayGeom
                         Proofs.Vec3Proofs Proofs.RayGeomProofs Proofs.RayGeomRealProofs Proofs.RayGeomTimeProofs.
From Arim Require Model.MinPlus Model.Fermat Proofs.FermatProofs.
Import ListNotations.
Local Open Scope R_scope.

(* ---- leg lengths ------------------------------------------------------------------------ *)
(* the reported leg length is the Euclidean distance between consecutive ray points *)
Theorem leg_size_is_distance : forall (ifs : list (iface (T:=R))) ray, length ray = length ifs ->
  forall idx a s e, resolve (length ifs) idx = Some (S a) ->
  ray_point ifs ray a = Some s -> ray_point ifs ray (S a) = Some e ->
  inc_leg_size NumR ifs ray idx =
  Val (sqrt ((vx s - vx e) * (vx s - vx e) + (vy s - vy e) * (vy s - vy e) + (vz s - vz e) * (vz s - vz e))).
Proof. exact leg_size_is_distance_R. Qed.

(* ... and nothing else: whenever inc_leg_size answers a number, it is such a distance *)
Theorem leg_size_only_distance : forall (ifs : list (iface (T:=R))) ray, length ray = length ifs ->
  forall idx d, inc_leg_size NumR ifs ray idx = Val d ->
  exists a s e, resolve (length ifs) idx = Some (S a) /\ ray_point ifs ray a = Some s /\
                ray_point ifs ray (S a) = Some e /\ d = euclid s e.
Proof. exact leg_size_value_inv. Qed.

(* radius of the spherical coordinates = leg size, for orthonormal frames *)
Theorem leg_radius_eq_size : forall (ifs : list (iface (T:=R))) ray, length ray = length ifs ->
  forall idx a s e B, resolve (length ifs) idx = Some (S a) ->
  ray_point ifs ray a = Some s -> ray_point ifs ray (S a) = Some e -> ray_frame ifs ray (S a) = Some B ->
  cols_orthonormal NumR B ->
  inc_leg_radius NumR ifs ray idx = inc_leg_size NumR ifs ray idx.
Proof. exact inc_radius_eq_size_R. Qed.

Theorem out_leg_radius_eq_next_size : forall (ifs : list (iface (T:=R))) ray, length ray = length ifs ->
  forall idx a s e B, resolve (length ifs) idx = Some a -> (S a < length ifs)%nat ->
  ray_point ifs ray a = Some s -> ray_point ifs ray (S a) = Some e -> ray_frame ifs ray a = Some B ->
  cols_orthonormal NumR B ->
  out_leg_radius NumR ifs ray idx = inc_leg_size NumR ifs ray (idx + 1).
Proof. exact out_radius_eq_next_size_R. Qed.

(* the leg lengths divided by the leg velocities add up (left-nested, as the solver
   accumulates) to the travel time of the ray found by the Fermat solver: corollary of C01
   solve_realised.  `ifs` is any list of interfaces over the point sets of the path. *)
Theorem legs_sum_to_time : forall (p : Fermat.cpath (T:=R)) r (ifs : list (iface (T:=R))) i j,
  FermatProofs.interior_ok Fermat.psize p -> Fermat.c_solve_pure NumR p = Some r ->
  map if_points ifs = map (Fermat.pts (T:=R)) (path_sets p) ->
  (i < Fermat.psize (Fermat.startp p))%nat -> (j < Fermat.psize (Fermat.endp p))%nat ->
  exists t, MinPlus.get2 (Fermat.r_times r) i j = Some t /\
            legs_time NumR ifs (Fermat.ray_of r i j) (path_vels p) = Some t /\
            hd 0%nat (Fermat.ray_of r i j) = i /\ last (Fermat.ray_of r i j) 0%nat = j.
Proof. exact legs_sum_to_time_R. Qed.

(* ---- unsigned angles ------------------------------------------------------------------------ *)
Theorem polar_range : forall (ifs : list (iface (T:=R))) ray idx theta,
  (inc_leg_polar NumR ifs ray idx = Val theta -> 0 <= theta <= PI) /\
  (out_leg_polar NumR ifs ray idx = Val theta -> 0 <= theta <= PI) /\
  (inc_angle NumR ifs ray idx = inc_leg_polar NumR ifs ray idx) /\
  (out_angle NumR ifs ray idx = out_leg_polar NumR ifs ray idx).
Proof.
  intros ifs ray idx theta.
  exact (conj (inc_polar_range_R ifs ray idx theta) (conj (out_polar_range_R ifs ray idx theta) (conj eq_refl eq_refl))).
Qed.

(* the unsigned angle of the incoming leg is the angle between the vector from the interface
   point to the source point and the THIRD ROW of the frame: |leg| cos(theta) = leg . k_hat *)
Theorem inc_polar_is_angle_to_normal : forall (ifs : list (iface (T:=R))) ray, length ray = length ifs ->
  forall idx a s e B, resolve (length ifs) idx = Some (S a) ->
  ray_point ifs ray a = Some s -> ray_point ifs ray (S a) = Some e -> ray_frame ifs ray (S a) = Some B ->
  cols_orthonormal NumR B ->
  exists theta, inc_leg_polar NumR ifs ray idx = Val theta /\ 0 <= theta <= PI /\
                euclid s e * cos theta = vdot NumR (mrow2 B) (vsub NumR s e).
Proof. exact inc_polar_is_angle_to_normal_R. Qed.

(* the same for the outgoing leg: vector from the interface point to the destination point *)
Theorem out_polar_is_angle_to_normal : forall (ifs : list (iface (T:=R))) ray, length ray = length ifs ->
  forall idx a s e B, resolve (length ifs) idx = Some a -> (S a < length ifs)%nat ->
  ray_point ifs ray a = Some s -> ray_point ifs ray (S a) = Some e -> ray_frame ifs ray a = Some B ->
  cols_orthonormal NumR B ->
  exists theta, out_leg_polar NumR ifs ray idx = Val theta /\ 0 <= theta <= PI /\
                euclid e s * cos theta = vdot NumR (mrow2 B) (vsub NumR e s).
Proof. exact out_polar_is_angle_to_normal_R. Qed.

(* the cartesian leg is B.(other end - interface point), rows of B = local axes *)
Theorem leg_cartesian_is_local_coordinates : forall T (N : Num T) (ifs : list (iface (T:=T))) ray,
  length ray = length ifs -> forall idx a s e,
  ray_point ifs ray a = Some s -> ray_point ifs ray (S a) = Some e ->
  (forall B, resolve (length ifs) idx = Some (S a) -> ray_frame ifs ray (S a) = Some B ->
     inc_leg_cartesian N ifs ray idx = Val (mvec N B (vsub N s e))) /\
  (forall B, resolve (length ifs) idx = Some a -> (S a < length ifs)%nat -> ray_frame ifs ray a = Some B ->
     out_leg_cartesian N ifs ray idx = Val (mvec N B (vsub N e s))).
Proof. exact @leg_cartesian_local. Qed.

(* (radius, polar, azimuth) are the spherical coordinates (ISO convention) of the cartesian leg *)
Theorem spherical_coordinates_of_leg : forall (ifs : list (iface (T:=R))) ray idx c,
  (inc_leg_cartesian NumR ifs ray idx = Val c ->
   exists r theta phi,
     inc_leg_radius NumR ifs ray idx = Val r /\ inc_leg_polar NumR ifs ray idx = Val theta /\
     inc_leg_azimuth NumR ifs ray idx = Val phi /\
     0 <= r /\ 0 <= theta <= PI /\ - PI <= phi <= PI /\
     vx c = r * sin theta * cos phi /\ vy c = r * sin theta * sin phi /\ vz c = r * cos theta) /\
  (out_leg_cartesian NumR ifs ray idx = Val c ->
   exists r theta phi,
     out_leg_radius NumR ifs ray idx = Val r /\ out_leg_polar NumR ifs ray idx = Val theta /\
     out_leg_azimuth NumR ifs ray idx = Val phi /\
     0 <= r /\ 0 <= theta <= PI /\ - PI <= phi <= PI /\
     vx c = r * sin theta * cos phi /\ vy c = r * sin theta * sin phi /\ vz c = r * cos theta).
Proof. intros ifs ray idx c. exact (conj (inc_spherical_R ifs ray idx c) (out_spherical_R ifs ray idx c)). Qed.

(* ---- signed angles -------------------------------------------------------------------------- *)
(* signed = +theta iff -pi/2 < phi <= pi/2, else -theta (unconditional since fix 447b98d;
   the DESIGN's signed_rule_refuted described the code before that repair) *)
Theorem signed_rule : forall (ifs : list (iface (T:=R))) ray idx theta phi,
  (inc_leg_polar NumR ifs ray idx = Val theta -> inc_leg_azimuth NumR ifs ray idx = Val phi ->
     (- PI / 2 < phi <= PI / 2 -> signed_inc_angle NumR ifs ray idx = Val theta) /\
     (~ (- PI / 2 < phi <= PI / 2) -> signed_inc_angle NumR ifs ray idx = Val (- theta))) /\
  (out_leg_polar NumR ifs ray idx = Val theta -> out_leg_azimuth NumR ifs ray idx = Val phi ->
     (- PI / 2 < phi <= PI / 2 -> signed_out_angle NumR ifs ray idx = Val theta) /\
     (~ (- PI / 2 < phi <= PI / 2) -> signed_out_angle NumR ifs ray idx = Val (- theta))).
Proof. intros ifs ray idx theta phi. exact (conj (signed_inc_rule_R ifs ray idx theta phi) (signed_out_rule_R ifs ray idx theta phi)). Qed.

(* the same rule read on the local coordinates: + iff the leg points to the side x > 0 of the
   local frame (legs in the plane x = 0: iff y >= 0); in 2-D set-ups (y = 0) the sign of x *)
Theorem signed_by_local_x : forall (ifs : list (iface (T:=R))) ray idx c theta,
  (inc_leg_cartesian NumR ifs ray idx = Val c -> inc_leg_polar NumR ifs ray idx = Val theta ->
     ((0 < vx c \/ (vx c = 0 /\ 0 <= vy c)) -> signed_inc_angle NumR ifs ray idx = Val theta) /\
     (~ (0 < vx c \/ (vx c = 0 /\ 0 <= vy c)) -> signed_inc_angle NumR ifs ray idx = Val (- theta))) /\
  (out_leg_cartesian NumR ifs ray idx = Val c -> out_leg_polar NumR ifs ray idx = Val theta ->
     ((0 < vx c \/ (vx c = 0 /\ 0 <= vy c)) -> signed_out_angle NumR ifs ray idx = Val theta) /\
     (~ (0 < vx c \/ (vx c = 0 /\ 0 <= vy c)) -> signed_out_angle NumR ifs ray idx = Val (- theta))).
Proof. intros ifs ray idx c theta. exact (conj (signed_inc_by_local_x_R ifs ray idx c theta) (signed_out_by_local_x_R ifs ray idx c theta)). Qed.

(* ---- conventional angles -------------------------------------------------------------------- *)
(* theta when the normals are on the side of the leg, pi - theta otherwise, ValueError when
   the side is not declared *)
Theorem conventional_supplement : forall (ifs : list (iface (T:=R))) ray, length ray = length ifs ->
  forall idx a f,
  (resolve (length ifs) idx = Some (S a) -> nth_error ifs (S a) = Some f ->
   match if_inc f with
   | Some true => conventional_inc_angle NumR ifs ray idx = inc_leg_polar NumR ifs ray idx
   | Some false => conventional_inc_angle NumR ifs ray idx = rmap (fun t => PI - t) (inc_leg_polar NumR ifs ray idx)
   | None => conventional_inc_angle NumR ifs ray idx = ValueErr
   end) /\
  (resolve (length ifs) idx = Some a -> (S a < length ifs)%nat -> nth_error ifs a = Some f ->
   match if_out f with
   | Some true => conventional_out_angle NumR ifs ray idx = out_leg_polar NumR ifs ray idx
   | Some false => conventional_out_angle NumR ifs ray idx = rmap (fun t => PI - t) (out_leg_polar NumR ifs ray idx)
   | None => conventional_out_angle NumR ifs ray idx = ValueErr
   end).
Proof.
  intros ifs ray Hlen idx a f.
  exact (conj (conventional_inc_R ifs ray idx a f) (conventional_out_R ifs ray Hlen idx a f)).
Qed.

Theorem conventional_range : forall (ifs : list (iface (T:=R))) ray idx t,
  (conventional_inc_angle NumR ifs ray idx = Val t -> 0 <= t <= PI) /\
  (conventional_out_angle NumR ifs ray idx = Val t -> 0 <= t <= PI).
Proof. intros ifs ray idx t. exact (conj (conventional_inc_range_R ifs ray idx t) (conventional_out_range_R ifs ray idx t)). Qed.

(* pi - arccos(z / r) = arccos(-z / r), as the documentation writes it *)
Theorem supplement_is_arccos_of_opposite : forall z r, supplement NumR (sph_theta NumR z r) = acos (- z / r).
Proof. exact supplement_is_arccos_opp. Qed.

(* ---- ends of the path, interface indices --------------------------------------------------------- *)
(* no incoming leg at the first interface, no outgoing leg at the last one *)
Theorem first_last_none : forall T (N : Num T) (ifs : list (iface (T:=T))) ray idx, length ray = length ifs ->
  (resolve (length ifs) idx = Some 0%nat ->
     inc_leg_size N ifs ray idx = NoLeg /\ inc_leg_cartesian N ifs ray idx = NoLeg /\
     inc_leg_radius N ifs ray idx = NoLeg /\ inc_leg_polar N ifs ray idx = NoLeg /\
     inc_leg_azimuth N ifs ray idx = NoLeg /\ inc_angle N ifs ray idx = NoLeg /\
     signed_inc_angle N ifs ray idx = NoLeg /\ conventional_inc_angle N ifs ray idx = NoLeg) /\
  (resolve (length ifs) idx = Some (length ifs - 1)%nat ->
     out_leg_cartesian N ifs ray idx = NoLeg /\
     out_leg_radius N ifs ray idx = NoLeg /\ out_leg_polar N ifs ray idx = NoLeg /\
     out_leg_azimuth N ifs ray idx = NoLeg /\ out_angle N ifs ray idx = NoLeg /\
     signed_out_angle N ifs ray idx = NoLeg /\ conventional_out_angle N ifs ray idx = NoLeg).
Proof.
  intros T N ifs ray idx Hlen.
  exact (conj (inc_first_is_none N ifs ray idx) (out_last_is_none N ifs ray idx)).
Qed.

(* an index outside -n .. n-1 raises IndexError in all 17 methods *)
Theorem out_of_range_index_error : forall T (N : Num T) (ifs : list (iface (T:=T))) ray idx,
  (idx < - Z.of_nat (length ifs) \/ Z.of_nat (length ifs) <= idx)%Z ->
  leg_points ifs ray idx = IndexErr /\ orientations_of_legs_points ifs ray idx = IndexErr /\
  inc_leg_size N ifs ray idx = IndexErr /\ inc_leg_cartesian N ifs ray idx = IndexErr /\
  inc_leg_radius N ifs ray idx = IndexErr /\ inc_leg_polar N ifs ray idx = IndexErr /\
  inc_leg_azimuth N ifs ray idx = IndexErr /\ inc_angle N ifs ray idx = IndexErr /\
  signed_inc_angle N ifs ray idx = IndexErr /\ conventional_inc_angle N ifs ray idx = IndexErr /\
  out_leg_cartesian N ifs ray idx = IndexErr /\
  out_leg_radius N ifs ray idx = IndexErr /\ out_leg_polar N ifs ray idx = IndexErr /\
  out_leg_azimuth N ifs ray idx = IndexErr /\ out_angle N ifs ray idx = IndexErr /\
  signed_out_angle N ifs ray idx = IndexErr /\ conventional_out_angle N ifs ray idx = IndexErr.
Proof. exact @out_of_range_index_error_Z. Qed.

(* negative and non-negative indices of the same interface give the same answers (17 methods) *)
Theorem negative_index_same : forall T (N : Num T) (ifs : list (iface (T:=T))) ray, length ray = length ifs ->
  forall idx idx' a, resolve (length ifs) idx = Some a -> resolve (length ifs) idx' = Some a ->
  leg_points ifs ray idx = leg_points ifs ray idx' /\
  orientations_of_legs_points ifs ray idx = orientations_of_legs_points ifs ray idx' /\
  inc_leg_size N ifs ray idx = inc_leg_size N ifs ray idx' /\
  inc_leg_cartesian N ifs ray idx = inc_leg_cartesian N ifs ray idx' /\
  inc_leg_radius N ifs ray idx = inc_leg_radius N ifs ray idx' /\
  inc_leg_polar N ifs ray idx = inc_leg_polar N ifs ray idx' /\
  inc_leg_azimuth N ifs ray idx = inc_leg_azimuth N ifs ray idx' /\
  inc_angle N ifs ray idx = inc_angle N ifs ray idx' /\
  signed_inc_angle N ifs ray idx = signed_inc_angle N ifs ray idx' /\
  conventional_inc_angle N ifs ray idx = conventional_inc_angle N ifs ray idx' /\
  out_leg_cartesian N ifs ray idx = out_leg_cartesian N ifs ray idx' /\
  out_leg_radius N ifs ray idx = out_leg_radius N ifs ray idx' /\
  out_leg_polar N ifs ray idx = out_leg_polar N ifs ray idx' /\
  out_leg_azimuth N ifs ray idx = out_leg_azimuth N ifs ray idx' /\
  out_angle N ifs ray idx = out_angle N ifs ray idx' /\
  signed_out_angle N ifs ray idx = signed_out_angle N ifs ray idx' /\
  conventional_out_angle N ifs ray idx = conventional_out_angle N ifs ray idx'.
Proof. exact @all_methods_same. Qed.

Theorem resolve_is_python_indexing : forall n idx a,
  resolve n idx = Some a <-> (a < n)%nat /\ (idx = Z.of_nat a \/ idx = (Z.of_nat a - Z.of_nat n)%Z).
Proof. exact resolve_spec. Qed.

(* ---- reversal ------------------------------------------------------------------------------------ *)
(* the column (j, i) of the reversed rays is the reversed column (i, j) *)
Theorem reversed_rays_column : forall n m interior i j,
  interior_shape n m interior -> (i < n)%nat -> (j < m)%nat ->
  ray_column (make_indices m n (rays_reverse_interior m interior)) j i =
  option_map (@rev nat) (ray_column (make_indices n m interior) i j).
Proof. exact rays_reverse_column. Qed.

(* for a path of ANY number of interfaces (in particular 2..5), every ray (i, j) and every
   interface k — written with a non-negative or a negative index on either side —, the
   incoming quantities at k are the outgoing quantities at n-1-k of Path.reverse() with
   Rays.reverse(); holds for every numeric instance (so also for the float executions) *)
Theorem inc_is_out_of_reverse : forall T (N : Num T) (ifs : list (iface (T:=T))) n m interior i j idx idx' k r,
  (length interior + 2 = length ifs)%nat -> interior_shape n m interior -> (i < n)%nat -> (j < m)%nat ->
  ray_column (make_indices n m interior) i j = Some r ->
  resolve (length ifs) idx = Some k -> resolve (length ifs) idx' = Some (length ifs - 1 - k)%nat ->
  exists r', ray_column (make_indices m n (rays_reverse_interior m interior)) j i = Some r' /\
    inc_leg_cartesian N ifs r idx = out_leg_cartesian N (path_reverse ifs) r' idx' /\
    inc_leg_radius N ifs r idx = out_leg_radius N (path_reverse ifs) r' idx' /\
    inc_leg_polar N ifs r idx = out_leg_polar N (path_reverse ifs) r' idx' /\
    inc_leg_azimuth N ifs r idx = out_leg_azimuth N (path_reverse ifs) r' idx' /\
    inc_angle N ifs r idx = out_angle N (path_reverse ifs) r' idx' /\
    signed_inc_angle N ifs r idx = signed_out_angle N (path_reverse ifs) r' idx' /\
    conventional_inc_angle N ifs r idx = conventional_out_angle N (path_reverse ifs) r' idx'.
Proof. exact @inc_is_out_of_reverse_rays. Qed.

Theorem path_reverse_twice : forall T (ifs : list (iface (T:=T))), path_reverse (path_reverse ifs) = ifs.
Proof. exact @path_reverse_involutive. Qed.

(* ---- non-vacuity ------------------------------------------------------------------------------------ *)
(* finding F1's witness, on the repaired rule: an out-of-plane incoming leg with theta = pi/6,
   phi = pi/3 (local coordinates (1/4, sqrt 3 / 4, sqrt 3 / 2)) has signed angle +pi/6 *)
Definition id_frame : mat3 R := mid3 NumR.
Definition f1_path : list (iface (T:=R)) :=
  [ mkIface [ (1 / 4, sqrt 3 / 4, sqrt 3 / 2) ] [ id_frame ] None (Some true);
    mkIface [ (0, 0, 0) ] [ id_frame ] (Some true) None ].

Example f1_witness :
  inc_leg_cartesian NumR f1_path [0%nat; 0%nat] 1 = Val (1 / 4, sqrt 3 / 4, sqrt 3 / 2) /\
  inc_leg_radius NumR f1_path [0%nat; 0%nat] 1 = Val 1 /\
  inc_leg_polar NumR f1_path [0%nat; 0%nat] 1 = Val (PI / 6) /\
  inc_leg_azimuth NumR f1_path [0%nat; 0%nat] 1 = Val (PI / 3) /\
  signed_inc_angle NumR f1_path [0%nat; 0%nat] 1 = Val (PI / 6) /\
  signed_inc_angle NumR f1_path [0%nat; 0%nat] (-1) = Val (PI / 6) /\
  conventional_inc_angle NumR f1_path [0%nat; 0%nat] 1 = Val (PI / 6) /\
  inc_leg_size NumR f1_path [0%nat; 0%nat] 1 = Val 1 /\
  inc_leg_size NumR f1_path [0%nat; 0%nat] 0 = NoLeg /\
  conventional_out_angle NumR f1_path [0%nat; 0%nat] 1 = NoLeg /\
  conventional_inc_angle NumR [mkIface [(1, 0, 0)] [id_frame] None None; mkIface [(0, 0, 0)] [id_frame] None None] [0%nat; 0%nat] 1 = ValueErr /\
  inc_leg_size NumR f1_path [0%nat; 0%nat] 2 = IndexErr.
Proof.
  pose proof (sqrt_sqrt 3 ltac:(lra)) as H3. pose proof (sqrt_pos 3) as H3p. pose proof PI_RGT_0 as Hpi.
  assert (Hc : inc_leg_cartesian NumR f1_path [0%nat; 0%nat] 1 = Val (1 / 4, sqrt 3 / 4, sqrt 3 / 2)).
  { rewrite (inc_leg_cartesian_value NumR f1_path [0%nat; 0%nat] eq_refl 1 0%nat
               (1 / 4, sqrt 3 / 4, sqrt 3 / 2) (0, 0, 0) id_frame eq_refl eq_refl eq_refl eq_refl).
    unfold from_gcs, id_frame. v3_unfold. f_equal. v3_split; ring. }
  assert (Hr : sph_r NumR (1 / 4, sqrt 3 / 4, sqrt 3 / 2) = 1).
  { unfold sph_r. rewrite norm2_acc_R. cbn [vx vy vz fst snd].
    replace (1 / 4 * (1 / 4) + sqrt 3 / 4 * (sqrt 3 / 4) + sqrt 3 / 2 * (sqrt 3 / 2)) with 1 by (field_simplify; nra).
    apply sqrt_1. }
  assert (Hp : inc_leg_polar NumR f1_path [0%nat; 0%nat] 1 = Val (PI / 6)).
  { unfold inc_leg_polar, inc_leg_radius. rewrite Hc. cbn [rmap rbind]. rewrite Hr. f_equal.
    unfold sph_theta. cbn [NumR nacos ndiv vz snd]. replace (sqrt 3 / 2 / 1) with (cos (PI / 6)) by (rewrite cos_PI6; field).
    apply acos_cos. lra. }
  assert (Ha : inc_leg_azimuth NumR f1_path [0%nat; 0%nat] 1 = Val (PI / 3)).
  { unfold inc_leg_azimuth. rewrite Hc. cbn [rmap rbind]. f_equal.
    unfold sph_phi. cbn [NumR natan2 vx vy fst snd]. unfold Ratan2.
    rewrite (Raux.Rlt_bool_true 0 (1 / 4)) by lra.
    replace (sqrt 3 / 4 / (1 / 4)) with (tan (PI / 3)) by (rewrite tan_PI3; field).
    apply atan_tan. lra. }
  assert (Hs : signed_inc_angle NumR f1_path [0%nat; 0%nat] 1 = Val (PI / 6)).
  { apply (signed_inc_rule_R f1_path [0%nat; 0%nat] 1 (PI / 6) (PI / 3) Hp Ha). lra. }
  repeat split; try assumption; try reflexivity.
  - unfold inc_leg_radius. rewrite Hc. cbn [rmap rbind]. rewrite Hr. reflexivity.
  - rewrite (leg_size_is_distance_R f1_path [0%nat; 0%nat] eq_refl 1 0%nat (1 / 4, sqrt 3 / 4, sqrt 3 / 2) (0, 0, 0) eq_refl eq_refl eq_refl).
    f_equal. unfold euclid. cbn [vx vy vz fst snd].
    replace ((1 / 4 - 0) * (1 / 4 - 0) + (sqrt 3 / 4 - 0) * (sqrt 3 / 4 - 0) + (sqrt 3 / 2 - 0) * (sqrt 3 / 2 - 0)) with 1
      by (field_simplify; nra).
    apply sqrt_1.
Qed.

(* orthonormal frames exist beyond in-plane rotations: a yaw-pitch frame, proper or with one
   tangent flipped (improper), satisfies the hypothesis of the radius / angle theorems *)
Example orthonormal_frames_exist : forall a b,
  cols_orthonormal NumR (yaw_pitch_frame 1 a b) /\ cols_orthonormal NumR (yaw_pitch_frame (-1) a b) /\
  rows_orthonormal NumR (yaw_pitch_frame 1 a b) /\ rows_orthonormal NumR (yaw_pitch_frame (-1) a b).
Proof. exact yaw_pitch_frames_orthonormal. Qed.

(* the hypotheses of inc_is_out_of_reverse are satisfiable: 3 interfaces, 2 x 2 rays, the
   middle interface has 3 points *)
Example reverse_hypotheses_satisfiable :
  let interior := [ [ [2%nat; 0%nat]; [1%nat; 1%nat] ] ] in
  interior_shape 2 2 interior /\
  ray_column (make_indices 2 2 interior) 0 1 = Some [0%nat; 0%nat; 1%nat] /\
  ray_column (make_indices 2 2 (rays_reverse_interior 2 interior)) 1 0 = Some [1%nat; 0%nat; 0%nat] /\
  resolve 3 (-2) = Some 1%nat /\ resolve 3 1 = Some (3 - 1 - 1)%nat.
Proof.
  cbn. repeat split; try reflexivity.
  - destruct H as [<-|[]]. reflexivity.
  - intros row Hr. destruct H as [<-|[]]. destruct Hr as [<-|[<-|[]]]; reflexivity.
Qed.

(* ... and so are those of legs_sum_to_time: the solver answers on every path whose interior
   point sets are non-empty (C01 solve_defined) *)
Example time_hypotheses_satisfiable : forall (P0 P1 P2 : Fermat.pset (T:=R)) v0 v1,
  (1 <= Fermat.psize P1)%nat ->
  let p := Fermat.Leg (Fermat.Leg (Fermat.Start P0) v0 P1) v1 P2 in
  FermatProofs.interior_ok Fermat.psize p /\ (exists r, Fermat.c_solve_pure NumR p = Some r) /\
  path_sets p = [P0; P1; P2] /\ path_vels p = [v0; v1].
Proof.
  intros P0 P1 P2 v0 v1 H1 p.
  assert (Hok : FermatProofs.interior_ok Fermat.psize p) by (cbn; auto).
  split; [exact Hok|]. split; [|split; reflexivity].
  apply (FermatProofs.solve_defined_b R R R Fermat.pset Rle_bool Rlt_bool Rplus Fermat.psize
           (Fermat.distance_pairwise NumR) Rdiv (Fermat.leg_entry NumR)
           Rle_bool_total_preorder (FermatProofs.c_leg_tab NumR) p); [cbn; lia | exact Hok].
Qed.

(* ==================================================================================================
   The OBJECT-LEVEL glue (Model/RayGeomGlue.v; proofs in Proofs/RayGeomGlueProofs.v, axiom-free, and
   Proofs/RayGeomGlueRealProofs.v): the index table of a Rays object as a flat buffer in C or Fortran
   order with a dtype, the constructors Interface.__init__ / Rays.__init__ / Rays.make_indices /
   RayGeometry.__init__ / from_path with their exceptions, np.take on SIGNED point indices, the flags
   as Python values, and the 17 methods written once over the two gathers (`o_all N ifs col idx` = the
   17 answers, in the order of the source, for the ray whose column rays.indices[:, i, j] is col).
   Executions replayed on the library: Proofs/RayGeomGlueExamples.v, notes/prover_C05_TIE.md.
   ================================================================================================== *)
From Arim Require Import Model.RayGeomGlue Proofs.RayGeomGlueProofs Proofs.RayGeomGlueRealProofs.
From Arim Require Proofs.RayGeomGlueExamples.   (* the vm_compute executions are checked with this target *)
Local Close Scope R_scope.

(* ---- the index table: memory order and dtype ------------------------------------------------------- *)
(* entry (k, i, j) of an array stored in C order (strides n m, m, 1) or in Fortran order
   (strides 1, D, D n) is read back at its own offset *)
Theorem table_entry_in_either_order : forall o dt D n m (f : nat -> nat -> nat -> Z) k i j,
  k < D -> i < n -> j < m -> tbl_get (tbl_of_fun o dt D n m f) k i j = Some (f k i j).
Proof. exact tbl_get_of_fun. Qed.

(* the column of ray (i, j) does not depend on the order nor on the dtype tag of the table ... *)
Theorem ray_column_order_irrelevant : forall o o' dt dt' D n m (f : nat -> nat -> nat -> Z) i j,
  i < n -> j < m -> tbl_column (tbl_of_fun o dt D n m f) i j = tbl_column (tbl_of_fun o' dt' D n m f) i j.
Proof. exact tbl_column_order_irrelevant. Qed.

(* ... and only on the entries [:, i, j]: the other rays stored in the table are irrelevant *)
Theorem ray_column_depends_on_its_entries_only : forall o dt D n m (f g : nat -> nat -> nat -> Z) i j,
  i < n -> j < m -> (forall k, k < D -> f k i j = g k i j) ->
  tbl_column (tbl_of_fun o dt D n m f) i j = tbl_column (tbl_of_fun o dt D n m g) i j.
Proof. exact tbl_column_depends_on_column_only. Qed.

(* Rays.make_indices: rays.indices[:, i, j] = [i] ++ interior[:, i, j] ++ [j], with i and j CAST to
   the dtype of the interior indices, whatever order is requested or chosen from the layout flags *)
Theorem make_indices_column_spec : forall interior ord d n m i j,
  length (a_data interior) = d -> i < n -> j < m ->
  tbl_column (make_indices_tbl interior ord d n m) i j =
  Some (cast (a_dtype interior) (Z.of_nat i) :: interior_column (a_data interior) i j
        ++ [cast (a_dtype interior) (Z.of_nat j)]).
Proof. exact make_indices_column. Qed.

Theorem make_indices_layout_irrelevant_thm : forall interior interior' ord ord' d n m i j,
  a_data interior = a_data interior' -> a_dtype interior = a_dtype interior' ->
  length (a_data interior) = d -> i < n -> j < m ->
  tbl_column (make_indices_tbl interior ord d n m) i j = tbl_column (make_indices_tbl interior' ord' d n m) i j.
Proof. exact make_indices_layout_irrelevant. Qed.

(* any signed integer dtype with room for the first and last point sets gives the same column,
   with first entry i and last entry j *)
Theorem index_dtype_irrelevant_when_wide_enough : forall interior interior' ord ord' d n m bits bits' i j,
  a_data interior = a_data interior' -> a_dtype interior = DInt bits -> a_dtype interior' = DInt bits' ->
  (0 < bits)%Z -> (0 < bits')%Z ->
  (Z.of_nat (Nat.max n m) <= 2 ^ (bits - 1))%Z -> (Z.of_nat (Nat.max n m) <= 2 ^ (bits' - 1))%Z ->
  length (a_data interior) = d -> i < n -> j < m ->
  tbl_column (make_indices_tbl interior ord d n m) i j = tbl_column (make_indices_tbl interior' ord' d n m) i j /\
  tbl_column (make_indices_tbl interior ord d n m) i j =
    Some (Z.of_nat i :: interior_column (a_data interior) i j ++ [Z.of_nat j]).
Proof. exact make_indices_dtype_irrelevant. Qed.

(* the full statement "indices[0, i, j] = i for every accepted dtype" is FALSE of the code: with int8
   interior indices and 200 first points the entry for i = 128 is -128, which np.take reads as the
   point 72 (replayed on the library: notes/prover_C05_TIE.md, example E9) *)
Theorem first_row_is_i_refuted_for_narrow_dtype : exists interior n m i j,
  kind_i (a_dtype interior) = true /\ i < n /\ j < m /\
  tbl_column (make_indices_tbl interior None 0 n m) i j = Some [(-128)%Z; 0%Z] /\ i = 128 /\
  resolve n (-128) = Some 72.
Proof.
  exists (mkArr [0; 200; 1] (DInt 8) true false []), 200, 1, 128, 0.
  vm_compute. repeat split; try reflexivity; repeat constructor.
Qed.

(* ---- constructors ------------------------------------------------------------------------------------ *)
(* Rays.__init__ builds the object iff its six assertions hold, and then stores make_indices' table *)
Theorem rays_constructor_accepts_iff : forall T times interior (fpoints : list (points (T:=T))) ord r,
  rays_init times interior fpoints ord = Built r <->
  exists d n m, rays_args_ok times interior fpoints d n m /\
                r = mkRays times (make_indices_tbl interior ord d n m) fpoints.
Proof. exact @rays_init_built. Qed.

Theorem rays_constructor_only_asserts : forall T times interior (fpoints : list (points (T:=T))) ord,
  fpoints <> [] ->
  rays_init times interior fpoints ord = BAssert \/ exists r, rays_init times interior fpoints ord = Built r.
Proof. exact @rays_init_error_kind. Qed.

(* RayGeometry.__init__: AssertionError unless the Points of the Fermat path ARE (identity) the Points
   of the interfaces, one for one *)
Theorem raygeometry_constructor_accepts_iff : forall T (ifs : list (interface (T:=T))) r g,
  (raygeom_init ifs r = Built g <->
   map p_id (r_fpoints r) = map (fun f => p_id (i_points f)) ifs /\ g = mkRayGeom ifs r) /\
  (map p_id (r_fpoints r) <> map (fun f => p_id (i_points f)) ifs <-> raygeom_init ifs r = BAssert).
Proof. intros T ifs r g. exact (conj (raygeom_init_built ifs r g) (raygeom_init_assert ifs r)). Qed.

(* RayGeometry.from_path: ValueError iff path.rays is None, otherwise the constructor *)
Theorem from_path_requires_rays : forall T (p : path (T:=T)),
  match pa_rays p with
  | None => raygeom_from_path p = BValue
  | Some r => raygeom_from_path p = raygeom_init (pa_interfaces p) r /\ raygeom_from_path p <> BValue
  end.
Proof. exact @raygeom_from_path_spec. Qed.

(* Interface.__init__: what a built interface holds (one frame per point in particular) *)
Theorem interface_constructor_spec : forall T (pts : points (T:=T)) o inc out f,
  interface_init pts o inc out = Built f ->
  interface_wf f /\ i_points f = pts /\ i_inc f = inc /\ i_out f = out /\
  none_or_bool inc = true /\ none_or_bool out = true /\
  i_orient f = match o with OneFrame B => repeat B (npoints pts) | PerPoint l => l end.
Proof. exact @interface_init_built. Qed.

(* one frame given for all points = that frame stored per point: the same object, never rejected *)
Theorem one_frame_is_broadcast : forall T (pts : points (T:=T)) B inc out,
  interface_init pts (OneFrame B) inc out = interface_init pts (PerPoint (repeat B (npoints pts))) inc out /\
  (none_or_bool inc = true -> none_or_bool out = true ->
   interface_init pts (OneFrame B) inc out = Built (mkInterface pts (repeat B (npoints pts)) inc out)).
Proof. exact @interface_init_broadcast. Qed.

Theorem interface_constructor_errors : forall T (pts : points (T:=T)) o inc out,
  (none_or_bool inc = false \/ none_or_bool out = false -> interface_init pts o inc out = BAssert) /\
  (none_or_bool inc = true -> none_or_bool out = true ->
   forall l, o = PerPoint l -> length l <> npoints pts -> interface_init pts o inc out = BValue).
Proof. exact @interface_init_errors. Qed.

(* ---- the objects refine Model/RayGeom.v ---------------------------------------------------------------- *)
(* the 17 methods are functions of leg_points, orientations_of_legs_points, the flags and the number
   of interfaces, and of nothing else *)
Theorem methods_depend_only_on_the_two_gathers : forall T (N : Num T) nif lp lp' lo lo' finc finc' fout fout',
  (forall idx, lp idx = lp' idx) -> (forall idx, lo idx = lo' idx) ->
  (forall a, a < nif -> finc a = finc' a) -> (forall a, a < nif -> fout a = fout' a) ->
  forall idx, m_all N nif lp lo finc fout idx = m_all N nif lp' lo' finc' fout' idx.
Proof. exact @m_all_ext. Qed.

(* Model/RayGeom.v is these 17 methods over its own gathers ... *)
Theorem core_model_is_the_generic_methods : forall T (N : Num T) (ifs : list (iface (T:=T))) ray idx,
  core_all N ifs ray idx =
  m_all N (length ifs) (leg_points ifs ray) (orientations_of_legs_points ifs ray)
        (core_flag ifs if_inc) (core_flag ifs if_out) idx.
Proof. exact @core_all_generic. Qed.

(* ... and the object with SIGNED point indices and Python flags answers, in all 17 methods, as
   Model/RayGeom.v on the normalised ray: every theorem above applies to the objects *)
Theorem object_queries_are_core_queries : forall T (N : Num T) (ifs : list (interface (T:=T))) col,
  length col = length ifs -> Forall interface_wf ifs ->
  forall idx, o_all N ifs col idx = core_all N (map to_iface ifs) (normalise ifs col) idx.
Proof. exact @o_all_refines. Qed.

(* for a RayGeometry built by the constructors this holds for every ray of the table, and the
   hypothesis `length ray = length ifs` of the theorems above holds by construction *)
Theorem constructed_geometry_refines_core : forall T (N : Num T) times interior (fpoints : list (points (T:=T))) ord r ifs g,
  rays_init times interior fpoints ord = Built r -> raygeom_init ifs r = Built g ->
  length (a_data interior) = hd 0 (a_shape interior) -> Forall interface_wf ifs ->
  forall i j, i < t_n (r_indices r) -> j < t_m (r_indices r) ->
  exists col, rg_column g i j = Some col /\
    length (normalise ifs col) = length (map to_iface ifs) /\
    forall idx, o_all N ifs col idx = core_all N (map to_iface ifs) (normalise ifs col) idx.
Proof. exact @built_geometry_refines_core. Qed.

Theorem constructed_geometry_shape : forall T times interior (fpoints : list (points (T:=T))) ord r ifs g,
  rays_init times interior fpoints ord = Built r -> raygeom_init ifs r = Built g ->
  length (a_data interior) = hd 0 (a_shape interior) ->
  exists p0 rest, fpoints = p0 :: rest /\ t_n (r_indices r) = npoints p0 /\
                  t_m (r_indices r) = npoints (last fpoints p0) /\
                  t_d (r_indices r) = length ifs /\ length ifs = length fpoints /\
                  map p_id fpoints = map (fun f => p_id (i_points f)) ifs.
Proof. exact @built_shape. Qed.

(* two instances of the transfer, on the reals *)
Theorem object_leg_size_is_distance : forall (ifs : list (interface (T:=R))) col,
  length col = length ifs -> Forall interface_wf ifs ->
  forall idx a s e, resolve (length ifs) idx = Some (S a) ->
  ray_point (map to_iface ifs) (normalise ifs col) a = Some s ->
  ray_point (map to_iface ifs) (normalise ifs col) (S a) = Some e ->
  o_inc_leg_size NumR ifs col idx = Val (euclid s e).
Proof. exact o_leg_size_is_distance. Qed.

Theorem object_polar_range : forall (ifs : list (interface (T:=R))) col idx theta,
  (o_inc_leg_polar NumR ifs col idx = Val theta -> (0 <= theta <= PI)%R) /\
  (o_out_leg_polar NumR ifs col idx = Val theta -> (0 <= theta <= PI)%R).
Proof. exact o_polar_range. Qed.

(* ---- np.take on signed point indices --------------------------------------------------------------------- *)
(* the point read at an interface: k and k - numpoints are the same point, anything outside
   -numpoints .. numpoints-1 is IndexError (for the coordinates and for the frames alike) *)
Theorem take_semantics_of_the_gathers : forall T (ifs : list (interface (T:=T))) col idx a f z,
  resolve (length ifs) idx = Some a -> length col = length ifs ->
  nth_error ifs a = Some f -> nth_error col a = Some z ->
  o_leg_points ifs col idx =
    match resolve (npoints (i_points f)) z with
    | Some p => of_opt (nth_error (p_coords (i_points f)) p)
    | None => IndexErr
    end /\
  o_orientations ifs col idx =
    match resolve (length (i_orient f)) z with
    | Some p => of_opt (nth_error (i_orient f) p)
    | None => IndexErr
    end.
Proof. exact @o_leg_points_spec. Qed.

(* two columns designating the same points give the same 17 answers *)
Theorem same_points_same_answers : forall T (N : Num T) (ifs : list (interface (T:=T))) col col',
  length col = length ifs -> length col' = length ifs -> Forall interface_wf ifs ->
  forall idx, normalise ifs col = normalise ifs col' -> o_all N ifs col idx = o_all N ifs col' idx.
Proof. exact @o_all_same_points. Qed.

(* in particular with EVERY valid entry replaced by its other spelling (k <-> k - numpoints) *)
Theorem negative_point_indices_same_answers : forall T (N : Num T) (ifs : list (interface (T:=T))) col,
  length col = length ifs -> Forall interface_wf ifs ->
  forall idx, o_all N ifs (respell ifs col) idx = o_all N ifs col idx.
Proof. exact @o_all_respell. Qed.

(* ---- the declared side of the normals --------------------------------------------------------------------- *)
(* the three cases of the code: `is None` -> ValueError, truthy -> theta, falsy -> pi - theta *)
Theorem conventional_angle_three_cases : forall T (N : Num T) (ifs : list (interface (T:=T))) col idx a f,
  resolve (length ifs) idx = Some a -> nth_error ifs a = Some f ->
  (a <> 0 ->
     (is_none (i_inc f) = true -> o_conventional_inc_angle N ifs col idx = ValueErr) /\
     (is_none (i_inc f) = false -> truthy (i_inc f) = true ->
        o_conventional_inc_angle N ifs col idx = o_inc_leg_polar N ifs col idx) /\
     (is_none (i_inc f) = false -> truthy (i_inc f) = false ->
        o_conventional_inc_angle N ifs col idx = rmap (supplement N) (o_inc_leg_polar N ifs col idx))) /\
  (a <> length ifs - 1 ->
     (is_none (i_out f) = true -> o_conventional_out_angle N ifs col idx = ValueErr) /\
     (is_none (i_out f) = false -> truthy (i_out f) = true ->
        o_conventional_out_angle N ifs col idx = o_out_leg_polar N ifs col idx) /\
     (is_none (i_out f) = false -> truthy (i_out f) = false ->
        o_conventional_out_angle N ifs col idx = rmap (supplement N) (o_out_leg_polar N ifs col idx))).
Proof. exact @o_conventional_cases. Qed.

(* only `is None` and the truth value of a flag matter, in all 17 methods (True / 1, False / 0) *)
Theorem flag_spelling_irrelevant : forall T (N : Num T) (ifs ifs' : list (interface (T:=T))) col idx,
  Forall2 same_but_flags ifs ifs' -> o_all N ifs col idx = o_all N ifs' col idx.
Proof. exact @o_all_same_flags. Qed.

(* ---- error kinds and their order ---------------------------------------------------------------------------- *)
Theorem interface_index_out_of_range_everywhere : forall T (N : Num T) (ifs : list (interface (T:=T))) col idx,
  resolve (length ifs) idx = None ->
  o_all N ifs col idx =
  (IndexErr, IndexErr, IndexErr, IndexErr, IndexErr, IndexErr, IndexErr, IndexErr, IndexErr, IndexErr,
   IndexErr, IndexErr, IndexErr, IndexErr, IndexErr, IndexErr, IndexErr).
Proof. exact @o_interface_out_of_range. Qed.

(* None at the ends of the path comes first: whatever the flags and the point indices are *)
Theorem ends_answer_none_first : forall T (N : Num T) (ifs : list (interface (T:=T))) col idx,
  (resolve (length ifs) idx = Some 0 ->
     o_inc_leg_size N ifs col idx = NoLeg /\ o_inc_leg_cartesian N ifs col idx = NoLeg /\
     o_inc_leg_radius N ifs col idx = NoLeg /\ o_inc_leg_polar N ifs col idx = NoLeg /\
     o_inc_leg_azimuth N ifs col idx = NoLeg /\ o_inc_angle N ifs col idx = NoLeg /\
     o_signed_inc_angle N ifs col idx = NoLeg /\ o_conventional_inc_angle N ifs col idx = NoLeg) /\
  (resolve (length ifs) idx = Some (length ifs - 1) ->
     o_out_leg_cartesian N ifs col idx = NoLeg /\
     o_out_leg_radius N ifs col idx = NoLeg /\ o_out_leg_polar N ifs col idx = NoLeg /\
     o_out_leg_azimuth N ifs col idx = NoLeg /\ o_out_angle N ifs col idx = NoLeg /\
     o_signed_out_angle N ifs col idx = NoLeg /\ o_conventional_out_angle N ifs col idx = NoLeg).
Proof. exact @o_first_last_none. Qed.

(* an undeclared side raises ValueError before any point index is read *)
Theorem value_error_before_point_indices : forall T (N : Num T) (ifs : list (interface (T:=T))) col idx a f,
  resolve (length ifs) idx = Some a -> nth_error ifs a = Some f ->
  (a <> 0 -> is_none (i_inc f) = true -> o_conventional_inc_angle N ifs col idx = ValueErr) /\
  (a <> length ifs - 1 -> is_none (i_out f) = true -> o_conventional_out_angle N ifs col idx = ValueErr).
Proof. exact @o_value_error_first. Qed.

(* ---- every ray is independent of the rays stored with it ---------------------------------------------------- *)
(* a block: the first interface restricted to the points `rows`, the last one to `cols`; its ray
   (a, b) answers in all 17 methods as the ray (rows[a], cols[b]) of the whole *)
Theorem block_of_rays_answers_alike : forall T (N : Num T) (f0 fl : interface (T:=T)) mids rows cols id0 idl mid,
  length mid = length mids ->
  Forall (fun k => k < npoints (i_points f0)) rows -> Forall (fun k => k < npoints (i_points fl)) cols ->
  interface_wf f0 -> interface_wf fl ->
  forall a b ra cb, nth_error rows a = Some ra -> nth_error cols b = Some cb ->
  forall idx,
    o_all N (interface_pick id0 rows f0 :: mids ++ [interface_pick idl cols fl]) (Z.of_nat a :: mid ++ [Z.of_nat b]) idx =
    o_all N (f0 :: mids ++ [fl]) (Z.of_nat ra :: mid ++ [Z.of_nat cb]) idx.
Proof. exact @block_o_all. Qed.

(* the interior table of the block x[:, rows][:, :, cols] holds the interior entries of those rays *)
Theorem block_table_column : forall n m rows cols data a b ra cb,
  (forall lay, In lay data -> length lay = n /\ forall row, In row lay -> length row = m) ->
  Forall (fun k => k < n) rows -> Forall (fun k => k < m) cols ->
  nth_error rows a = Some ra -> nth_error cols b = Some cb ->
  interior_column (data_pick rows cols data) a b = interior_column data ra cb.
Proof. exact interior_column_pick. Qed.

(* end to end through Rays.make_indices, any orders / layouts of the two tables *)
Theorem block_of_table_end_to_end : forall T (N : Num T) (f0 fl : interface (T:=T)) mids rows cols id0 idl
    interior ord ord' c' f' bits,
  (forall lay, In lay (a_data interior) ->
     length lay = npoints (i_points f0) /\ forall row, In row lay -> length row = npoints (i_points fl)) ->
  length (a_data interior) = length mids -> a_dtype interior = DInt bits -> (0 < bits)%Z ->
  (Z.of_nat (Nat.max (npoints (i_points f0)) (npoints (i_points fl))) <= 2 ^ (bits - 1))%Z ->
  (Z.of_nat (Nat.max (length rows) (length cols)) <= 2 ^ (bits - 1))%Z ->
  Forall (fun k => k < npoints (i_points f0)) rows -> Forall (fun k => k < npoints (i_points fl)) cols ->
  interface_wf f0 -> interface_wf fl ->
  forall a b ra cb, nth_error rows a = Some ra -> nth_error cols b = Some cb ->
  let block := mkArr [length mids; length rows; length cols] (DInt bits) c' f' (data_pick rows cols (a_data interior)) in
  exists col col',
    tbl_column (make_indices_tbl interior ord (length mids) (npoints (i_points f0)) (npoints (i_points fl))) ra cb = Some col /\
    tbl_column (make_indices_tbl block ord' (length mids) (length rows) (length cols)) a b = Some col' /\
    forall idx,
      o_all N (interface_pick id0 rows f0 :: mids ++ [interface_pick idl cols fl]) col' idx =
      o_all N (f0 :: mids ++ [fl]) col idx.
Proof. exact @block_end_to_end. Qed.

(* ---- reversal on the objects ---------------------------------------------------------------------------------- *)
(* Rays.reverse never fails on a Rays object; the ray (j, i) of the result is the ray (i, j) read
   backwards, whatever memory order is requested, also with entries counted from the end *)
Theorem rays_reverse_on_objects : forall T times interior (fpoints : list (points (T:=T))) ord r,
  rays_init times interior fpoints ord = Built r -> length (a_data interior) = hd 0 (a_shape interior) ->
  forall o, exists r',
    rays_reverse r o = Built r' /\ r_fpoints r' = rev fpoints /\
    t_n (r_indices r') = t_m (r_indices r) /\ t_m (r_indices r') = t_n (r_indices r) /\
    t_d (r_indices r') = t_d (r_indices r) /\
    forall i j, i < t_n (r_indices r) -> j < t_m (r_indices r) ->
      tbl_column (r_indices r') j i = option_map (@rev Z) (tbl_column (r_indices r) i j).
Proof. exact @rays_reverse_spec. Qed.

(* incoming at k = outgoing at n-1-k of the reversed interfaces with the reversed column, for signed
   point indices and Python flags *)
Theorem object_inc_is_out_of_reverse : forall T (N : Num T) (ifs : list (interface (T:=T))) col,
  length col = length ifs -> Forall interface_wf ifs ->
  forall idx idx' k, resolve (length ifs) idx = Some k -> resolve (length ifs) idx' = Some (length ifs - 1 - k) ->
  o_inc_leg_cartesian N ifs col idx = o_out_leg_cartesian N (interfaces_reverse ifs) (rev col) idx' /\
  o_inc_leg_radius N ifs col idx = o_out_leg_radius N (interfaces_reverse ifs) (rev col) idx' /\
  o_inc_leg_polar N ifs col idx = o_out_leg_polar N (interfaces_reverse ifs) (rev col) idx' /\
  o_inc_leg_azimuth N ifs col idx = o_out_leg_azimuth N (interfaces_reverse ifs) (rev col) idx' /\
  o_inc_angle N ifs col idx = o_out_angle N (interfaces_reverse ifs) (rev col) idx' /\
  o_signed_inc_angle N ifs col idx = o_signed_out_angle N (interfaces_reverse ifs) (rev col) idx' /\
  o_conventional_inc_angle N ifs col idx = o_conventional_out_angle N (interfaces_reverse ifs) (rev col) idx'.
Proof. exact @o_inc_is_out_of_reverse. Qed.

(* ---- rigid motions --------------------------------------------------------------------------------------------- *)
(* every point p -> Q.p + t (Q orthogonal, proper or not), every frame B -> B.Q^T: leg_points and the
   frames move along, the other 15 answers (all leg lengths and angles, None and errors included) are
   unchanged *)
Theorem rigid_motion_invariance_all_methods : forall Q t, cols_orthonormal NumR Q ->
  forall (ifs : list (interface (T:=R))) col idx,
  o_all NumR (map (mv_interface NumR Q t) ifs) col idx =
  with_gathers (rmap (mv_point NumR Q t) (o_leg_points ifs col idx))
               (rmap (mv_frame NumR Q) (o_orientations ifs col idx)) (o_all NumR ifs col idx).
Proof. exact o_all_rigid_motion. Qed.

(* Points.translate(t) on every set of points, frames untouched *)
Theorem translation_invariance_all_methods : forall t (ifs : list (interface (T:=R))) col idx,
  o_all NumR (map (translate_interface NumR t) ifs) col idx =
  with_gathers (rmap (fun p => vadd NumR p t) (o_leg_points ifs col idx)) (o_orientations ifs col idx)
               (o_all NumR ifs col idx).
Proof. exact o_all_translation. Qed.

(* ---- non-vacuity of the object-level theorems ------------------------------------------------------------------ *)
(* three interfaces with 2, 3 and 2 points; a (1, 2, 2) interior table of dtype int16 with entries
   counted from the end (the scene of Proofs/RayGeomGlueExamples.v, replayed on the library) *)
Definition q0 : points (T:=R) := mkPoints 10 [(0, 0, 0); (3, 0, 0)]%R.
Definition q1 : points (T:=R) := mkPoints 11 [(0, 0, 4); (3, 0, 4); (6, 0, 4)]%R.
Definition q2 : points (T:=R) := mkPoints 12 [(0, 0, 8); (3, 0, 8)]%R.
Definition g0 : interface (T:=R) := mkInterface q0 [id_frame; id_frame] PyNone (PyBool true).
Definition g1 : interface (T:=R) := mkInterface q1 [id_frame; id_frame; id_frame] (PyBool true) (PyBool false).
Definition g2 : interface (T:=R) := mkInterface q2 [id_frame; id_frame] (PyBool false) PyNone.
Definition gifs : list (interface (T:=R)) := [g0; g1; g2].
Definition ginterior : ndarray3 := mkArr [1; 2; 2] (DInt 16) true false [[[0; -2]; [1; -1]]]%Z.
Definition gtimes : times_arr := mkTimes [2; 2] DFloat.

Example gifs_wf : Forall interface_wf gifs.
Proof. repeat constructor. Qed.

(* the constructors accept the scene (hypotheses of constructed_geometry_refines_core /
   constructed_geometry_shape / rays_reverse_on_objects), the ray (0, 1) has the column [0, -2, 1] *)
Example constructors_accept_the_scene :
  interface_init q0 (OneFrame id_frame) PyNone (PyBool true) = Built g0 /\
  interface_init q1 (PerPoint [id_frame; id_frame; id_frame]) (PyBool true) (PyBool false) = Built g1 /\
  exists r g,
    rays_init gtimes ginterior [q0; q1; q2] None = Built r /\ raygeom_init gifs r = Built g /\
    length (a_data ginterior) = hd 0 (a_shape ginterior) /\
    0 < t_n (r_indices r) /\ 1 < t_m (r_indices r) /\
    rg_column g 0 1 = Some [0; -2; 1]%Z /\
    rays_args_ok gtimes ginterior [q0; q1; q2] 1 2 2.
Proof.
  split; [reflexivity|]. split; [reflexivity|].
  eexists. eexists. split; [reflexivity|]. split; [reflexivity|].
  split; [reflexivity|]. split; [cbn; lia|]. split; [cbn; lia|]. split; [reflexivity|].
  unfold rays_args_ok. repeat split; try reflexivity. exists q0, [q1; q2]. repeat split; reflexivity.
Qed.

(* ... and reject: a Points object with equal coordinates but another identity (AssertionError), a
   missing frame (ValueError), an integer flag at construction (AssertionError), rays not computed *)
Example constructors_reject :
  (forall r, r_fpoints r = [q0; mkPoints 99 (p_coords q1); q2] -> raygeom_init gifs r = BAssert) /\
  interface_init q1 (PerPoint [id_frame; id_frame]) PyNone PyNone = BValue /\
  interface_init q1 (OneFrame id_frame) (PyInt 1) PyNone = BAssert /\
  raygeom_from_path (mkPath gifs None) = BValue /\
  rays_init gtimes (mkArr [1; 2; 2] (DUInt 16) true false [[[0; 1]; [1; 2]]]%Z) [q0; q1; q2] None = BAssert.
Proof.
  repeat split; try reflexivity.
  intros r Hr. apply raygeom_init_assert. rewrite Hr. cbn. discriminate.
Qed.

(* the column [0, -2, 1] and its respelling [-2, 1, -1] designate the points 0, 1, 1; they differ in
   every entry (negative_point_indices_same_answers / same_points_same_answers are not vacuous) *)
Example respelling_is_not_trivial :
  respell gifs [0; -2; 1]%Z = [-2; 1; -1]%Z /\ normalise gifs [0; -2; 1]%Z = [0; 1; 1] /\
  normalise gifs [-2; 1; -1]%Z = [0; 1; 1] /\ length [0; -2; 1]%Z = length gifs.
Proof. repeat split; reflexivity. Qed.

(* the three flag cases occur in the scene; flags spelled with integers are another list of
   interfaces related by same_but_flags; an undeclared side exists *)
Example flag_cases_occur :
  resolve (length gifs) 1 = Some 1 /\ nth_error gifs 1 = Some g1 /\ 1 <> 0 /\ 1 <> length gifs - 1 /\
  is_none (i_inc g1) = false /\ truthy (i_inc g1) = true /\ is_none (i_out g1) = false /\ truthy (i_out g1) = false /\
  is_none (i_inc g0) = true /\
  Forall2 same_but_flags gifs [g0; mkInterface q1 [id_frame; id_frame; id_frame] (PyInt 1) (PyInt 0); g2] /\
  gifs <> [g0; mkInterface q1 [id_frame; id_frame; id_frame] (PyInt 1) (PyInt 0); g2].
Proof.
  repeat split; try reflexivity; try (cbn; lia).
  - repeat constructor.
  - intros H. discriminate H.
Qed.

(* a block of the scene: first points [1], last points [1; 0] *)
Example block_hypotheses_satisfiable :
  Forall (fun k => k < npoints (i_points g0)) [1] /\ Forall (fun k => k < npoints (i_points g2)) [1; 0] /\
  interface_wf g0 /\ interface_wf g2 /\ nth_error [1] 0 = Some 1 /\ nth_error [1; 0] 1 = Some 0 /\
  length [(-1)%Z] = length [g1] /\
  (forall lay, In lay (a_data ginterior) ->
     length lay = npoints (i_points g0) /\ forall row, In row lay -> length row = npoints (i_points g2)) /\
  (Z.of_nat (Nat.max (npoints (i_points g0)) (npoints (i_points g2))) <= 2 ^ (16 - 1))%Z /\
  data_pick [1] [1; 0] (a_data ginterior) = [[[-1; 1]]]%Z.
Proof.
  repeat split; try reflexivity; try (repeat constructor; fail).
  - destruct H as [<-|[]]. reflexivity.
  - destruct H as [<-|[]]. intros row [<-|[<-|[]]]; reflexivity.
  - cbn. lia.
Qed.

(* reversal: interface 1 of 3 spelled 1 and -2 *)
Example object_reverse_hypotheses_satisfiable :
  resolve (length gifs) 1 = Some 1 /\ resolve (length gifs) (-2) = Some (length gifs - 1 - 1) /\
  interfaces_reverse gifs = [mkInterface q2 [id_frame; id_frame] PyNone (PyBool false);
                             mkInterface q1 [id_frame; id_frame; id_frame] (PyBool false) (PyBool true);
                             mkInterface q0 [id_frame; id_frame] (PyBool true) PyNone].
Proof. repeat split; reflexivity. Qed.

(* tables: a 3 x 2 x 2 table in both orders; room in int16 and int32 for 2 points *)
Example table_hypotheses_satisfiable :
  tbl_get (tbl_of_fun OrdF (DInt 16) 3 2 2 (fun k i j => Z.of_nat (100 * k + 10 * i + j))) 2 1 0 = Some 210%Z /\
  t_buf (tbl_of_fun OrdC (DInt 16) 2 2 2 (fun k i j => Z.of_nat (100 * k + 10 * i + j))) = [0; 1; 10; 11; 100; 101; 110; 111]%Z /\
  t_buf (tbl_of_fun OrdF (DInt 16) 2 2 2 (fun k i j => Z.of_nat (100 * k + 10 * i + j))) = [0; 100; 10; 110; 1; 101; 11; 111]%Z /\
  (Z.of_nat (Nat.max 2 2) <= 2 ^ (16 - 1))%Z /\ (Z.of_nat (Nat.max 2 2) <= 2 ^ (32 - 1))%Z.
Proof. repeat split; try reflexivity; cbn; lia. Qed.
