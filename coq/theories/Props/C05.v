(* Props/C05.v — Ray geometry: leg lengths, travel time and angle conventions are as
   documented (docs/source/model/coordinate_system.rst).  Statements only; proofs in
   Proofs/RayGeomProofs.v (any numeric instance), Proofs/RayGeomRealProofs.v (reals),
   Proofs/RayGeomTimeProofs.v (travel time, on top of C01's solver theorems).

   Vocabulary (Model/RayGeom.v): a RayGeometry object is (ifs, ray): the interfaces and the
   column rays.indices[:, i, j] of ONE ray (every method is elementwise in (i, j));
   `ray_point ifs ray a` / `ray_frame ifs ray a` are the point / the 3x3 frame (rows = local
   axes) through which the ray goes at interface a; `resolve n idx = Some a` says that the
   Python index idx (negative allowed) designates interface a of n.  Outcomes: Val v,
   NoLeg (Python None), IndexErr, ValueErr.  Frames are "orthonormal" when their columns
   are (equivalently their rows: Vec3Proofs.rows_to_cols / cols_to_rows).
   Exact arithmetic (NumR) except where a theorem is stated for every numeric instance. *)
From Coq Require Import List ZArith Bool Arith Lia Reals Lra.
From Flocq Require Import Core.Raux.
From Arim Require Import Base.Num Base.NumR Model.Vec3 Model.RayGeom
                         Proofs.Vec3Proofs Proofs.RayGeomProofs Proofs.RayGeomRealProofs Proofs.RayGeomTimeProofs.
From Arim Require Model.MinPlus Model.Fermat Proofs.FermatProofs.
Import ListNotations.
Local Open Scope R_scope.

(* ---- leg lengths ------------------------------------------------------------------------ *)
(* the reported leg length is the Euclidean distance between consecutive ray points *)
Theorem leg_size_is_distance : forall (ifs : list (iface (T:=R))) ray, length ray = length ifs ->
  forall idx a s e, resolve (length ifs) idx = Some (S a) ->
  ray_point ifs ray a = Some s -> ray_point ifs ray (S a) = Some e ->
  inc_leg_size NumR ifs ray idx =
  Val (sqrt ((vx s - vx e) * (vx s - vx e) + (vy s - vy e) * (vy s - vy e) + (vz s - vz e) * (vz s - vz e))).
Proof. exact leg_size_is_distance_R. Qed.

(* ... and nothing else: whenever inc_leg_size answers a number, it is such a distance *)
Theorem leg_size_only_distance : forall (ifs : list (iface (T:=R))) ray, length ray = length ifs ->
  forall idx d, inc_leg_size NumR ifs ray idx = Val d ->
  exists a s e, resolve (length ifs) idx = Some (S a) /\ ray_point ifs ray a = Some s /\
                ray_point ifs ray (S a) = Some e /\ d = euclid s e.
Proof. exact leg_size_value_inv. Qed.

(* radius of the spherical coordinates = leg size, for orthonormal frames *)
Theorem leg_radius_eq_size : forall (ifs : list (iface (T:=R))) ray, length ray = length ifs ->
  forall idx a s e B, resolve (length ifs) idx = Some (S a) ->
  ray_point ifs ray a = Some s -> ray_point ifs ray (S a) = Some e -> ray_frame ifs ray (S a) = Some B ->
  cols_orthonormal NumR B ->
  inc_leg_radius NumR ifs ray idx = inc_leg_size NumR ifs ray idx.
Proof. exact inc_radius_eq_size_R. Qed.

Theorem out_leg_radius_eq_next_size : forall (ifs : list (iface (T:=R))) ray, length ray = length ifs ->
  forall idx a s e B, resolve (length ifs) idx = Some a -> (S a < length ifs)%nat ->
  ray_point ifs ray a = Some s -> ray_point ifs ray (S a) = Some e -> ray_frame ifs ray a = Some B ->
  cols_orthonormal NumR B ->
  out_leg_radius NumR ifs ray idx = inc_leg_size NumR ifs ray (idx + 1).
Proof. exact out_radius_eq_next_size_R. Qed.

(* the leg lengths divided by the leg velocities add up (left-nested, as the solver
   accumulates) to the travel time of the ray found by the Fermat solver: corollary of C01
   solve_realised.  `ifs` is any list of interfaces over the point sets of the path. *)
Theorem legs_sum_to_time : forall (p : Fermat.cpath (T:=R)) r (ifs : list (iface (T:=R))) i j,
  FermatProofs.interior_ok Fermat.psize p -> Fermat.c_solve_pure NumR p = Some r ->
  map if_points ifs = map (Fermat.pts (T:=R)) (path_sets p) ->
  (i < Fermat.psize (Fermat.startp p))%nat -> (j < Fermat.psize (Fermat.endp p))%nat ->
  exists t, MinPlus.get2 (Fermat.r_times r) i j = Some t /\
            legs_time NumR ifs (Fermat.ray_of r i j) (path_vels p) = Some t /\
            hd 0%nat (Fermat.ray_of r i j) = i /\ last (Fermat.ray_of r i j) 0%nat = j.
Proof. exact legs_sum_to_time_R. Qed.

(* ---- unsigned angles ------------------------------------------------------------------------ *)
Theorem polar_range : forall (ifs : list (iface (T:=R))) ray idx theta,
  (inc_leg_polar NumR ifs ray idx = Val theta -> 0 <= theta <= PI) /\
  (out_leg_polar NumR ifs ray idx = Val theta -> 0 <= theta <= PI) /\
  (inc_angle NumR ifs ray idx = inc_leg_polar NumR ifs ray idx) /\
  (out_angle NumR ifs ray idx = out_leg_polar NumR ifs ray idx).
Proof.
  intros ifs ray idx theta.
  exact (conj (inc_polar_range_R ifs ray idx theta) (conj (out_polar_range_R ifs ray idx theta) (conj eq_refl eq_refl))).
Qed.

(* the unsigned angle of the incoming leg is the angle between the vector from the interface
   point to the source point and the THIRD ROW of the frame: |leg| cos(theta) = leg . k_hat *)
Theorem inc_polar_is_angle_to_normal : forall (ifs : list (iface (T:=R))) ray, length ray = length ifs ->
  forall idx a s e B, resolve (length ifs) idx = Some (S a) ->
  ray_point ifs ray a = Some s -> ray_point ifs ray (S a) = Some e -> ray_frame ifs ray (S a) = Some B ->
  cols_orthonormal NumR B ->
  exists theta, inc_leg_polar NumR ifs ray idx = Val theta /\ 0 <= theta <= PI /\
                euclid s e * cos theta = vdot NumR (mrow2 B) (vsub NumR s e).
Proof. exact inc_polar_is_angle_to_normal_R. Qed.

(* the same for the outgoing leg: vector from the interface point to the destination point *)
Theorem out_polar_is_angle_to_normal : forall (ifs : list (iface (T:=R))) ray, length ray = length ifs ->
  forall idx a s e B, resolve (length ifs) idx = Some a -> (S a < length ifs)%nat ->
  ray_point ifs ray a = Some s -> ray_point ifs ray (S a) = Some e -> ray_frame ifs ray a = Some B ->
  cols_orthonormal NumR B ->
  exists theta, out_leg_polar NumR ifs ray idx = Val theta /\ 0 <= theta <= PI /\
                euclid e s * cos theta = vdot NumR (mrow2 B) (vsub NumR e s).
Proof. exact out_polar_is_angle_to_normal_R. Qed.

(* the cartesian leg is B.(other end - interface point), rows of B = local axes *)
Theorem leg_cartesian_is_local_coordinates : forall T (N : Num T) (ifs : list (iface (T:=T))) ray,
  length ray = length ifs -> forall idx a s e,
  ray_point ifs ray a = Some s -> ray_point ifs ray (S a) = Some e ->
  (forall B, resolve (length ifs) idx = Some (S a) -> ray_frame ifs ray (S a) = Some B ->
     inc_leg_cartesian N ifs ray idx = Val (mvec N B (vsub N s e))) /\
  (forall B, resolve (length ifs) idx = Some a -> (S a < length ifs)%nat -> ray_frame ifs ray a = Some B ->
     out_leg_cartesian N ifs ray idx = Val (mvec N B (vsub N e s))).
Proof. exact @leg_cartesian_local. Qed.

(* (radius, polar, azimuth) are the spherical coordinates (ISO convention) of the cartesian leg *)
Theorem spherical_coordinates_of_leg : forall (ifs : list (iface (T:=R))) ray idx c,
  (inc_leg_cartesian NumR ifs ray idx = Val c ->
   exists r theta phi,
     inc_leg_radius NumR ifs ray idx = Val r /\ inc_leg_polar NumR ifs ray idx = Val theta /\
     inc_leg_azimuth NumR ifs ray idx = Val phi /\
     0 <= r /\ 0 <= theta <= PI /\ - PI <= phi <= PI /\
     vx c = r * sin theta * cos phi /\ vy c = r * sin theta * sin phi /\ vz c = r * cos theta) /\
  (out_leg_cartesian NumR ifs ray idx = Val c ->
   exists r theta phi,
     out_leg_radius NumR ifs ray idx = Val r /\ out_leg_polar NumR ifs ray idx = Val theta /\
     out_leg_azimuth NumR ifs ray idx = Val phi /\
     0 <= r /\ 0 <= theta <= PI /\ - PI <= phi <= PI /\
     vx c = r * sin theta * cos phi /\ vy c = r * sin theta * sin phi /\ vz c = r * cos theta).
Proof. intros ifs ray idx c. exact (conj (inc_spherical_R ifs ray idx c) (out_spherical_R ifs ray idx c)). Qed.

(* ---- signed angles -------------------------------------------------------------------------- *)
(* signed = +theta iff -pi/2 < phi <= pi/2, else -theta (unconditional since fix 447b98d;
   the DESIGN's signed_rule_refuted described the code before that repair) *)
Theorem signed_rule : forall (ifs : list (iface (T:=R))) ray idx theta phi,
  (inc_leg_polar NumR ifs ray idx = Val theta -> inc_leg_azimuth NumR ifs ray idx = Val phi ->
     (- PI / 2 < phi <= PI / 2 -> signed_inc_angle NumR ifs ray idx = Val theta) /\
     (~ (- PI / 2 < phi <= PI / 2) -> signed_inc_angle NumR ifs ray idx = Val (- theta))) /\
  (out_leg_polar NumR ifs ray idx = Val theta -> out_leg_azimuth NumR ifs ray idx = Val phi ->
     (- PI / 2 < phi <= PI / 2 -> signed_out_angle NumR ifs ray idx = Val theta) /\
     (~ (- PI / 2 < phi <= PI / 2) -> signed_out_angle NumR ifs ray idx = Val (- theta))).
Proof. intros ifs ray idx theta phi. exact (conj (signed_inc_rule_R ifs ray idx theta phi) (signed_out_rule_R ifs ray idx theta phi)). Qed.

(* the same rule read on the local coordinates: + iff the leg points to the side x > 0 of the
   local frame (legs in the plane x = 0: iff y >= 0); in 2-D set-ups (y = 0) the sign of x *)
Theorem signed_by_local_x : forall (ifs : list (iface (T:=R))) ray idx c theta,
  (inc_leg_cartesian NumR ifs ray idx = Val c -> inc_leg_polar NumR ifs ray idx = Val theta ->
     ((0 < vx c \/ (vx c = 0 /\ 0 <= vy c)) -> signed_inc_angle NumR ifs ray idx = Val theta) /\
     (~ (0 < vx c \/ (vx c = 0 /\ 0 <= vy c)) -> signed_inc_angle NumR ifs ray idx = Val (- theta))) /\
  (out_leg_cartesian NumR ifs ray idx = Val c -> out_leg_polar NumR ifs ray idx = Val theta ->
     ((0 < vx c \/ (vx c = 0 /\ 0 <= vy c)) -> signed_out_angle NumR ifs ray idx = Val theta) /\
     (~ (0 < vx c \/ (vx c = 0 /\ 0 <= vy c)) -> signed_out_angle NumR ifs ray idx = Val (- theta))).
Proof. intros ifs ray idx c theta. exact (conj (signed_inc_by_local_x_R ifs ray idx c theta) (signed_out_by_local_x_R ifs ray idx c theta)). Qed.

(* ---- conventional angles -------------------------------------------------------------------- *)
(* theta when the normals are on the side of the leg, pi - theta otherwise, ValueError when
   the side is not declared *)
Theorem conventional_supplement : forall (ifs : list (iface (T:=R))) ray, length ray = length ifs ->
  forall idx a f,
  (resolve (length ifs) idx = Some (S a) -> nth_error ifs (S a) = Some f ->
   match if_inc f with
   | Some true => conventional_inc_angle NumR ifs ray idx = inc_leg_polar NumR ifs ray idx
   | Some false => conventional_inc_angle NumR ifs ray idx = rmap (fun t => PI - t) (inc_leg_polar NumR ifs ray idx)
   | None => conventional_inc_angle NumR ifs ray idx = ValueErr
   end) /\
  (resolve (length ifs) idx = Some a -> (S a < length ifs)%nat -> nth_error ifs a = Some f ->
   match if_out f with
   | Some true => conventional_out_angle NumR ifs ray idx = out_leg_polar NumR ifs ray idx
   | Some false => conventional_out_angle NumR ifs ray idx = rmap (fun t => PI - t) (out_leg_polar NumR ifs ray idx)
   | None => conventional_out_angle NumR ifs ray idx = ValueErr
   end).
Proof.
  intros ifs ray Hlen idx a f.
  exact (conj (conventional_inc_R ifs ray idx a f) (conventional_out_R ifs ray Hlen idx a f)).
Qed.

Theorem conventional_range : forall (ifs : list (iface (T:=R))) ray idx t,
  (conventional_inc_angle NumR ifs ray idx = Val t -> 0 <= t <= PI) /\
  (conventional_out_angle NumR ifs ray idx = Val t -> 0 <= t <= PI).
Proof. intros ifs ray idx t. exact (conj (conventional_inc_range_R ifs ray idx t) (conventional_out_range_R ifs ray idx t)). Qed.

(* pi - arccos(z / r) = arccos(-z / r), as the documentation writes it *)
Theorem supplement_is_arccos_of_opposite : forall z r, supplement NumR (sph_theta NumR z r) = acos (- z / r).
Proof. exact supplement_is_arccos_opp. Qed.

(* ---- ends of the path, interface indices --------------------------------------------------------- *)
(* no incoming leg at the first interface, no outgoing leg at the last one *)
Theorem first_last_none : forall T (N : Num T) (ifs : list (iface (T:=T))) ray idx, length ray = length ifs ->
  (resolve (length ifs) idx = Some 0%nat ->
     inc_leg_size N ifs ray idx = NoLeg /\ inc_leg_cartesian N ifs ray idx = NoLeg /\
     inc_leg_radius N ifs ray idx = NoLeg /\ inc_leg_polar N ifs ray idx = NoLeg /\
     inc_leg_azimuth N ifs ray idx = NoLeg /\ inc_angle N ifs ray idx = NoLeg /\
     signed_inc_angle N ifs ray idx = NoLeg /\ conventional_inc_angle N ifs ray idx = NoLeg) /\
  (resolve (length ifs) idx = Some (length ifs - 1)%nat ->
     out_leg_cartesian N ifs ray idx = NoLeg /\
     out_leg_radius N ifs ray idx = NoLeg /\ out_leg_polar N ifs ray idx = NoLeg /\
     out_leg_azimuth N ifs ray idx = NoLeg /\ out_angle N ifs ray idx = NoLeg /\
     signed_out_angle N ifs ray idx = NoLeg /\ conventional_out_angle N ifs ray idx = NoLeg).
Proof.
  intros T N ifs ray idx Hlen.
  exact (conj (inc_first_is_none N ifs ray idx) (out_last_is_none N ifs ray idx)).
Qed.

(* an index outside -n .. n-1 raises IndexError in all 17 methods *)
Theorem out_of_range_index_error : forall T (N : Num T) (ifs : list (iface (T:=T))) ray idx,
  (idx < - Z.of_nat (length ifs) \/ Z.of_nat (length ifs) <= idx)%Z ->
  leg_points ifs ray idx = IndexErr /\ orientations_of_legs_points ifs ray idx = IndexErr /\
  inc_leg_size N ifs ray idx = IndexErr /\ inc_leg_cartesian N ifs ray idx = IndexErr /\
  inc_leg_radius N ifs ray idx = IndexErr /\ inc_leg_polar N ifs ray idx = IndexErr /\
  inc_leg_azimuth N ifs ray idx = IndexErr /\ inc_angle N ifs ray idx = IndexErr /\
  signed_inc_angle N ifs ray idx = IndexErr /\ conventional_inc_angle N ifs ray idx = IndexErr /\
  out_leg_cartesian N ifs ray idx = IndexErr /\
  out_leg_radius N ifs ray idx = IndexErr /\ out_leg_polar N ifs ray idx = IndexErr /\
  out_leg_azimuth N ifs ray idx = IndexErr /\ out_angle N ifs ray idx = IndexErr /\
  signed_out_angle N ifs ray idx = IndexErr /\ conventional_out_angle N ifs ray idx = IndexErr.
Proof. exact @out_of_range_index_error_Z. Qed.

(* negative and non-negative indices of the same interface give the same answers (17 methods) *)
Theorem negative_index_same : forall T (N : Num T) (ifs : list (iface (T:=T))) ray, length ray = length ifs ->
  forall idx idx' a, resolve (length ifs) idx = Some a -> resolve (length ifs) idx' = Some a ->
  leg_points ifs ray idx = leg_points ifs ray idx' /\
  orientations_of_legs_points ifs ray idx = orientations_of_legs_points ifs ray idx' /\
  inc_leg_size N ifs ray idx = inc_leg_size N ifs ray idx' /\
  inc_leg_cartesian N ifs ray idx = inc_leg_cartesian N ifs ray idx' /\
  inc_leg_radius N ifs ray idx = inc_leg_radius N ifs ray idx' /\
  inc_leg_polar N ifs ray idx = inc_leg_polar N ifs ray idx' /\
  inc_leg_azimuth N ifs ray idx = inc_leg_azimuth N ifs ray idx' /\
  inc_angle N ifs ray idx = inc_angle N ifs ray idx' /\
  signed_inc_angle N ifs ray idx = signed_inc_angle N ifs ray idx' /\
  conventional_inc_angle N ifs ray idx = conventional_inc_angle N ifs ray idx' /\
  out_leg_cartesian N ifs ray idx = out_leg_cartesian N ifs ray idx' /\
  out_leg_radius N ifs ray idx = out_leg_radius N ifs ray idx' /\
  out_leg_polar N ifs ray idx = out_leg_polar N ifs ray idx' /\
  out_leg_azimuth N ifs ray idx = out_leg_azimuth N ifs ray idx' /\
  out_angle N ifs ray idx = out_angle N ifs ray idx' /\
  signed_out_angle N ifs ray idx = signed_out_angle N ifs ray idx' /\
  conventional_out_angle N ifs ray idx = conventional_out_angle N ifs ray idx'.
Proof. exact @all_methods_same. Qed.

Theorem resolve_is_python_indexing : forall n idx a,
  resolve n idx = Some a <-> (a < n)%nat /\ (idx = Z.of_nat a \/ idx = (Z.of_nat a - Z.of_nat n)%Z).
Proof. exact resolve_spec. Qed.

(* ---- reversal ------------------------------------------------------------------------------------ *)
(* the column (j, i) of the reversed rays is the reversed column (i, j) *)
Theorem reversed_rays_column : forall n m interior i j,
  interior_shape n m interior -> (i < n)%nat -> (j < m)%nat ->
  ray_column (make_indices m n (rays_reverse_interior m interior)) j i =
  option_map (@rev nat) (ray_column (make_indices n m interior) i j).
Proof. exact rays_reverse_column. Qed.

(* for a path of ANY number of interfaces (in particular 2..5), every ray (i, j) and every
   interface k — written with a non-negative or a negative index on either side —, the
   incoming quantities at k are the outgoing quantities at n-1-k of Path.reverse() with
   Rays.reverse(); holds for every numeric instance (so also for the float executions) *)
Theorem inc_is_out_of_reverse : forall T (N : Num T) (ifs : list (iface (T:=T))) n m interior i j idx idx' k r,
  (length interior + 2 = length ifs)%nat -> interior_shape n m interior -> (i < n)%nat -> (j < m)%nat ->
  ray_column (make_indices n m interior) i j = Some r ->
  resolve (length ifs) idx = Some k -> resolve (length ifs) idx' = Some (length ifs - 1 - k)%nat ->
  exists r', ray_column (make_indices m n (rays_reverse_interior m interior)) j i = Some r' /\
    inc_leg_cartesian N ifs r idx = out_leg_cartesian N (path_reverse ifs) r' idx' /\
    inc_leg_radius N ifs r idx = out_leg_radius N (path_reverse ifs) r' idx' /\
    inc_leg_polar N ifs r idx = out_leg_polar N (path_reverse ifs) r' idx' /\
    inc_leg_azimuth N ifs r idx = out_leg_azimuth N (path_reverse ifs) r' idx' /\
    inc_angle N ifs r idx = out_angle N (path_reverse ifs) r' idx' /\
    signed_inc_angle N ifs r idx = signed_out_angle N (path_reverse ifs) r' idx' /\
    conventional_inc_angle N ifs r idx = conventional_out_angle N (path_reverse ifs) r' idx'.
Proof. exact @inc_is_out_of_reverse_rays. Qed.

Theorem path_reverse_twice : forall T (ifs : list (iface (T:=T))), path_reverse (path_reverse ifs) = ifs.
Proof. exact @path_reverse_involutive. Qed.

(* ---- non-vacuity ------------------------------------------------------------------------------------ *)
(* finding F1's witness, on the repaired rule: an out-of-plane incoming leg with theta = pi/6,
   phi = pi/3 (local coordinates (1/4, sqrt 3 / 4, sqrt 3 / 2)) has signed angle +pi/6 *)
Definition id_frame : mat3 R := mid3 NumR.
Definition f1_path : list (iface (T:=R)) :=
  [ mkIface [ (1 / 4, sqrt 3 / 4, sqrt 3 / 2) ] [ id_frame ] None (Some true);
    mkIface [ (0, 0, 0) ] [ id_frame ] (Some true) None ].

Example f1_witness :
  inc_leg_cartesian NumR f1_path [0%nat; 0%nat] 1 = Val (1 / 4, sqrt 3 / 4, sqrt 3 / 2) /\
  inc_leg_radius NumR f1_path [0%nat; 0%nat] 1 = Val 1 /\
  inc_leg_polar NumR f1_path [0%nat; 0%nat] 1 = Val (PI / 6) /\
  inc_leg_azimuth NumR f1_path [0%nat; 0%nat] 1 = Val (PI / 3) /\
  signed_inc_angle NumR f1_path [0%nat; 0%nat] 1 = Val (PI / 6) /\
  signed_inc_angle NumR f1_path [0%nat; 0%nat] (-1) = Val (PI / 6) /\
  conventional_inc_angle NumR f1_path [0%nat; 0%nat] 1 = Val (PI / 6) /\
  inc_leg_size NumR f1_path [0%nat; 0%nat] 1 = Val 1 /\
  inc_leg_size NumR f1_path [0%nat; 0%nat] 0 = NoLeg /\
  conventional_out_angle NumR f1_path [0%nat; 0%nat] 1 = NoLeg /\
  conventional_inc_angle NumR [mkIface [(1, 0, 0)] [id_frame] None None; mkIface [(0, 0, 0)] [id_frame] None None] [0%nat; 0%nat] 1 = ValueErr /\
  inc_leg_size NumR f1_path [0%nat; 0%nat] 2 = IndexErr.
Proof.
  pose proof (sqrt_sqrt 3 ltac:(lra)) as H3. pose proof (sqrt_pos 3) as H3p. pose proof PI_RGT_0 as Hpi.
  assert (Hc : inc_leg_cartesian NumR f1_path [0%nat; 0%nat] 1 = Val (1 / 4, sqrt 3 / 4, sqrt 3 / 2)).
  { rewrite (inc_leg_cartesian_value NumR f1_path [0%nat; 0%nat] eq_refl 1 0%nat
               (1 / 4, sqrt 3 / 4, sqrt 3 / 2) (0, 0, 0) id_frame eq_refl eq_refl eq_refl eq_refl).
    unfold from_gcs, id_frame. v3_unfold. f_equal. v3_split; ring. }
  assert (Hr : sph_r NumR (1 / 4, sqrt 3 / 4, sqrt 3 / 2) = 1).
  { unfold sph_r. rewrite norm2_acc_R. cbn [vx vy vz fst snd].
    replace (1 / 4 * (1 / 4) + sqrt 3 / 4 * (sqrt 3 / 4) + sqrt 3 / 2 * (sqrt 3 / 2)) with 1 by (field_simplify; nra).
    apply sqrt_1. }
  assert (Hp : inc_leg_polar NumR f1_path [0%nat; 0%nat] 1 = Val (PI / 6)).
  { unfold inc_leg_polar, inc_leg_radius. rewrite Hc. cbn [rmap rbind]. rewrite Hr. f_equal.
    unfold sph_theta. cbn [NumR nacos ndiv vz snd]. replace (sqrt 3 / 2 / 1) with (cos (PI / 6)) by (rewrite cos_PI6; field).
    apply acos_cos. lra. }
  assert (Ha : inc_leg_azimuth NumR f1_path [0%nat; 0%nat] 1 = Val (PI / 3)).
  { unfold inc_leg_azimuth. rewrite Hc. cbn [rmap rbind]. f_equal.
    unfold sph_phi. cbn [NumR natan2 vx vy fst snd]. unfold Ratan2.
    rewrite (Raux.Rlt_bool_true 0 (1 / 4)) by lra.
    replace (sqrt 3 / 4 / (1 / 4)) with (tan (PI / 3)) by (rewrite tan_PI3; field).
    apply atan_tan. lra. }
  assert (Hs : signed_inc_angle NumR f1_path [0%nat; 0%nat] 1 = Val (PI / 6)).
  { apply (signed_inc_rule_R f1_path [0%nat; 0%nat] 1 (PI / 6) (PI / 3) Hp Ha). lra. }
  repeat split; try assumption; try reflexivity.
  - unfold inc_leg_radius. rewrite Hc. cbn [rmap rbind]. rewrite Hr. reflexivity.
  - rewrite (leg_size_is_distance_R f1_path [0%nat; 0%nat] eq_refl 1 0%nat (1 / 4, sqrt 3 / 4, sqrt 3 / 2) (0, 0, 0) eq_refl eq_refl eq_refl).
    f_equal. unfold euclid. cbn [vx vy vz fst snd].
    replace ((1 / 4 - 0) * (1 / 4 - 0) + (sqrt 3 / 4 - 0) * (sqrt 3 / 4 - 0) + (sqrt 3 / 2 - 0) * (sqrt 3 / 2 - 0)) with 1
      by (field_simplify; nra).
    apply sqrt_1.
Qed.

(* orthonormal frames exist beyond in-plane rotations: a yaw-pitch frame, proper or with one
   tangent flipped (improper), satisfies the hypothesis of the radius / angle theorems *)
Example orthonormal_frames_exist : forall a b,
  cols_orthonormal NumR (yaw_pitch_frame 1 a b) /\ cols_orthonormal NumR (yaw_pitch_frame (-1) a b) /\
  rows_orthonormal NumR (yaw_pitch_frame 1 a b) /\ rows_orthonormal NumR (yaw_pitch_frame (-1) a b).
Proof. exact yaw_pitch_frames_orthonormal. Qed.

(* the hypotheses of inc_is_out_of_reverse are satisfiable: 3 interfaces, 2 x 2 rays, the
   middle interface has 3 points *)
Example reverse_hypotheses_satisfiable :
  let interior := [ [ [2%nat; 0%nat]; [1%nat; 1%nat] ] ] in
  interior_shape 2 2 interior /\
  ray_column (make_indices 2 2 interior) 0 1 = Some [0%nat; 0%nat; 1%nat] /\
  ray_column (make_indices 2 2 (rays_reverse_interior 2 interior)) 1 0 = Some [1%nat; 0%nat; 0%nat] /\
  resolve 3 (-2) = Some 1%nat /\ resolve 3 1 = Some (3 - 1 - 1)%nat.
Proof.
  cbn. repeat split; try reflexivity.
  - destruct H as [<-|[]]. reflexivity.
  - intros row Hr. destruct H as [<-|[]]. destruct Hr as [<-|[<-|[]]]; reflexivity.
Qed.

(* ... and so are those of legs_sum_to_time: the solver answers on every path whose interior
   point sets are non-empty (C01 solve_defined) *)
Example time_hypotheses_satisfiable : forall (P0 P1 P2 : Fermat.pset (T:=R)) v0 v1,
  (1 <= Fermat.psize P1)%nat ->
  let p := Fermat.Leg (Fermat.Leg (Fermat.Start P0) v0 P1) v1 P2 in
  FermatProofs.interior_ok Fermat.psize p /\ (exists r, Fermat.c_solve_pure NumR p = Some r) /\
  path_sets p = [P0; P1; P2] /\ path_vels p = [v0; v1].
Proof.
  intros P0 P1 P2 v0 v1 H1 p.
  assert (Hok : FermatProofs.interior_ok Fermat.psize p) by (cbn; auto).
  split; [exact Hok|]. split; [|split; reflexivity].
  apply (FermatProofs.solve_defined_b R R R Fermat.pset Rle_bool Rlt_bool Rplus Fermat.psize
           (Fermat.distance_pairwise NumR) Rdiv (Fermat.leg_entry NumR)
           Rle_bool_total_preorder (FermatProofs.c_leg_tab NumR) p); [cbn; lia | exact Hok].
Qed.
