(* Props/C16.v — Probe motions are rigid and keep the probe coordinate system attached.
   Statements only; proofs are in Proofs/ProbeProofs.v, ProbeHistoryProofs.v and
   ProbeTheorems.v.  All statements are about the real-number instance NumR of the model
   Model/Probe.v (exact arithmetic; rounding is outside every theorem).

   Vocabulary (defined in the Proofs files):
     reachable n p0 p   p0 = make_matrix_probe numx px numy py normals (numx, numy >= 1,
                        n = numx*numy elements, any real pitches of either sign, normals
                        absent or unit and one per element) and p = run_ops ops p0 for a
                        list ops of operations, ARBITRARY in length and order, of
                        rotate(M, centre) with M any proper rotation (M M^T = I, det M = 1)
                        about any centre or none, translate(v), flip, translate_to_point_O,
                        set_reference_element('first' | 'last' | 'mean' | k, -n <= k < n),
                        reset_position                                  (op_ok n, Forall)
     dist2 a b          squared Euclidean distance
     proper_rotation    rows and columns orthonormal, determinant 1 (Model/Vec3.v)
   A result None of the model is a raise of the implementation. *)
From Coq Require Import List Reals ZArith QArith Lia Lra.
From Arim Require Import Base.Num Base.NumR Base.NumQ Model.Vec3 Proofs.Vec3Proofs Model.Probe
  Proofs.ProbeProofs Proofs.ProbeHistoryProofs Proofs.ProbeTheorems.
Import ListNotations.
Local Close Scope Q_scope.

(* Every admissible history runs to the end: no operation raises (in particular the
   normalisation check of the CoordinateSystem setters never fires), and its result is a
   reachable state in the sense used by all theorems below. *)
Theorem history_never_raises : forall (numx numy : Z) (px py : R) (a : ori_arg) (ops : list opR),
  (1 <= numx)%Z -> (1 <= numy)%Z ->
  let n := (Z.to_nat numy * Z.to_nat numx)%nat in
  ori_arg_ok n a -> Forall (op_ok n) ops ->
  exists p0 p, make_matrix_probe NumR numx px numy py a = Some p0 /\ run_ops NumR ops p0 = Some p /\
               reachable n p0 p.
Proof. exact history_total. Qed.

(* ... and one more admissible operation on a reachable state does not raise and gives a
   reachable state (so every theorem below holds after EVERY step of a history). *)
Theorem reachable_closed : forall (n : nat) (p0 p : probeR) (o : opR),
  reachable n p0 p -> op_ok n o ->
  exists p', apply_op NumR o p = Some p' /\ reachable n p0 p'.
Proof. exact reachable_step. Qed.

(* rigid: the number of elements and all squared pairwise distances are those of the probe
   as constructed. *)
Theorem rigid : forall (n : nat) (p0 p : probeR), reachable n p0 p ->
  length (p_locs p) = n /\ length (p_locs p0) = n /\
  forall (a b : nat) (d : vec), (a < n)%nat -> (b < n)%nat ->
    dist2 (List.nth a (p_locs p) d) (List.nth b (p_locs p) d) =
    dist2 (List.nth a (p_locs p0) d) (List.nth b (p_locs p0) d).
Proof. exact rigid_R. Qed.

(* pcs_attached (histories without set_reference_element): locations_pcs and
   orientations_pcs are exactly those of the probe as constructed, which are its
   constructed locations and normals (PCS = GCS initially). *)
Theorem pcs_attached : forall (numx numy : Z) (px py : R) (a : ori_arg) (ops : list opR),
  (1 <= numx)%Z -> (1 <= numy)%Z ->
  let n := (Z.to_nat numy * Z.to_nat numx)%nat in
  ori_arg_ok n a -> Forall (op_ok n) ops ->
  forallb (fun o => negb (is_set_ref o)) ops = true ->
  exists p0 p, make_matrix_probe NumR numx px numy py a = Some p0 /\ run_ops NumR ops p0 = Some p /\
    locations_pcs NumR p = locations_pcs NumR p0 /\ locations_pcs NumR p0 = p_locs p0 /\
    orientations_pcs NumR p = orientations_pcs NumR p0 /\ orientations_pcs NumR p0 = Some (p_oris p0).
Proof. exact pcs_attached_R. Qed.

(* pcs_attached (one step from any reachable state): every operation other than
   set_reference_element leaves locations_pcs and orientations_pcs unchanged. *)
Theorem pcs_attached_step : forall (n : nat) (p0 p : probeR) (o : opR),
  reachable n p0 p -> op_ok n o -> is_set_ref o = false ->
  exists p', apply_op NumR o p = Some p' /\
    locations_pcs NumR p' = locations_pcs NumR p /\ orientations_pcs NumR p' = orientations_pcs NumR p.
Proof. exact pcs_attached_step_R. Qed.

(* pcs_attached (any history): the probe-frame locations differ from the constructed
   locations by ONE common vector, the probe-frame normals are the constructed normals. *)
Theorem pcs_attached_up_to_reference : forall (n : nat) (p0 p : probeR), reachable n p0 p ->
  (exists d, locations_pcs NumR p = map (fun x => vsub NumR x d) (p_locs p0)) /\
  orientations_pcs NumR p = Some (p_oris p0).
Proof. exact pcs_attached_shift_R. Qed.

(* set_reference_element moves nothing but the PCS origin; it subtracts from all
   locations_pcs the old PCS coordinates of the chosen point q, leaves orientations_pcs
   alone, and puts the chosen element (first = 0, last = n-1, k or n+k) at the PCS origin —
   for 'mean', q is the arithmetic mean of the element centres and the new locations_pcs
   have mean zero. *)
Theorem set_reference_element_shifts : forall (n : nat) (p0 p : probeR) (r : refelt),
  reachable n p0 p -> op_ok n (OpSetRef r) ->
  exists q p', ref_point NumR r (p_locs p) = Some q /\ p_set_ref NumR r p = Some p' /\
    p_locs p' = p_locs p /\ p_oris p' = p_oris p /\
    cs_i (p_pcs p') = cs_i (p_pcs p) /\ cs_j (p_pcs p') = cs_j (p_pcs p) /\ cs_o (p_pcs p') = q /\
    locations_pcs NumR p' = map (fun x => vsub NumR x (cs_from_gcs NumR (p_pcs p) q)) (locations_pcs NumR p) /\
    orientations_pcs NumR p' = orientations_pcs NumR p /\
    match ref_elt r n with
    | Some e => (e < n)%nat /\ q = List.nth e (p_locs p) (vzero NumR) /\
                List.nth e (locations_pcs NumR p') (vzero NumR) = vzero NumR
    | None => q = vmean NumR (p_locs p) /\ vmean NumR (locations_pcs NumR p') = vzero NumR
    end.
Proof. exact set_reference_R. Qed.

(* frame_orthonormal: (i_hat, j_hat, k_hat = i x j) is orthonormal and right-handed; the
   normals (present iff given at construction) are one unit vector per element. *)
Theorem frame_orthonormal : forall (n : nat) (p0 p : probeR), reachable n p0 p ->
  proper_rotation NumR (cs_i (p_pcs p), cs_j (p_pcs p), cs_k NumR (p_pcs p)) /\
  match p_oris p with
  | None => p_oris p0 = None
  | Some os => length os = n /\ Forall (fun v => vdot NumR v v = 1%R) os
  end.
Proof. exact frame_orthonormal_R. Qed.

(* oriented_points_axes: to_oriented_points exports, for every element e, the element's
   location and the 3x3 array whose ROWS are the probe's own i_hat, j_hat, k_hat (the
   layout geometry.from_gcs / to_gcs expect), an orthonormal right-handed basis. *)
Theorem oriented_points_axes : forall (n : nat) (p0 p : probeR), reachable n p0 p ->
  length (p_oriented NumR p) = n /\
  proper_rotation NumR (cs_i (p_pcs p), cs_j (p_pcs p), cs_k NumR (p_pcs p)) /\
  forall (e : nat) (d : vec * mat), (e < n)%nat ->
    List.nth e (p_oriented NumR p) d =
    (List.nth e (p_locs p) (fst d), (cs_i (p_pcs p), cs_j (p_pcs p), cs_k NumR (p_pcs p))).
Proof. exact oriented_points_axes_R. Qed.

(* reset_restores: reset_position on any reachable state does not raise; afterwards the PCS
   IS the GCS, the global locations are the probe-frame locations from before the reset
   and coincide with the new probe-frame locations; likewise for the normals, which are
   the constructed normals again. *)
Theorem reset_restores : forall (n : nat) (p0 p : probeR), reachable n p0 p ->
  exists p', p_reset NumR p = Some p' /\
    p_pcs p' = gcs NumR /\
    p_locs p' = locations_pcs NumR p /\
    locations_pcs NumR p' = p_locs p' /\
    orientations_pcs NumR p = Some (p_oris p') /\
    orientations_pcs NumR p' = Some (p_oris p') /\
    p_oris p' = p_oris p0.
Proof. exact reset_restores_reachable. Qed.

(* make_matrix_probe: numx*numy elements, element iy*numx+ix at
   ((ix - (numx-1)/2) pitch_x, (iy - (numy-1)/2) pitch_y, 0) — centred on O, x fastest,
   either pitch sign (a 1-element axis ignores its pitch: the formula gives 0) — with
   PCS = GCS, so locations_pcs = locations; sizes < 1 raise. *)
Theorem matrix_probe_layout : forall (numx numy : Z) (px py : R) (a : ori_arg),
  (1 <= numx)%Z -> (1 <= numy)%Z ->
  let n := (Z.to_nat numy * Z.to_nat numx)%nat in
  ori_arg_ok n a ->
  exists p0, make_matrix_probe NumR numx px numy py a = Some p0 /\
    length (p_locs p0) = n /\ p_pcs p0 = gcs NumR /\ locations_pcs NumR p0 = p_locs p0 /\
    (forall (ix iy : nat) (d : vec), (ix < Z.to_nat numx)%nat -> (iy < Z.to_nat numy)%nat ->
       List.nth (iy * Z.to_nat numx + ix) (p_locs p0) d =
       ((IZR (Z.of_nat ix) - (IZR numx - 1) / 2) * px, (IZR (Z.of_nat iy) - (IZR numy - 1) / 2) * py, 0))%R.
Proof. exact matrix_probe_layout_R. Qed.

Theorem matrix_probe_bad_size_raises : forall (numx numy : Z) (px py : R) (a : ori_arg),
  (numx < 1)%Z \/ (numy < 1)%Z -> make_matrix_probe NumR numx px numy py a = None.
Proof. exact make_matrix_probe_error. Qed.

(* The rotations used in executions satisfy the hypothesis of the theorems: the three
   elementary matrices and yaw-pitch-roll products are proper for ALL angles, and the
   flip is the half turn diag(-1, -1, 1) about Oz. *)
Theorem rotation_matrix_ypr_is_proper : forall yaw pitch roll : R,
  proper_rotation NumR (rotation_matrix_ypr NumR yaw pitch roll).
Proof. exact rotation_matrix_ypr_proper. Qed.

Theorem elementary_rotations_are_proper : forall c s : R, (c * c + s * s = 1)%R ->
  proper_rotation NumR (rot_x_cs NumR c s) /\ proper_rotation NumR (rot_y_cs NumR c s) /\
  proper_rotation NumR (rot_z_cs NumR c s).
Proof. intros c s H; exact (conj (rot_x_proper c s H) (conj (rot_y_proper c s H) (rot_z_proper c s H))). Qed.

Theorem flip_is_half_turn_about_Oz : forall p : probeR,
  p_flip NumR p = p_rotate NumR ((-1, -0, 0), (0, -1, 0), (0, 0, 1))%R None p.
Proof. exact flip_is_half_turn. Qed.

(* ---- non-vacuity ----------------------------------------------------------------------- *)
(* the hypotheses are satisfiable by a history that uses every kind of operation, every
   kind of reference choice, a negative pitch and a rotation about a centre *)
Example admissible_history_exists :
  let ops : list opR :=
    [OpTranslate (1, 2, 3)%R; OpRotate (rot_z_cs NumR (3 / 5) (4 / 5))%R (Some (1, 1, 1)%R); OpFlip;
     OpSetRef RefLast; OpToO; OpSetRef (RefIdx (-2)); OpSetRef RefMean; OpSetRef RefFirst; OpReset;
     OpRotate (rotation_matrix_ypr NumR 1 2 3)%R None; OpSetRef (RefIdx 5)] in
  ori_arg_ok 6 (OriOne (0, 0, 1)%R) /\ Forall (op_ok 6) ops /\
  exists p0 p, make_matrix_probe NumR 3 1%R 2 (-2)%R (OriOne (0, 0, 1)%R) = Some p0 /\
               run_ops NumR ops p0 = Some p /\ reachable 6 p0 p.
Proof.
  cbn zeta.
  assert (Ha : ori_arg_ok 6 (OriOne (0, 0, 1)%R)).
  { unfold ori_arg_ok, unit_v. v3_unfold. ring. }
  assert (Hops : Forall (op_ok 6)
    [OpTranslate (1, 2, 3)%R; OpRotate (rot_z_cs NumR (3 / 5) (4 / 5))%R (Some (1, 1, 1)%R); OpFlip;
     OpSetRef RefLast; OpToO; OpSetRef (RefIdx (-2)); OpSetRef RefMean; OpSetRef RefFirst; OpReset;
     OpRotate (rotation_matrix_ypr NumR 1 2 3)%R None; OpSetRef (RefIdx 5)]).
  { apply Forall_cons; [exact I|]. apply Forall_cons; [apply rot_z_proper; field|].
    apply Forall_cons; [exact I|]. apply Forall_cons; [cbn [op_ok]; lia|].
    apply Forall_cons; [exact I|]. apply Forall_cons; [cbn [op_ok]; lia|].
    apply Forall_cons; [cbn [op_ok]; lia|]. apply Forall_cons; [cbn [op_ok]; lia|].
    apply Forall_cons; [exact I|]. apply Forall_cons; [apply rotation_matrix_ypr_proper|].
    apply Forall_cons; [cbn [op_ok]; lia|]. apply Forall_nil. }
  split; [exact Ha|]. split; [exact Hops|].
  apply (history_total 3 2 1%R (-2)%R (OriOne (0, 0, 1)%R) _ ltac:(lia) ltac:(lia) Ha Hops).
Qed.

(* det M = 1 is needed: a reflection is accepted by the code (its columns are orthonormal,
   so the axes stay unit vectors) but flips the probe-frame coordinate along k_hat. *)
Example reflection_detaches_pcs :
  let M : mat := ((1, 0, 0), (0, 1, 0), (0, 0, -1))%R in
  let p : probeR := mkProbe [(0, 0, 1)%R] None (gcs NumR) in
  exists p', p_rotate NumR M None p = Some p' /\
    locations_pcs NumR p = [(0, 0, 1)%R] /\ locations_pcs NumR p' = [(0, 0, -1)%R].
Proof.
  cbn zeta. unfold p_rotate. cbn [p_pcs p_locs p_oris].
  rewrite cs_rotate_R; [|v3_unfold; v3_split; ring|exact gcs_frame_ok].
  eexists. split; [reflexivity|]. unfold locations_pcs. cbn [p_locs p_pcs map].
  rewrite !cs_from_gcs_R. unfold gcs, cs_axes, cs_k. cbn [cs_o cs_i cs_j rotate_pt option_map].
  v3_unfold. split; f_equal; v3_split; ring.
Qed.

(* the model computes (exact rationals, vm_compute): a 2-element probe of pitch 3/2 is
   translated, turned by 90 degrees about a centre, re-referenced to its last element,
   brought to O, turned about Ox, re-referenced to element -2 (= 0) and reset: it ends
   with element 0 at O, element 1 at +pitch on Ox, normals along Oz, PCS = GCS *)
Example model_runs_on_rationals :
  let ops : list (op (T:=Q)) :=
    [OpTranslate (1, 2, 3); OpRotate ((0, -(1), 0), (1, 0, 0), (0, 0, 1)) (Some (1, 1, 1));
     OpSetRef RefLast; OpToO; OpRotate ((1, 0, 0), (0, 0, -(1)), (0, 1, 0)) None;
     OpSetRef (RefIdx (-2)); OpReset]%Q in
  match make_matrix_probe NumQ 2 (3 # 2)%Q 1 7%Q (OriOne (0, 0, 1)%Q) with
  | Some p => run_ops NumQ ops p
  | None => None
  end = Some (mkProbe [(0, 0, 0); (3 # 2, 0, 0)]%Q (Some [(0, 0, 1); (0, 0, 1)]%Q)
                      (mkCS (0, 0, 0) (1, 0, 0) (0, 1, 0))%Q).
Proof. vm_compute. reflexivity. Qed.

(* the error branches are live: a scaled matrix, an out-of-range element, a size 0 *)
Example model_error_branches :
  (match make_matrix_probe NumQ 2 (3 # 2)%Q 1 7%Q OriNone with
   | Some p => run_ops NumQ [OpRotate ((2, 0, 0), (0, 2, 0), (0, 0, 2))%Q None] p
   | None => None end = None) /\
  (match make_matrix_probe NumQ 2 (3 # 2)%Q 1 7%Q OriNone with
   | Some p => run_ops NumQ [OpSetRef (RefIdx 2)] p
   | None => None end = None) /\
  make_matrix_probe NumQ 0 (3 # 2)%Q 1 7%Q OriNone = None /\
  make_matrix_probe NumQ 2 (3 # 2)%Q 1 7%Q (OriEach [(0, 0, 1)%Q]) = None.
Proof. vm_compute. repeat split; reflexivity. Qed.

(* ======================================================================================== *)
(* Second part (prover round): the glue around the motions.  Model/ProbeOps.v; proofs in
   Proofs/ProbeOpsGenProofs.v (every numeric instance, axiom-free) and
   Proofs/ProbeOpsProofs.v (over the reals).

   Additional vocabulary (Proofs files):
     bind o f            option sequencing: None (a raise) propagates
     frame_ok c          i_hat, j_hat unit and orthogonal (ProbeProofs.v); holds in every
                         reachable state
     good n p            frame_ok (p_pcs p), n elements, normals absent or unit, one each
     affine M t x        M x + t
     moved M t p p'      p' is p with elements and PCS origin mapped by x -> M x + t, normals
                         and PCS axes by M
     wf_len n px         every per-element slot of the Probe object has n entries (or is
                         None) and numelements = n
     np_positions idx n  the positions (in order, with repetitions) that the numpy index
                         idx selects on an axis of n entries; None = the index raises
     arg_ok n a          a per-element constructor argument is None, one value, or n values *)
From Coq Require Import String.
From Coq Require Import List.
From Arim Require Import Model.ProbeOps Proofs.ProbeOpsGenProofs Proofs.ProbeOpsProofs.
Import ListNotations.

(* ---- for EVERY numeric instance (in particular binary64): no real numbers involved ------- *)

(* Python's slice.indices + range: every position a slice selects is a valid position, for
   every start / stop / step (None, negative, beyond the ends); step 0 is the only raise. *)
Theorem python_slice_in_range : forall (n : Z) (s e st : option Z) (ks : list Z), (0 <= n)%Z ->
  slice_indices n s e st = Some ks -> Forall (fun k => (0 <= k < n)%Z) ks.
Proof. exact slice_indices_in_range. Qed.

Theorem python_slice_full_and_step0 : forall (n : nat) (s e : option Z),
  slice_indices (Z.of_nat n) None None None = Some (map Z.of_nat (seq 0 n)) /\
  slice_indices (Z.of_nat n) s e (Some 0%Z) = None.
Proof. intros n s e; exact (conj (slice_all n) (slice_step0 (Z.of_nat n) s e)). Qed.

(* numpy indexing of axis 0 commutes with any per-element map (this is why a subprobe of a
   moved probe is the moved subprobe), and two arrays of the same length are indexed alike:
   both raise or both give results of one length. *)
Theorem indexing_commutes_with_maps : forall (A B : Type) (f : A -> B) (idx : np_idx) (l : list A),
  np_take idx (map f l) = option_map (map f) (np_take idx l).
Proof. exact @np_take_map. Qed.

Theorem indexing_alike_on_equal_lengths : forall (A B : Type) (idx : np_idx) (l1 : list A) (l2 : list B),
  List.length l1 = List.length l2 ->
  match np_take idx l1, np_take idx l2 with
  | Some r1, Some r2 => List.length r1 = List.length r2
  | None, None => True
  | _, _ => False
  end.
Proof. exact @np_take_same_length. Qed.

(* a list of integers selects, in the order given and with repetitions, entry k (k >= 0) or
   n + k (k < 0); it raises iff one entry is outside [-n, n). *)
Theorem integer_list_index : forall (A : Type) (l : list A) (ks : list Z) (d : A),
  (Forall (fun k => (- Z.of_nat (List.length l) <= k < Z.of_nat (List.length l))%Z) ks ->
   np_take (IdxList ks) l = Some (map (fun k => List.nth (norm_index (List.length l) k) l d) ks)) /\
  (Exists (fun k => ~ (- Z.of_nat (List.length l) <= k < Z.of_nat (List.length l))%Z) ks ->
   np_take (IdxList ks) l = None).
Proof. intros A l ks d; exact (conj (np_take_list_ok l ks d) (np_take_list_raises l ks)). Qed.

(* a boolean mask is accepted iff it has the length of the axis OR IS EMPTY; it selects the
   entries under a True, in order, each at most once; every other length raises.
   (Model repair: numpy accepts an empty boolean array as index of an axis of any length and
   selects nothing; np_take used to answer None for it on a non-empty axis.  The theorems of
   this file that quantify over idx hold of the repaired definition as they were stated.) *)
Theorem boolean_mask_index : forall (A : Type) (bs : list bool) (l r : list A),
  (np_take (IdxMask bs) l = Some r <-> (List.length bs = List.length l \/ bs = []) /\ r = mask_select bs l) /\
  np_take (IdxMask []) l = Some [] /\
  (List.length bs <> List.length l -> bs <> [] -> np_take (IdxMask bs) l = None).
Proof.
  intros A bs l r; exact (conj (np_take_mask_spec bs l r) (conj (np_take_mask_empty l) (np_take_mask_raises bs l))).
Qed.

(* every selected position is in range *)
Theorem index_positions_in_range : forall (idx : np_idx) (n : nat) (ps : list nat),
  np_positions idx n = Some ps -> Forall (fun i => (i < n)%nat) ps.
Proof. exact np_positions_in_range. Qed.

(* Probe.subprobe in closed form: it raises exactly when the index raises on the locations;
   otherwise locations, orientations, dimensions, shapes, dead_elements are indexed alike,
   the PCS is kept as it is, frequency / bandwidth are kept, metadata kept or emptied,
   numelements is the number of selected elements. *)
Theorem subprobe_closed_form : forall (T : Type) (N : Num T) (n : nat) (idx : np_idx) (sm : bool)
    (px : probe_x (T:=T)), wf_len n px ->
  subprobe N idx sm px =
  match np_take idx (p_locs (x_core px)) with
  | None => None
  | Some locs =>
      Some (mkPX (mkProbe locs (option_map (take_or_nil idx) (p_oris (x_core px))) (p_pcs (x_core px)))
                 (option_map (take_or_nil idx) (x_dims px)) (option_map (take_or_nil idx) (x_shapes px))
                 (take_or_nil idx (x_dead px)) (x_freq px) (x_bw px)
                 (if sm then x_meta px else []) (Z.of_nat (List.length locs)))
  end.
Proof. exact @subprobe_spec_gen. Qed.

(* Probe.subprobe(np.array([], dtype=bool)) of a probe of ANY size never raises: the probe
   without elements, slots that were None stay None, the others are emptied, PCS / frequency /
   bandwidth kept, metadata kept or emptied, numelements 0. *)
Theorem subprobe_of_empty_mask : forall (T : Type) (N : Num T) (n : nat) (sm : bool) (px : probe_x (T:=T)),
  wf_len n px ->
  subprobe N (IdxMask []) sm px =
  Some (mkPX (mkProbe [] (option_map (fun _ => []) (p_oris (x_core px))) (p_pcs (x_core px)))
             (option_map (fun _ => []) (x_dims px)) (option_map (fun _ => []) (x_shapes px)) []
             (x_freq px) (x_bw px) (if sm then x_meta px else []) 0%Z).
Proof. exact @subprobe_empty_mask. Qed.

(* subprobe commutes with rotate / translate / flip / translate_to_point_O / reset_position:
   the same object, the same raise, whichever is done first — bit for bit in floating point
   too, since no arithmetic identity is used. *)
Theorem subprobe_commutes_with_motions : forall (T : Type) (N : Num T) (n : nat) (idx : np_idx) (sm : bool)
    (o : op (T:=T)) (px : probe_x (T:=T)), wf_len n px -> not_set_ref o = true ->
  bind (apply_op_x N o px) (subprobe N idx sm) = bind (subprobe N idx sm px) (apply_op_x N o).
Proof. exact @subprobe_commutes_gen. Qed.

(* frame condition: a history of motions assigns locations / orientations / pcs (as
   Model/Probe.v says) and leaves dimensions, shapes, dead_elements, frequency, bandwidth,
   metadata, numelements alone. *)
Theorem motions_touch_only_motion_state : forall (T : Type) (N : Num T) (ops : list (op (T:=T)))
    (px q : probe_x (T:=T)), run_ops_x N ops px = Some q ->
  run_ops N ops (x_core px) = Some (x_core q) /\
  x_dims q = x_dims px /\ x_shapes q = x_shapes px /\ x_dead q = x_dead px /\ x_freq q = x_freq px /\
  x_bw q = x_bw px /\ x_meta q = x_meta px /\ x_numel q = x_numel px.
Proof. exact @run_ops_x_frame. Qed.

(* the metadata of make_matrix_probe: each of the five keys keeps the caller's value when
   there is one that is not None, else gets probe_type in {single, linear, matrix}, numx,
   numy, pitch_x, pitch_y (nan for a one-element axis: the caller passes MNan); no other key
   is touched. *)
Theorem matrix_probe_metadata : forall (T : Type) (m : dict T) (numx numy : Z) (a b : mval T),
  let m' := matrix_metadata m numx numy a b in
  dict_get m' "probe_type" = (if dict_unset m "probe_type" then Some (MStr (probe_type_of numx numy)) else dict_get m "probe_type") /\
  dict_get m' "numx" = (if dict_unset m "numx" then Some (MInt numx) else dict_get m "numx") /\
  dict_get m' "numy" = (if dict_unset m "numy" then Some (MInt numy) else dict_get m "numy") /\
  dict_get m' "pitch_x" = (if dict_unset m "pitch_x" then Some a else dict_get m "pitch_x") /\
  dict_get m' "pitch_y" = (if dict_unset m "pitch_y" then Some b else dict_get m "pitch_y") /\
  forall k : string, k <> "probe_type"%string -> k <> "numx"%string -> k <> "numy"%string ->
    k <> "pitch_x"%string -> k <> "pitch_y"%string -> dict_get m' k = dict_get m k.
Proof. exact @matrix_metadata_spec. Qed.

(* a second set_reference_element overrides the first (it reads the locations only) *)
Theorem second_reference_overrides_first : forall (T : Type) (N : Num T) (r1 r2 : refelt) (p : probe (T:=T)),
  p_set_ref N r1 p <> None -> bind (p_set_ref N r1 p) (p_set_ref N r2) = p_set_ref N r2 p.
Proof. exact @set_ref_absorbs_gen. Qed.

(* the probe_location block of io.native.probe_from_conf is a history of the modelled
   operations, for every subset of its keys: [set_reference_element(ref);
   translate_to_point_O] ++ [rotate(rotation_matrix_y(deg2rad(angle)))] ++
   [translate((0, 0, standoff))] — so every theorem about histories applies to it. *)
Theorem probe_location_is_history : forall (T : Type) (N : Num T) (ref : option refelt) (a h : option T)
    (p : probe (T:=T)),
  apply_probe_location N ref a h p = run_ops N (location_ops N ref a h) p.
Proof. exact @apply_probe_location_history_gen. Qed.

(* ---- over the reals ------------------------------------------------------------------------ *)

(* refinement: in every reachable state convert_to_gcs and convert_from_gcs of the PCS are
   inverse bijections, so the pair (locations_pcs, pcs) determines the locations and
   (constructed normals, PCS axes) the normals. *)
Theorem locations_determined : forall (n : nat) (p0 p : probeR), reachable n p0 p ->
  p_locs p = map (cs_to_gcs NumR (p_pcs p)) (locations_pcs NumR p) /\
  locations_pcs NumR p = map (cs_from_gcs NumR (p_pcs p)) (p_locs p) /\
  (forall q : vec, cs_from_gcs NumR (p_pcs p) (cs_to_gcs NumR (p_pcs p) q) = q) /\
  (forall x : vec, cs_to_gcs NumR (p_pcs p) (cs_from_gcs NumR (p_pcs p) x) = x) /\
  p_oris p = option_map (map (cs_to_gcs NumR (mkCS (0, 0, 0)%R (cs_i (p_pcs p)) (cs_j (p_pcs p))))) (p_oris p0).
Proof. exact locations_determined_R. Qed.

(* every history is ONE rigid motion, in closed form (the spec the harness accumulates in
   numpy): there are a proper rotation M, a vector t and a reference point r such that the
   elements are M x0 + t, the normals M n0, the PCS axes the COLUMNS of M (k_hat included:
   orientation is preserved), the PCS origin M r + t, and locations_pcs = x0 - r. *)
Theorem history_is_one_rigid_motion : forall (n : nat) (p0 p : probeR), reachable n p0 p ->
  exists (M : mat) (t r : vec), proper_rotation NumR M /\
    p_locs p = map (affine M t) (p_locs p0) /\
    p_oris p = option_map (map (mvec NumR M)) (p_oris p0) /\
    cs_i (p_pcs p) = mcol0 M /\ cs_j (p_pcs p) = mcol1 M /\ cs_k NumR (p_pcs p) = mcol2 M /\
    cs_o (p_pcs p) = affine M t r /\
    locations_pcs NumR p = map (fun x => vsub NumR x r) (p_locs p0).
Proof. exact history_rigid_motion_R. Qed.

(* composition laws (equalities of whole probe states, raise included) *)
Theorem rotations_compose : forall (M1 M2 : mat) (ce : option vec) (p : probeR),
  cols_orthonormal NumR M1 -> cols_orthonormal NumR M2 -> frame_ok (p_pcs p) ->
  bind (p_rotate NumR M1 ce p) (p_rotate NumR M2 ce) = p_rotate NumR (mmul NumR M2 M1) ce p.
Proof. exact rotate_rotate_R. Qed.

Theorem translations_compose : forall (v1 v2 : vec) (p : probeR), frame_ok (p_pcs p) ->
  bind (p_translate NumR v1 p) (p_translate NumR v2) = p_translate NumR (vadd NumR v1 v2) p.
Proof. exact translate_translate_R. Qed.

Theorem translate_then_rotate : forall (M : mat) (ce : option vec) (v : vec) (p : probeR),
  cols_orthonormal NumR M -> frame_ok (p_pcs p) ->
  bind (p_translate NumR v p) (p_rotate NumR M ce) = bind (p_rotate NumR M ce p) (p_translate NumR (mvec NumR M v)).
Proof. exact translate_rotate_R. Qed.

Theorem rotation_about_centre_decomposes : forall (M : mat) (c : vec) (p : probeR),
  cols_orthonormal NumR M -> frame_ok (p_pcs p) ->
  p_rotate NumR M (Some c) p =
  bind (bind (p_translate NumR (vopp NumR c) p) (p_rotate NumR M None)) (p_translate NumR c).
Proof. exact rotate_about_centre_R. Qed.

Theorem rotation_undone_by_transpose : forall (M : mat) (ce : option vec) (p : probeR),
  cols_orthonormal NumR M -> frame_ok (p_pcs p) ->
  bind (p_rotate NumR M ce p) (p_rotate NumR (mtrans M) ce) = Some p.
Proof. exact rotate_inverse_R. Qed.

Theorem flip_twice_is_identity : forall p : probeR, frame_ok (p_pcs p) ->
  bind (p_flip NumR p) (p_flip NumR) = Some p.
Proof. exact flip_flip_R. Qed.

Theorem reset_and_to_O_idempotent : forall p : probeR, frame_ok (p_pcs p) ->
  bind (p_reset NumR p) (p_reset NumR) = p_reset NumR p /\
  bind (p_to_O NumR p) (p_to_O NumR) = p_to_O NumR p /\
  (p_pcs p = gcs NumR -> p_reset NumR p = Some p).
Proof.
  intros p H; exact (conj (reset_idempotent_R p H) (conj (to_O_idempotent_R p H) (reset_at_gcs_R p))).
Qed.

(* placing a probe (probe_from_conf): never raises from a reachable state, for every subset
   of the keys, and the result is a reachable state (rigid, PCS attached, ...). *)
Theorem probe_location_never_raises : forall (n : nat) (p0 p : probeR) (ref : option refelt) (a h : option R),
  reachable n p0 p -> match ref with Some r => op_ok n (OpSetRef r) | None => True end ->
  exists p', apply_probe_location NumR ref a h p = Some p' /\ reachable n p0 p'.
Proof. exact probe_location_total_R. Qed.

(* ... and the pose it produces with all three keys: the reference point q (element or mean)
   ends at (0, 0, standoff), which is the PCS origin; the elements are
   R_y(angle) (x - q) + (0, 0, standoff); axes and normals are turned by R_y(angle); the
   probe-frame coordinates are shifted so that the reference point is at the origin. *)
Theorem probe_location_pose : forall (n : nat) (p : probeR) (r : refelt) (a h : R),
  good n p -> op_ok n (OpSetRef r) ->
  let Ry := rotation_matrix_y NumR (deg2rad NumR a) in
  exists q p', ref_point NumR r (p_locs p) = Some q /\
    apply_probe_location NumR (Some r) (Some a) (Some h) p = Some p' /\
    p_locs p' = map (fun x => vadd NumR (mvec NumR Ry (vsub NumR x q)) (0, 0, h)%R) (p_locs p) /\
    p_oris p' = option_map (map (mvec NumR Ry)) (p_oris p) /\
    cs_o (p_pcs p') = (0, 0, h)%R /\
    cs_i (p_pcs p') = mvec NumR Ry (cs_i (p_pcs p)) /\ cs_j (p_pcs p') = mvec NumR Ry (cs_j (p_pcs p)) /\
    locations_pcs NumR p' = map (fun x => vsub NumR x (cs_from_gcs NumR (p_pcs p) q)) (locations_pcs NumR p).
Proof. exact probe_location_pose_R. Qed.

(* measurement.move_probe_over_flat_surface after reset_position (as
   find_probe_loc_from_frontwall does): the gate pcs.isclose(GCS) passes, nothing raises,
   the elements sit at R_y(theta) (probe-frame location) + (0, 0, z_o), the PCS origin at
   (0, 0, z_o) with axes (cos, 0, -sin), (0, 1, 0), (sin, 0, cos); locations_pcs unchanged. *)
Theorem place_over_surface_after_reset : forall (n : nat) (p0 p : probeR) (th z : R), reachable n p0 p ->
  let Ry := rotation_matrix_y NumR th in
  exists p1 p', p_reset NumR p = Some p1 /\ place_over_surface NumR th z p1 = Some p' /\
    reachable n p0 p' /\
    p_locs p' = map (fun x => vadd NumR (mvec NumR Ry x) (0, 0, z)%R) (locations_pcs NumR p) /\
    cs_o (p_pcs p') = (0, 0, z)%R /\ cs_i (p_pcs p') = (cos th, 0, - sin th)%R /\
    cs_j (p_pcs p') = (0, 1, 0)%R /\ cs_k NumR (p_pcs p') = (sin th, 0, cos th)%R /\
    locations_pcs NumR p' = locations_pcs NumR p.
Proof. exact place_after_reset_R. Qed.

(* convert_from_gcs_pairwise: points carried along with the probe keep their coordinates
   relative to every origin; and the element-to-element relative coordinates in the probe
   frame are those of the constructed probe after EVERY history (set_reference_element
   included: the common shift cancels). *)
Theorem pairwise_follows_probe : forall (M : mat) (t : vec) (p p' : probeR) (pts origins : list vec),
  proper_rotation NumR M -> moved M t p p' ->
  cs_from_gcs_pairwise NumR (p_pcs p') (map (affine M t) pts) origins =
  cs_from_gcs_pairwise NumR (p_pcs p) pts origins.
Proof. exact pairwise_moved_R. Qed.

Theorem relative_coordinates_invariant : forall (n : nat) (p0 p : probeR), reachable n p0 p ->
  cs_from_gcs_pairwise NumR (p_pcs p) (p_locs p) (locations_pcs NumR p) =
  cs_from_gcs_pairwise NumR (gcs NumR) (p_locs p0) (p_locs p0).
Proof. exact relative_coordinates_R. Qed.

(* Probe.__init__ through make_matrix_probe, the whole object: the motion state is the one
   of make_matrix_probe of Model/Probe.v (so `reachable` applies), every per-element slot has
   numx*numy entries (one value is repeated, dead_elements defaults to all False), frequency
   and bandwidth are stored, the metadata is `matrix_probe_metadata`; it raises for a size
   < 1 or a per-element argument of the wrong length. *)
Theorem matrix_probe_object : forall (numx numy : Z) (pitx pity : R) (f bw : option R) (dims oris : arg1 vec)
    (shapes : arg1 Z) (dead : arg1 bool) (meta : option (dict R)),
  (1 <= numx)%Z -> (1 <= numy)%Z ->
  let n := (Z.to_nat numy * Z.to_nat numx)%nat in
  arg_ok n dims -> arg_ok n oris -> arg_ok n shapes -> arg_ok n dead ->
  exists px, make_matrix_probe_x NumR numx pitx numy pity f dims oris shapes dead bw None meta = Some px /\
    make_matrix_probe NumR numx pitx numy pity (to_ori oris) = Some (x_core px) /\
    wf_len n px /\ x_numel px = (numx * numy)%Z /\
    x_dims px = arg_value n dims /\ x_shapes px = arg_value n shapes /\ x_dead px = dead_value n dead /\
    x_freq px = f /\ x_bw px = bw /\
    x_meta px = matrix_metadata (match meta with None => [] | Some m => m end) numx numy
                  (if (numx =? 1)%Z then MNan else MNum pitx) (if (numy =? 1)%Z then MNan else MNum pity).
Proof. exact make_matrix_probe_x_R. Qed.

Theorem matrix_probe_object_raises : forall (numx numy : Z) (pitx pity : R) (f bw : option R)
    (dims oris : arg1 vec) (shapes : arg1 Z) (dead : arg1 bool) (pcs : option (csys (T:=R)))
    (meta : option (dict R)),
  let n := (Z.to_nat numy * Z.to_nat numx)%nat in
  (numx < 1)%Z \/ (numy < 1)%Z \/ ~ arg_ok n dims \/ ~ arg_ok n oris \/ ~ arg_ok n shapes \/ ~ arg_ok n dead ->
  make_matrix_probe_x NumR numx pitx numy pity f dims oris shapes dead bw pcs meta = None.
Proof. exact make_matrix_probe_x_raises. Qed.

(* the whole object through make_matrix_probe and any admissible history: nothing raises,
   the motion state is reachable, the other slots are as constructed. *)
Theorem object_history : forall (numx numy : Z) (pitx pity : R) (f bw : option R) (dims oris : arg1 vec)
    (shapes : arg1 Z) (dead : arg1 bool) (meta : option (dict R)) (ops : list opR),
  (1 <= numx)%Z -> (1 <= numy)%Z ->
  let n := (Z.to_nat numy * Z.to_nat numx)%nat in
  arg_ok n dims -> ori_arg_ok n (to_ori oris) -> arg_ok n shapes -> arg_ok n dead -> Forall (op_ok n) ops ->
  exists px q, make_matrix_probe_x NumR numx pitx numy pity f dims oris shapes dead bw None meta = Some px /\
    run_ops_x NumR ops px = Some q /\ reachable n (x_core px) (x_core q) /\ wf_len n q /\
    x_dims q = arg_value n dims /\ x_shapes q = arg_value n shapes /\ x_dead q = dead_value n dead /\
    x_freq q = f /\ x_bw q = bw /\ x_meta q = x_meta px /\ x_numel q = (numx * numy)%Z.
Proof. exact object_history_R. Qed.

Theorem set_element_dimensions_spec : forall (n : nat) (sx sy sz : R) (px : probe_xR), wf_len n px ->
  let q := set_element_dimensions NumR sx sy sz px in
  x_dims q = Some (repeat (sx, sy, sz) n) /\ wf_len n q /\ x_core q = x_core px /\
  x_shapes q = x_shapes px /\ x_dead q = x_dead px /\ x_freq q = x_freq px /\ x_bw q = x_bw px /\
  x_meta q = x_meta px /\ x_numel q = x_numel px.
Proof. exact set_element_dimensions_R. Qed.

(* Probe.subprobe on a well-formed object: with ps the selected positions, the subprobe has
   those elements in that order (locations, locations_pcs, normals, dimensions, shapes,
   dead_elements alike), the SAME PCS — the probe-frame coordinates of the retained elements
   do not change —, satisfies the invariant of reachable states for length ps elements; it
   raises exactly when the index does. *)
Theorem subprobe_spec : forall (n : nat) (idx : np_idx) (sm : bool) (px : probe_xR) (ps : list nat),
  wf_len n px -> good n (x_core px) -> np_positions idx n = Some ps ->
  let m := List.length ps in
  exists sp, subprobe NumR idx sm px = Some sp /\
    wf_len m sp /\ good m (x_core sp) /\ Forall (fun i => (i < n)%nat) ps /\
    p_pcs (x_core sp) = p_pcs (x_core px) /\
    p_locs (x_core sp) = map (fun i => List.nth i (p_locs (x_core px)) (vzero NumR)) ps /\
    locations_pcs NumR (x_core sp) = map (fun i => List.nth i (locations_pcs NumR (x_core px)) (vzero NumR)) ps /\
    p_oris (x_core sp) = option_map (fun l => map (fun i => List.nth i l (vzero NumR)) ps) (p_oris (x_core px)) /\
    x_dims sp = option_map (fun l => map (fun i => List.nth i l (vzero NumR)) ps) (x_dims px) /\
    x_shapes sp = option_map (fun l => map (fun i => List.nth i l 0%Z) ps) (x_shapes px) /\
    x_dead sp = map (fun i => List.nth i (x_dead px) false) ps /\
    x_freq sp = x_freq px /\ x_bw sp = x_bw px /\ x_meta sp = (if sm then x_meta px else []) /\
    x_numel sp = Z.of_nat m.
Proof. exact subprobe_R. Qed.

Theorem subprobe_raises : forall (n : nat) (idx : np_idx) (sm : bool) (px : probe_xR),
  wf_len n px -> np_positions idx n = None -> subprobe NumR idx sm px = None.
Proof. exact subprobe_raises_R. Qed.

(* a subprobe followed by ANY admissible history (for its own number of elements): nothing
   raises; distances are those of the retained elements of the original probe;
   locations_pcs are those of the retained elements up to the common vector of
   set_reference_element (none without it); the other slots are those selected. *)
Theorem subprobe_then_history : forall (n : nat) (idx : np_idx) (sm : bool) (px : probe_xR) (ps : list nat)
    (ops : list opR),
  wf_len n px -> good n (x_core px) -> np_positions idx n = Some ps ->
  let m := List.length ps in
  Forall (op_ok m) ops ->
  exists sp q, subprobe NumR idx sm px = Some sp /\ run_ops_x NumR ops sp = Some q /\
    wf_len m q /\ good m (x_core q) /\
    (forall (a b : nat) (d : vec), (a < m)%nat -> (b < m)%nat ->
       dist2 (List.nth a (p_locs (x_core q)) d) (List.nth b (p_locs (x_core q)) d) =
       dist2 (List.nth (List.nth a ps 0%nat) (p_locs (x_core px)) d) (List.nth (List.nth b ps 0%nat) (p_locs (x_core px)) d)) /\
    (exists d, locations_pcs NumR (x_core q) =
               map (fun i => vsub NumR (List.nth i (locations_pcs NumR (x_core px)) (vzero NumR)) d) ps /\
               (forallb (fun o => negb (is_set_ref o)) ops = true -> d = vzero NumR)) /\
    orientations_pcs NumR (x_core q) = orientations_pcs NumR (x_core sp) /\
    x_dead q = map (fun i => List.nth i (x_dead px) false) ps /\ x_dims q = x_dims sp /\ x_shapes q = x_shapes sp /\
    x_meta q = (if sm then x_meta px else []) /\ x_numel q = Z.of_nat m.
Proof. exact subprobe_history_R. Qed.

(* ---- non-vacuity of the second part ---------------------------------------------------------- *)
(* the hypotheses of the composition laws hold e.g. at the GCS with a 3-4-5 rotation *)
Example composition_hypotheses_satisfiable :
  let p : probeR := mkProbe [(1, 2, 3)%R] None (gcs NumR) in
  frame_ok (p_pcs p) /\ cols_orthonormal NumR (rot_z_cs NumR (3 / 5) (4 / 5))%R /\
  bind (p_flip NumR p) (p_flip NumR) = Some p.
Proof.
  cbn zeta. split; [exact gcs_frame_ok|]. split.
  - assert (H : proper_rotation NumR (rot_z_cs NumR (3 / 5) (4 / 5))%R) by (apply rot_z_proper; field).
    apply H.
  - apply flip_flip_R. exact gcs_frame_ok.
Qed.

(* a whole object, moved, then cut down with a reversed slice and moved again: all the
   hypotheses of object_history and subprobe_then_history are met *)
Example object_and_subprobe_hypotheses_satisfiable :
  let ops : list opR := [OpTranslate (1, 2, 3)%R; OpSetRef (RefIdx (-6)); OpReset] in
  let ops' : list opR := [OpRotate (rotation_matrix_ypr NumR 1 2 3)%R (Some (1, 1, 1)%R); OpSetRef (RefIdx (-3)); OpFlip] in
  exists px q ps, make_matrix_probe_x NumR 3 1%R 2 (-2)%R (Some 1000000%R) (ArgOne (1, 2, 3)%R) (ArgOne (0, 0, 1)%R)
                    (ArgOne 1%Z) (ArgEach [false; true; false; false; false; true]) None None None = Some px /\
    run_ops_x NumR ops px = Some q /\ wf_len 6 q /\ good 6 (x_core q) /\
    np_positions (IdxSlice None None (Some (-2)%Z)) 6 = Some ps /\ ps = [5; 3; 1]%nat /\
    Forall (op_ok (List.length ps)) ops' /\
    exists sp q', subprobe NumR (IdxSlice None None (Some (-2)%Z)) true q = Some sp /\
      run_ops_x NumR ops' sp = Some q' /\ x_dead q' = [true; false; true].
Proof.
  cbn zeta.
  assert (Hu : ori_arg_ok 6 (to_ori (ArgOne (0, 0, 1)%R))).
  { unfold ori_arg_ok, to_ori, unit_v. v3_unfold. ring. }
  assert (Hops : Forall (op_ok 6) [OpTranslate (1, 2, 3)%R; OpSetRef (RefIdx (-6)); OpReset]).
  { constructor; [exact I|]. constructor; [cbn [op_ok]; lia|]. constructor; [exact I|constructor]. }
  destruct (object_history_R 3 2 1%R (-2)%R (Some 1000000%R) None (ArgOne (1, 2, 3)%R) (ArgOne (0, 0, 1)%R)
              (ArgOne 1%Z) (ArgEach [false; true; false; false; false; true]) None _
              ltac:(lia) ltac:(lia) I Hu I eq_refl Hops)
    as (px & q & E & Er & Hre & Hwf & _ & _ & Hdead & _).
  pose proof (reachable_facts _ _ _ Hre) as (_ & Hg & _).
  exists px, q, [5; 3; 1]%nat. split; [exact E|]. split; [exact Er|]. split; [exact Hwf|]. split; [exact Hg|].
  split; [reflexivity|]. split; [reflexivity|].
  assert (Hops' : Forall (op_ok 3)
    [OpRotate (rotation_matrix_ypr NumR 1 2 3)%R (Some (1, 1, 1)%R); OpSetRef (RefIdx (-3)); OpFlip]).
  { constructor; [apply rotation_matrix_ypr_proper|]. constructor; [cbn [op_ok]; lia|]. constructor; [exact I|constructor]. }
  split; [exact Hops'|].
  destruct (subprobe_history_R 6 (IdxSlice None None (Some (-2)%Z)) true q [5; 3; 1]%nat _ Hwf Hg eq_refl Hops')
    as (sp & q' & Es & Er' & _ & _ & _ & _ & _ & Hd' & _).
  exists sp, q'. split; [exact Es|]. split; [exact Er'|]. rewrite Hd', Hdead. reflexivity.
Qed.

(* the glue computes (exact rationals, vm_compute); every value below was replayed on the
   real library (see notes/prover_C16_TIE.md) *)
Example glue_runs_on_rationals :
  let px0 := make_matrix_probe_x NumQ 3 1%Q 2 (-2)%Q (Some 1000000%Q) (ArgOne (1, 2, 3)%Q) (ArgOne (0, 0, 1)%Q)
               (ArgOne 1%Z) (ArgEach [false; true; false; false; false; true]) None None
               (Some [("numx"%string, MNone); ("probe_type"%string, MStr "x")]) in
  let sub idx sm := match px0 with Some p => subprobe NumQ idx sm p | None => None end in
  option_map (@x_meta Q) px0 =
    Some [("numx"%string, MInt 3); ("probe_type"%string, MStr "x"); ("numy"%string, MInt 2);
          ("pitch_x"%string, MNum 1%Q); ("pitch_y"%string, MNum (-2)%Q)] /\
  option_map (fun p => (p_locs (x_core p), x_dead p, x_meta p, x_numel p)) (sub (IdxList [0; -1; 2; 2]%Z) false) =
    Some ([(-1, 1, 0); (1, -1, 0); (1, 1, 0); (1, 1, 0)]%Q, [false; true; false; false], [], 4%Z) /\
  option_map (fun p => (p_locs (x_core p), x_dead p)) (sub (IdxSlice (Some 4%Z) (Some 0%Z) (Some (-2)%Z)) true) =
    Some ([(0, -1, 0); (1, 1, 0)]%Q, [false; false]) /\
  option_map (fun p => (p_locs (x_core p), x_dead p)) (sub (IdxMask [true; false; true; false; false; true]) false) =
    Some ([(-1, 1, 0); (1, 1, 0); (1, -1, 0)]%Q, [false; false; true]) /\
  (sub (IdxInt 1) false, sub (IdxList [6%Z]) false, sub (IdxMask [true; false]) false,
   sub (IdxSlice None None (Some 0%Z)) false) = (None, None, None, None) /\
  (* the empty boolean array: the probe without elements (metadata dropped / kept) *)
  option_map (fun p => (p_locs (x_core p), p_oris (x_core p), x_dims p, x_shapes p, x_dead p, x_meta p, x_numel p))
             (sub (IdxMask []) false) = Some ([], Some [], Some [], Some [], [], [], 0%Z) /\
  option_map (@x_meta Q) (sub (IdxMask []) true) = option_map (@x_meta Q) px0 /\
  option_map (@x_meta Q) (make_matrix_probe_x NumQ 1 5%Q 4 7%Q (Some 2%Q) ArgNone ArgNone ArgNone ArgNone (Some 3%Q) None None) =
    Some [("probe_type"%string, MStr "linear"); ("numx"%string, MInt 1); ("numy"%string, MInt 4);
          ("pitch_x"%string, MNan); ("pitch_y"%string, MNum 7%Q)] /\
  make_matrix_probe_x NumQ 3 1%Q 2 1%Q None ArgNone ArgNone ArgNone (ArgEach [true; false]) None None None = None /\
  (slice_indices 6 None None (Some 2%Z), slice_indices 6 (Some (-100)%Z) (Some 100%Z) (Some 4%Z),
   slice_indices 6 (Some 100%Z) (Some (-100)%Z) (Some (-3)%Z)) =
    (Some [0; 2; 4]%Z, Some [0; 4]%Z, Some [5; 2]%Z) /\
  cs_from_gcs_pairwise NumQ (mkCS (1, 1, 1) (0, 1, 0) (0, 0, 1))%Q [(1, 2, 3); (4, 5, 6)]%Q [(1, 0, 0); (0, 1, 0); (0, 0, 1)]%Q =
    ([[0; 1; 1]; [3; 4; 4]], [[2; 1; 2]; [5; 4; 5]], [[0; 0; -1]; [3; 3; 2]])%Q /\
  map (cs_to_gcs NumQ (mkCS (1, 1, 1) (0, 1, 0) (0, 0, 1))%Q) [(1, 2, 3); (4, 5, 6)]%Q = [(4, 2, 3); (7, 5, 6)]%Q /\
  match make_matrix_probe NumQ 3 2%Q 1 7%Q (OriOne (0, 0, 1)%Q) with
  | Some p => apply_probe_location NumQ (Some RefLast) (Some 0%Q) (Some (5 # 2)%Q) p
  | None => None
  end = Some (mkProbe [(-4, 0, 5 # 2); (-2, 0, 5 # 2); (0, 0, 5 # 2)]%Q (Some [(0, 0, 1); (0, 0, 1); (0, 0, 1)]%Q)
                      (mkCS (0, 0, 5 # 2) (1, 0, 0) (0, 1, 0))%Q) /\
  (* the gate of move_probe_over_flat_surface: refuses a probe 1 unit away from the GCS *)
  match make_matrix_probe NumQ 3 2%Q 1 7%Q OriNone with
  | Some p => match p_translate NumQ (1, 0, 0)%Q p with Some q => place_over_surface NumQ 0%Q (-(3 # 2))%Q q | None => None end
  | None => None
  end = None.
Proof. vm_compute. repeat split; reflexivity. Qed.
