(* Props/C16.v — Probe motions are rigid and keep the probe coordinate system attached.
   Statements only; proofs are in Proofs/ProbeProofs.v, ProbeHistoryProofs.v and
   ProbeTheorems.v.  All statements are about the real-number instance NumR of the model
   Model/Probe.v (exact arithmetic; rounding is outside every theorem).

   Vocabulary (defined in the Proofs files):
     reachable n p0 p   p0 = make_matrix_probe numx px numy py normals (numx, numy >= 1,
                        n = numx*numy elements, any real pitches of either sign, normals
                        absent or unit and one per element) and p = run_ops ops p0 for a
                        list ops of operations, ARBITRARY in length and order, of
                        rotate(M, centre) with M any proper rotation (M M^T = I, det M = 1)
                        about any centre or none, translate(v), flip, translate_to_point_O,
                        set_reference_element('first' | 'last' | 'mean' | k, -n <= k < n),
                        reset_position                                  (op_ok n, Forall)
     dist2 a b          squared Euclidean distance
     proper_rotation    rows and columns orthonormal, determinant 1 (Model/Vec3.v)
   A result None of the model is a raise of the implementation. *)
From Coq Require Import List Reals ZArith QArith Lia Lra.
From Arim Require Import Base.Num Base.NumR Base.NumQ Model.Vec3 Proofs.Vec3Proofs Model.Probe
  Proofs.ProbeProofs Proofs.ProbeHistoryProofs Proofs.ProbeTheorems.
Import ListNotations.
Local Close Scope Q_scope.

(* Every admissible history runs to the end: no operation raises (in particular the
   normalisation check of the CoordinateSystem setters never fires), and its result is a
   reachable state in the sense used by all theorems below. *)
Theorem history_never_raises : forall (numx numy : Z) (px py : R) (a : ori_arg) (ops : list opR),
  (1 <= numx)%Z -> (1 <= numy)%Z ->
  let n := (Z.to_nat numy * Z.to_nat numx)%nat in
  ori_arg_ok n a -> Forall (op_ok n) ops ->
  exists p0 p, make_matrix_probe NumR numx px numy py a = Some p0 /\ run_ops NumR ops p0 = Some p /\
               reachable n p0 p.
Proof. exact history_total. Qed.

(* ... and one more admissible operation on a reachable state does not raise and gives a
   reachable state (so every theorem below holds after EVERY step of a history). *)
Theorem reachable_closed : forall (n : nat) (p0 p : probeR) (o : opR),
  reachable n p0 p -> op_ok n o ->
  exists p', apply_op NumR o p = Some p' /\ reachable n p0 p'.
Proof. exact reachable_step. Qed.

(* rigid: the number of elements and all squared pairwise distances are those of the probe
   as constructed. *)
Theorem rigid : forall (n : nat) (p0 p : probeR), reachable n p0 p ->
  length (p_locs p) = n /\ length (p_locs p0) = n /\
  forall (a b : nat) (d : vec), (a < n)%nat -> (b < n)%nat ->
    dist2 (List.nth a (p_locs p) d) (List.nth b (p_locs p) d) =
    dist2 (List.nth a (p_locs p0) d) (List.nth b (p_locs p0) d).
Proof. exact rigid_R. Qed.

(* pcs_attached (histories without set_reference_element): locations_pcs and
   orientations_pcs are exactly those of the probe as constructed, which are its
   constructed locations and normals (PCS = GCS initially). *)
Theorem pcs_attached : forall (numx numy : Z) (px py : R) (a : ori_arg) (ops : list opR),
  (1 <= numx)%Z -> (1 <= numy)%Z ->
  let n := (Z.to_nat numy * Z.to_nat numx)%nat in
  ori_arg_ok n a -> Forall (op_ok n) ops ->
  forallb (fun o => negb (is_set_ref o)) ops = true ->
  exists p0 p, make_matrix_probe NumR numx px numy py a = Some p0 /\ run_ops NumR ops p0 = Some p /\
    locations_pcs NumR p = locations_pcs NumR p0 /\ locations_pcs NumR p0 = p_locs p0 /\
    orientations_pcs NumR p = orientations_pcs NumR p0 /\ orientations_pcs NumR p0 = Some (p_oris p0).
Proof. exact pcs_attached_R. Qed.

(* pcs_attached (one step from any reachable state): every operation other than
   set_reference_element leaves locations_pcs and orientations_pcs unchanged. *)
Theorem pcs_attached_step : forall (n : nat) (p0 p : probeR) (o : opR),
  reachable n p0 p -> op_ok n o -> is_set_ref o = false ->
  exists p', apply_op NumR o p = Some p' /\
    locations_pcs NumR p' = locations_pcs NumR p /\ orientations_pcs NumR p' = orientations_pcs NumR p.
Proof. exact pcs_attached_step_R. Qed.

(* pcs_attached (any history): the probe-frame locations differ from the constructed
   locations by ONE common vector, the probe-frame normals are the constructed normals. *)
Theorem pcs_attached_up_to_reference : forall (n : nat) (p0 p : probeR), reachable n p0 p ->
  (exists d, locations_pcs NumR p = map (fun x => vsub NumR x d) (p_locs p0)) /\
  orientations_pcs NumR p = Some (p_oris p0).
Proof. exact pcs_attached_shift_R. Qed.

(* set_reference_element moves nothing but the PCS origin; it subtracts from all
   locations_pcs the old PCS coordinates of the chosen point q, leaves orientations_pcs
   alone, and puts the chosen element (first = 0, last = n-1, k or n+k) at the PCS origin —
   for 'mean', q is the arithmetic mean of the element centres and the new locations_pcs
   have mean zero. *)
Theorem set_reference_element_shifts : forall (n : nat) (p0 p : probeR) (r : refelt),
  reachable n p0 p -> op_ok n (OpSetRef r) ->
  exists q p', ref_point NumR r (p_locs p) = Some q /\ p_set_ref NumR r p = Some p' /\
    p_locs p' = p_locs p /\ p_oris p' = p_oris p /\
    cs_i (p_pcs p') = cs_i (p_pcs p) /\ cs_j (p_pcs p') = cs_j (p_pcs p) /\ cs_o (p_pcs p') = q /\
    locations_pcs NumR p' = map (fun x => vsub NumR x (cs_from_gcs NumR (p_pcs p) q)) (locations_pcs NumR p) /\
    orientations_pcs NumR p' = orientations_pcs NumR p /\
    match ref_elt r n with
    | Some e => (e < n)%nat /\ q = List.nth e (p_locs p) (vzero NumR) /\
                List.nth e (locations_pcs NumR p') (vzero NumR) = vzero NumR
    | None => q = vmean NumR (p_locs p) /\ vmean NumR (locations_pcs NumR p') = vzero NumR
    end.
Proof. exact set_reference_R. Qed.

(* frame_orthonormal: (i_hat, j_hat, k_hat = i x j) is orthonormal and right-handed; the
   normals (present iff given at construction) are one unit vector per element. *)
Theorem frame_orthonormal : forall (n : nat) (p0 p : probeR), reachable n p0 p ->
  proper_rotation NumR (cs_i (p_pcs p), cs_j (p_pcs p), cs_k NumR (p_pcs p)) /\
  match p_oris p with
  | None => p_oris p0 = None
  | Some os => length os = n /\ Forall (fun v => vdot NumR v v = 1%R) os
  end.
Proof. exact frame_orthonormal_R. Qed.

(* oriented_points_axes: to_oriented_points exports, for every element e, the element's
   location and the 3x3 array whose ROWS are the probe's own i_hat, j_hat, k_hat (the
   layout geometry.from_gcs / to_gcs expect), an orthonormal right-handed basis. *)
Theorem oriented_points_axes : forall (n : nat) (p0 p : probeR), reachable n p0 p ->
  length (p_oriented NumR p) = n /\
  proper_rotation NumR (cs_i (p_pcs p), cs_j (p_pcs p), cs_k NumR (p_pcs p)) /\
  forall (e : nat) (d : vec * mat), (e < n)%nat ->
    List.nth e (p_oriented NumR p) d =
    (List.nth e (p_locs p) (fst d), (cs_i (p_pcs p), cs_j (p_pcs p), cs_k NumR (p_pcs p))).
Proof. exact oriented_points_axes_R. Qed.

(* reset_restores: reset_position on any reachable state does not raise; afterwards the PCS
   IS the GCS, the global locations are the probe-frame locations from before the reset
   and coincide with the new probe-frame locations; likewise for the normals, which are
   the constructed normals again. *)
Theorem reset_restores : forall (n : nat) (p0 p : probeR), reachable n p0 p ->
  exists p', p_reset NumR p = Some p' /\
    p_pcs p' = gcs NumR /\
    p_locs p' = locations_pcs NumR p /\
    locations_pcs NumR p' = p_locs p' /\
    orientations_pcs NumR p = Some (p_oris p') /\
    orientations_pcs NumR p' = Some (p_oris p') /\
    p_oris p' = p_oris p0.
Proof. exact reset_restores_reachable. Qed.

(* make_matrix_probe: numx*numy elements, element iy*numx+ix at
   ((ix - (numx-1)/2) pitch_x, (iy - (numy-1)/2) pitch_y, 0) — centred on O, x fastest,
   either pitch sign (a 1-element axis ignores its pitch: the formula gives 0) — with
   PCS = GCS, so locations_pcs = locations; sizes < 1 raise. *)
Theorem matrix_probe_layout : forall (numx numy : Z) (px py : R) (a : ori_arg),
  (1 <= numx)%Z -> (1 <= numy)%Z ->
  let n := (Z.to_nat numy * Z.to_nat numx)%nat in
  ori_arg_ok n a ->
  exists p0, make_matrix_probe NumR numx px numy py a = Some p0 /\
    length (p_locs p0) = n /\ p_pcs p0 = gcs NumR /\ locations_pcs NumR p0 = p_locs p0 /\
    (forall (ix iy : nat) (d : vec), (ix < Z.to_nat numx)%nat -> (iy < Z.to_nat numy)%nat ->
       List.nth (iy * Z.to_nat numx + ix) (p_locs p0) d =
       ((IZR (Z.of_nat ix) - (IZR numx - 1) / 2) * px, (IZR (Z.of_nat iy) - (IZR numy - 1) / 2) * py, 0))%R.
Proof. exact matrix_probe_layout_R. Qed.

Theorem matrix_probe_bad_size_raises : forall (numx numy : Z) (px py : R) (a : ori_arg),
  (numx < 1)%Z \/ (numy < 1)%Z -> make_matrix_probe NumR numx px numy py a = None.
Proof. exact make_matrix_probe_error. Qed.

(* The rotations used in executions satisfy the hypothesis of the theorems: the three
   elementary matrices and yaw-pitch-roll products are proper for ALL angles, and the
   flip is the half turn diag(-1, -1, 1) about Oz. *)
Theorem rotation_matrix_ypr_is_proper : forall yaw pitch roll : R,
  proper_rotation NumR (rotation_matrix_ypr NumR yaw pitch roll).
Proof. exact rotation_matrix_ypr_proper. Qed.

Theorem elementary_rotations_are_proper : forall c s : R, (c * c + s * s = 1)%R ->
  proper_rotation NumR (rot_x_cs NumR c s) /\ proper_rotation NumR (rot_y_cs NumR c s) /\
  proper_rotation NumR (rot_z_cs NumR c s).
Proof. intros c s H; exact (conj (rot_x_proper c s H) (conj (rot_y_proper c s H) (rot_z_proper c s H))). Qed.

Theorem flip_is_half_turn_about_Oz : forall p : probeR,
  p_flip NumR p = p_rotate NumR ((-1, -0, 0), (0, -1, 0), (0, 0, 1))%R None p.
Proof. exact flip_is_half_turn. Qed.

(* ---- non-vacuity ----------------------------------------------------------------------- *)
(* the hypotheses are satisfiable by a history that uses every kind of operation, every
   kind of reference choice, a negative pitch and a rotation about a centre *)
Example admissible_history_exists :
  let ops : list opR :=
    [OpTranslate (1, 2, 3)%R; OpRotate (rot_z_cs NumR (3 / 5) (4 / 5))%R (Some (1, 1, 1)%R); OpFlip;
     OpSetRef RefLast; OpToO; OpSetRef (RefIdx (-2)); OpSetRef RefMean; OpSetRef RefFirst; OpReset;
     OpRotate (rotation_matrix_ypr NumR 1 2 3)%R None; OpSetRef (RefIdx 5)] in
  ori_arg_ok 6 (OriOne (0, 0, 1)%R) /\ Forall (op_ok 6) ops /\
  exists p0 p, make_matrix_probe NumR 3 1%R 2 (-2)%R (OriOne (0, 0, 1)%R) = Some p0 /\
               run_ops NumR ops p0 = Some p /\ reachable 6 p0 p.
Proof.
  cbn zeta.
  assert (Ha : ori_arg_ok 6 (OriOne (0, 0, 1)%R)).
  { unfold ori_arg_ok, unit_v. v3_unfold. ring. }
  assert (Hops : Forall (op_ok 6)
    [OpTranslate (1, 2, 3)%R; OpRotate (rot_z_cs NumR (3 / 5) (4 / 5))%R (Some (1, 1, 1)%R); OpFlip;
     OpSetRef RefLast; OpToO; OpSetRef (RefIdx (-2)); OpSetRef RefMean; OpSetRef RefFirst; OpReset;
     OpRotate (rotation_matrix_ypr NumR 1 2 3)%R None; OpSetRef (RefIdx 5)]).
  { apply Forall_cons; [exact I|]. apply Forall_cons; [apply rot_z_proper; field|].
    apply Forall_cons; [exact I|]. apply Forall_cons; [cbn [op_ok]; lia|].
    apply Forall_cons; [exact I|]. apply Forall_cons; [cbn [op_ok]; lia|].
    apply Forall_cons; [cbn [op_ok]; lia|]. apply Forall_cons; [cbn [op_ok]; lia|].
    apply Forall_cons; [exact I|]. apply Forall_cons; [apply rotation_matrix_ypr_proper|].
    apply Forall_cons; [cbn [op_ok]; lia|]. apply Forall_nil. }
  split; [exact Ha|]. split; [exact Hops|].
  apply (history_total 3 2 1%R (-2)%R (OriOne (0, 0, 1)%R) _ ltac:(lia) ltac:(lia) Ha Hops).
Qed.

(* det M = 1 is needed: a reflection is accepted by the code (its columns are orthonormal,
   so the axes stay unit vectors) but flips the probe-frame coordinate along k_hat. *)
Example reflection_detaches_pcs :
  let M : mat := ((1, 0, 0), (0, 1, 0), (0, 0, -1))%R in
  let p : probeR := mkProbe [(0, 0, 1)%R] None (gcs NumR) in
  exists p', p_rotate NumR M None p = Some p' /\
    locations_pcs NumR p = [(0, 0, 1)%R] /\ locations_pcs NumR p' = [(0, 0, -1)%R].
Proof.
  cbn zeta. unfold p_rotate. cbn [p_pcs p_locs p_oris].
  rewrite cs_rotate_R; [|v3_unfold; v3_split; ring|exact gcs_frame_ok].
  eexists. split; [reflexivity|]. unfold locations_pcs. cbn [p_locs p_pcs map].
  rewrite !cs_from_gcs_R. unfold gcs, cs_axes, cs_k. cbn [cs_o cs_i cs_j rotate_pt option_map].
  v3_unfold. split; f_equal; v3_split; ring.
Qed.

(* the model computes (exact rationals, vm_compute): a 2-element probe of pitch 3/2 is
   translated, turned by 90 degrees about a centre, re-referenced to its last element,
   brought to O, turned about Ox, re-referenced to element -2 (= 0) and reset: it ends
   with element 0 at O, element 1 at +pitch on Ox, normals along Oz, PCS = GCS *)
Example model_runs_on_rationals :
  let ops : list (op (T:=Q)) :=
    [OpTranslate (1, 2, 3); OpRotate ((0, -(1), 0), (1, 0, 0), (0, 0, 1)) (Some (1, 1, 1));
     OpSetRef RefLast; OpToO; OpRotate ((1, 0, 0), (0, 0, -(1)), (0, 1, 0)) None;
     OpSetRef (RefIdx (-2)); OpReset]%Q in
  match make_matrix_probe NumQ 2 (3 # 2)%Q 1 7%Q (OriOne (0, 0, 1)%Q) with
  | Some p => run_ops NumQ ops p
  | None => None
  end = Some (mkProbe [(0, 0, 0); (3 # 2, 0, 0)]%Q (Some [(0, 0, 1); (0, 0, 1)]%Q)
                      (mkCS (0, 0, 0) (1, 0, 0) (0, 1, 0))%Q).
Proof. vm_compute. reflexivity. Qed.

(* the error branches are live: a scaled matrix, an out-of-range element, a size 0 *)
Example model_error_branches :
  (match make_matrix_probe NumQ 2 (3 # 2)%Q 1 7%Q OriNone with
   | Some p => run_ops NumQ [OpRotate ((2, 0, 0), (0, 2, 0), (0, 0, 2))%Q None] p
   | None => None end = None) /\
  (match make_matrix_probe NumQ 2 (3 # 2)%Q 1 7%Q OriNone with
   | Some p => run_ops NumQ [OpSetRef (RefIdx 2)] p
   | None => None end = None) /\
  make_matrix_probe NumQ 0 (3 # 2)%Q 1 7%Q OriNone = None /\
  make_matrix_probe NumQ 2 (3 # 2)%Q 1 7%Q (OriEach [(0, 0, 1)%Q]) = None.
Proof. vm_compute. repeat split; reflexivity. Qed.
