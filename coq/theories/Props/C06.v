(* Props/C06.v — 2D beamspread equals the geometric ray-tube divergence.
   Statements only; proofs are in Proofs/BeamspreadProofs.v.  All statements are
   about the real-number instance NumR of the model (exact arithmetic). *)
From Coq Require Import List Reals.
From Arim Require Import Base.Num Base.NumR Model.Beamspread Proofs.BeamspreadProofs Proofs.BeamspreadTube.
Import ListNotations.
Local Open Scope R_scope.

(* For any number of legs: the value computed by the code (model of
   beamspread_2d_for_path) is the amplitude of the infinitesimal ray tube
   launched at the source: 1/sqrt(r_1), then across every interface the
   wavefront curvature radius is multiplied by gamma_k and the amplitude follows
   the square root of the tube cross-section along the next leg.  Hypotheses:
   positive leg lengths and positive gammas, i.e. cos(theta_k) <> 0 and
   nu^2 > sin^2(theta_k) (away from grazing and total reflection). *)
Theorem beamspread_is_tube : forall vel r1 rest thetas,
  0 < r1 -> all_pos rest -> all_pos (gamma_list NumR vel thetas) ->
  (length rest <= length (gamma_list NumR vel thetas))%nat ->
  beamspread NumR vel (r1 :: rest) thetas = snd (tube NumR (r1 :: rest) (gamma_list NumR vel thetas)).
Proof. exact beamspread_is_tube_R. Qed.

(* ... and with the outgoing angle at every interface given by Snell's law
   (sin th_out = (c_out/c_in) sin th_in) the tube factors ARE the code's gammas *)
Theorem beamspread_is_snell_tube : forall vel r1 rest thetas,
  all_pos vel -> Forall (fun th => cos th <> 0) thetas ->
  0 < r1 -> all_pos rest -> all_pos (gamma_list NumR vel thetas) ->
  (length rest <= length (gamma_list NumR vel thetas))%nat ->
  beamspread NumR vel (r1 :: rest) thetas = tube_amplitude NumR vel (r1 :: rest) thetas.
Proof. exact beamspread_is_snell_tube_R. Qed.

(* 1/sqrt(d) with d > 0 the virtual-source distance *)
Theorem beamspread_is_inv_sqrt_virtual_distance : forall r1 rest gl,
  0 < r1 -> all_pos rest -> all_pos gl -> (length rest <= length gl)%nat ->
  snd (tube NumR (r1 :: rest) gl) = 1 / sqrt (virtual_distance NumR (r1 :: rest) gl)
  /\ 0 < virtual_distance NumR (r1 :: rest) gl.
Proof. exact tube_eq_code. Qed.

(* the code's gamma is the ray-tube factor beta = c_in cos^2(th_out) / (c_out cos^2(th_in))
   whenever the outgoing angle obeys Snell's law *)
Theorem gamma_is_beta : forall c_in c_out theta cos_out,
  0 < c_in -> 0 < c_out -> cos theta <> 0 ->
  cos_out * cos_out = 1 - (c_out / c_in * sin theta) * (c_out / c_in * sin theta) ->
  gamma_of NumR c_in c_out theta = beta_of NumR c_in c_out (cos theta) cos_out.
Proof. exact gamma_is_beta_R. Qed.

(* beta IS the divergence law of an infinitesimal ray tube at a flat interface: the refracted
   angle theta' = asin((c_out/c_in) sin theta) has derivative (c_out/c_in) cos theta / cos theta'
   (Snell's law differentiated), and matching the footprint of the fan of rays on the interface
   on both sides gives the new radius of curvature rho' = rho * beta *)
Theorem curvature_transfer : forall c_in c_out theta rho,
  0 < c_in -> 0 < c_out -> -1 < c_out / c_in * sin theta < 1 -> cos theta <> 0 ->
  let theta' := asin (c_out / c_in * sin theta) in
  derivable_pt_lim (fun t => asin (c_out / c_in * sin t)) theta (c_out / c_in * cos theta / cos theta') /\
  tube_transfer rho (cos theta) (cos theta') (c_out / c_in * cos theta / cos theta')
  = rho * beta_of NumR c_in c_out (cos theta) (cos theta').
Proof. exact curvature_transfer_std. Qed.

(* d = r in a single medium *)
Theorem beamspread_single_medium : forall v r, beamspread NumR [v] [r] [] = 1 / sqrt r.
Proof. exact beamspread_single_R. Qed.

(* scaling the whole geometry by s scales the beamspread by 1/sqrt(s) *)
Theorem beamspread_scaling : forall s vel legs thetas,
  0 < s -> (length legs <= S (length (gamma_list NumR vel thetas)))%nat ->
  0 < virtual_distance NumR legs (gamma_list NumR vel thetas) ->
  beamspread NumR vel (map (Rmult s) legs) thetas = / sqrt s * beamspread NumR vel legs thetas.
Proof. exact beamspread_scale. Qed.

(* the prefix product the code recomputes for each k is the running product, for
   every numeric instance (no algebraic law needed: true of floats as well) *)
Theorem gamma_prefix_running : forall (T : Type) (N : Num T) gl k, (k < length gl)%nat ->
  gamma_prefix N gl (S k) = nmul N (gamma_prefix N gl k) (nth k gl (n0 N)).
Proof. exact @gamma_prefix_S. Qed.

(* non-vacuity: two legs, velocities 1 and 2, normal incidence: gamma = 1/2 > 0 *)
Example tube_two_legs :
  let vel := [1; 2] in let thetas := [0] in
  all_pos (gamma_list NumR vel thetas) /\ gamma_list NumR vel thetas = [/ 2].
Proof.
  cbn [gamma_list gamma_of NumR nsin ncos nmul nsub ndiv]. rewrite sin_0, cos_0.
  assert (E : (1 / 2 * (1 / 2) - 0 * 0) / (1 / 2 * 1 * 1) = / 2) by (field).
  rewrite E. split; [|reflexivity]. constructor; [|constructor]. apply Rinv_0_lt_compat. apply Rlt_0_2.
Qed.
