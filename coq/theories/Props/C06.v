(* Props/C06.v — 2D beamspread equals the geometric ray-tube divergence.
   Statements only; proofs are in Proofs/BeamspreadProofs.v.  All statements are
   about the real-number instance NumR of the model (exact arithmetic). *)
From Coq Require Import List Reals.
From Arim Require Import Base.Num Base.NumR Model.Beamspread Proofs.BeamspreadProofs Proofs.BeamspreadTube.
Import ListNotations.
Local Open Scope R_scope.

(* For any number of legs: the value computed by the code (model of
   beamspread_2d_for_path) is the amplitude of the infinitesimal ray tube
   launched at the source: 1/sqrt(r_1), then across every interface the
   wavefront curvature radius is multiplied by gamma_k and the amplitude follows
   the square root of the tube cross-section along the next leg.  Hypotheses:
   positive leg lengths and positive gammas, i.e. cos(theta_k) <> 0 and
   nu^2 > sin^2(theta_k) (away from grazing and total reflection). *)
Theorem beamspread_is_tube : forall vel r1 rest thetas,
  0 < r1 -> all_pos rest -> all_pos (gamma_list NumR vel thetas) ->
  (length rest <= length (gamma_list NumR vel thetas))%nat ->
  beamspread NumR vel (r1 :: rest) thetas = snd (tube NumR (r1 :: rest) (gamma_list NumR vel thetas)).
Proof. exact beamspread_is_tube_R. Qed.

(* ... and with the outgoing angle at every interface given by Snell's law
   (sin th_out = (c_out/c_in) sin th_in) the tube factors ARE the code's gammas *)
Theorem beamspread_is_snell_tube : forall vel r1 rest thetas,
  all_pos vel -> Forall (fun th => cos th <> 0) thetas ->
  0 < r1 -> all_pos rest -> all_pos (gamma_list NumR vel thetas) ->
  (length rest <= length (gamma_list NumR vel thetas))%nat ->
  beamspread NumR vel (r1 :: rest) thetas = tube_amplitude NumR vel (r1 :: rest) thetas.
Proof. exact beamspread_is_snell_tube_R. Qed.

(* 1/sqrt(d) with d > 0 the virtual-source distance *)
Theorem beamspread_is_inv_sqrt_virtual_distance : forall r1 rest gl,
  0 < r1 -> all_pos rest -> all_pos gl -> (length rest <= length gl)%nat ->
  snd (tube NumR (r1 :: rest) gl) = 1 / sqrt (virtual_distance NumR (r1 :: rest) gl)
  /\ 0 < virtual_distance NumR (r1 :: rest) gl.
Proof. exact tube_eq_code. Qed.

(* the code's gamma is the ray-tube factor beta = c_in cos^2(th_out) / (c_out cos^2(th_in))
   whenever the outgoing angle obeys Snell's law *)
Theorem gamma_is_beta : forall c_in c_out theta cos_out,
  0 < c_in -> 0 < c_out -> cos theta <> 0 ->
  cos_out * cos_out = 1 - (c_out / c_in * sin theta) * (c_out / c_in * sin theta) ->
  gamma_of NumR c_in c_out theta = beta_of NumR c_in c_out (cos theta) cos_out.
Proof. exact gamma_is_beta_R. Qed.

(* beta IS the divergence law of an infinitesimal ray tube at a flat interface: the refracted
   angle theta' = asin((c_out/c_in) sin theta) has derivative (c_out/c_in) cos theta / cos theta'
   (Snell's law differentiated), and matching the footprint of the fan of rays on the interface
   on both sides gives the new radius of curvature rho' = rho * beta *)
Theorem curvature_transfer : forall c_in c_out theta rho,
  0 < c_in -> 0 < c_out -> -1 < c_out / c_in * sin theta < 1 -> cos theta <> 0 ->
  let theta' := asin (c_out / c_in * sin theta) in
  derivable_pt_lim (fun t => asin (c_out / c_in * sin t)) theta (c_out / c_in * cos theta / cos theta') /\
  tube_transfer rho (cos theta) (cos theta') (c_out / c_in * cos theta / cos theta')
  = rho * beta_of NumR c_in c_out (cos theta) (cos theta').
Proof. exact curvature_transfer_std. Qed.

(* d = r in a single medium *)
Theorem beamspread_single_medium : forall v r, beamspread NumR [v] [r] [] = 1 / sqrt r.
Proof. exact beamspread_single_R. Qed.

(* scaling the whole geometry by s scales the beamspread by 1/sqrt(s) *)
Theorem beamspread_scaling : forall s vel legs thetas,
  0 < s -> (length legs <= S (length (gamma_list NumR vel thetas)))%nat ->
  0 < virtual_distance NumR legs (gamma_list NumR vel thetas) ->
  beamspread NumR vel (map (Rmult s) legs) thetas = / sqrt s * beamspread NumR vel legs thetas.
Proof. exact beamspread_scale. Qed.

(* the prefix product the code recomputes for each k is the running product, for
   every numeric instance (no algebraic law needed: true of floats as well) *)
Theorem gamma_prefix_running : forall (T : Type) (N : Num T) gl k, (k < length gl)%nat ->
  gamma_prefix N gl (S k) = nmul N (gamma_prefix N gl k) (nth k gl (n0 N)).
Proof. exact @gamma_prefix_S. Qed.

(* non-vacuity: two legs, velocities 1 and 2, normal incidence: gamma = 1/2 > 0 *)
Example tube_two_legs :
  let vel := [1; 2] in let thetas := [0] in
  all_pos (gamma_list NumR vel thetas) /\ gamma_list NumR vel thetas = [/ 2].
Proof.
  cbn [gamma_list gamma_of NumR nsin ncos nmul nsub ndiv]. rewrite sin_0, cos_0.
  assert (E : (1 / 2 * (1 / 2) - 0 * 0) / (1 / 2 * 1 * 1) = / 2) by (field).
  rewrite E. split; [|reflexivity]. constructor; [|constructor]. apply Rinv_0_lt_compat. apply Rlt_0_2.
Qed.

(* ==================================================================================================
   Extension: the PUBLIC functions beamspread_2d_for_path(ray_geometry) and
   reverse_beamspread_2d_for_path(ray_geometry) as written (Model/BeamspreadPath.v): which
   RayGeometry methods are called with which interface index, which velocities are indexed, the
   first error in evaluation order; and the ray-tube theorems with every hypothesis read on the
   INPUTS.  Proofs: Proofs/BeamspreadPathProofs.v (any numeric instance, axiom-free),
   Proofs/BeamspreadPathRealProofs.v (reals), Proofs/BeamspreadPathExamples.v (set-ups).
   Vocabulary: a RayGeometry object is (ifs, ray) as in C05 (Model/RayGeom.v); `vel` is
   fermat_path.velocities; outcomes Val / NoLeg (None used as an array: AttributeError, TypeError) /
   IndexErr / ValueErr; `path_legs` = [inc_leg_size(1..n)], `path_thetas` =
   [conventional_inc_angle(1..n-1)] with n = numinterfaces - 1.
   ================================================================================================== *)
From Coq Require Import ZArith Lia Lra.
From Arim Require Import Model.Vec3 Model.RayGeom Model.BeamspreadPath
                         Proofs.BeamspreadPathProofs Proofs.BeamspreadPathRealProofs Proofs.BeamspreadPathExamples.

(* ---- glue, for EVERY numeric instance (floats included) ---------------------------------------- *)
(* the forward function on a RayGeometry with n >= 1 legs IS the list model fed with
   inc_leg_size(1..n) and conventional_inc_angle(1..n-1) in this order, the velocities being
   indexed [k-1], [k] at interface k *)
Theorem beamspread_path_is_list_model : forall (T : Type) (N : Num T) (ifs : list (iface (T:=T))) ray vel n' legs thetas,
  length ifs = S n' -> path_legs N ifs ray = Val legs -> path_thetas N ifs ray = Val thetas ->
  (1 <= n')%nat -> (n' <= length vel)%nat ->
  beamspread_2d_for_path N ifs ray vel = Val (beamspread N vel legs thetas).
Proof.
  intros T N ifs ray vel n' legs thetas H1 H2 H3 H4 H5.
  exact (beamspread_path_factors N ifs ray vel n' H1 legs thetas H2 H3 H4 H5).
Qed.

(* the reverse function reads inc_leg_size(n), inc_leg_size(n-k), conventional_inc_angle(n-k),
   velocities[n-k] / velocities[n-k-1]: the list model's accumulation on the REVERSED lists *)
Theorem reverse_beamspread_path_is_list_model : forall (T : Type) (N : Num T) (ifs : list (iface (T:=T))) ray vel n' legs thetas,
  length ifs = S n' -> path_legs N ifs ray = Val legs -> path_thetas N ifs ray = Val thetas ->
  (1 <= n')%nat -> length vel = n' ->
  reverse_beamspread_2d_for_path N ifs ray vel = Val (reverse_beamspread N vel legs thetas)
  /\ reverse_beamspread N vel legs thetas
     = ndiv N (n1 N) (nsqrt N (virtual_distance N (rev legs) (rev_gamma_list N (rev vel) (rev thetas)))).
Proof.
  intros T N ifs ray vel n' legs thetas H1 H2 H3 H4 H5.
  exact (conj (reverse_beamspread_path_factors N ifs ray vel n' H1 legs thetas H2 H3 H4 H5) eq_refl).
Qed.

(* exactly when a value is returned (one velocity per leg, as RayGeometry.__init__ asserts):
   at least two interfaces, every leg size and every interior conventional angle is a value *)
Theorem beamspread_path_defined_iff : forall (T : Type) (N : Num T) (ifs : list (iface (T:=T))) ray vel n' x,
  length ifs = S n' -> length vel = n' ->
  (beamspread_2d_for_path N ifs ray vel = Val x <->
   (1 <= n')%nat /\ exists legs thetas, path_legs N ifs ray = Val legs /\ path_thetas N ifs ray = Val thetas /\
                                        x = beamspread N vel legs thetas).
Proof. intros T N ifs ray vel n' x H1 H2. exact (fwd_defined_iff N ifs ray vel n' H1 x H2). Qed.

Theorem reverse_beamspread_path_defined_iff : forall (T : Type) (N : Num T) (ifs : list (iface (T:=T))) ray vel n' x,
  length ifs = S n' -> length vel = n' ->
  (reverse_beamspread_2d_for_path N ifs ray vel = Val x <->
   (1 <= n')%nat /\ exists legs thetas, path_legs N ifs ray = Val legs /\ path_thetas N ifs ray = Val thetas /\
                                        x = reverse_beamspread N vel legs thetas).
Proof. intros T N ifs ray vel n' x H1 H2. exact (rev_defined_iff N ifs ray vel n' H1 x H2). Qed.

(* the two functions answer a value on exactly the same objects *)
Theorem beamspread_defined_iff_reverse_defined : forall (T : Type) (N : Num T) (ifs : list (iface (T:=T))) ray vel n',
  length ifs = S n' -> length vel = n' ->
  ((exists x, beamspread_2d_for_path N ifs ray vel = Val x) <->
   (exists y, reverse_beamspread_2d_for_path N ifs ray vel = Val y)).
Proof. intros T N ifs ray vel n' H1 H2. exact (fwd_defined_iff_rev_defined N ifs ray vel n' H1 H2). Qed.

(* "Case n=0: undefined" of the source: both functions raise; with one interface the kinds
   differ (IndexError from inc_leg_size(1), AttributeError from inc_leg_size(0).copy()) *)
Theorem degenerate_paths_raise : forall (T : Type) (N : Num T) ray vel,
  (beamspread_2d_for_path N [] ray vel = IndexErr /\ reverse_beamspread_2d_for_path N [] ray vel = IndexErr) /\
  (forall f : iface (T:=T),
     beamspread_2d_for_path N [f] ray vel = IndexErr /\ reverse_beamspread_2d_for_path N [f] ray vel = NoLeg).
Proof.
  intros T N ray vel. split; [exact (no_interface N [] ray vel eq_refl)|].
  intros f. exact (one_interface N [f] ray vel f eq_refl).
Qed.

(* a path with one leg: no velocity and no angle is read (even an empty velocity tuple works) *)
Theorem single_leg_path_value : forall (T : Type) (N : Num T) (f0 f1 : iface (T:=T)) ray vel r,
  inc_leg_size N [f0; f1] ray 1 = Val r ->
  beamspread_2d_for_path N [f0; f1] ray vel = Val (ndiv N (n1 N) (nsqrt N r)) /\
  reverse_beamspread_2d_for_path N [f0; f1] ray vel = Val (ndiv N (n1 N) (nsqrt N r)).
Proof. exact @single_leg_path. Qed.

(* ... and the list model with one leg is 1/sqrt(r) whatever velocities and angles it is given
   (generalises beamspread_single_medium) *)
Theorem single_leg_list_value : forall (T : Type) (N : Num T) vel r thetas,
  beamspread N vel [r] thetas = ndiv N (n1 N) (nsqrt N r) /\
  reverse_beamspread N vel [r] thetas = ndiv N (n1 N) (nsqrt N r).
Proof. exact @single_leg_any_instance. Qed.

(* the answers (values AND error kinds) depend on the RayGeometry only through the number of
   interfaces, the leg sizes and the conventional incidence angles at interfaces 1 .. n-1 *)
Theorem beamspread_path_reads_only_sizes_and_angles :
  forall (T : Type) (N : Num T) (ifs ifs' : list (iface (T:=T))) ray ray' vel,
  length ifs = length ifs' ->
  (forall idx, inc_leg_size N ifs ray idx = inc_leg_size N ifs' ray' idx) ->
  (forall k, (1 <= k <= n_of_path ifs - 1)%Z ->
             conventional_inc_angle N ifs ray k = conventional_inc_angle N ifs' ray' k) ->
  beamspread_2d_for_path N ifs ray vel = beamspread_2d_for_path N ifs' ray' vel /\
  reverse_beamspread_2d_for_path N ifs ray vel = reverse_beamspread_2d_for_path N ifs' ray' vel.
Proof. exact @path_congruence. Qed.

(* the frames and the side flags of the FIRST and of the LAST interface, and the outgoing-side
   flag of every interface, are never read: two objects with the same points everywhere and the
   same frames / incoming-side flags at the interior interfaces get the same answers *)
Theorem first_and_last_interface_frames_unread :
  forall (T : Type) (N : Num T) (ifs ifs' : list (iface (T:=T))) ray vel,
  same_for_beamspread ifs ifs' ->
  beamspread_2d_for_path N ifs ray vel = beamspread_2d_for_path N ifs' ray vel /\
  reverse_beamspread_2d_for_path N ifs ray vel = reverse_beamspread_2d_for_path N ifs' ray vel.
Proof. intros T N ifs ifs' ray vel H. exact (first_last_unread N ifs ifs' ray H vel). Qed.

(* ---- over the reals: hypotheses on the inputs ---------------------------------------------------- *)
(* the code's gamma is positive exactly below the critical angle, negative beyond it *)
Theorem gamma_positive_iff_subcritical : forall vi vo th, 0 < vi -> 0 < vo -> cos th <> 0 ->
  (0 < gamma_of NumR vi vo th <-> -1 < vo / vi * sin th < 1) /\
  (1 < (vo / vi * sin th) * (vo / vi * sin th) -> gamma_of NumR vi vo th < 0).
Proof. intros vi vo th H1 H2 H3. exact (conj (gamma_pos_iff vi vo th H1 H2 H3) (gamma_neg_beyond vi vo th H1 H2 H3)). Qed.

Theorem gammas_positive_iff_subcritical_everywhere : forall vel thetas,
  all_pos vel -> Forall (fun th => cos th <> 0) thetas ->
  (all_pos (gamma_list NumR vel thetas) <-> subcritical vel thetas).
Proof.
  intros vel thetas Hv Hc. split.
  - exact (subcritical_of_gammas_pos vel thetas Hv Hc).
  - exact (gammas_pos_of_subcritical vel thetas Hv Hc).
Qed.

(* beamspread = amplitude of the Snell ray tube = 1/sqrt(d), d > 0: positive velocities and leg
   sizes, cosines non zero, Snell sine inside (-1, 1) at every interface — nothing about gammas *)
Theorem beamspread_is_snell_tube_from_inputs : forall vel r1 rest thetas,
  all_pos vel -> Forall (fun th => cos th <> 0) thetas -> subcritical vel thetas ->
  0 < r1 -> all_pos rest -> (length rest <= Nat.min (length vel - 1) (length thetas))%nat ->
  beamspread NumR vel (r1 :: rest) thetas = tube_amplitude NumR vel (r1 :: rest) thetas /\
  beamspread NumR vel (r1 :: rest) thetas = 1 / sqrt (virtual_distance NumR (r1 :: rest) (gamma_list NumR vel thetas)) /\
  0 < virtual_distance NumR (r1 :: rest) (gamma_list NumR vel thetas) /\
  0 < beamspread NumR vel (r1 :: rest) thetas.
Proof. exact beamspread_is_snell_tube_inputs. Qed.

(* the same with the refracted ANGLE computed by Snell's law inside the specification:
   beta_k = c_in cos^2(asin((c_out/c_in) sin th_k)) / (c_out cos^2 th_k) *)
Theorem beamspread_is_tube_with_snell_angles : forall vel r1 rest thetas,
  all_pos vel -> Forall (fun th => cos th <> 0) thetas -> subcritical vel thetas ->
  0 < r1 -> all_pos rest -> (length rest <= Nat.min (length vel - 1) (length thetas))%nat ->
  beamspread NumR vel (r1 :: rest) thetas = angle_tube_amplitude NumR vel (r1 :: rest) thetas.
Proof. exact beamspread_is_angle_tube. Qed.

(* Horner form of the virtual-source distance: d = r1 + (r2 + (r3 + ...)/g2)/g1 *)
Theorem virtual_distance_is_horner : forall r1 rest gl,
  Forall (fun g => g <> 0) gl -> (length rest <= length gl)%nat ->
  virtual_distance NumR (r1 :: rest) gl = vd_horner NumR r1 rest gl.
Proof. exact virtual_distance_horner. Qed.

(* divergence never focuses below the critical angles: d >= r1, 0 < beamspread <= 1/sqrt(r1) *)
Theorem beamspread_bounded_by_first_leg : forall vel r1 rest thetas,
  all_pos vel -> Forall (fun th => cos th <> 0) thetas -> subcritical vel thetas ->
  0 < r1 -> all_pos rest -> (length rest <= Nat.min (length vel - 1) (length thetas))%nat ->
  r1 <= virtual_distance NumR (r1 :: rest) (gamma_list NumR vel thetas) /\
  0 < beamspread NumR vel (r1 :: rest) thetas <= 1 / sqrt r1.
Proof. exact beamspread_bounds. Qed.

(* longer legs (same velocities and angles) never increase the beamspread *)
Theorem beamspread_antitone_in_leg_sizes : forall vel r1 r1' rest rest' thetas,
  all_pos vel -> Forall (fun th => cos th <> 0) thetas -> subcritical vel thetas ->
  0 < r1 -> all_pos rest -> (length rest <= Nat.min (length vel - 1) (length thetas))%nat ->
  r1 <= r1' -> Forall2 Rle rest rest' ->
  beamspread NumR vel (r1' :: rest') thetas <= beamspread NumR vel (r1 :: rest) thetas.
Proof. exact beamspread_antitone. Qed.

(* normal incidence on every interface, any number of legs: d = (sum_k r_k v_{k-1}) / v_0 ;
   the reverse function gives the same sum over the LAST velocity *)
Theorem beamspread_normal_incidence : forall r1 rest v0 vel thetas,
  Forall (fun v => v <> 0) (v0 :: vel) -> Forall (fun th => sin th = 0) thetas ->
  (length rest <= length vel)%nat -> (length rest <= length thetas)%nat ->
  beamspread NumR (v0 :: vel) (r1 :: rest) thetas = 1 / sqrt (dot_list NumR (r1 :: rest) (v0 :: vel) / v0).
Proof. exact beamspread_normal. Qed.

Theorem reverse_beamspread_normal_incidence : forall legs vel thetas vlast,
  legs <> [] -> Forall (fun v => v <> 0) vel -> Forall (fun th => sin th = 0) thetas ->
  length legs = length vel -> (length legs <= S (length thetas))%nat -> last vel 0 = vlast ->
  reverse_beamspread NumR vel legs thetas = 1 / sqrt (dot_list NumR legs vel / vlast).
Proof. exact reverse_beamspread_normal. Qed.

(* only velocity RATIOS enter: a change of velocity unit changes neither function *)
Theorem beamspread_velocity_unit_invariant : forall s vel legs thetas, s <> 0 -> Forall (fun v => v <> 0) vel ->
  beamspread NumR (map (Rmult s) vel) legs thetas = beamspread NumR vel legs thetas /\
  reverse_beamspread NumR (map (Rmult s) vel) legs thetas = reverse_beamspread NumR vel legs thetas.
Proof. exact beamspread_vel_scale. Qed.

(* no change of velocity along the path (skip paths without mode conversion), any angles:
   every gamma is 1 and d is the unfolded length of the ray *)
Theorem beamspread_without_velocity_change : forall v vel r1 rest thetas, v <> 0 ->
  Forall (fun x => x = v) vel -> Forall (fun th => cos th <> 0) thetas ->
  (length rest <= Nat.min (length vel - 1) (length thetas))%nat ->
  beamspread NumR vel (r1 :: rest) thetas = 1 / sqrt (sum_list NumR (r1 :: rest)).
Proof. exact beamspread_same_velocity. Qed.

(* the last line np.reciprocal(np.sqrt(d)) in floating point (recip_sqrt_outcome; classes Finite x /
   PlusInf / MinusInf / NaN.  The definition was repaired: it now tests d for nan first -- a nan
   virtual distance, reachable when a ray meets the same point of a wall twice, used to be read
   `Finite nan` -- and reads the sign of a zero argument, d = -0.0 giving -inf in numpy.  Neither test
   fires over the reals, so the three statements below are unchanged; see
   recip_sqrt_outcome_real_classes and the two instance-generic theorems after them):
   below the critical angles it is the finite positive value of the theorems ... *)
Theorem beamspread_float_outcome_regular : forall vel r1 rest thetas,
  all_pos vel -> Forall (fun th => cos th <> 0) thetas -> subcritical vel thetas ->
  0 < r1 -> all_pos rest -> (length rest <= Nat.min (length vel - 1) (length thetas))%nat ->
  beamspread_outcome NumR vel (r1 :: rest) thetas = Finite (beamspread NumR vel (r1 :: rest) thetas).
Proof. exact outcome_regular. Qed.

(* ... beyond the critical angle (two legs) gamma < 0 and the result is nan only if the second leg
   is longer than r1 |gamma|; for a shorter second leg the code returns a finite positive number
   without any warning (outside the property's domain; recorded in the TIE note) *)
Theorem beamspread_beyond_critical_two_legs : forall v0 v1 th r1 r2,
  0 < v0 -> 0 < v1 -> cos th <> 0 -> 1 < (v1 / v0 * sin th) * (v1 / v0 * sin th) -> 0 < r1 -> 0 < r2 ->
  let g := gamma_of NumR v0 v1 th in
  g < 0 /\
  (r1 * (- g) < r2 -> beamspread_outcome NumR [v0; v1] [r1; r2] [th] = NaN) /\
  (r1 * (- g) = r2 -> beamspread_outcome NumR [v0; v1] [r1; r2] [th] = PlusInf) /\
  (r2 < r1 * (- g) -> beamspread_outcome NumR [v0; v1] [r1; r2] [th] = Finite (1 / sqrt (r1 + r2 / g)) /\ 0 < r1 + r2 / g).
Proof. exact two_leg_beyond_critical_outcome. Qed.

(* over the reals the reading of the last line is the three-class one (d < 0 nan, d = 0 inf,
   d > 0 the value); the binary64-only answers do not occur: never MinusInf, NaN only for d < 0 *)
Theorem recip_sqrt_outcome_real_classes : forall d,
  ((d < 0 -> recip_sqrt_outcome NumR d = NaN) /\
   (d = 0 -> recip_sqrt_outcome NumR d = PlusInf) /\
   (0 < d -> recip_sqrt_outcome NumR d = Finite (1 / sqrt d))) /\
  recip_sqrt_outcome NumR d <> MinusInf /\ (recip_sqrt_outcome NumR d = NaN <-> d < 0).
Proof. intros d; exact (conj (recip_sqrt_outcome_R d) (recip_sqrt_outcome_R_classes d)). Qed.

(* for EVERY numeric instance (binary64 included), axiom-free: a virtual distance that is not equal to
   itself (nan) is answered NaN -- never `Finite nan` ... *)
Theorem beamspread_outcome_of_nan_virtual_distance : forall (T : Type) (N : Num T) vel legs thetas,
  (let d := virtual_distance N legs (gamma_list N vel thetas) in neqb N d d = false) ->
  beamspread_outcome N vel legs thetas = NaN.
Proof. intros T N vel legs thetas; exact (beamspread_outcome_nan N vel legs thetas). Qed.

(* ... and the reading is total, each class being taken under exactly one combination of the tests
   d == d, d < 0, d == 0, 1 / d < 0 (the last one separates -0.0 from +0.0); in particular Finite x
   is only answered for an argument equal to itself, not negative and not zero *)
Theorem recip_sqrt_outcome_classes : forall (T : Type) (N : Num T) d,
  (recip_sqrt_outcome N d = NaN <-> (neqb N d d = false \/ nltb N d (n0 N) = true)) /\
  (recip_sqrt_outcome N d = PlusInf <->
     (neqb N d d = true /\ nltb N d (n0 N) = false /\ neqb N d (n0 N) = true /\ nltb N (ndiv N (n1 N) d) (n0 N) = false)) /\
  (recip_sqrt_outcome N d = MinusInf <->
     (neqb N d d = true /\ nltb N d (n0 N) = false /\ neqb N d (n0 N) = true /\ nltb N (ndiv N (n1 N) d) (n0 N) = true)) /\
  (forall x, recip_sqrt_outcome N d = Finite x <->
     (neqb N d d = true /\ nltb N d (n0 N) = false /\ neqb N d (n0 N) = false /\ x = ndiv N (n1 N) (nsqrt N d))).
Proof. intros T N d; exact (recip_sqrt_outcome_cases N d). Qed.

(* the reverse function equals the forward function on the reversed ray whose incidence angles are
   COMPUTED by Snell's law from the forward ones (C07's rev_beamspread_eq with its hypothesis
   discharged for every sub-critical ray) ... *)
Theorem reverse_is_forward_on_snell_reversed_ray : forall vel legs thetas,
  all_pos vel -> subcritical vel thetas -> length thetas = (length vel - 1)%nat ->
  reverse_beamspread NumR vel legs thetas
  = beamspread NumR (rev vel) (rev legs) (reversed_inc_angles NumR (rev vel) (rev thetas)).
Proof. exact reverse_is_forward_of_reversed_snell. Qed.

(* ... hence it is the ray-tube amplitude of the reversed ray *)
Theorem reverse_beamspread_is_snell_tube_of_reversed_ray : forall vel legs thetas,
  all_pos vel -> all_pos legs -> legs <> [] -> Forall (fun th => cos th <> 0) thetas -> subcritical vel thetas ->
  length thetas = (length vel - 1)%nat -> length legs = length vel ->
  reverse_beamspread NumR vel legs thetas
  = tube_amplitude NumR (rev vel) (rev legs) (reversed_inc_angles NumR (rev vel) (rev thetas)) /\
  0 < reverse_beamspread NumR vel legs thetas.
Proof. exact reverse_beamspread_is_tube_of_reversed_ray. Qed.

(* ---- over the reals: the public functions -------------------------------------------------------- *)
(* rigid motion of the whole set-up (every point p -> Q.p + t with Q orthogonal, every frame
   B -> B.Q^T): both answers (values and error kinds) are unchanged *)
Theorem beamspread_path_rigid_motion_invariant : forall Q t (ifs : list (iface (T:=R))) ray vel,
  cols_orthonormal NumR Q ->
  beamspread_2d_for_path NumR (map (move_iface NumR Q t) ifs) ray vel = beamspread_2d_for_path NumR ifs ray vel /\
  reverse_beamspread_2d_for_path NumR (map (move_iface NumR Q t) ifs) ray vel
  = reverse_beamspread_2d_for_path NumR ifs ray vel.
Proof. intros Q t ifs ray vel HQ. exact (rigid_motion_invariance Q t HQ ifs ray vel). Qed.

(* change of length unit on the POINTS (p -> s.p, s > 0): a value is returned exactly when one
   was, and it is the old one divided by sqrt(s) — no hypothesis on angles or signs *)
Theorem beamspread_path_length_unit_scaling : forall s (ifs : list (iface (T:=R))) ray vel n' y,
  0 < s -> length ifs = S n' -> length vel = n' ->
  (beamspread_2d_for_path NumR (map (scale_iface NumR s) ifs) ray vel = Val y <->
   exists x, beamspread_2d_for_path NumR ifs ray vel = Val x /\ y = / sqrt s * x) /\
  (reverse_beamspread_2d_for_path NumR (map (scale_iface NumR s) ifs) ray vel = Val y <->
   exists x, reverse_beamspread_2d_for_path NumR ifs ray vel = Val x /\ y = / sqrt s * x).
Proof. intros s ifs ray vel n' y Hs H1 H2. exact (length_unit_scaling s Hs ifs ray vel n' H1 H2 y). Qed.

(* end to end: on a RayGeometry whose leg sizes are positive and whose interior incidence angles
   are below grazing and below the critical angles, the public function returns the amplitude of
   the Snell ray tube (both forms), the reverse function that of the reversed ray *)
Theorem beamspread_path_is_ray_tube : forall (ifs : list (iface (T:=R))) ray vel n' legs thetas,
  length ifs = S n' -> length vel = n' -> (1 <= n')%nat ->
  path_legs NumR ifs ray = Val legs -> path_thetas NumR ifs ray = Val thetas ->
  all_pos vel -> all_pos legs -> Forall (fun th => cos th <> 0) thetas -> subcritical vel thetas ->
  beamspread_2d_for_path NumR ifs ray vel = Val (tube_amplitude NumR vel legs thetas) /\
  beamspread_2d_for_path NumR ifs ray vel = Val (angle_tube_amplitude NumR vel legs thetas) /\
  reverse_beamspread_2d_for_path NumR ifs ray vel
  = Val (tube_amplitude NumR (rev vel) (rev legs) (reversed_inc_angles NumR (rev vel) (rev thetas))) /\
  0 < tube_amplitude NumR vel legs thetas.
Proof. exact path_beamspread_is_tube. Qed.

(* ---- non-vacuity ------------------------------------------------------------------------------------ *)
(* list level, oblique: velocities 1 -> 3/2, incidence 30 degrees (Snell sine 3/4), legs 1 and 2:
   the hypotheses of beamspread_is_snell_tube_from_inputs, beamspread_is_tube_with_snell_angles,
   beamspread_bounded_by_first_leg, beamspread_antitone_in_leg_sizes,
   beamspread_float_outcome_regular, gammas_positive_iff_subcritical_everywhere,
   reverse_is_forward_on_snell_reversed_ray, reverse_beamspread_is_snell_tube_of_reversed_ray *)
Example oblique_ray_meets_hypotheses :
  velA = [1; 3 / 2] /\ thetasA = [PI / 6] /\
  all_pos velA /\ Forall (fun th => cos th <> 0) thetasA /\ subcritical velA thetasA /\
  0 < 1 /\ all_pos [2] /\ (length [2] <= Nat.min (length velA - 1) (length thetasA))%nat /\
  all_pos [1; 2] /\ [1; 2] <> [] /\ length thetasA = (length velA - 1)%nat /\ length [1; 2] = length velA /\
  1 <= 1 /\ Forall2 Rle [2] [3].
Proof.
  destruct exampleA_regular as (H1 & H2 & H3). destruct exampleA_legs as (H4 & H5 & H6).
  split; [reflexivity|]. split; [reflexivity|]. split; [exact H1|]. split; [exact H2|]. split; [exact H3|].
  split; [exact H4|]. split; [exact H5|]. split; [exact H6|]. split; [repeat constructor; lra|].
  split; [discriminate|]. split; [reflexivity|]. split; [reflexivity|]. split; [lra|]. repeat constructor; lra.
Qed.

(* beyond the critical angle: 1 -> 3, incidence 30 degrees (Snell sine 3/2), legs 1 and 1 *)
Example beyond_critical_meets_hypotheses :
  0 < 1 /\ 0 < 3 /\ cos (PI / 6) <> 0 /\ 1 < (3 / 1 * sin (PI / 6)) * (3 / 1 * sin (PI / 6)).
Proof. repeat split; try lra; [exact cos_PI6_neq_0 | exact exampleC_beyond]. Qed.

(* normal incidence, velocity unit, no velocity change: velocities [1; 2] resp. [2; 2], angle 0 *)
Example normal_incidence_meets_hypotheses :
  Forall (fun v => v <> 0) [1; 2] /\ Forall (fun th => sin th = 0) [0] /\ Forall (fun x => x = 2) [2; 2] /\
  Forall (fun th => cos th <> 0) [0] /\ last [1; 2] 0 = 2 /\ [1; 1] <> [].
Proof.
  repeat split; try discriminate.
  - repeat constructor; lra.
  - constructor; [exact sin_0 | constructor].
  - repeat constructor.
  - constructor; [rewrite cos_0; lra | constructor].
Qed.

(* path level: three interfaces on the z axis (z = 0, 1, 3), identity frames, the wall's normal
   on the far side of the incoming leg, velocities 1 and 2: the reads are values, the hypotheses of
   beamspread_path_is_ray_tube / beamspread_path_is_list_model / *_defined_iff /
   beamspread_path_length_unit_scaling hold, and the function returns 1/sqrt(5) *)
Example path_example_meets_hypotheses :
  length ifsR = 3%nat /\ length velR = 2%nat /\ (1 <= 2)%nat /\
  path_legs NumR ifsR rayR = Val [1; 2] /\ path_thetas NumR ifsR rayR = Val [0] /\
  all_pos velR /\ all_pos [1; 2] /\ Forall (fun th => cos th <> 0) [0] /\ subcritical velR [0] /\
  beamspread_2d_for_path NumR ifsR rayR velR = Val (1 / sqrt 5).
Proof.
  destruct exampleR_reads as (H1 & H2 & H3 & H4). destruct exampleR_regular as (H5 & H6 & H7 & H8).
  split; [exact H1|]. split; [exact H2|]. split; [lia|]. split; [exact H3|]. split; [exact H4|].
  split; [exact H5|]. split; [exact H6|]. split; [exact H7|]. split; [exact H8|]. exact exampleR_value.
Qed.

(* a proper rotation (cos, sin = 3/5, 4/5 about z) meets the hypothesis of
   beamspread_path_rigid_motion_invariant; same_for_beamspread is reflexive and relates set-ups
   that differ at the first and last interface (run_E6 of Proofs/BeamspreadPathExamples.v) *)
Example rotation_meets_hypothesis : cols_orthonormal NumR QR.
Proof. exact QR_orthonormal. Qed.

Example same_for_beamspread_example :
  same_for_beamspread ifsR [mkIface [(0, 0, 0)] [QR] (Some true) (Some true); mkR (0, 0, 1) (Some false);
                            mkIface [(0, 0, 3)] [QR] (Some false) (Some false)].
Proof.
  split; [reflexivity|]. intros a f f' Hf Hf'. unfold ifsR in Hf |- *. cbn [length].
  destruct a as [|[|[|a]]]; cbn [nth_error] in Hf, Hf'.
  - injection Hf as <-. injection Hf' as <-. split; [reflexivity|]. intros Ha. lia.
  - injection Hf as <-. injection Hf' as <-. split; [reflexivity|]. intros _. split; reflexivity.
  - injection Hf as <-. injection Hf' as <-. split; [reflexivity|]. intros Ha. lia.
  - destruct a; discriminate.
Qed.

(* binary64 executions of the last line for every class of argument, and the ray that meets the same
   point of a wall twice (nan virtual distance, outcome NaN): run_E7 and run_E10 of
   Proofs/BeamspreadPathExamples.v; the hypothesis of beamspread_outcome_of_nan_virtual_distance is
   met by that ray *)
Example nan_virtual_distance_meets_hypothesis :
  neqb NumFn vd_E10 vd_E10 = false /\ recip_sqrt_outcome NumF.NumF (PrimFloat.opp PrimFloat.zero) = MinusInf.
Proof. exact vd_E10_is_nan. Qed.
